#!/usr/bin/env python3
"""Regenerates MANIFEST.json from the table below (keeps it valid at all times)."""
import json, os
HERE = os.path.dirname(os.path.abspath(__file__))
PROPS = [json.loads(l)["id"] for l in open(os.path.join(HERE, "properties.jsonl"))]

CLAIMED = {
 "C13": dict(
    technique="contract-based deductive verification: PyVC (self-built VC generator over the ast of the live data_msg.py / data_if.py) + z3, sidecar contracts `raises ValueError <=> not spec.valid_msg`",
    text="Unbounded proof over all field values (symbolic int-or-None fields, symbolic burst length, every Modulation member / None / non-Modulation, symbolic version): every path of validate/gen_msg/send_msg is checked against the range oracle written from the statement; callers use callee contracts.",
    note="Trusted: PyVC's operator/builtin models (listed in evidence), z3; fields are int|None; socket.sendto is a ghost log append.",
    design="9/C13"),
 "C01": dict(
    technique="contract-based deductive verification: PyVC VC generation from the live data_msg.py; gen_msg/parse_msg proved equal to one layout spec (spec/trxd_layout.py), round-trip lemma over the two contracts, plus direct composition parse_msg(gen_msg(m)) on the real bodies; z3",
    text="Unbounded proof: all field values, symbolic burst length and contents (array theory, skolemised element equality), every modulation, NOPE yes/no, versions 0/1, legacy on/off; the four translation tables checked for all 256 entries.",
    note="Trusted: PyVC models of struct.pack/unpack, bytearray/array/memoryview/translate, slicing (listed in evidence); soft bits in [-127,127] as the statement quantifies; validate used through its C13 contract.",
    design="9/C01"),
 "C10": dict(
    technique="contract-based deductive verification: PyVC VCs from the live fake_trx.py/data_msg.py/gsm_shared.py/rand_burst_gen.py; functional post-conditions of trans, toa256/rssi/ci, TrainingSeqGMSK.pick, _handle_data_msg_v1, handle_data_msg, gen_nb/sb/ab; callers use callee contracts; z3",
    text="Unbounded proof over all burst contents (symbolic 148/444-element sequences), all sender/recipient settings (symbolic ints), both header versions; pick's 25 outcomes and every generator/training-sequence pair enumerated completely.",
    note="Trusted: PyVC builtin models; random.randint returns a value in [a,b]; thresholds >= 0 (negative ones are C14's concern); training-sequence bit patterns taken as data.",
    design="9/C10"),
 "C18": dict(
    technique="contract-based deductive verification: PyVC VCs from the live fake_trx.py/ctrl_if_trx.py; contracts of sim_burst_drop, handle_data_msg (suppressed case), FAKE_DROP/RFMUTE branches; inductive counter lemma over the contract; z3",
    text="Unbounded proof: symbolic n, period, frame numbers, versions, mute flags; the history quantifier is discharged by the class invariant + the inductive counter lemma.",
    note="Trusted: PyVC builtin models; token model of TRXC arguments (decimal literal <-> integer); send_msg used through its C13 contract; sender-side mute clause proved in C02.",
    design="9/C18"),
 "C02": dict(
    technique="contract-based deductive verification: PyVC VCs from the live burst_fwd.py/transceiver.py/fake_trx.py; loop invariant over a peer list of symbolic length with symbolic-identity objects (Burstall heap), per-peer ghost call counter for an arbitrary transceiver q; callee contracts for get_*_freq, trans, handle_data_msg; the hopping generator's contract (HoppingParams.__init__/resolve, RNTABLE, fn2gsm_time - shared with C07) is discharged in this check too; z3",
    text="Unbounded proof: any number of pairwise-distinct peers (so 2..6 is covered), any power/tuning/hopping/mute state (frequencies are uninterpreted functions of (transceiver, FN)), any FN; exactly-one-copy-iff-in-deliver-set for an arbitrary q is the post-condition.",
    note="Trusted: PyVC builtin models; identity semantics of == on transceivers (checked on the live classes); handle_data_msg's frame; datagram emission itself is C10/C18/C13.",
    design="9/C02"),
 "C03": dict(
    technique="contract-based deductive verification: PyVC VCs from the live transceiver.py/data_if.py; three loop invariants in clck_tick with ghost position maps (bijections queue<->calls/warnings/new queue, quantified, discharged by z3), lock-ownership obligations on every _tx_queue access, inductive fate lemma over the contracts, interference pass (socket-thread actions injected at unprotected reads of fh)",
    text="Unbounded proof over queue length, frame numbers (modular order on the hyperframe circle, so the wrap is covered) and histories (fate invariant); schedules: proof modulo statement-level atomicity (ownership + interference obligations).",
    note="Trusted: PyVC builtin models; GIL atomicity of one attribute access / one locked region; threading.Lock is a mutex; queued FNs are valid (0..2715647); liveness half supplied by C09.",
    design="9/C03"),
 "C12": dict(
    technique="contract-based deductive verification: PyVC VCs from the live transceiver.py/ctrl_if_trx.py/fake_trx.py; loop invariant of power_event_handler over [self, *children] with a child list of symbolic length; clock links abstracted to a duplicate-free membership array; PWR invariant lemma over the handler's contract; z3",
    text="Unbounded proof over the number of children, arbitrary prior power/hopping/queue state, both power directions, with/without own clock and running/stopped generator; port plan proved for symbolic base port and child index. Application wiring (append_trx / append_child_trx) proved against TRXList's find/add contracts for any number of existing transceivers; the concrete-list runs (0..2) remain as additional, labelled bounded cases.",
    note="Trusted: PyVC builtin models; CLCKGen.start/stop thread semantics; socket bind modelled as recording the address; children pairwise distinct.",
    design="9/C12"),
 "C09": dict(
    technique="contract-based deductive verification: PyVC VCs from the live clck_gen.py under a ghost virtual clock; loop invariant of _worker (absolute deadlines t0 + (k-k0)*t_tick, one tick per iteration, resync on overrun), loop invariant of send_clck_ind over a link list of symbolic length; z3",
    text="Unbounded proof over all handler-duration patterns (the clock may advance arbitrarily at every call), all start frames incl. 2715647, all periods >= 1 and link sets, any number of iterations (inductive invariant).",
    note="Trusted: virtual-clock contracts of time.monotonic_ns and Event.wait (float dt*1e-9 taken as dt ns), threading.Thread/Event semantics, sched_rr_prio None; real scheduler jitter is outside the property.",
    design="9/C09"),
 "C15": dict(
    technique="contract-based deductive verification: PyVC VCs from the live data_dump.py over a ghost file (content array, length, position) and a well-formed-capture view with a symbolic boundary array and a symbolic cut; loop invariants for _seek2msg, parse_all and append_all; callers use callee contracts (gen_msg/parse_msg from C01/C13); z3 incl. quantified invariants",
    text="Unbounded proof over the number of records, every index, every (skip, count) incl. None, and every truncation offset (the cut is a symbolic integer); 'equal in every field' composes with C01's round-trip lemma.",
    note="Trusted: PyVC builtin models and the binary-file model (read/seek/append-write); monotonicity of record boundaries used as a lemma; messages are valid (append refuses others).",
    design="9/C15"),
 "C05": dict(
    engine="pyvc+cvc",
    technique="contract-based deductive verification: PyVC VCs from the live ctrl_if.py/ctrl_if_trx.py/fake_trx.py/data_if.py/fake_pm.py; per-(verb, argc) contracts of parse_cmd/ctrl_cmd_handler against a command-semantics table written from the statement; framing contracts of send_response/handle_rx over a structured model of canonical command text; loop invariant for FakePM.measure; z3",
    text="Proof at token level for every verb, every argument count 0..3 (SETFH 4..131 = up to 64 channels, enumerated completely), symbolic integer arguments and an arbitrary prior state (class invariant), hence any history. Framing proved for canonical command text of any size up to 1024 octets.",
    note="Trusted: PyVC builtin models; token model (decimal literal <-> int) and the structured model of str.decode/startswith/strip/split/join on canonical command text; power_event_handler via its C12 contract. trxcon's response parser (trx_if.c) is covered by the C part when present (see evidence: functions under contract); until then that clause rests on the proved response format.",
    design="9/C05"),
 "C14": dict(
    engine="pyvc+cvc",
    technique="contract-based deductive verification: exception-freedom and frame contracts on every Python receive path (parse_msg for every octet string, recv_tx_msg/recv_rx_msg/recv_data_msg, handle_rx on undecodable / non-command / non-numeric / short commands for every verb and argument position, capture reader on arbitrary file content with trivial loop invariants), threshold class invariant preserved by every command; PyVC + z3",
    text="Unbounded over datagram/file contents and lengths (symbolic byte arrays), all verbs and argument-position junk patterns; implicit CPython exceptions (IndexError, struct.error, TypeError, UnicodeDecodeError, ValueError from int()) are modelled as paths and must be infeasible or caught.",
    note="Trusted: PyVC builtin models incl. which builtins raise what; datagram classes for TRXC as listed in the evidence assumptions; trxcon's C receive paths are covered by the C part when present.",
    design="9/C14"),
 "C07": dict(
    engine="pyvc+cvc",
    technique="contract-based deductive verification: Python HoppingParams.__init__/fn2gsm_time/resolve (PyVC, ast of gsm_shared.py) and firmware pow_nbin_mask/rfch_hop_seq_gen/rfch_get_params + rn_table (CVC, clang JSON AST of rfch.c) each proved equal to ONE spec function written from 3GPP TS 45.002 6.2.3; agreement Python == firmware is the corollary; z3",
    text="Full domain: HSN 0..63, MAIO 0..63, N 1..64 (case split), every FN of the hyperframe symbolic; both 114-entry RNTABLEs compared entry by entry with the standard's values.",
    note="Trusted: the two VC generators' operator models (bit operations via the shared integer definitions in engine/common/bits.py), clang front end, z3; C ints as mathematical ints with overflow/UB obligations; ARM type sizes for the firmware parse.",
    design="9/C07"),
 "C19": dict(
    engine="pyvc+cvc",
    technique="contract-based deductive verification: gsm_fn2gsmtime / gsm_gsmtime2fn (gsm_utils.c), l1s_time_inc (sync.c, macro-expanded ADD_MODULO, callee contract) via CVC and HoppingParams.fn2gsm_time via PyVC, all against one decomposition spec; z3 (LIA)",
    text="All FN of the hyperframe and all deltas 1..2715647 symbolic (stronger than the listed delta set), including the wrap 2715647 -> 0; narrowing conversions and signed overflow are obligations.",
    note="Trusted: VC generators, clang front end, z3; C ints as mathematical ints + range/UB obligations.",
    design="9/C19"),
 "C20": dict(
    engine="cvc",
    technique="contract-based deductive verification: CVC VCs from the function text cut verbatim from sysinfo.c (prelude for the missing libosmocore headers), functional + memory-safety contract with three loop invariants (rank / hopping-rank counting functions), every subscript an in-bounds obligation; z3",
    text="All bitmap lengths 0..255, all bitmap contents, all cell allocations (mask array symbolic), si4 on/off; no bound.",
    note="Trusted: verbatim extraction drops LOGP (arguments not evaluated); prelude declarations; induction principle for the counting-function lemmas; callers' buffer sizes are pre-conditions.",
    design="9/C20"),
 "C06": dict(
    engine="cvc",
    technique="contract-based deductive verification: CVC VCs from sercomm.c (host build and ARM firmware build of the same source): per-octet contracts of sercomm_drv_pull / sercomm_drv_rx_char as case tables over the driver state, wire-grammar invariant of the transmit side, transmitter/receiver coupling invariant (product step), over-long-frame resynchronisation invariant; z3",
    text="All DLCIs below the receive table size (incl. 0x00/0x7d/0x7e), all payload contents and lengths below the receive buffer, any interleaving point of the octet stream (per-octet inductive invariants, no bound on frame length or number of frames).",
    note="Trusted: clang front end, VC generator, z3; msgb/llist primitives and the UART hand-over used through contracts (listed in evidence); interrupt masking is the call-site protocol; coupling/resync lemmas reason over the step contract's case table, which stage 1 proves against the code.",
    design="9/C06"),
 "C08": dict(
    engine="cvc",
    technique="contract-based deductive verification: CVC VCs from tdma_sched.c (ARM parse): per-function contracts over the abstract ring view, loop invariant for tdma_schedule_set over counting functions, sort as permutation + ordering, execute/advance/reset; history lemma as inductive invariant; z3",
    text="All ring positions, frame offsets, priorities (int16), set lengths (loop invariant, not unrolled), any history of operations.",
    note="Trusted: callbacks return >= 0 and do not touch the scheduler; execute precedes advance in each frame (call-site protocol); induction principle for counting-function lemmas.",
    design="9/C08"),
 "C17": dict(
    technique="contract-based deductive verification: the live trxd_proto PDU objects (structure concrete as built by the real constructors, values and octets symbolic) executed through the real codec.py by PyVC; layout, round trip, decode-any-octets, burst-length table, and the cross lemma with the message codec's layout spec; z3; the message codec's validation contract (Msg/TxMsg/RxMsg.validate, gen_msg, send_msg - shared with C13) is discharged in this check too",
    text="All field values, all 16 modulation codes x NOPE enumerated (each case loop-free, complete), arbitrary input octet strings up to 2048, all valid v0/v1 codec messages incl. legacy padding; batched v2 sub-PDUs proved prefix-decodable (any count via codec.Sequence's law).",
    note="Trusted: PyVC builtin models (int.from_bytes/to_bytes, bytes.join, slicing); PDU constructors' results taken from the live objects; Sequence repetition law is C16's.",
    design="9/C17"),
 "C04": dict(
    engine="pyvc+cvc",
    technique="contract-based deductive verification: Python gen_msg/parse_msg (PyVC) and trxcon's trx_data_rx_cb / trx_if_handle_phyif_burst_req (CVC, functions cut verbatim from trx_if.c behind a prelude) proved against the SAME layout oracle spec/trxd_layout.py; py2c / c2py agreement as spec-level lemmas; z3",
    text="Full domain on both sides: all field values, all burst contents (array theory, loop invariant for the in-place soft-bit conversion), legacy padding on/off, every datagram length for the C receive path with memory obligations on every buf[...] access.",
    note="Trusted: VC generators, clang front end, z3; prelude declarations for the newer libosmocore (listed in evidence); read/send contracts; LOGP dropped by the extraction.",
    design="9/C04"),
 "C11": dict(
    engine="cvc",
    technique="contract-based deductive verification + complete finite table obligations: every mf_*[] / sched_set_for_task[] (firmware) and frame_*[] / layouts[] (trxcon) table extracted from clang's semantic InitListExpr on every run; mframe_schedule_set (loop invariant), l1sched_mframe_layout, the prefix of l1sched_configure_ts and the four frame-lookup sites of sched_trx.c under contract; agreement / burst-id / mask / lookup obligations with FN symbolic over the 51x26x8 cycle; z3",
    text="Complete (finite) over all tasks, channel combinations, timeslots and frame numbers; representation invariant 'a configured timeslot holds a layout with period > 0' proved from configure_ts and used as the lookup sites' pre-condition.",
    note="Trusted: clang front end; the task<->channel correspondence table is part of the spec (written from the statement); trxcon single-threaded; l1sched_reset_ts/add_ts contracts assumed; two CBCH enum values from a shim.",
    design="9/C11"),
 "C16": dict(
    technique="contract-based deductive verification, modular: Field protocol with abstract callbacks, Uint/Int family (all classes, lengths 1..8, byte orders, signs, symbolic offset), Buf/Spare, BitField.enc_val/dec_val for every (width, offset), BitFieldSet for enumerated layouts, 64-bit bit-vector lemma for the general packing step, Envelope composition law for ANY number of abstract members (loop contract for decoding, comprehension contract for encoding, ghost prefix sums), Sequence for any number of items (loop invariant / comprehension contract over an item-codec contract); PyVC + z3",
    text="Each building block is proved against the interface contract for all values; composition (Envelope/Sequence) preserves the contract, so every definition built from the blocks inherits the laws by structural induction (the induction itself is the stated meta-argument). Bounded parts are labelled: BitFieldSet layouts (all of 1 octet; <= 3 fields for 2..4 octets); the concrete-call-log instantiations of Envelope (0..4 members) and Sequence.to_bytes (0..3 items) remain as additional, labelled cases next to the unbounded contracts.",
    note="Trusted: PyVC builtin models (int.from_bytes/to_bytes and their inverse rewrite, bytes.join, slicing); pure callbacks; check() overrides outside the contract.",
    design="9/C16"),
}
NOT_YET = "check not built yet in this session (design in DESIGN.md section 9); will be claimed when its obligations are discharged"

def main():
    checks = []
    for pid in PROPS:
        if pid not in CLAIMED:
            continue
        c = CLAIMED[pid]
        checks.append({
            "property_id": pid,
            "quick_cmd": "./check %s --tier quick" % pid,
            "thorough_cmd": "./check %s --tier thorough" % pid,
            "evidence_file": "evidence/%s.json" % pid,
            "replay_cmd_template": "./check %s --replay {path}" % pid,
            "engine": c.get("engine", "pyvc"),
            "level_claimed": {"category": c.get("category", "proof"), "text": c["text"], "design_ref": "DESIGN.md section " + c["design"]},
            "level_note": c["note"],
            "technique": c["technique"],
        })
    na = [{"property_id": p, "reason": NA.get(p, NOT_YET)} for p in PROPS if p not in CLAIMED]
    man = {
        "version": 1,
        "setup_cmd": "./setup.sh",
        "hooks": {"guard": "OSMOCOM_BB_VERIF", "enable": "none needed: contracts are sidecar files under /verif/contracts, the verified text is read from /repo on every run", 
                  "baseline_off_cmd": "cd /repo && /venv/bin/python -m pytest -ra -q -p no:cacheprovider --timeout=900 --continue-on-collection-errors",
                  "source_commits": [], "add_only": True},
        "engines": [
            {"name": "pyvc", "path": "engine/pyvc", "serves_properties": [p for p in PROPS if p in CLAIMED and CLAIMED[p].get("engine", "pyvc") in ("pyvc", "pyvc+cvc")],
             "kind_free_text": "verification-condition generator: symbolic execution of the ast of the live trx_toolkit functions against sidecar contracts; obligations discharged by z3 (cvc5 for z3's unknowns)"},
            {"name": "cvc", "path": "engine/cvc", "serves_properties": [p for p in PROPS if p in CLAIMED and CLAIMED[p].get("engine") in ("cvc", "pyvc+cvc")],
             "kind_free_text": "verification-condition generator over clang's JSON AST of the real C files; obligations discharged by z3"},
        ],
        "checks": checks,
        "not_applicable": na,
        "notes": "Exit codes of every check: 0 held, 1 violation (VIOLATION line), 2 undecided (never reported as violation), 3 checker crash. On the unchanged tree every check is a proof (evidence level 'proof', obligations == discharged; tools/run_all.sh asserts it). On a CHANGED tree whose shape a contract no longer fits (construct outside the VC generator, loop contract that cannot be attached, obligations whose counter-models were replayed on the real code and do not reproduce) the property's bounded native oracle (oracles/<ID>.py, oracles/c_<ID>.py: statement-level test of the real code, bound stated in its BOUND text) stands in for that run: a concrete failing input is a VIOLATION with a replay file; otherwise exit 0 with a 'BOUNDED ...' line and evidence level 'exploration' (never counted as proved). A failed obligation becomes a VIOLATION when a failing input is reproduced on the real code (the verifier's counter-model replayed at an entry point, or an input found by the oracle); without any reproducible input and with a clean oracle it is listed as an unestablished proof step and the stand-in decides; 'VIOLATION ... no-failing-input-found' is emitted when no oracle can run for the changed code. See DESIGN.md section 18. Known findings: known_findings.jsonl (only 'fixed:' lines at present).",
    }
    json.dump(man, open(os.path.join(HERE, "MANIFEST.json"), "w"), indent=1)

NA = {}
if __name__ == "__main__":
    main()

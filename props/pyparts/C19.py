"""C19 (Python half): HoppingParams.fn2gsm_time(fn) == spec.gsm_time(fn) for every frame number of the hyperframe."""
import z3
from engine.common.core import Obligation, mval
from engine.pyvc.values import *
from engine.pyvc import models
from engine.pyvc.harness import toolkit, raw, where, new_engine, run_paths, register_fn, note_engine, qualname
from spec import gsm_time as G


def build_py(run, prop="C19"):
    gs = toolkit("gsm_shared")
    f = raw(gs.HoppingParams, "fn2gsm_time")
    register_fn(run, f)
    E = new_engine()
    fn = z3.Int("fn")

    def setup(E):
        E.assume(z3.And(fn >= 0, fn < G.HYPERFRAME))
        return {}
    for p, ctx, out in run_paths(E, setup, lambda E, ctx: E.call(f, [SInt(fn)])):
        tag = {"side": "py", "what": "fn2gsm_time"}
        if out[0] == "raise" or not isinstance(out[1], tuple) or len(out[1]) != 4:
            run.add(Obligation(prop, qualname(f), "returns_4_tuple", p.pc, z3.BoolVal(False), kind="post", where=where(f), tag=tag))
            continue
        for nm, got, want in zip(("t1", "t2", "t3", "tc"), out[1], G.gsm_time(fn)):
            run.add(Obligation(prop, qualname(f), "equals_spec_" + nm, p.pc, models.zint(E.as_int(got)) == want, kind="post", where=where(f), tag=tag))
    # hyperframe constant used by the toolkit
    run.add(Obligation(prop, "gsm_shared.GSM_HYPERFRAME", "is_2715648", [], z3.BoolVal(gs.GSM_HYPERFRAME == G.HYPERFRAME and gs.GSM_SUPERFRAME == 1326),
                       kind="table", where="src/target/trx_toolkit/gsm_shared.py", tag={"side": "py", "what": "const"}))
    note_engine(run, E)


def witness_py(o, model):
    t = dict(o.tag or {})
    if t.get("what") == "fn2gsm_time":
        t["fn"] = mval(model, z3.Int("fn"))
    return t


def replay_py(payload):
    f = payload["inputs"]
    gs = toolkit("gsm_shared")
    if f.get("what") == "const":
        return {"confirmed": gs.GSM_HYPERFRAME != G.HYPERFRAME, "observed": gs.GSM_HYPERFRAME, "expected": G.HYPERFRAME}
    got = tuple(gs.HoppingParams.fn2gsm_time(f["fn"]))
    exp = tuple(G.gsm_time(f["fn"]))
    return {"confirmed": got != exp, "observed": got, "expected": exp}

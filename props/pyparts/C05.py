"""C05 (Python half) - every TRXC command gets exactly one well-formed response with the documented effect.

Token layer (a command = [verb, decimal tokens...]; proved for every verb of the protocol, an unknown verb, every argument count
0..3, SETFH with 4..131 arguments = up to 64 channels, symbolic argument values, arbitrary prior state):
  CTRLInterface.verify_cmd                exact characterisation (inlined everywhere)
  FakeTRX.ctrl_cmd_handler + CTRLInterfaceTRX.parse_cmd      status, results and state update == spec.trxc.effect; everything else unchanged;
                                          no exception for numeric arguments
  DATAInterface.set_hdr_ver / pick_hdr_ver, Transceiver.enable_fh, FakePM.measure (loop invariant)   functional contracts
Framing layer:
  CTRLInterface.send_response             exactly one sendto(remote): "RSP " + " ".join([verb, str(code)] + args + params) + NUL
  CTRLInterface.handle_rx                 canonical command datagrams ("CMD " + tokens joined by one space + NUL, <= 1024 octets, the form
                                          trxcon emits): the whole datagram is read, tokenised to exactly its tokens, answered exactly once to
                                          the sender; datagrams not starting with "CMD": nothing sent, nothing changed
"""
import z3
from engine.common.core import Obligation, Cover, mval
from engine.pyvc.values import *
from engine.pyvc import models
from engine.pyvc.loops import LoopSpec
from engine.pyvc.harness import toolkit, raw, where, new_engine, run_paths, path_obligations, register_fn, note_engine, qualname, par_cases, exc_note, sect
from contracts.py import trx as T
from contracts.py.common import snapshot, attr, mk_sock, GhostSocket
from contracts.py.tokens import IntTok, BadTok
from spec import trxc as S

ID = "C05"
Z = models.zint
I, B = z3.IntSort(), z3.BoolSort()

STATE_FIELDS = {"tx_att_base": "tx_att_base", "tx_power_base": "tx_power_base", "ta": "ta", "toa256_base": "toa256_base",
                "toa256_thr": "toa256_rand_threshold", "rssi_base": "rssi_base", "rssi_thr": "rssi_rand_threshold", "ci_base": "ci_base",
                "ci_thr": "ci_rand_threshold", "drop_amount": "burst_drop_amount", "drop_period": "burst_drop_period"}
BOOL_FIELDS = {"running": "running", "rf_muted": "rf_muted", "fake_rssi": "fake_rssi_enabled"}


def arg(i):
    return z3.Int("arg%d" % (i + 1))


def spec_state(pfx, fh_set, has_pm):
    st = {k: T.fz(pfx, v) for k, v in STATE_FIELDS.items()}
    st.update({k: T.fb(pfx, v) for k, v in BOOL_FIELDS.items()})
    st["hdr_ver"] = T.fz(pfx, "_hdr_ver")
    st["rsp_delay_ms"] = T.fz(pfx, "rsp_delay_ms")
    st["rx_freq"] = (T.fb(pfx, "_rx_freq?none"), T.fz(pfx, "_rx_freq"))
    st["tx_freq"] = (T.fb(pfx, "_tx_freq?none"), T.fz(pfx, "_tx_freq"))
    st["fh_set"] = z3.BoolVal(fh_set)
    st["ready"] = z3.Or(z3.And(z3.Not(st["rx_freq"][0]), z3.Not(st["tx_freq"][0])), st["fh_set"])
    st["has_pm"] = has_pm
    return st


def cur(t, key):
    """current value (z3) of a spec state key on the transceiver object"""
    if key in STATE_FIELDS:
        return Z(t.attrs[STATE_FIELDS[key]])
    if key in BOOL_FIELDS:
        return models.to_z3bool(t.attrs[BOOL_FIELDS[key]])
    if key == "hdr_ver":
        return Z(t.attrs["data_if"].attrs["_hdr_ver"])
    if key == "rsp_delay_ms":
        return Z(t.attrs["ctrl_if"].attrs["rsp_delay_ms"])
    raise KeyError(key)


def opt_eq(v, none, val):
    if isinstance(v, SOpt):
        return z3.And(v.isnone == none, z3.Or(none, Z(v.val) == val))
    if v is None:
        return none if not isinstance(none, bool) else z3.BoolVal(none)
    return z3.And(z3.Not(none), Z(v) == val)


def measure_summary(E, func, args, kwargs):
    """FakePM.measure contract at the call site: a value in the noise window or in the TRX window"""
    pm, freq = args[0], args[1]
    r = E.fresh_int("dbm")
    E.ghost.setdefault("measured", []).append((freq, r))
    E.assume(z3.And(r >= -120, r <= -50))
    return SInt(r)


def handler_summary(E, func, args, kwargs):
    E.ghost.setdefault("handler", []).append(kwargs.get("poweron", args[1] if len(args) > 1 else None))
    return None


def str_summary(E, func, args, kwargs):
    return FmtStr("trx", (args[0],))


def build_py(run, prop=ID):
    E = new_engine()
    sect(run, build_versions, run, prop, E)
    sect(run, build_measure, run, prop, E)
    sect(run, build_commands, run, prop, E)
    sect(run, build_send_response, run, prop, E)
    sect(run, build_handle_rx, run, prop, E)
    # the POWERON/POWEROFF side effects are power_event_handler's: its contract (the one the summary above assumes) is discharged here as well
    from props import C12 as _C12
    E2 = new_engine()
    sect(run, _C12.build_handler, run, prop, E2)
    E.stats["paths"] += E2.stats["paths"]
    note_engine(run, E)
    run.assume("TRXC token model: numeric arguments are decimal integer literals (IntTok); non-numeric arguments belong to C14")
    run.assume("canonical command text: 'CMD ' + tokens joined by single spaces + NUL, tokens free of whitespace/NUL - the form trxcon emits "
               "(structured-string model of str.decode/startswith/strip/split/join/encode on that form is trusted)")
    run.assume("power_event_handler, FakePM.measure used through their contracts, both discharged in this check (the handler's is shared with C12)")
    run.extra["py_paths_explored"] = E.stats["paths"]


# ------------------------------------------------------------------ header version helpers

def build_versions(run, prop, E):
    di = toolkit("data_if")
    dm = toolkit("data_msg")
    f1, f2 = raw(di.DATAInterface, "set_hdr_ver"), raw(di.DATAInterface, "pick_hdr_ver")
    register_fn(run, f1)
    register_fn(run, f2)
    run.add(Obligation(prop, "data_msg.Msg.KNOWN_VERSIONS", "matches_spec", [], z3.BoolVal(tuple(dm.Msg.KNOWN_VERSIONS) == S.KNOWN_VERSIONS and dm.Msg.CHDR_VERSION_MAX == S.VER_MAX),
                       kind="table", where="src/target/trx_toolkit/data_msg.py", tag={"side": "py", "what": "versions"}))
    v = z3.Int("ver_req")
    hv = z3.Int("hdr_ver")
    E.summaries = {}

    def setup(E):
        return {"self": SObj(di.DATAInterface, {"_hdr_ver": SInt(hv)})}
    for p, ctx, out in run_paths(E, setup, lambda E, ctx: E.call(f1, [ctx["self"], SInt(v)])):
        tag = {"side": "py", "what": "set_hdr_ver"}
        if out[0] == "raise" or not isinstance(out[1], bool):
            run.add(Obligation(prop, qualname(f1), "returns_bool", p.pc, z3.BoolVal(False), kind="post", where=where(f1), tag=tag))
            continue
        known = z3.Or([v == k for k in S.KNOWN_VERSIONS])
        run.add(Obligation(prop, qualname(f1), "applies_iff_known", p.pc,
                           z3.And(z3.BoolVal(out[1]) == known, Z(ctx["self"].attrs["_hdr_ver"]) == z3.If(known, v, hv)), kind="post", where=where(f1), tag=tag))
    for p, ctx, out in run_paths(E, setup, lambda E, ctx: E.call(f2, [ctx["self"], SInt(v)])):
        tag = {"side": "py", "what": "pick_hdr_ver"}
        if out[0] == "raise" or not isinstance(out[1], (int, SInt)):
            run.add(Obligation(prop, qualname(f2), "returns_int", p.pc, z3.BoolVal(False), kind="post", where=where(f2), tag=tag))
            continue
        run.add(Obligation(prop, qualname(f2), "highest_known_not_above_request", p.pc, Z(out[1]) == S.pick_version(v), kind="post", where=where(f2), tag=tag))


# ------------------------------------------------------------------ FakePM.measure

PM_SYMS = (z3.Array("pm.ids", I, I), z3.Int("pm.len"), z3.Array("pm.running", I, B), z3.Array("pm.fh_set", I, B),
           z3.Function("pm.txfreq", I, I), z3.Function("pm.txfreq?none", I, B), z3.Int("freq"))


def build_measure(run, prop, E):
    pm = toolkit("fake_pm")
    ft = toolkit("fake_trx")
    tl = toolkit("trx_list")
    f = raw(pm.FakePM, "measure")
    register_fn(run, f)
    IDS, N, RUN, FHS, TXF, TXN, freq = PM_SYMS

    def fh_kind(E, ref, op, v):
        if E.branch(z3.Select(FHS, ref.idt)):
            return SObj(toolkit("gsm_shared").HoppingParams, {})
        return None

    def get_tx(E, func, args, kwargs):
        ref = args[0]
        return SOpt(TXN(ref.idt), SInt(TXF(ref.idt)))

    def match(j):
        i = z3.Select(IDS, j)
        return z3.And(z3.Select(RUN, i), z3.Not(z3.Select(FHS, i)), z3.Not(TXN(i)), TXF(i) == freq)

    def havoc(E, fr, i):
        fr.locals.pop("trx", None)
        E.ghost["rands"] = []

    def inv(E, fr, i):
        j = z3.Int("j")
        return z3.ForAll([j], z3.Implies(z3.And(j >= 0, j < i), z3.Not(match(j))))
    E.summaries = {"transceiver.Transceiver.get_tx_freq": get_tx}
    E.loop_specs = {("fake_pm.FakePM.measure", 1): LoopSpec("scan_loop", havoc, inv)}

    def setup(E):
        E.assume(N >= 0)
        E.sheap["running"], E.sheap["fh"] = RUN, True
        lst = models.obj_seq(IDS, N, lambda idt: SRef(ft.FakeTRX, idt, {"running": "bool", "fh": fh_kind}), lambda v: v.idt)
        o = SObj(pm.FakePM, {"trx_list": lst, "noise_min": -120, "noise_max": -105, "trx_min": -75, "trx_max": -50})
        return {"self": o}
    for p, ctx, out in run_paths(E, setup, lambda E, ctx: E.call(f, [ctx["self"], SInt(freq)])):
        tag = {"side": "py", "what": "measure"}
        run.add(*path_obligations(run, prop, f, p, "", tag=tag))
        if out[0] == "cut":
            continue
        if out[0] == "raise":
            run.add(Obligation(prop, qualname(f), "never_raises", p.pc, z3.BoolVal(False), kind="noexc", note=exc_note(out[1]), case=out[1].cls.__name__, where=where(f), tag=tag))
            continue
        r = Z(out[1])
        i = z3.Int("i!0")
        j = z3.Int("j")
        some = z3.And(i >= 0, i < N, match(i)) if any("i!0" in str(c) for c in p.pc) else z3.BoolVal(False)
        run.add(Obligation(prop, qualname(f), "trx_window_iff_a_running_fixed_frequency_trx_transmits_there", p.pc,
                           z3.If(some, z3.And(r >= -75, r <= -50), z3.And(r >= -120, r <= -105, z3.ForAll([j], z3.Implies(z3.And(j >= 0, j < N), z3.Not(match(j)))))),
                           kind="post", where=where(f), tag=tag))
    E.loop_specs = {}


# ------------------------------------------------------------------ commands (token layer)

def command_cases():
    cases = []
    for verb in S.VERBS:
        for argc in range(0, 4):
            for fh_set in (False, True):
                for has_pm in ((False, True) if verb == "MEASURE" else (True,)):
                    if verb not in ("POWERON", "SETFH") and fh_set and not (verb == "MEASURE"):
                        continue
                    cases.append((verb, argc, fh_set, has_pm))
    for argc in range(4, 132):
        cases.append(("SETFH", argc, False, True))
    for argc in (4, 5, 130):
        cases.append(("SETFH", argc, True, True))
    return cases


def build_commands(run, prop, E):
    ci = toolkit("ctrl_if_trx")
    ft = toolkit("fake_trx")
    gs = toolkit("gsm_shared")
    pmm = toolkit("fake_pm")
    pc = raw(ci.CTRLInterfaceTRX, "parse_cmd")
    register_fn(run, pc)
    register_fn(run, raw(ft.FakeTRX, "ctrl_cmd_handler"))
    register_fn(run, raw(toolkit("ctrl_if").CTRLInterface, "verify_cmd"), "inlined")
    register_fn(run, raw(toolkit("transceiver").Transceiver, "enable_fh"), "inlined")
    register_fn(run, raw(gs.HoppingParams, "__init__"), "inlined (contract: C07)")
    E.summaries = {"transceiver.Transceiver.power_event_handler": handler_summary, "fake_pm.FakePM.measure": measure_summary,
                   "transceiver.Transceiver.__str__": str_summary, "gsm_shared.HoppingParams.__str__": lambda E, f_, a, k: FmtStr("fh", (a[0],))}

    def one(case):
        verb, argc, fh_set, has_pm = case
        cs = "%s/%d,fh=%s,pm=%s" % (verb, argc, fh_set, has_pm)
        obls = []
        args = [arg(i) for i in range(argc)]
        st = spec_state("t.", fh_set, has_pm)
        status, results, updates = S.effect(verb, args, st)
        fh0 = SObj(gs.HoppingParams, {}, label="fh0") if fh_set else None

        def setup(E):
            t = T.mk_trx(E, "t.", fh=fh0)
            t.attrs["pwr_meas"] = SObj(pmm.FakePM, {}) if has_pm else None
            return {"self": t, "pre": snapshot(t), "dpre": snapshot(t.attrs["data_if"]), "cpre": snapshot(t.attrs["ctrl_if"])}

        def invoke(E, ctx):
            return E.call(pc, [ctx["self"].attrs["ctrl_if"], [verb] + [IntTok(a) for a in args]])
        for p, ctx, out in run_paths(E, setup, invoke):
            tag = {"side": "py", "what": "cmd", "verb": verb, "argc": argc, "fh": fh_set, "pm": has_pm}
            obls.extend(path_obligations(None, prop, pc, p, cs, tag=tag))

            def ob(clause, goal, kind="post"):
                obls.append(Obligation(prop, qualname(pc), clause, p.pc, goal, kind=kind, case=cs, where=where(pc), tag=tag))
            if out[0] == "raise":
                ob("never_raises_on_numeric_arguments", z3.BoolVal(False), kind="noexc")
                continue
            rc = out[1]
            t = ctx["self"]
            params = None
            if isinstance(rc, tuple) and len(rc) == 2 and isinstance(rc[1], list):
                rc, params = rc
            if not isinstance(rc, (int, SInt)) or isinstance(rc, bool):
                ob("status_is_integer", z3.BoolVal(False))
                continue
            ob("status_per_protocol", Z(rc) == status)
            # results
            if results is None:
                ob("no_result_fields", z3.BoolVal(params is None))
            elif results[0] == "nomtxpower":
                pcs = models.str_pieces(params[0]) if params is not None and len(params) == 1 else None
                ok = pcs is not None and len(pcs) == 1 and isinstance(pcs[0], FmtStr) and pcs[0].fmt == "int"
                ob("result_is_nominal_tx_power", z3.And(z3.BoolVal(bool(ok)), Z(pcs[0].args[0]) == st["tx_power_base"]) if ok else z3.BoolVal(False))
            elif results[0] == "measure":
                meas = p.ghost.get("measured", [])
                pcs = models.str_pieces(params[0]) if params is not None and len(params) == 1 else None
                ok = pcs is not None and len(pcs) == 1 and isinstance(pcs[0], FmtStr) and pcs[0].fmt == "int" and len(meas) == 1
                ob("result_is_measured_dbm_of_requested_frequency",
                   z3.And(Z(meas[0][0]) == results[1], Z(pcs[0].args[0]) == meas[0][1]) if ok else z3.BoolVal(False))
            # power commands
            calls = p.ghost.get("handler", [])
            pw = updates.get("__power")
            if pw is None:
                ob("no_power_event", z3.BoolVal(calls == []))
            elif pw[0] == "off":
                ob("power_off_event", z3.BoolVal(calls == [False]))
            else:
                ob("power_on_event_iff_accepted", z3.If(pw[1], z3.BoolVal(calls == [True]), z3.BoolVal(calls == [])))
            # hopping
            fhu = updates.get("__fh")
            fh = t.attrs.get("fh")
            if fhu is None:
                ob("hopping_parameters_untouched", z3.BoolVal(fh is fh0))
            else:
                _k, hsn, maio, ma, accepted = fhu
                ok = isinstance(fh, SObj) and fh is not fh0 and isinstance(fh.attrs.get("ma"), list) and len(fh.attrs["ma"]) == len(ma)
                if fh is fh0:
                    ob("hopping_untouched_only_when_refused", z3.Not(accepted))
                elif ok:
                    ob("hopping_configured_only_when_accepted", accepted)
                    conj = [Z(fh.attrs["hsn"]) == hsn, Z(fh.attrs["maio"]) == maio]
                    for (a, b), (x, y) in zip(fh.attrs["ma"], ma):
                        conj += [Z(a) == x, Z(b) == y]
                    conj.append(z3.BoolVal(fh.attrs.get("_pnm") == (1 << len(ma).bit_length()) - 1))
                    ob("hopping_configured_with_all_channels", z3.And(conj))
                else:
                    ob("hopping_configured_with_all_channels", z3.BoolVal(False))
            # scalar state
            for key in list(STATE_FIELDS) + list(BOOL_FIELDS) + ["hdr_ver", "rsp_delay_ms"]:
                want = updates.get(key, st[key])
                ob("state_%s" % key, cur(t, key) == want, kind="post" if key in updates else "frame")
            for key, fld in (("rx_freq", "_rx_freq"), ("tx_freq", "_tx_freq")):
                none, val = updates.get(key, st[key])
                ob("state_%s" % key, opt_eq(t.attrs[fld], none, val), kind="post" if key in updates else "frame")
            ob("invariant_preserved", T.invariant_of(t), kind="inv")
            other = [k for k in ctx["pre"] if k not in set(STATE_FIELDS.values()) | set(BOOL_FIELDS.values()) | {"_rx_freq", "_tx_freq", "fh"}]
            ob("frame_everything_else_unchanged", z3.BoolVal(all(t.attrs.get(k) is ctx["pre"][k][0] for k in other) and
                                                             all(t.attrs["data_if"].attrs.get(k) is ctx["dpre"][k][0] for k in ctx["dpre"] if k != "_hdr_ver") and
                                                             all(t.attrs["ctrl_if"].attrs.get(k) is ctx["cpre"][k][0] for k in ctx["cpre"] if k != "rsp_delay_ms")), kind="frame")
        return obls
    par_cases(run, E, command_cases(), one)


# ------------------------------------------------------------------ send_response

def flatten(s):
    """Structured string -> canonical list of pieces (literal text split at single spaces kept as the code under contract wrote them is
    NOT assumed: literals are merged and re-split on the command grammar by the caller).  See models.str_pieces."""
    r = models.str_pieces(s)
    if r is not None:
        return r
    return _flatten_old(s)


def tokens_of(pieces):
    """the space-separated tokens of a canonical piece list: literal text is split at spaces, atoms (formatted integers, token objects) are
    tokens of their own; a token made of literal text AND an atom comes back as a tuple"""
    toks, cur = [], []

    def flush():
        if cur:
            toks.append(cur[0] if len(cur) == 1 else tuple(cur))
            cur.clear()
    for p_ in pieces or []:
        if isinstance(p_, str):
            parts = p_.split(" ")
            for i, t in enumerate(parts):
                if i:
                    flush()
                if t:
                    cur.append(t)
        else:
            cur.append(p_)
    flush()
    return toks


def _flatten_old(s):
    if isinstance(s, str):
        return [s]
    if isinstance(s, FmtStr):
        if s.fmt == "concat":
            a, b = flatten(s.args[0]), flatten(s.args[1])
            return None if a is None or b is None else a + b
        if s.fmt == "join":
            sep, parts = s.args
            out = []
            for i, p_ in enumerate(parts):
                if i:
                    out.append(sep)
                fp = flatten(p_) if not isinstance(p_, (IntTok, BadTok)) and not (isinstance(p_, FmtStr) and p_.fmt in ("int", "tok")) else [p_]
                if fp is None:
                    return None
                out += fp
            return out
        if s.fmt == "encode":
            return flatten(s.args[0])
        return [s]
    return None


def build_send_response(run, prop, E):
    cif = toolkit("ctrl_if")
    f = raw(cif.CTRLInterface, "send_response")
    register_fn(run, f)
    register_fn(run, raw(toolkit("udp_link").UDPLink, "sendto"), "inlined")
    E.summaries = {}
    code = z3.Int("code")
    for nargs in range(0, 4):
        for params in (None, 1):
            cs = "args=%d,params=%s" % (nargs, params)
            toks = ["VERB"] + [IntTok(arg(i)) for i in range(nargs)]
            par = [FmtStr("int", (SInt(z3.Int("result")),))] if params else None

            def setup(E):
                link = SObj(cif.CTRLInterface, {"sock": mk_sock(E, "ctrl.sock"), "remote_addr": "127.0.0.1", "remote_port": 5801, "rsp_delay_ms": SInt(z3.Int("delay"))})
                # class invariant of the link (0 after __init__, preserved by FAKE_TRXC_DELAY - obligation invariant_preserved of parse_cmd)
                E.assume(z3.And(z3.Int("delay") >= 0, z3.Int("delay") <= T.TRXC_DELAY_MAX_MS))
                return {"self": link, "req": list(toks)}
            remote = ("10.0.0.1", 4711)
            for p, ctx, out in run_paths(E, setup, lambda E, ctx: E.call(f, [ctx["self"], ctx["req"], remote, SInt(code)] + ([par] if par else []))):
                tag = {"side": "py", "what": "send_response"}
                if out[0] == "raise":
                    run.add(Obligation(prop, qualname(f), "never_raises", p.pc, z3.BoolVal(False), kind="noexc", note=exc_note(out[1]), case=cs + "," + out[1].cls.__name__, where=where(f), tag=tag))
                    continue
                sent = p.ghost.get("sent", [])
                ok = len(sent) == 1 and sent[0][2] == remote and sent[0][0] is ctx["self"].attrs["sock"]
                pieces = flatten(sent[0][1]) if ok else None
                want = ["RSP ", "VERB", " ", ("code",)]
                for a in toks[1:]:
                    want += [" ", a]
                if par:
                    want += [" ", par[0]]
                want.append("\0")
                merged = []
                for w in want:          # same canonical form as models.str_pieces: adjacent literals merged
                    if isinstance(w, str) and merged and isinstance(merged[-1], str):
                        merged[-1] += w
                    else:
                        merged.append(w)
                want = merged
                good = pieces is not None and len(pieces) == len(want)
                if good:
                    for x, w in zip(pieces, want):
                        if w == ("code",):
                            good = good and isinstance(x, FmtStr) and x.fmt == "int" and z3.eq(Z(x.args[0]), code)
                        else:
                            good = good and (x is w or x == w if isinstance(w, str) else x is w)
                run.add(Obligation(prop, qualname(f), "one_NUL_terminated_RSP_to_the_requester", p.pc, z3.BoolVal(bool(ok and good)), kind="post", case=cs, where=where(f), tag=tag))
                run.add(Obligation(prop, qualname(f), "artificial_delay_only_when_configured", p.pc,
                                   z3.BoolVal(bool(p.ghost.get("sleep"))) == (z3.Int("delay") > 0), kind="post", case=cs, where=where(f), tag=tag))


# ------------------------------------------------------------------ handle_rx (framing)

class WireCmd:
    """The octets / text of a datagram in canonical command form: prefix + tokens joined by single spaces + NUL.
    `length` is its size in octets (symbolic).  Models of the str/bytes operations handle_rx applies to it (trusted):
      decode() -> same text;  startswith(s) on the prefix;  [4:] drops a 4-character prefix;  strip() leaves it unchanged (NUL is not
      whitespace, tokens are non-blank);  strip("\\0") removes the trailing NUL;  split(" ") yields exactly the tokens."""

    def __init__(self, prefix, tokens, nul=True, stage="bytes", length=None, truncated=False):
        self.prefix, self.tokens, self.nul, self.stage, self.length, self.truncated = prefix, tokens, nul, stage, length, truncated

    def pyvc_method(self, E, name, args, kwargs):
        if self.truncated:
            raise Unsupported("operation on a truncated command datagram (outside the canonical-form model)")
        if name == "decode" and self.stage == "bytes":
            return WireCmd(self.prefix, self.tokens, self.nul, "str", self.length)
        if name == "startswith" and self.stage == "str" and isinstance(args[0], str):
            return self.prefix.startswith(args[0])
        if name == "strip" and self.stage == "str":
            if not args:
                return self
            if args[0] == "\0":
                return WireCmd(self.prefix, self.tokens, False, "str", None)
        if name == "split" and self.stage == "str" and args == [" "] and self.prefix == "" and not self.nul:
            return list(self.tokens)
        raise Unsupported("WireCmd.%s%r" % (name, tuple(args)))

    def pyvc_getitem(self, E, idx):
        from engine.pyvc.interp import SliceV
        if isinstance(idx, SliceV) and idx.hi is None and idx.step is None and isinstance(idx.lo, int) and idx.lo == len(self.prefix):
            return WireCmd("", self.tokens, self.nul, self.stage, None)
        raise Unsupported("WireCmd subscript")


def recv_model(E, sock, n):
    d = sock.attrs["pending"]
    E.ghost.setdefault("recv_sizes", []).append(n)
    if isinstance(d, WireCmd):
        # UDP: a datagram longer than the buffer is truncated
        E.require("whole_datagram_is_read", d.length <= n, kind="post")
        return (d, sock.attrs["pending_src"])
    return (d, sock.attrs["pending_src"])


def build_handle_rx(run, prop, E):
    cif = toolkit("ctrl_if")
    f = raw(cif.CTRLInterface, "handle_rx")
    register_fn(run, f)
    register_fn(run, raw(cif.CTRLInterface, "verify_req"), "inlined")
    register_fn(run, raw(cif.CTRLInterface, "prepare_req"), "inlined")
    models._REG[id(GhostSocket.recvfrom)] = (GhostSocket.recvfrom, recv_model)
    dlen = z3.Int("dgram.len")

    def parse_summary(E, func, args, kwargs):
        E.ghost.setdefault("parsed", []).append(list(args[1]))
        return SInt(z3.Int("status"))

    def resp_summary(E, func, args, kwargs):
        E.ghost.setdefault("responses", []).append((list(args[1]), args[2], args[3], args[4] if len(args) > 4 else None))
        return None
    E.summaries = {"ctrl_if.CTRLInterface.parse_cmd": parse_summary, "ctrl_if_trx.CTRLInterfaceTRX.parse_cmd": parse_summary,
                   "ctrl_if.CTRLInterface.send_response": resp_summary}
    src = ("192.168.1.9", 5555)
    for kind in ("cmd", "RSP ", "CMX ", "IND ", "cmd ", "C MD"):
        for ntok in ((1, 2, 4, 131) if kind == "cmd" else (2,)):
            cs = "%s,tokens=%d" % (kind, ntok)
            toks = ["VERB"] + [IntTok(arg(i)) for i in range(ntok - 1)]

            def setup(E, kind=kind, toks=toks):
                sock = mk_sock(E, "ctrl.sock")
                # every canonical command text up to trxcon's TRXC buffer size
                # (a command of ntok tokens has at least 2 octets per numeric token)
                E.assume(z3.And(dlen >= 4 + 4 + 2 * (len(toks) - 1) + 1, dlen <= 1024))
                sock.attrs["pending"] = WireCmd("CMD " if kind == "cmd" else kind, list(toks), True, "bytes", dlen)
                sock.attrs["pending_src"] = src
                link = SObj(toolkit("ctrl_if_trx").CTRLInterfaceTRX, {"sock": sock, "remote_addr": "127.0.0.1", "remote_port": 5801, "rsp_delay_ms": 0, "trx": None})
                return {"self": link}
            for p, ctx, out in run_paths(E, setup, lambda E, ctx: E.call(f, [ctx["self"]])):
                tag = {"side": "py", "what": "handle_rx", "kind": kind, "ntok": ntok}
                run.add(*path_obligations(run, prop, f, p, cs, tag=tag))
                if out[0] == "raise":
                    run.add(Obligation(prop, qualname(f), "never_raises", p.pc, z3.BoolVal(False), kind="noexc", note=exc_note(out[1]), case=cs + "," + out[1].cls.__name__, where=where(f), tag=tag))
                    continue
                parsed, resp = p.ghost.get("parsed", []), p.ghost.get("responses", [])
                if kind != "cmd":
                    run.add(Obligation(prop, qualname(f), "non_CMD_datagram_is_ignored", p.pc, z3.BoolVal(parsed == [] and resp == []), kind="post", case=cs, where=where(f), tag=tag))
                    continue
                ok = len(parsed) == 1 and len(parsed[0]) == len(toks) and all(a is b or a == b for a, b in zip(parsed[0], toks))
                run.add(Obligation(prop, qualname(f), "request_tokenised_to_exactly_its_tokens", p.pc, z3.BoolVal(bool(ok)), kind="post", case=cs, where=where(f), tag=tag))
                ok2 = len(resp) == 1 and resp[0][1] == src and isinstance(resp[0][2], SInt) and z3.eq(resp[0][2].t, z3.Int("status")) and \
                    len(resp[0][0]) == len(toks) and all(a is b or a == b for a, b in zip(resp[0][0], toks))
                run.add(Obligation(prop, qualname(f), "exactly_one_response_to_the_sender_with_status_and_original_arguments", p.pc, z3.BoolVal(bool(ok2)),
                                   kind="post", case=cs, where=where(f), tag=tag))
    from contracts.py.common import _recvfrom
    models._REG[id(GhostSocket.recvfrom)] = (GhostSocket.recvfrom, _recvfrom)


# ------------------------------------------------------------------ witness / replay

def witness_py(o, model):
    t = dict(o.tag or {}) if isinstance(o.tag, dict) else {}
    if t.get("what") == "handler":
        from props import C12 as _C12
        return _C12.witness(o, model)
    if t.get("what") == "measure":
        IDS, N, RUN, FHS, TXF, TXN, freq = PM_SYMS
        n = mval(model, N)
        t.update({"freq": mval(model, freq), "len": n, "truncated": n > 64, "transceivers": []})
        for j in range(max(0, min(n, 64))):
            i = mval(model, z3.Select(IDS, j))
            t["transceivers"].append({"id": i, "running": mval(model, z3.Select(RUN, i)), "hopping": mval(model, z3.Select(FHS, i)),
                                      "tx_freq": None if mval(model, TXN(i)) else mval(model, TXF(i))})
        return t
    for i in range(4):
        t["arg%d" % (i + 1)] = mval(model, arg(i))
    for nme in list(STATE_FIELDS.values()) + ["_hdr_ver", "rsp_delay_ms", "_rx_freq", "_tx_freq"]:
        t["t." + nme] = mval(model, T.fz("t.", nme))
    for nme in list(BOOL_FIELDS.values()) + ["_rx_freq?none", "_tx_freq?none"]:
        t["t." + nme] = mval(model, T.fb("t.", nme))
    t["dgram.len"] = mval(model, z3.Int("dgram.len"))
    t["ver_req"] = mval(model, z3.Int("ver_req"))
    return t


def known_predicate_py(o, k):
    return None


def replay_py(payload):
    from contracts.py.native import native_trx, Recorder
    f = payload["inputs"]
    what = f.get("what")
    if what == "handler":
        from props import C12 as _C12
        return _C12.replay(payload)
    if what == "cmd":
        t = native_trx()
        for nme in STATE_FIELDS.values():
            setattr(t, nme, f["t." + nme])
        for nme in BOOL_FIELDS.values():
            setattr(t, nme, bool(f["t." + nme]))
        t._rx_freq = None if f["t._rx_freq?none"] else f["t._rx_freq"]
        t._tx_freq = None if f["t._tx_freq?none"] else f["t._tx_freq"]
        t.data_if._hdr_ver = f["t._hdr_ver"]
        t.fh = object() if f.get("fh") else None
        if f.get("pm"):
            t.pwr_meas = type("PM", (), {"measure": lambda s, fr: -77})()
        calls = []
        t.power_event_handler = lambda poweron: calls.append(poweron)
        argc = f["argc"]
        args = [f["arg%d" % (i + 1)] for i in range(min(argc, 4))] + [1000 + i for i in range(max(0, argc - 4))]
        req = [f["verb"]] + [str(a) for a in args]
        before = {k: getattr(t, v) for k, v in list(STATE_FIELDS.items()) + list(BOOL_FIELDS.items())}
        before.update(hdr_ver=t.data_if._hdr_ver, rx=t._rx_freq, tx=t._tx_freq, fh=t.fh)
        try:
            rc = t.ctrl_if.parse_cmd(req)
        except Exception as e:
            return {"confirmed": True, "observed": "raises %s: %s" % (type(e).__name__, e), "expected": "a status"}
        st = {k: z3.IntVal(v) if not isinstance(v, bool) else z3.BoolVal(v) for k, v in before.items() if k in STATE_FIELDS or k in BOOL_FIELDS}
        st.update(hdr_ver=z3.IntVal(before["hdr_ver"]), rsp_delay_ms=z3.IntVal(0), fh_set=z3.BoolVal(bool(f.get("fh"))), has_pm=bool(f.get("pm")),
                  rx_freq=(z3.BoolVal(before["rx"] is None), z3.IntVal(before["rx"] or 0)), tx_freq=(z3.BoolVal(before["tx"] is None), z3.IntVal(before["tx"] or 0)))
        st["ready"] = z3.BoolVal((before["rx"] is not None and before["tx"] is not None) or bool(f.get("fh")))
        status, results, updates = S.effect(f["verb"], [z3.IntVal(a) for a in args], st)
        exp_status = z3.simplify(status).as_long()
        got_status = rc[0] if isinstance(rc, tuple) else rc
        bad = []
        if got_status != exp_status:
            bad.append(("status", got_status, exp_status))
        got_res = list(rc[1]) if isinstance(rc, tuple) and len(rc) > 1 else None
        if results is None:
            want_res = None
        elif results[0] == "nomtxpower":
            want_res = [str(before["tx_power_base"])]
        else:
            want_res = [str(-77)] if exp_status == 0 else None
        if exp_status == 0 and got_res != want_res:
            bad.append(("results", got_res, want_res))
        for key in list(STATE_FIELDS) + list(BOOL_FIELDS):
            want = z3.simplify(updates.get(key, st[key]))
            want = want.as_long() if z3.is_int_value(want) else z3.is_true(want)
            if getattr(t, {**STATE_FIELDS, **BOOL_FIELDS}[key]) != want:
                bad.append((key, getattr(t, {**STATE_FIELDS, **BOOL_FIELDS}[key]), want))
        hv = z3.simplify(updates.get("hdr_ver", st["hdr_ver"])).as_long()
        if t.data_if._hdr_ver != hv:
            bad.append(("hdr_ver", t.data_if._hdr_ver, hv))
        if "__fh" in updates and (t.fh is before["fh"] or len(t.fh.ma) != (argc - 2) // 2):
            bad.append(("fh", getattr(t.fh, "ma", None) and len(t.fh.ma), (argc - 2) // 2))
        return {"confirmed": bool(bad), "observed": bad or "as specified", "expected": "spec.trxc.effect"}
    if what == "handle_rx":
        # a canonical SETFH command of the model's size: is the whole command configured?
        n = f.get("dgram.len", 200)
        t = native_trx()
        pairs = max(1, min(64, (n - 14 + 15) // 16))
        freqs = []
        for k in range(pairs):
            freqs += [str(1800000 + k), str(1900000 + k)]
        text = "CMD SETFH 1 0 " + " ".join(freqs) + "\0"
        t.ctrl_if.sock.inbox.append((text.encode(), ("127.0.0.1", 5555)))
        try:
            t.ctrl_if.handle_rx()
        except Exception as e:
            return {"confirmed": True, "observed": "raises %s" % type(e).__name__, "expected": "one response", "datagram_octets": len(text)}
        got = len(t.fh.ma) if t.fh is not None else 0
        return {"confirmed": got != pairs or len(t.ctrl_if.sock.sent) != 1, "observed": "%d channels configured" % got, "expected": "%d channels" % pairs,
                "datagram_octets": len(text)}
    if what == "measure":
        # the list of the counter-model with real FakeTRX objects (one per identity), hopping ones with a real HoppingParams whose
        # allocation avoids the measured frequency; the statement: TRX window iff a running fixed-frequency transceiver transmits on freq
        pm = toolkit("fake_pm")
        gs = toolkit("gsm_shared")
        objs = {}
        for k, d in enumerate(f["transceivers"]):
            if d["id"] not in objs:
                t = native_trx(name="T%d" % k, base_port=5700 + 10 * (k % 100))
                t._rx_freq, t._tx_freq = d["tx_freq"], d["tx_freq"]
                t.fh = gs.HoppingParams(0, 0, [(f["freq"] + 7, f["freq"] + 11)]) if d["hopping"] else None
                t.running = bool(d["running"])
                objs[d["id"]] = t
        p = pm.FakePM(-120, -105, -75, -50)
        p.trx_list = [objs[d["id"]] for d in f["transceivers"]]
        hit = any(d["running"] and not d["hopping"] and d["tx_freq"] is not None and d["tx_freq"] == f["freq"] for d in f["transceivers"])
        lo, hi = (-75, -50) if hit else (-120, -105)
        seen = set()
        try:
            for _ in range(40):
                seen.add(p.measure(f["freq"]))
        except Exception as e:
            return {"confirmed": True, "observed": "raises %s: %s" % (type(e).__name__, e), "expected": "a value in %d..%d" % (lo, hi)}
        bad = sorted(v for v in seen if not (isinstance(v, int) and lo <= v <= hi))
        return {"confirmed": bool(bad) and not f.get("truncated"), "observed": bad or sorted(seen), "expected": "values in %d..%d" % (lo, hi)}
    if what == "versions":
        dm = toolkit("data_msg")
        got = (tuple(dm.Msg.KNOWN_VERSIONS), dm.Msg.CHDR_VERSION_MAX)
        return {"confirmed": got != (S.KNOWN_VERSIONS, S.VER_MAX), "observed": got, "expected": (S.KNOWN_VERSIONS, S.VER_MAX)}
    if what == "send_response":
        import time as _time
        cim = toolkit("ctrl_if")
        bad = []
        for delay in (0, 1, 250):
            for code in (0, -1, 7):
                for req in (["POWERON"], ["TXTUNE", "941600"], ["SETFH", "1", "0"] + [str(900000 + k) for k in range(128)]):
                    for params in (None, ["-77"], ["5", "6"]):
                        t = native_trx()
                        t.ctrl_if.rsp_delay_ms = delay
                        slept = []
                        orig = cim.time.sleep
                        cim.time.sleep = lambda x: slept.append(x)
                        try:
                            t.ctrl_if.send_response(list(req), ("10.0.0.1", 4711), code, None if params is None else list(params))
                            got = list(t.ctrl_if.sock.sent)
                        except Exception as e:
                            got = "raises %s: %s" % (type(e).__name__, e)
                        finally:
                            cim.time.sleep = orig
                        text = "RSP " + " ".join([req[0], str(code)] + req[1:] + (params or [])) + "\0"
                        want = [(text.encode(), ("10.0.0.1", 4711))]
                        if got != want or bool(slept) != (delay > 0) or (slept and abs(slept[0] - delay / 1000.0) > 1e-9):
                            bad.append({"request": req[:4], "code": code, "params": params, "delay_ms": delay, "observed": repr(got)[:160], "slept": slept,
                                        "expected": repr(want)[:160]})
        return {"confirmed": bool(bad), "observed": bad[:3] or "as specified", "expected": "one NUL-terminated RSP <verb> <status> <args> [results] to the requester, delayed only when configured"}
    if what in ("set_hdr_ver", "pick_hdr_ver"):
        di = toolkit("data_if")
        d = di.DATAInterface.__new__(di.DATAInterface)
        d._hdr_ver = 0
        v = f["ver_req"]
        if what == "pick_hdr_ver":
            exp = max([k for k in S.KNOWN_VERSIONS if k <= v] or [-1])
            return {"confirmed": d.pick_hdr_ver(v) != exp, "observed": d.pick_hdr_ver(v), "expected": exp}
        r = d.set_hdr_ver(v)
        return {"confirmed": r != (v in S.KNOWN_VERSIONS), "observed": r, "expected": v in S.KNOWN_VERSIONS}
    return {"confirmed": False, "error": "no native replay for %r" % what}

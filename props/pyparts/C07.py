"""C07 (Python half) - gsm_shared.HoppingParams against spec.mai_45002.

  HoppingParams.__init__(hsn, maio, ma)  raises ValueError iff ma is empty; else _pnm == 2^NBIN(len(ma)) - 1 (1 <= len <= 64)
  HoppingParams.fn2gsm_time(fn)          == spec.gsm_time(fn)                      (also C19)
  HoppingParams.resolve(fn)              pre: 0 <= fn < 2715648, 0 <= hsn,maio <= 63, 1 <= len(ma) <= 64, _pnm as established
                                         by __init__;  post: result is ma[mai_45002(hsn, maio, len(ma), fn)]; no exception
  RNTABLE                                 the live table equals the standard's 114 values
"""
import z3
from engine.common.core import Obligation, Cover, mval
from engine.pyvc.values import *
from engine.pyvc import models
from engine.pyvc.harness import toolkit, raw, where, new_engine, run_paths, path_obligations, register_fn, note_engine, qualname
from spec import mai_45002 as S
from spec import gsm_time as G

ID = "C07"
H = G.HYPERFRAME


def mk_ma(E, n):
    rx = z3.Array("ma.rx", z3.IntSort(), z3.IntSort())
    tx = z3.Array("ma.tx", z3.IntSort(), z3.IntSort())
    return SSeq("list", n, lambda i: (wrap_int(z3.Select(rx, models.zint(i))), wrap_int(z3.Select(tx, models.zint(i)))))


def build_py(run, prop=ID):
    gs = toolkit("gsm_shared")
    HP = gs.HoppingParams
    E = new_engine()
    # --- RNTABLE
    live = list(HP.RNTABLE)
    bad = [i for i in range(max(len(live), 114)) if i >= len(live) or i >= 114 or live[i] != S.RNTABLE[i]]
    run.add(Obligation(prop, "gsm_shared.HoppingParams.RNTABLE", "equals_standard_table", [], z3.BoolVal(not bad), kind="table",
                       where="src/target/trx_toolkit/gsm_shared.py", tag={"side": "py", "what": "rntable", "bad": bad[:8]}))
    run.fn("gsm_shared.HoppingParams.RNTABLE", "src/target/trx_toolkit/gsm_shared.py", 114, "live table vs the 114 values of TS 45.002")

    # --- fn2gsm_time
    f = raw(HP, "fn2gsm_time")
    register_fn(run, f)
    fn = z3.Int("fn")

    def setup(E):
        E.assume(z3.And(fn >= 0, fn < H))
        return {}
    for p, ctx, out in run_paths(E, setup, lambda E, ctx: E.call(f, [SInt(fn)])):
        tag = {"side": "py", "what": "fn2gsm_time"}
        if out[0] == "raise" or not isinstance(out[1], tuple) or len(out[1]) != 4:
            run.add(Obligation(prop, qualname(f), "returns_4_tuple", p.pc, z3.BoolVal(False), kind="post", where=where(f), tag=tag))
            continue
        for nm, got, want in zip(("t1", "t2", "t3", "tc"), out[1], G.gsm_time(fn)):
            run.add(Obligation(prop, qualname(f), "equals_spec_" + nm, p.pc, models.zint(E.as_int(got)) == want, kind="post", where=where(f), tag=tag))

    # --- __init__
    ini = raw(HP, "__init__")
    register_fn(run, ini)
    n = z3.Int("N")
    for nb in range(0, 8):
        lo, hi = (0, 0) if nb == 0 else (1 << (nb - 1), min((1 << nb) - 1, 64))
        cs = "nbin=%d" % nb

        def setup(E, lo=lo, hi=hi):
            E.assume(z3.And(n >= lo, n <= hi))
            obj = SObj(HP, {})
            return {"self": obj, "ma": mk_ma(E, n)}

        def inv(E, ctx):
            return E.call(ini, [ctx["self"], SInt(z3.Int("hsn")), SInt(z3.Int("maio")), ctx["ma"]])
        for p, ctx, out in run_paths(E, setup, inv):
            tag = {"side": "py", "what": "init", "nb": nb}
            hsn_ok = z3.And(z3.Int("hsn") >= 0, z3.Int("hsn") <= 63)
            if out[0] == "raise":
                # refusing parameters outside the statement's domain (N 1..64, HSN/MAIO 0..63) is allowed, and only by ValueError
                in_domain = z3.And(z3.BoolVal(nb != 0), hsn_ok, z3.Int("maio") >= 0, z3.Int("maio") <= 63, n <= 64)
                goal = z3.And(z3.BoolVal(issubclass(out[1].cls, ValueError)), z3.Not(in_domain))
                run.add(Obligation(prop, qualname(ini), "raises_ValueError_iff_empty_or_hsn_outside_0_63", p.pc, goal, kind="post", case=cs, where=where(ini), tag=tag))
                continue
            # a constructed object always satisfies resolve()'s pre-condition on the HSN (RNTABLE index in range): this is what lets the
            # TRXC SETFH handler accept arbitrary integers without endangering later clock ticks (C14)
            run.add(Obligation(prop, qualname(ini), "raises_ValueError_iff_empty_or_hsn_outside_0_63", p.pc, z3.And(z3.BoolVal(nb != 0), hsn_ok), kind="post", case=cs, where=where(ini), tag=tag))
            o = ctx["self"]
            pnm = o.attrs.get("_pnm")
            run.add(Obligation(prop, qualname(ini), "pnm_is_2^NBIN-1", p.pc,
                               models.zint(pnm) == (1 << nb) - 1 if isinstance(pnm, (int, SInt)) else z3.BoolVal(False),
                               kind="post", case=cs, where=where(ini), tag=tag))
            run.add(Obligation(prop, qualname(ini), "stores_params", p.pc,
                               z3.And(z3.BoolVal(o.attrs.get("ma") is ctx["ma"]),
                                      models.zint(o.attrs.get("hsn", 0)) == z3.Int("hsn"), models.zint(o.attrs.get("maio", 0)) == z3.Int("maio")),
                               kind="post", case=cs, where=where(ini), tag=tag))
        run.add(Cover(prop, qualname(ini), "cover_case", [n >= lo, n <= hi], case=cs))

    # --- resolve
    r = raw(HP, "resolve")
    register_fn(run, r)
    hsn, maio = z3.Int("hsn"), z3.Int("maio")
    rxa = z3.Array("ma.rx", z3.IntSort(), z3.IntSort())
    txa = z3.Array("ma.tx", z3.IntSort(), z3.IntSort())
    E.summaries = {}
    def resolve_case(case):
        N, cyc = case
        nb = N.bit_length()
        out_obls = []

        class R:
            @staticmethod
            def add(*o):
                out_obls.extend(o)
        run_ = R
        cs = "N=%d,%s" % (N, "hsn=0" if cyc else "hsn>0")
        pre = [fn >= 0, fn < H, maio >= 0, maio <= 63, n == N,
               (hsn == 0) if cyc else z3.And(hsn >= 1, hsn <= 63)]

        def setup(E, pre=pre, nb=nb, N=N):
            for c in pre:
                E.assume(c)
            obj = SObj(HP, {"hsn": SInt(hsn), "maio": SInt(maio), "ma": mk_ma(E, N), "_pnm": (1 << nb) - 1})
            return {"self": obj}

        def inv(E, ctx):
            return E.call(r, [ctx["self"], SInt(fn)])
        spec_mai = S.mai(hsn, maio, N, nb, fn) if not cyc else (fn + maio) % N
        for p, ctx, out in run_paths(E, setup, inv):
            tag = {"side": "py", "what": "resolve", "nb": nb, "N": N}
            run_.add(*path_obligations(None, prop, r, p, cs))
            if out[0] == "raise":
                run_.add(Obligation(prop, qualname(r), "no_exception", p.pc, z3.BoolVal(False), kind="noexc",
                                   case=cs + "," + out[1].cls.__name__, where=where(r), tag=tag))
                continue
            res = out[1]
            if not (isinstance(res, tuple) and len(res) == 2):
                run_.add(Obligation(prop, qualname(r), "returns_ma_entry", p.pc, z3.BoolVal(False), kind="post", case=cs, where=where(r), tag=tag))
                continue
            t0, t1 = models.zint(res[0]), models.zint(res[1])
            if z3.is_select(t0) and z3.is_select(t1) and z3.eq(t0.arg(0), rxa) and z3.eq(t1.arg(0), txa) and z3.eq(t0.arg(1), t1.arg(1)):
                # the result is syntactically ma[idx]: ma being arbitrary, "== ma[MAI] for all ma" is idx == MAI
                goal = t0.arg(1) == spec_mai
            else:
                goal = z3.And(t0 == z3.Select(rxa, spec_mai), t1 == z3.Select(txa, spec_mai))
            run_.add(Obligation(prop, qualname(r), "selects_MA[MAI]", p.pc, goal, kind="post", case=cs, where=where(r), tag=tag))
        run_.add(Cover(prop, qualname(r), "cover_pre", pre, case=cs))
        return out_obls
    from engine.pyvc.harness import par_cases
    par_cases(run, E, [(N, cyc) for N in range(1, 65) for cyc in (True, False)], resolve_case)
    note_engine(run, E)
    run.assume("resolve: maio in 0..63, 1 <= len(ma) <= 64 (domain of the statement); hsn in 0..63 is established by __init__ (obligation above); ma entries are (rx, tx) pairs")
    run.extra["py_paths_explored"] = E.stats["paths"]


def witness_py(o, model):
    t = dict(o.tag or {})
    if t.get("what") == "resolve":
        t.update(hsn=mval(model, z3.Int("hsn")), maio=mval(model, z3.Int("maio")), n=t.get("N") or mval(model, z3.Int("N")), fn=mval(model, z3.Int("fn")))
    elif t.get("what") == "init":
        t.update(n=mval(model, z3.Int("N")), hsn=mval(model, z3.Int("hsn")), maio=mval(model, z3.Int("maio")))
    elif t.get("what") == "fn2gsm_time":
        t.update(fn=mval(model, z3.Int("fn")))
    return t


def block_model_py(o, model):
    if (o.tag or {}).get("what") == "resolve":
        return z3.Or(z3.Int("fn") != model.eval(z3.Int("fn"), model_completion=True),
                     z3.Int("N") != model.eval(z3.Int("N"), model_completion=True))
    return None


def known_predicate_py(o, k):
    return None


def replay_py(payload):
    f = payload["inputs"]
    gs = toolkit("gsm_shared")
    what = f.get("what")
    if what == "rntable":
        return {"confirmed": bool(f.get("bad")), "observed": "entries differ at %s" % f.get("bad"), "expected": "standard table"}
    if what == "fn2gsm_time":
        got = tuple(gs.HoppingParams.fn2gsm_time(f["fn"]))
        exp = G.gsm_time(f["fn"])
        return {"confirmed": got != tuple(exp), "observed": got, "expected": exp}
    if what == "init":
        n, hsn, maio = max(0, min(200, f["n"])), f.get("hsn", 1), f.get("maio", 0)
        ma = [(1000 + i, 2000 + i) for i in range(n)]
        in_domain = 1 <= n <= 64 and 0 <= hsn <= 63 and 0 <= maio <= 63
        try:
            hp = gs.HoppingParams(hsn, maio, ma)
        except ValueError:
            return {"confirmed": in_domain, "observed": "ValueError", "expected": "constructed" if in_domain else "ValueError allowed (outside N 1..64, HSN/MAIO 0..63)"}
        except Exception as e:
            return {"confirmed": True, "observed": "raises %s" % type(e).__name__, "expected": "ValueError or an object"}
        if n == 0:
            return {"confirmed": True, "observed": "object with an empty mobile allocation", "expected": "ValueError"}
        # a constructed object must be usable: resolve() over a few frames must not raise (this is what a wrong HSN breaks)
        try:
            for fn in (0, 1, 51, 1325, 1326, 2715647):
                r = hp.resolve(fn)
                if in_domain and r != ma[S.mai_concrete(hsn, maio, n, fn)]:
                    return {"confirmed": True, "observed": [fn, r], "expected": "MA[MAI] per TS 45.002 6.2.3"}
        except Exception as e:
            return {"confirmed": True, "observed": "HoppingParams(%d, %d, %d channels) constructed, resolve raises %s" % (hsn, maio, n, type(e).__name__),
                    "expected": "refused by the constructor, or usable"}
        return {"confirmed": False, "observed": "as specified", "expected": "as specified"}
    if what == "resolve":
        n = f["n"]
        ma = [(1000 + i, 2000 + i) for i in range(n)]
        hp = gs.HoppingParams(f["hsn"], f["maio"], ma)
        try:
            got = hp.resolve(f["fn"])
        except Exception as e:
            got = "raises %s" % type(e).__name__
        exp = ma[S.mai_concrete(f["hsn"], f["maio"], n, f["fn"])]
        return {"confirmed": got != exp, "observed": got, "expected": exp, "inputs": f}
    return {"confirmed": False, "error": "unknown witness"}

"""C14 (Python half) - no datagram or capture content can crash the tools.

  Msg.parse_msg (Tx, Rx)                    for EVERY octet string: only ValueError (clause shared with C01, all its obligations re-discharged here)
  DATAInterface.recv_tx_msg / recv_rx_msg   never raise; return None or a message in the negotiated version
  Transceiver.recv_data_msg                 never raises; a rejected datagram leaves queue and state unchanged (obligations shared with C03)
  CTRLInterface.handle_rx                   never raises for: undecodable (non-UTF-8) octets, non-CMD text, commands whose arguments are not
                                            numbers (every verb, every argument position), commands with missing arguments;
                                            at most one response; a command with a non-numeric argument is answered with a non-zero status
  class invariant (thresholds)              FAKE_* randomisation thresholds stay >= 0 under every command (so the simulated-radio getters
                                            never raise in the clock thread: C10/C18 prove handle_data_msg exception-free under this invariant)
  DATADumpFile._seek2msg/_parse_msg/parse_msg/parse_all   never raise on ANY file content (no well-formedness assumed)
"""
import z3
from engine.common.core import Obligation, Cover, mval
from engine.pyvc.values import *
from engine.pyvc import models
from engine.pyvc.interp import SFile
from engine.pyvc.loops import LoopSpec
from engine.pyvc.harness import toolkit, raw, where, new_engine, run_paths, path_obligations, register_fn, note_engine, qualname, par_cases, exc_note, sect
from contracts.py import trx as T
from contracts.py.common import snapshot, attr, mk_sock, GhostSocket
from contracts.py.tokens import IntTok, BadTok
from spec import trxc as S
from spec import trxd_layout as L

ID = "C14"
Z = models.zint
I, B = z3.IntSort(), z3.BoolSort()


def build_py(run, prop=ID):
    from props import C01, C03
    dm = toolkit("data_msg")
    E = new_engine()
    sect(run, C01.build_parse, run, prop, dm, E)
    sect(run, C03.build_recv, run, prop, E)
    sect(run, build_recv_rx, run, prop, E)
    sect(run, build_handle_rx, run, prop, E)
    sect(run, build_threshold_invariant, run, prop, E)
    sect(run, build_forward_chain, run, prop, E)
    sect(run, build_capture_reader, run, prop, E)
    note_engine(run, E)
    run.assume("TRXC datagram classes: undecodable octets (bytes.decode raises UnicodeDecodeError), text not starting with 'CMD', canonical "
               "commands whose arguments are decimal literals or arbitrary non-numeric junk; missing arguments = fewer tokens")
    run.assume("'goes on serving subsequent valid input correctly': rejected input leaves the state the other contracts (C02/C03/C05) start from; "
               "a non-numeric argument may leave a partial update of the same command's own fields (the statement allows 'error status or ignored')")
    run.extra["py_paths_explored"] = E.stats["paths"]


# ------------------------------------------------------------------ recv_rx_msg

def build_recv_rx(run, prop, E):
    di = toolkit("data_if")
    dm = toolkit("data_msg")
    f = raw(di.DATAInterface, "recv_rx_msg")
    register_fn(run, f)
    hv = z3.Int("hdr_ver")
    E.summaries = {"data_msg.RxMsg.desc_hdr": lambda E, f_, a, k: FmtStr("desc_hdr", (a[0],))}

    def setup(E):
        sock = mk_sock(E, "data.sock")
        n = z3.Int("d.len")
        E.assume(z3.And(n >= 0, n <= 65507))
        sock.attrs["pending"] = models.fresh_seq(E, "d", "bytes", n, 0, 255)
        link = SObj(di.DATAInterface, {"sock": sock, "remote_addr": "127.0.0.1", "remote_port": 5802, "_hdr_ver": SInt(hv)})
        E.assume(z3.Or(hv == 0, hv == 1))
        return {"self": link}
    for p, ctx, out in run_paths(E, setup, lambda E, ctx: E.call(f, [ctx["self"]])):
        tag = {"side": "py", "what": "recv_rx_msg"}
        if out[0] == "raise":
            run.add(Obligation(prop, qualname(f), "never_raises", p.pc, z3.BoolVal(False), kind="noexc", note=exc_note(out[1]), case=out[1].cls.__name__, where=where(f), tag=tag))
            continue
        r = out[1]
        ok = r is None or (isinstance(r, SObj) and r.cls is dm.RxMsg)
        goal = z3.BoolVal(bool(ok))
        if isinstance(r, SObj):
            goal = z3.And(goal, Z(attr(r, "ver")) == hv)
        run.add(Obligation(prop, qualname(f), "returns_None_or_message_in_negotiated_version", p.pc, goal, kind="post", where=where(f), tag=tag))


# ------------------------------------------------------------------ handle_rx on malformed input

class RawText:
    """datagram octets that are not a canonical command: either not valid UTF-8, or text not starting with 'CMD'"""

    def __init__(self, undecodable, stage="bytes"):
        self.undecodable, self.stage = undecodable, stage

    def pyvc_method(self, E, name, args, kwargs):
        if name == "decode" and self.stage == "bytes":
            if self.undecodable:
                E.raise_(UnicodeDecodeError, "utf-8", implicit="decode")
            return RawText(False, "str")
        if name == "startswith" and self.stage == "str":
            return False
        raise Unsupported("RawText.%s" % name)


def malformed_cases():
    cases = [("raw", "undecodable", 0, ()), ("raw", "not-a-command", 0, ())]
    argcs = {"POWERON": 0, "POWEROFF": 0, "RXTUNE": 1, "TXTUNE": 1, "MEASURE": 1, "SETFH": 4, "SETFORMAT": 1, "SETPOWER": 1, "NOMTXPOWER": 0, "RFMUTE": 1,
             "SETTA": 1, "FAKE_TOA": 2, "FAKE_RSSI": 2, "FAKE_CI": 2, "FAKE_DROP": 2, "FAKE_TRXC_DELAY": 1, "XYZZY": 1}
    for verb, n in argcs.items():
        for argc in sorted(set([max(0, n - 1), n])):
            # every subset of argument positions non-numeric (up to 4 positions)
            for mask in range(1 << argc):
                cases.append(("cmd", verb, argc, tuple(bool(mask >> i & 1) for i in range(argc))))
    cases.append(("cmd", "", 0, ()))          # "CMD" followed by nothing: one empty token
    return cases


def build_handle_rx(run, prop, E):
    from props.pyparts.C05 import WireCmd, recv_model, measure_summary, handler_summary, str_summary, arg
    cif = toolkit("ctrl_if")
    citrx = toolkit("ctrl_if_trx")
    f = raw(cif.CTRLInterface, "handle_rx")
    register_fn(run, f)
    register_fn(run, raw(citrx.CTRLInterfaceTRX, "parse_cmd"), "inlined into handle_rx")
    register_fn(run, raw(toolkit("fake_trx").FakeTRX, "ctrl_cmd_handler"), "inlined into handle_rx")
    register_fn(run, raw(cif.CTRLInterface, "send_response"), "inlined into handle_rx")
    models._REG[id(GhostSocket.recvfrom)] = (GhostSocket.recvfrom, recv_model)
    gs = toolkit("gsm_shared")
    summ = {"transceiver.Transceiver.power_event_handler": handler_summary, "fake_pm.FakePM.measure": measure_summary,
            "transceiver.Transceiver.__str__": str_summary, "gsm_shared.HoppingParams.__str__": lambda E, f_, a, k: FmtStr("fh", (a[0],))}
    src = ("192.168.1.9", 5555)

    def one(case):
        kind, verb, argc, badmask = case
        E.summaries = summ
        obls = []
        cs = "%s,%s/%d,bad=%s" % (kind, verb, argc, "".join("x" if b else "n" for b in badmask))

        def setup(E):
            t = T.mk_trx(E, "t.")
            t.attrs["pwr_meas"] = SObj(toolkit("fake_pm").FakePM, {})
            sock = t.attrs["ctrl_if"].attrs["sock"]
            if kind == "raw":
                sock.attrs["pending"] = RawText(verb == "undecodable")
            else:
                toks = [verb] + [(BadTok("junk%d" % i) if badmask[i] else IntTok(arg(i))) for i in range(argc)]
                sock.attrs["pending"] = WireCmd("CMD ", toks, True, "bytes", z3.IntVal(5))
            sock.attrs["pending_src"] = src
            return {"self": t, "pre": snapshot(t)}
        for p, ctx, out in run_paths(E, setup, lambda E, ctx: E.call(f, [ctx["self"].attrs["ctrl_if"]])):
            tag = {"side": "py", "what": "handle_rx_bad", "kind": kind, "verb": verb, "argc": argc, "bad": list(badmask)}
            if out[0] == "raise":
                obls.append(Obligation(prop, qualname(f), "never_raises", p.pc, z3.BoolVal(False), kind="noexc", note=exc_note(out[1]), case=cs + "," + out[1].cls.__name__, where=where(f), tag=tag))
                continue
            sent = p.ghost.get("sent", [])
            t = ctx["self"]
            if kind == "raw":
                ok = sent == [] and all(t.attrs.get(k) is ctx["pre"][k][0] for k in ctx["pre"])
                obls.append(Obligation(prop, qualname(f), "non_command_ignored_without_effect", p.pc, z3.BoolVal(bool(ok)), kind="post", case=cs, where=where(f), tag=tag))
                continue
            obls.append(Obligation(prop, qualname(f), "at_most_one_response_to_the_sender", p.pc,
                                   z3.BoolVal(len(sent) <= 1 and all(s[2] == src for s in sent)), kind="post", case=cs, where=where(f), tag=tag))
            obls.append(Obligation(prop, qualname(f), "drop_counters_stay_sane", p.pc, T.invariant_of(t), kind="inv", case=cs, where=where(f), tag=tag))
            # a command one of whose arguments is not a number and that the verb would have converted: error status
            # (checked when every argument is junk: whichever argument the verb converts first, the conversion fails;
            #  with mixed arguments a verb may legitimately not look at the junk one, e.g. FAKE_RSSI <x> -1 = "disable")
            if badmask and all(badmask) and len(sent) == 1:
                from props.pyparts.C05 import flatten, tokens_of
                st = tokens_of(flatten(sent[0][1]))[2:3]          # RSP <verb> <status> ...
                consumed = S.effect(verb, [z3.IntVal(0)] * argc, {"has_pm": True, "running": z3.BoolVal(False), "ready": z3.BoolVal(True), "hdr_ver": z3.IntVal(0),
                                                                   **{k: z3.IntVal(0) for k in ("toa256_base", "toa256_thr", "rssi_base", "rssi_thr", "ci_base", "ci_thr", "drop_amount", "drop_period", "rsp_delay_ms")}})
                known_form = bool(consumed[2]) or consumed[1] is not None
                if known_form and argc > 0:
                    if st and isinstance(st[0], FmtStr) and st[0].fmt == "int":
                        goal = Z(st[0].args[0]) != 0
                    elif st and isinstance(st[0], str):
                        goal = z3.BoolVal(st[0].lstrip("-").isdigit() and int(st[0]) != 0)
                    else:
                        goal = z3.BoolVal(False)
                    obls.append(Obligation(prop, qualname(f), "non_numeric_argument_answered_with_error_status", p.pc, goal, kind="post", case=cs, where=where(f), tag=tag))
        return obls
    par_cases(run, E, malformed_cases(), one)
    from contracts.py.common import _recvfrom
    models._REG[id(GhostSocket.recvfrom)] = (GhostSocket.recvfrom, _recvfrom)
    E.summaries = {}


# ------------------------------------------------------------------ thresholds invariant

def thresholds_of(t):
    a = t.attrs
    return z3.And(Z(a["toa256_rand_threshold"]) >= 0, Z(a["rssi_rand_threshold"]) >= 0, Z(a["ci_rand_threshold"]) >= 0)


def build_threshold_invariant(run, prop, E):
    """thresholds >= 0 is established by FakeTRX.__init__ (all 0) and must be preserved by every command with numeric arguments"""
    from props.pyparts.C05 import measure_summary, handler_summary, str_summary, arg
    ft = toolkit("fake_trx")
    citrx = toolkit("ctrl_if_trx")
    pc = raw(citrx.CTRLInterfaceTRX, "parse_cmd")
    thr_pre = z3.And(T.fz("t.", "toa256_rand_threshold") >= 0, T.fz("t.", "rssi_rand_threshold") >= 0, T.fz("t.", "ci_rand_threshold") >= 0)
    ok0 = (ft.FakeTRX.TOA256_NOISE_DEFAULT is not None)
    E.summaries = {"transceiver.Transceiver.power_event_handler": handler_summary, "fake_pm.FakePM.measure": measure_summary,
                   "transceiver.Transceiver.__str__": str_summary, "gsm_shared.HoppingParams.__str__": lambda E, f_, a, k: FmtStr("fh", (a[0],))}
    cases = [(v, n) for v in S.VERBS for n in range(0, 4)] + [("SETFH", 4)]

    def one(case):
        verb, argc = case
        obls = []
        cs = "%s/%d" % (verb, argc)

        def setup(E):
            t = T.mk_trx(E, "t.")
            E.assume(thr_pre)
            t.attrs["pwr_meas"] = SObj(toolkit("fake_pm").FakePM, {})
            return {"self": t}
        for p, ctx, out in run_paths(E, setup, lambda E, ctx: E.call(pc, [ctx["self"].attrs["ctrl_if"], [verb] + [IntTok(arg(i)) for i in range(argc)]])):
            tag = {"side": "py", "what": "thr_inv", "verb": verb, "argc": argc}
            if out[0] == "raise":
                continue        # C05's obligation
            obls.append(Obligation(prop, qualname(pc), "thresholds_stay_non_negative", p.pc, thresholds_of(ctx["self"]), kind="inv", case=cs, where=where(pc), tag=tag))
        return obls
    par_cases(run, E, cases, one)
    # established by the constructor
    ini = raw(ft.FakeTRX, "__init__")
    register_fn(run, ini)
    tr = toolkit("transceiver")
    E.summaries = {"transceiver.Transceiver.__init__": lambda E, func, args, kwargs: None}     # its own contract: C12 (initial_state_idle_untuned, link ports)
    npaths = 0
    for p, ctx, out in run_paths(E, lambda E: {"self": SObj(ft.FakeTRX, {})}, lambda E, ctx: E.call(ini, [ctx["self"], "0.0.0.0", "127.0.0.1", 5700])):
        tag = {"side": "py", "what": "thr_init"}
        npaths += 1
        if out[0] == "raise":
            run.add(Obligation(prop, qualname(ini), "never_raises", p.pc, z3.BoolVal(False), kind="noexc", note=exc_note(out[1]), case=out[1].cls.__name__, where=where(ini), tag=tag))
            continue
        a = ctx["self"].attrs
        names = ("toa256_rand_threshold", "rssi_rand_threshold", "ci_rand_threshold")
        goal = z3.And([Z(a[n]) >= 0 for n in names]) if all(n in a for n in names) else z3.BoolVal(False)
        run.add(Obligation(prop, qualname(ini), "thresholds_initially_non_negative", p.pc, goal, kind="inv", where=where(ini), tag=tag))
        goal = (z3.And(Z(a["burst_drop_amount"]) >= 0, Z(a["burst_drop_period"]) >= 1) if "burst_drop_amount" in a and "burst_drop_period" in a else z3.BoolVal(False))
        run.add(Obligation(prop, qualname(ini), "drop_counters_initially_inside_the_class_invariant", p.pc, goal, kind="inv", where=where(ini), tag=tag))
    if npaths == 0:
        run.add(Obligation(prop, qualname(ini), "constructor_paths_exist", [], z3.BoolVal(False), kind="cover", where=where(ini)))
    E.summaries = {}


# ------------------------------------------------------------------ the clock thread never raises on any accepted datagram

def build_forward_chain(run, prop, E):
    """Whatever TxMsg the parser accepted (its burst may be absent or of ANY length up to 444 - parse_burst only cuts longer ones),
    TxMsg.trans + FakeTRX.handle_data_msg (the work the clock thread does for it at its tick) return normally, under the class
    invariant (thresholds >= 0, drop counters sane).  send_msg, pick and the FAKE_* getters are used through their contracts."""
    from contracts.py import radio as R
    from props.C18 import sim_drop_summary
    ft = toolkit("fake_trx")
    dm = toolkit("data_msg")
    h = raw(ft.FakeTRX, "handle_data_msg")
    tr = raw(dm.TxMsg, "trans")
    register_fn(run, h)
    register_fn(run, tr)
    E.summaries = dict(R.radio_summaries())
    del E.summaries["fake_trx.FakeTRX._handle_data_msg_v1"]          # executed for real: it is where a burst-less message hurts

    def pick_weak(E, func, args, kwargs):
        """weakening of TrainingSeqGMSK.pick's contract that suffices for exception freedom: None, or some member (tsc 0..7, tsc_set 0)"""
        b = args[-1]
        if isinstance(b, SOpt):
            b = E.deopt(b)
        E.require("pre_pick_burst_len_148", Z(b.length) == 148, kind="pre")
        if E.branch(z3.Bool(E.fresh("pick_none"))):
            return None
        k = E.fresh_int("picked.tsc")
        E.assume(z3.And(k >= 0, k <= 7))
        return SObj(toolkit("gsm_shared").TrainingSeqGMSK, {"tsc": SInt(k), "tsc_set": 0}, label="some-member")
    E.summaries["gsm_shared.TrainingSeqGMSK.pick"] = pick_weak
    E.summaries.update({"data_if.DATAInterface.send_msg": T.send_msg_summary, "fake_trx.FakeTRX.sim_burst_drop": sim_drop_summary})
    fn, tn, pwr, ver, bl = z3.Int("sm.fn"), z3.Int("sm.tn"), z3.Int("sm.pwr"), z3.Int("sm.ver"), z3.Int("sm.burst.len")
    thr_ok = z3.And(T.fz("t.", "toa256_rand_threshold") >= 0, T.fz("t.", "rssi_rand_threshold") >= 0, T.fz("t.", "ci_rand_threshold") >= 0)

    hv = T.fz("t.", "_hdr_ver")
    cases = [(v, b) for v in (0, 1) for b in ("none", "148", "444", "other")]

    def one(case):
        v, b = case
        cs = "recipient_ver=%d,burst=%s" % (v, b)
        obls = []

        def setup(E):
            t = T.mk_trx(E, "t.")
            s = T.mk_trx(E, "s.", name="SRC")
            E.assume(thr_ok)
            E.assume(hv == v)
            # post-condition of parse_msg (C01/C04): any 32-bit FN, TN 0..7, any attenuation octet, version 0/1, burst absent or 1..444 octets
            E.assume(z3.And(fn >= 0, fn < (1 << 32), tn >= 0, tn <= 7, pwr >= 0, pwr <= 255, z3.Or(ver == 0, ver == 1), bl >= 1, bl <= 444))
            none = z3.Bool("sm.burst?none")
            E.assume(none == (b == "none"))
            if b in ("148", "444"):
                E.assume(bl == int(b))
            elif b == "other":
                E.assume(z3.And(bl != 148, bl != 444))
            sm = SObj(dm.TxMsg, {"fn": SInt(fn), "tn": SInt(tn), "pwr": SInt(pwr), "ver": SInt(ver),
                                 "burst": SOpt(none, models.fresh_seq(E, "sm.burst", "bytearray", bl, 0, 255))})
            return {"t": t, "s": s, "sm": sm}

        def invoke(E, ctx):
            t = ctx["t"]
            m = E.call(tr, [ctx["sm"]], {"ver": t.attrs["data_if"].attrs["_hdr_ver"]})
            E.call(h, [t, ctx["s"], ctx["sm"], m])
            return None
        nret = 0
        for p, ctx, out in run_paths(E, setup, invoke):
            tag = {"side": "py", "what": "forward_chain"}
            obls.extend(path_obligations(None, prop, h, p, cs, tag=tag))
            if out[0] == "raise":
                obls.append(Obligation(prop, qualname(h), "clock_thread_work_never_raises_on_accepted_datagram", p.pc, z3.BoolVal(False), kind="noexc",
                                       case=cs + "," + out[1].cls.__name__, where=where(h), tag=dict(tag, exc=out[1].cls.__name__)))
            else:
                nret += 1
                obls.append(Obligation(prop, qualname(h), "clock_thread_work_never_raises_on_accepted_datagram", p.pc, z3.BoolVal(True), kind="noexc", case=cs + ",returns", where=where(h), tag=tag))
        if nret == 0:
            obls.append(Obligation(prop, qualname(h), "some_path_returns", [], z3.BoolVal(False), kind="cover", case=cs, where=where(h)))
        return obls
    par_cases(run, E, cases, one)
    E.summaries = {}


# ------------------------------------------------------------------ capture reader on arbitrary content

def build_capture_reader(run, prop, E):
    dd = toolkit("data_dump")
    dm = toolkit("data_msg")
    from props.C15 import hdr_summary
    E.summaries = {}

    def true_inv(E, fr, i):
        return z3.BoolVal(True)

    def havoc_file(E, fr, i):
        E.ghost["file"].pos = E.fresh_int("pos")
        E.assume(Z(E.ghost["file"].pos) >= 0)
        for k in ("hdr_raw", "rc", "msg_len", "_", "msg"):
            fr.locals.pop(k, None)
        if "result" in fr.locals:
            fr.locals["result"] = models.obj_seq(z3.Array(E.fresh("result.ids"), I, I), E.fresh_int("result.len"), lambda idt: SRef(dm.Msg, idt, {}), lambda v: z3.IntVal(0))
            E.assume(Z(fr.locals["result"].length) >= 0)
    E.loop_specs = {("data_dump.DATADumpFile._seek2msg", 1): LoopSpec("seek_loop_any_content", havoc_file, true_inv),
                    ("data_dump.DATADumpFile.parse_all", 1): LoopSpec("read_loop_any_content", havoc_file, true_inv)}
    cut = z3.Int("file.len")

    def parse_any(E, func, args, kwargs):
        """Msg.parse_msg contract (C01/C14): returns or raises ValueError - nothing else"""
        if E.branch(z3.Bool(E.fresh("accepted"))):
            return None
        E.raise_(ValueError, "contract: parse_msg rejects")
    E.summaries = {"data_msg.Msg.parse_msg": parse_any}
    idx, skip, count = z3.Int("idx"), z3.Int("skip"), z3.Int("count")
    calls = [("_seek2msg", lambda d: [d, SInt(idx)], [idx >= 0]), ("_parse_msg", lambda d: [d], []), ("parse_msg", lambda d: [d, SInt(idx)], [idx >= 0]),
             ("parse_all", lambda d: [d, None, None], []), ("parse_all", lambda d: [d, SInt(skip), SInt(count)], [skip >= 0, count >= 1]),
             ("parse_hdr", lambda d: [d, models.fresh_seq(E, "hdr", "bytes", 3, 0, 255)], [])]
    for name, mkargs, pre in calls:
        f = raw(dd.DATADumpFile if name != "parse_hdr" else dd.DATADump, name)
        register_fn(run, f)

        def setup(E, pre=pre):
            E.assume(cut >= 0)
            for c in pre:
                E.assume(c)
            fobj = SFile(models.fresh_seq(E, "file", "bytes", cut, 0, 255), z3.Int("pos0"))
            E.assume(z3.Int("pos0") >= 0)
            E.ghost["file"] = fobj
            return {"self": SObj(dd.DATADumpFile, {"f": fobj})}
        nn = 0
        for p, ctx, out in run_paths(E, setup, lambda E, ctx, f=f, mkargs=mkargs: E.call(f, mkargs(ctx["self"]))):
            tag = {"side": "py", "what": "reader_any", "func": name}
            run.add(*path_obligations(run, prop, f, p, name, tag=tag))
            if out[0] == "raise":
                run.add(Obligation(prop, qualname(f), "never_raises_on_any_content", p.pc, z3.BoolVal(False), kind="noexc", note=exc_note(out[1]), case=out[1].cls.__name__, where=where(f), tag=tag))
            else:
                nn += 1
                run.add(Obligation(prop, qualname(f), "never_raises_on_any_content", p.pc, z3.BoolVal(True), kind="noexc", case="returns", where=where(f), tag=tag))
        if nn == 0:
            run.add(Obligation(prop, qualname(f), "some_path_returns", [], z3.BoolVal(False), kind="cover", where=where(f)))
    E.loop_specs = {}
    E.summaries = {}


# ------------------------------------------------------------------ witness / replay

def witness_py(o, model):
    t = dict(o.tag or {}) if isinstance(o.tag, dict) else {}
    what = t.get("what") or t.get("side")
    if t.get("side") == "parse":
        from props import C01
        return C01.witness(o, model)
    for i in range(4):
        t["arg%d" % (i + 1)] = mval(model, z3.Int("arg%d" % (i + 1)))
    n = mval(model, z3.Int("d.len"))
    arr = z3.Array("d", I, I)
    t["data"] = [min(255, max(0, mval(model, z3.Select(arr, i)))) for i in range(min(n, 1024))]
    t["hdr_ver"] = mval(model, z3.Int("hdr_ver"))
    for nme in ("sm.fn", "sm.tn", "sm.pwr", "sm.ver", "sm.burst.len", "t._hdr_ver"):
        t[nme] = mval(model, z3.Int(nme))
    for nme in T.INT_FIELDS:
        t["t." + nme] = mval(model, T.fz("t.", nme))
    t["sm.burst?none"] = mval(model, z3.Bool("sm.burst?none"))
    t["t.rf_muted"] = mval(model, z3.Bool("t.rf_muted"))
    return t


def replay_py(payload):
    from contracts.py.native import native_trx
    f = payload["inputs"]
    what = f.get("what")
    dm = toolkit("data_msg")
    if f.get("side") == "parse":
        from props import C01
        return C01.replay(payload)
    if what == "thr_init":
        t = native_trx()
        got = {n: getattr(t, n, None) for n in ("toa256_rand_threshold", "rssi_rand_threshold", "ci_rand_threshold", "burst_drop_amount", "burst_drop_period")}
        ok = all(isinstance(v, int) for v in got.values()) and all(got[n] >= 0 for n in got) and got["burst_drop_period"] >= 1
        if ok:
            try:
                (t.toa256, t.rssi, t.ci)
            except Exception as e:
                ok, got = False, dict(got, getters="raise %s: %s" % (type(e).__name__, e))
        return {"confirmed": not ok, "observed": got, "expected": "thresholds >= 0, drop amount >= 0, drop period >= 1 on a fresh transceiver"}
    if what == "handle_rx_bad":
        t = native_trx()
        t.pwr_meas = type("PM", (), {"measure": lambda s, fr: -77})()
        t.power_event_handler = lambda poweron: None
        if f["kind"] == "raw":
            data = b"\xff\xfe\x80CMD" if f["verb"] == "undecodable" else b"HELLO WORLD\0"
        else:
            toks = [f["verb"]] + [("abc%d" % i if f["bad"][i] else str(f.get("arg%d" % (i + 1), 1) if i < 4 else 1)) for i in range(f["argc"])]
            data = ("CMD " + " ".join(toks) + "\0").encode()
        t.ctrl_if.sock.inbox.append((data, ("127.0.0.1", 5555)))
        try:
            t.ctrl_if.handle_rx()
        except Exception as e:
            return {"confirmed": True, "observed": "raises %s: %s" % (type(e).__name__, e), "expected": "returns normally", "datagram": repr(data)}
        return {"confirmed": len(t.ctrl_if.sock.sent) > 1, "observed": "%d responses" % len(t.ctrl_if.sock.sent), "expected": "at most one response", "datagram": repr(data)}
    if what == "thr_inv":
        # a well-formed command leaves a negative randomisation threshold behind: the next burst crashes the clock thread
        t, s = native_trx("T", 5700), native_trx("S", 6700)
        args = [str(f["arg%d" % (i + 1)]) for i in range(f["argc"])]
        rc = t.ctrl_if.parse_cmd([f["verb"]] + args)
        from array import array
        sm = dm.TxMsg(fn=1, tn=0)
        sm.pwr, sm.burst = 10, bytearray(148)
        try:
            t.handle_data_msg(s, sm, sm.trans(ver=1))
            return {"confirmed": False, "observed": "status %r, burst served" % (rc,), "expected": "burst served"}
        except Exception as e:
            return {"confirmed": True, "observed": "status %r for %s %s, then handle_data_msg raises %s: %s" % (rc, f["verb"], " ".join(args), type(e).__name__, e),
                    "expected": "command rejected or subsequent bursts served"}
    if what == "forward_chain":
        t, s = native_trx("T", 5700), native_trx("S", 6700)
        for nme in T.INT_FIELDS:
            if "t." + nme in f:
                setattr(t, nme, f["t." + nme])
        t.data_if._hdr_ver = f.get("t._hdr_ver", 1)
        t.rf_muted = bool(f.get("t.rf_muted", False))
        sm = dm.TxMsg(fn=f.get("sm.fn", 0), tn=f.get("sm.tn", 0), ver=f.get("sm.ver", 0))
        sm.pwr = f.get("sm.pwr", 0)
        sm.burst = None if f.get("sm.burst?none") else bytearray(max(1, min(444, f.get("sm.burst.len", 148))))
        try:
            t.handle_data_msg(s, sm, sm.trans(ver=t.data_if._hdr_ver))
            return {"confirmed": False, "observed": "returns", "expected": "returns"}
        except Exception as e:
            return {"confirmed": True, "observed": "raises %s: %s" % (type(e).__name__, e), "expected": "returns normally",
                    "message": "TxMsg ver=%s burst=%s" % (sm.ver, "None" if sm.burst is None else len(sm.burst))}
    if what in ("recv_rx_msg", "recv_tx_msg", "recv_data_msg"):
        t = native_trx()
        t.data_if._hdr_ver = f.get("hdr_ver", 0)
        t.data_if.sock.inbox.append((bytes(f.get("data", [])), ("127.0.0.1", 1)))
        try:
            getattr(t.data_if, what)() if what != "recv_data_msg" else t.recv_data_msg()
            return {"confirmed": False, "observed": "returns", "expected": "returns"}
        except Exception as e:
            return {"confirmed": True, "observed": "raises %s" % type(e).__name__, "expected": "never raises"}
    if what == "reader_any":
        import io, random
        dd = toolkit("data_dump")
        rnd = random.Random(7)
        for trial in range(300):
            blob = bytes(rnd.choice([1, 2, 3, rnd.randrange(256)]) if i % 7 == 0 else rnd.randrange(256) for i in range(rnd.randrange(0, 64)))
            r = dd.DATADumpFile(io.BytesIO(blob))
            try:
                fn = f["func"]
                if fn == "parse_all":
                    r.parse_all()
                elif fn == "parse_msg":
                    r.parse_msg(rnd.randrange(4))
                elif fn == "_seek2msg":
                    r._seek2msg(rnd.randrange(4))
                elif fn == "parse_hdr":
                    r.parse_hdr(blob[:3].ljust(3, b"\0"))
                else:
                    r._parse_msg()
            except Exception as e:
                return {"confirmed": True, "observed": "raises %s on %r" % (type(e).__name__, blob), "expected": "never raises"}
        return {"confirmed": False, "observed": "300 random blobs read", "expected": "never raises"}
    return {"confirmed": False, "error": "no native replay for %r" % what}

"""C04 (Python half): the octets gen_msg produces are exactly spec.trxd_layout.enc, and every datagram parse_msg accepts is
interpreted per spec.trxd_layout.dec - the obligations of C01's gen/parse contracts, re-discharged under this property
(the layout spec is written from the protocol text, so a symmetric encoder/decoder error contradicts it on both sides)."""
from props import C01


def build_py(run, prop="C04"):
    from engine.pyvc.harness import toolkit, new_engine, note_engine, sect
    from contracts.py.common import install_validate_summaries
    dm = toolkit("data_msg")
    E = new_engine()
    sect(run, C01.build_tables, run, prop, dm)
    sect(run, C01.build_gen, run, prop, dm, E, install_validate_summaries())
    sect(run, C01.build_parse, run, prop, dm, E)
    sect(run, C01.build_lemma, run, prop)
    note_engine(run, E)
    run.assume("soft bits of a valid Rx message lie in [-127,127]; message fields are int|None")


def witness_py(o, model):
    return C01.witness(o, model)


def block_model_py(o, model):
    return C01.block_model(o, model)


def replay_py(payload):
    return C01.replay(payload)

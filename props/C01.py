"""C01 - TRXD messages survive encode/decode unchanged (also carries the Python half of C04).

Functions under contract (data_msg.py):
  Msg.gen_msg(legacy)      valid(self) => result == spec.trxd_layout.enc(self, legacy)   (length and every octet)
                           (validate used through its C13 contract; append_hdr_to/append_burst_to/gen_mts/sbit2usbit inlined)
  Msg.parse_msg(msg)       raises only ValueError, exactly when not layout.accept(msg); otherwise every field == layout.dec(msg)
                           (parse_hdr/parse_mts/parse_burst/_parse_burst_v0/HDR_LEN/Modulation.pick* inlined)
  translation tables       the four live 256-entry tables equal their closed forms
Lemmas (spec level): roundtrip  valid(m) & soft bits in [-127,127] => dec(enc(m, legacy)) ~ m, legacy in {F,T}
Direct composition (real code only, no spec): parse_msg(gen_msg(m)) ~ m.
"""
import z3
from engine.common.core import Obligation, Cover, mval
from engine.pyvc.values import *
from engine.pyvc import models
from engine.pyvc.harness import toolkit, raw, where, new_engine, run_paths, path_obligations, register_fn, note_engine, qualname, sect
from contracts.py import msgs
from contracts.py.common import view_of, install_validate_summaries, snapshot, attr
from spec import valid_msg as V
from spec import trxd_layout as L

ID = "C01"
ENGINE = "PyVC"
LEVEL = "proof"


def valid_cases():
    dm = toolkit("data_msg")
    out = [("tx", None, "tx")]
    for mod in dm.Modulation:
        out.append(("rx", mod, "rx,mod=%s" % mod.name))
    return out


def soft_range(v):
    """C01's quantifier: soft bits in [-127,127] (Rx); hard bits are arbitrary octets for the codec (spec: 0/1)."""
    return (-127, 127) if v == "rx" else (0, 255)


def field_eq(actual, isnone, term):
    """z3 Bool: engine value `actual` equals the spec value (None when isnone)."""
    isnone = z3.BoolVal(isnone) if isinstance(isnone, bool) else isnone
    if isinstance(actual, SOpt):
        return z3.And(actual.isnone == isnone, z3.Or(isnone, models.zint(actual.val) == term))
    if actual is None:
        return isnone
    if isinstance(actual, (int, SInt)) and not isinstance(actual, bool):
        return z3.And(z3.Not(isnone), models.zint(actual) == term)
    return z3.BoolVal(False)


def build(run, prop=ID):
    dm = toolkit("data_msg")
    E = new_engine()
    all_summ = install_validate_summaries()
    sect(run, build_tables, run, prop, dm)
    sect(run, build_gen, run, prop, dm, E, all_summ)
    sect(run, build_parse, run, prop, dm, E)
    sect(run, build_lemma, run, prop)
    sect(run, build_direct, run, prop, dm, E, all_summ)
    note_engine(run, E)
    run.assume("soft bits of a valid Rx message lie in [-127,127] (C01 quantifier); -128 is outside the property")
    run.assume("message fields are int|None, burst bytearray (Tx) / array('b') (Rx); datagrams are bytes of any length")
    run.extra["paths_explored"] = E.stats["paths"]


# ------------------------------------------------------------------ tables

def build_tables(run, prop, dm):
    def bu2s(b):
        return b - 256 if b >= 128 else b
    forms = {
        "_tab_usbit2sbit": lambda b: -127 if b == 255 else 127 - b,
        "_tab_sbit2usbit": lambda b: 127 - bu2s(b),
        "_tab_sbit2ubit": lambda b: 1 if bu2s(b) < 0 else 0,
        "_tab_ubit2sbit": lambda b: -127 if b else 127,
    }
    for name, f in forms.items():
        tab = list(getattr(dm.Msg, name))
        ok = len(tab) == 256
        bad = [b for b in range(min(256, len(tab))) if tab[b] != f(b)]
        x = z3.Int("b")
        # ground obligation: the live table, as the engine represents it (run-compressed), equals the closed form
        tf = models.table_fn(tab)
        closed = {"_tab_usbit2sbit": z3.If(x == 255, -127, 127 - x),
                  "_tab_sbit2usbit": z3.If(x >= 128, 127 - (x - 256), 127 - x),
                  "_tab_sbit2ubit": z3.If(x >= 128, 1, 0),
                  "_tab_ubit2sbit": z3.If(x == 0, 127, -127)}[name]
        run.add(Obligation(prop, "data_msg.Msg.%s" % name, "table_closed_form", [x >= 0, x <= 255],
                           tf(x) == closed if ok else z3.BoolVal(False), kind="table", where="src/target/trx_toolkit/data_msg.py",
                           tag={"side": "table", "table": name, "bad_entries": bad[:8]}))
    run.fn("data_msg.Msg._tab_*", "src/target/trx_toolkit/data_msg.py", 137, "4 live tables compared with closed forms for all 256 entries")


# ------------------------------------------------------------------ gen_msg == layout

def build_gen(run, prop, dm, E, all_summ):
    g = raw(dm.Msg, "gen_msg")
    register_fn(run, g)
    for nm in ("append_hdr_to", "append_burst_to"):
        register_fn(run, raw(dm.TxMsg, nm), "inlined into gen_msg")
        register_fn(run, raw(dm.RxMsg, nm), "inlined into gen_msg")
    register_fn(run, raw(dm.RxMsg, "gen_mts"), "inlined into gen_msg")
    register_fn(run, raw(dm.Msg, "sbit2usbit"), "inlined into gen_msg")
    E.summaries = {k: all_summ[k] for k in ("data_msg.TxMsg.validate", "data_msg.RxMsg.validate")}
    for cls, mod, case in valid_cases():
        for legacy in (False, True):
            cs = "%s,legacy=%s" % (case, legacy)

            def setup(E, cls=cls, mod=mod):
                m = msgs.mk_msg(E, cls, mod, burst_range=soft_range(cls))
                return {"self": m, "pre": snapshot(m)}

            def inv(E, ctx, legacy=legacy):
                return E.call(g, [ctx["self"], legacy])
            v = msgs.view(cls, mod)
            length, octet = L.enc(v, legacy, lambda i: z3.Select(v.burst_arr, i))
            k = z3.Int("k!skolem")
            nret = 0
            for p, ctx, out in run_paths(E, setup, inv):
                run.add(*path_obligations(run, prop, g, p, cs))
                tag = {"side": "gen", "cls": cls, "mod": getattr(mod, "name", repr(mod)), "legacy": legacy}
                if out[0] == "raise":
                    if issubclass(out[1].cls, ValueError):
                        # allowed exactly for invalid messages (C13); nothing to check for the layout
                        run.add(Obligation(prop, qualname(g), "raises_only_if_invalid", p.pc, z3.Not(V.valid(v)), kind="post",
                                           case=cs, where=where(g), tag=tag))
                    else:
                        run.add(Obligation(prop, qualname(g), "no_other_exception", p.pc, z3.BoolVal(False), kind="noexc",
                                           case=cs + "," + out[1].cls.__name__, where=where(g), tag=tag))
                    continue
                nret += 1
                res = out[1]
                if not isinstance(res, SSeq):
                    run.add(Obligation(prop, qualname(g), "returns_bytes", p.pc, z3.BoolVal(False), kind="post", case=cs, where=where(g), tag=tag))
                    continue
                run.add(Obligation(prop, qualname(g), "layout_length", p.pc, models.zint(res.length) == length, kind="post",
                                   case=cs, where=where(g), tag=tag))
                rk = models.zint(res.get(k))
                run.add(Obligation(prop, qualname(g), "layout_octets", p.pc + [k >= 0, k < length], rk == octet(k), kind="post",
                                   case=cs, where=where(g), tag=tag))
            run.add(Cover(prop, qualname(g), "cover_valid", [V.valid(v)], case=cs))
            if nret == 0:
                run.add(Obligation(prop, qualname(g), "some_path_returns", [], z3.BoolVal(False), kind="cover", case=cs, where=where(g)))


# ------------------------------------------------------------------ parse_msg == layout

def dgram(E, name="d", kind="bytes"):
    n = z3.Int(name + ".len")
    E.assume(n >= 0)
    return models.fresh_seq(E, name, kind, n, 0, 255)


def dgram_view(name="d"):
    arr = z3.Array(name, z3.IntSort(), z3.IntSort())
    return z3.Int(name + ".len"), (lambda i: z3.Select(arr, i if not isinstance(i, int) else z3.IntVal(i)))


def parsed_matches(prop, fn, p, cls, obj, d, case, where_, tag, dm):
    """Obligations: every field of the parsed object equals the layout's interpretation `d`."""
    out = []

    def ob(clause, goal):
        out.append(Obligation(prop, fn, clause, p.pc, goal, kind="post", case=case, where=where_, tag=tag))
    ob("parsed_ver", field_eq(attr(obj, "ver"), False, d["ver"]))
    ob("parsed_tn", field_eq(attr(obj, "tn"), False, d["tn"]))
    ob("parsed_fn", field_eq(attr(obj, "fn"), False, d["fn"]))
    if cls == "tx":
        ob("parsed_pwr", field_eq(attr(obj, "pwr"), False, d["pwr"]))
    else:
        ob("parsed_rssi", field_eq(attr(obj, "rssi"), False, d["rssi"]))
        ob("parsed_toa256", field_eq(attr(obj, "toa256"), False, d["toa256"]))
        v1 = d["ver"] == 1
        nope = attr(obj, "nope_ind")
        nz = nope.t if isinstance(nope, SBool) else z3.BoolVal(bool(nope))
        ob("parsed_nope", z3.Implies(v1, nz == d["nope"]))
        ob("parsed_ci", z3.Implies(v1, field_eq(attr(obj, "ci"), False, d["ci"])))
        live = z3.And(v1, z3.Not(d["nope"]))
        ob("parsed_tsc", z3.Implies(live, field_eq(attr(obj, "tsc"), False, d["tsc"])))
        ob("parsed_tsc_set", z3.Implies(live, field_eq(attr(obj, "tsc_set"), False, d["tsc_set"])))
        mod = attr(obj, "mod_type")
        if isinstance(mod, dm.Modulation):
            mn = V.mod_name(mod)
            spec_coding = V.MOD_TABLE[mn][0] if mn else -1
            # the selected member's coding is the one the spec table gives that modulation, and it is the decoded one
            ob("parsed_mod", z3.And(z3.BoolVal(mod.coding == spec_coding), z3.Implies(live, d["coding"] == spec_coding)))
            ob("parsed_v0_mod_by_length",
               z3.Implies(z3.And(d["ver"] == 0, z3.Not(d["burst_none"])),
                          z3.And(d["blen"] == (V.MOD_TABLE[mn][1] if mn else -1), z3.BoolVal(mod.bl == (V.MOD_TABLE[mn][1] if mn else -1)))))
        elif mod is None:
            # None only for a NOPE indication or a modulation code outside the table
            ob("parsed_mod_none", z3.Implies(live, z3.Not(L.in_set(d["coding"], L.CODINGS))))
        else:
            ob("parsed_mod", z3.BoolVal(False))
    b = attr(obj, "burst")
    std = L.std_len(cls, d)          # the number of burst bits is fixed by the layout only for the payload lengths the encoder produces
    if b is None:
        ob("parsed_burst_none", z3.Implies(std, d["burst_none"]))
    elif isinstance(b, SSeq):
        ob("parsed_burst_present", z3.Implies(std, z3.Not(d["burst_none"])))
        ob("parsed_burst_len", z3.Implies(std, models.zint(b.length) == d["blen"]))
        k = z3.Int("k!skolem")
        out.append(Obligation(prop, fn, "parsed_burst_bits", p.pc + [k >= 0, k < d["blen"], k < models.zint(b.length)],
                              models.zint(b.get(k)) == d["bget"](k), kind="post", case=case, where=where_, tag=tag))
        want = "bytearray" if cls == "tx" else "array_b"
        ob("parsed_burst_type", z3.BoolVal(b.kind == want))
    else:
        ob("parsed_burst", z3.BoolVal(False))
    return out


def build_parse(run, prop, dm, E):
    f = raw(dm.Msg, "parse_msg")
    register_fn(run, f)
    for c, names in ((dm.TxMsg, ("parse_hdr", "parse_burst", "HDR_LEN")),
                     (dm.RxMsg, ("parse_hdr", "parse_burst", "HDR_LEN", "parse_mts", "_parse_burst_v0"))):
        for nm in names:
            register_fn(run, raw(c, nm), "inlined into parse_msg")
    register_fn(run, raw(dm.Modulation, "pick"), "inlined into parse_msg")
    register_fn(run, raw(dm.Modulation, "pick_by_bl"), "inlined into parse_msg")
    register_fn(run, raw(dm.Msg, "usbit2sbit"), "inlined into parse_msg")
    E.summaries = {}
    for cls in ("tx", "rx"):
        for kind in ("bytes", "bytearray"):
            cs = "%s,input=%s" % (cls, kind)
            klass = dm.TxMsg if cls == "tx" else dm.RxMsg

            def setup(E, klass=klass, kind=kind):
                obj = E.call(klass, [])
                return {"self": obj, "data": dgram(E, "d", kind)}

            def inv(E, ctx):
                return E.call(f, [ctx["self"], ctx["data"]])
            n, octet = dgram_view("d")
            d = L.dec(cls, octet, n)
            nret = nraise = 0
            for p, ctx, out in run_paths(E, setup, inv):
                tag = {"side": "parse", "cls": cls, "kind": kind}
                run.add(*path_obligations(run, prop, f, p, cs))
                if out[0] == "raise":
                    if issubclass(out[1].cls, ValueError):
                        nraise += 1
                        run.add(Obligation(prop, qualname(f), "rejects_only_unacceptable", p.pc, z3.Not(z3.And(d["accept"], L.dec_valid(cls, d))), kind="post",
                                           case=cs, where=where(f), tag=tag))
                    else:
                        run.add(Obligation(prop, qualname(f), "only_ValueError", p.pc, z3.BoolVal(False), kind="noexc",
                                           case=cs + "," + out[1].cls.__name__, where=where(f), tag=dict(tag, exc=out[1].cls.__name__)))
                    continue
                nret += 1
                run.add(Obligation(prop, qualname(f), "accepts_only_acceptable", p.pc, d["accept"], kind="post", case=cs, where=where(f), tag=tag))
                run.add(*parsed_matches(prop, qualname(f), p, cls, ctx["self"], d, cs, where(f), tag, dm))
            run.add(Cover(prop, qualname(f), "cover_accept", [d["accept"], n >= 0], case=cs))
            run.add(Cover(prop, qualname(f), "cover_reject", [z3.Not(d["accept"]), n >= 0], case=cs))
            if nret == 0 or nraise == 0:
                run.add(Obligation(prop, qualname(f), "both_outcomes_reachable", [], z3.BoolVal(False), kind="cover", case=cs, where=where(f)))


# ------------------------------------------------------------------ spec-level round trip lemma

def same_as_message(cls, v, d, legacy):
    """dec(enc(m)) ~ m  (every field, every burst bit)"""
    c = [d["accept"], d["ver"] == v.ver, d["tn"] == v.tn.val, d["fn"] == v.fn.val]
    if cls == "tx":
        c.append(d["pwr"] == v.pwr.val)
    else:
        c += [d["rssi"] == v.rssi.val, d["toa256"] == v.toa256.val]
        v1 = v.ver == 1
        c.append(z3.Implies(v1, z3.And(d["nope"] == v.nope, d["ci"] == v.ci.val)))
        mn = V.mod_name(v.mod)
        c.append(z3.Implies(z3.And(v1, z3.Not(v.nope)),
                            z3.And(d["tsc"] == v.tsc.val, d["tsc_set"] == v.tsc_set.val, d["coding"] == V.MOD_TABLE[mn][0])))
    c.append(d["burst_none"] == v.burst.isnone)
    c.append(z3.Implies(z3.Not(v.burst.isnone), d["blen"] == v.burst.val))
    return c


def build_lemma(run, prop):
    k = z3.Int("k!skolem")
    for cls, mod, case in valid_cases():
        for legacy in (False, True):
            cs = "%s,legacy=%s" % (case, legacy)
            v = msgs.view(cls, mod)
            lo, hi = soft_range(cls)
            be = lambda i: z3.Select(v.burst_arr, i)
            length, octet = L.enc(v, legacy, be)
            d = L.dec(cls, octet, length)
            hyp = [V.valid(v), v.burst.val >= 0]
            for i, c in enumerate(same_as_message(cls, v, d, legacy)):
                run.add(Obligation(prop, "lemma.roundtrip", "dec_enc_fields_%d" % i, hyp, c, kind="lemma", case=cs,
                                   tag={"side": "lemma", "cls": cls, "mod": getattr(mod, "name", repr(mod)), "legacy": legacy}))
            run.add(Obligation(prop, "lemma.roundtrip", "dec_enc_burst_bits",
                               hyp + [z3.Not(v.burst.isnone), k >= 0, k < v.burst.val, be(k) >= lo, be(k) <= hi],
                               d["bget"](k) == be(k), kind="lemma", case=cs,
                               tag={"side": "lemma", "cls": cls, "mod": getattr(mod, "name", repr(mod)), "legacy": legacy}))
            # every octet of an encoding is an octet (so it is a datagram the parser contract speaks about)
            run.add(Obligation(prop, "lemma.roundtrip", "enc_is_octets",
                               hyp + [k >= 0, k < length, be(k - d["hlen"]) >= lo, be(k - d["hlen"]) <= hi],
                               z3.And(octet(k) >= 0, octet(k) <= 255), kind="lemma", case=cs,
                               tag={"side": "lemma", "cls": cls, "mod": getattr(mod, "name", repr(mod)), "legacy": legacy}))
    run.fn("lemma.roundtrip", "spec/trxd_layout.py", 0, "spec-level lemma over the gen_msg/parse_msg contracts")


# ------------------------------------------------------------------ direct composition on the real code

def build_direct(run, prop, dm, E, all_summ):
    g = raw(dm.Msg, "gen_msg")
    f = raw(dm.Msg, "parse_msg")
    E.summaries = {k: all_summ[k] for k in ("data_msg.TxMsg.validate", "data_msg.RxMsg.validate")}
    k = z3.Int("k!skolem")
    for cls, mod, case in valid_cases():
        for legacy in (False, True):
            cs = "%s,legacy=%s" % (case, legacy)
            klass = dm.TxMsg if cls == "tx" else dm.RxMsg

            def setup(E, cls=cls, mod=mod, klass=klass):
                m = msgs.mk_msg(E, cls, mod, burst_range=soft_range(cls))
                return {"m": m, "out": E.call(klass, [])}

            def inv(E, ctx, legacy=legacy):
                data = E.call(g, [ctx["m"], legacy])
                E.ghost["encoded"] = True
                E.call(f, [ctx["out"], data])
                return None
            v = msgs.view(cls, mod)
            nret = 0
            for p, ctx, out in run_paths(E, setup, inv):
                tag = {"side": "direct", "cls": cls, "mod": getattr(mod, "name", repr(mod)), "legacy": legacy}
                if out[0] == "raise":
                    if not p.ghost.get("encoded") and issubclass(out[1].cls, ValueError):
                        continue      # invalid message refused by gen_msg
                    run.add(Obligation(prop, "direct.parse_msg(gen_msg(m))", "decodes_own_encoding", p.pc, z3.BoolVal(False),
                                       kind="post", case=cs + "," + out[1].cls.__name__, where=where(f), tag=tag))
                    continue
                nret += 1
                o = ctx["out"]
                goals = [("ver", field_eq(attr(o, "ver"), False, v.ver)), ("tn", field_eq(attr(o, "tn"), False, v.tn.val)),
                         ("fn", field_eq(attr(o, "fn"), False, v.fn.val))]
                if cls == "tx":
                    goals.append(("pwr", field_eq(attr(o, "pwr"), False, v.pwr.val)))
                else:
                    goals.append(("rssi", field_eq(attr(o, "rssi"), False, v.rssi.val)))
                    goals.append(("toa256", field_eq(attr(o, "toa256"), False, v.toa256.val)))
                    v1 = v.ver == 1
                    nope = attr(o, "nope_ind")
                    nz = nope.t if isinstance(nope, SBool) else z3.BoolVal(bool(nope))
                    goals.append(("nope", z3.Implies(v1, nz == v.nope)))
                    goals.append(("ci", z3.Implies(v1, field_eq(attr(o, "ci"), False, v.ci.val))))
                    live = z3.And(v1, z3.Not(v.nope))
                    goals.append(("tsc", z3.Implies(live, field_eq(attr(o, "tsc"), False, v.tsc.val))))
                    goals.append(("tsc_set", z3.Implies(live, field_eq(attr(o, "tsc_set"), False, v.tsc_set.val))))
                    goals.append(("mod_type", z3.Implies(live, z3.BoolVal(attr(o, "mod_type") is mod))))
                b = attr(o, "burst")
                if b is None:
                    goals.append(("burst", v.burst.isnone))
                else:
                    goals.append(("burst", z3.And(z3.Not(v.burst.isnone), models.zint(b.length) == v.burst.val)))
                for nm, goal in goals:
                    run.add(Obligation(prop, "direct.parse_msg(gen_msg(m))", "same_" + nm, p.pc, goal, kind="post", case=cs, where=where(f), tag=tag))
                if b is not None:
                    run.add(Obligation(prop, "direct.parse_msg(gen_msg(m))", "same_burst_bits", p.pc + [k >= 0, k < v.burst.val],
                                       models.zint(b.get(k)) == z3.Select(v.burst_arr, k), kind="post", case=cs, where=where(f), tag=tag))
            if nret == 0:
                run.add(Obligation(prop, "direct.parse_msg(gen_msg(m))", "some_path_returns", [], z3.BoolVal(False), kind="cover", case=cs))
    run.fn("direct.parse_msg(gen_msg(m))", "src/target/trx_toolkit/data_msg.py", 176, "direct composition of the two real functions (no spec in between)")


# ------------------------------------------------------------------ witness / replay

def witness(o, model):
    t = o.tag or {}
    side = t.get("side")
    dm = toolkit("data_msg")
    if side in ("gen", "direct", "lemma"):
        mod = getattr(dm.Modulation, t["mod"], None) if t["cls"] == "rx" else None
        f = msgs.concrete_fields(model, t["cls"], mod)
        f["legacy"] = t["legacy"]
        f["side"] = side
        return f
    if side == "parse":
        n = mval(model, z3.Int("d.len"))
        arr = z3.Array("d", z3.IntSort(), z3.IntSort())
        data = [min(255, max(0, mval(model, z3.Select(arr, i)))) for i in range(min(n, 2048))]
        return {"side": "parse", "cls": t["cls"], "kind": t["kind"], "data": data}
    if side == "table":
        return dict(t)
    return {"side": side}


def block_model(o, model):
    t = o.tag or {}
    if t.get("side") == "parse":
        n = z3.Int("d.len")
        return n != model.eval(n, model_completion=True)
    return None


def concrete_enc(fields):
    cv = msgs.concrete_view(fields)
    b = fields["burst"] or []
    length, octet = L.enc(cv, fields["legacy"], lambda i: z3.IntVal(0))
    n = z3.simplify(length).as_long()
    # evaluate with the concrete burst
    arr = z3.K(z3.IntSort(), z3.IntVal(0))
    for i, x in enumerate(b):
        arr = z3.Store(arr, i, x)
    length, octet = L.enc(cv, fields["legacy"], lambda i: z3.Select(arr, i))
    return [z3.simplify(octet(z3.IntVal(i))).as_long() for i in range(n)]


def concrete_dec(cls, data):
    arr = z3.K(z3.IntSort(), z3.IntVal(0))
    for i, x in enumerate(data):
        arr = z3.Store(arr, i, x)
    d = L.dec(cls, lambda i: z3.Select(arr, i if not isinstance(i, int) else z3.IntVal(i)), z3.IntVal(len(data)))
    out = {}
    for k_, t in d.items():
        if k_ == "bget":
            continue
        s = z3.simplify(t)
        out[k_] = s.as_long() if z3.is_int_value(s) else z3.is_true(s)
    out["std_len"] = z3.is_true(z3.simplify(L.std_len(cls, d)))
    out["must_accept"] = bool(out["accept"]) and z3.is_true(z3.simplify(L.dec_valid(cls, d)))
    if out["accept"] and not out["burst_none"]:
        out["burst"] = [z3.simplify(d["bget"](z3.IntVal(i))).as_long() for i in range(out["blen"])]
    return out


def native_fields(m, cls):
    out = {"ver": m.ver, "tn": m.tn, "fn": m.fn, "burst": list(m.burst) if m.burst is not None else None}
    if cls == "tx":
        out["pwr"] = m.pwr
    else:
        out.update(rssi=m.rssi, toa256=m.toa256, nope=m.nope_ind, ci=m.ci, tsc=m.tsc, tsc_set=m.tsc_set,
                   mod=getattr(m.mod_type, "name", None))
    return out


def replay(payload):
    f = payload["inputs"]
    dm = toolkit("data_msg")
    side = f.get("side")
    if side == "table":
        return {"confirmed": bool(f.get("bad_entries")), "observed": "entries differing from closed form: %s" % f.get("bad_entries"),
                "expected": "table equals its closed form"}
    if side in ("gen", "lemma"):
        m = msgs.build_native(f)
        try:
            got = list(m.gen_msg(f["legacy"]))
        except Exception as e:
            got = "raises %s" % type(e).__name__
        valid = z3.is_true(z3.simplify(V.valid(msgs.concrete_view(f))))
        exp = concrete_enc(f) if valid else "raises ValueError"
        return {"confirmed": got != exp, "observed": got, "expected": exp}
    if side == "direct":
        m = msgs.build_native(f)
        try:
            data = m.gen_msg(f["legacy"])
        except ValueError:
            return {"confirmed": False, "observed": "refused", "expected": "refused (invalid message)"}
        o = dm.TxMsg() if f["cls"] == "tx" else dm.RxMsg()
        try:
            o.parse_msg(bytearray(data))
        except Exception as e:
            return {"confirmed": True, "observed": "parse raises %s" % type(e).__name__, "expected": "decodes"}
        a, b = native_fields(m, f["cls"]), native_fields(o, f["cls"])
        if f["cls"] == "rx":
            if m.ver == 0:
                for k_ in ("nope", "ci", "tsc", "tsc_set", "mod"):
                    a.pop(k_), b.pop(k_)
            elif m.nope_ind:
                for k_ in ("tsc", "tsc_set", "mod"):
                    a.pop(k_), b.pop(k_)
        return {"confirmed": a != b, "observed": b, "expected": a}
    if side == "parse":
        data = bytes(f["data"]) if f["kind"] == "bytes" else bytearray(f["data"])
        o = dm.TxMsg() if f["cls"] == "tx" else dm.RxMsg()
        d = concrete_dec(f["cls"], f["data"])
        try:
            o.parse_msg(data)
            got = native_fields(o, f["cls"])
            obs = "accepted"
        except ValueError:
            obs, got = "ValueError", None
        except Exception as e:
            return {"confirmed": True, "observed": "raises %s" % type(e).__name__, "expected": "only ValueError"}
        if obs == "ValueError":
            return {"confirmed": bool(d["must_accept"]), "observed": obs,
                    "expected": "accepted (acceptable layout, decoded values inside the protocol ranges)" if d["must_accept"] else "ValueError allowed"}
        if not d["accept"]:
            return {"confirmed": True, "observed": got, "expected": "ValueError (not acceptable per layout)"}
        bad = []
        for k_ in ("ver", "tn", "fn") + (("pwr",) if f["cls"] == "tx" else ("rssi", "toa256")):
            if got[k_] != d[k_]:
                bad.append((k_, got[k_], d[k_]))
        if f["cls"] == "rx" and d["ver"] == 1:
            if got["nope"] != d["nope"] or got["ci"] != d["ci"]:
                bad.append(("nope/ci", (got["nope"], got["ci"]), (d["nope"], d["ci"])))
            if not d["nope"]:
                for k_ in ("tsc", "tsc_set"):
                    if got[k_] != d[k_]:
                        bad.append((k_, got[k_], d[k_]))
                coding = {mm.name: mm.coding for mm in dm.Modulation}.get(got["mod"])
                if coding != d["coding"] and not (coding is None and d["coding"] not in L.CODINGS):
                    bad.append(("mod", got["mod"], d["coding"]))
        if not d["std_len"]:
            # payload length the encoder never produces: the layout does not fix the number of burst bits; the bits kept must still be the octets' bits
            if got["burst"] is not None and d.get("burst") is not None and got["burst"][:len(d["burst"])] != d["burst"][:len(got["burst"])]:
                bad.append(("burst prefix", got["burst"][:16], d["burst"][:16]))
        elif d["burst_none"] != (got["burst"] is None):
            bad.append(("burst_none", got["burst"] is None, d["burst_none"]))
        elif got["burst"] is not None and got["burst"] != d["burst"]:
            bad.append(("burst", got["burst"][:16], d["burst"][:16]))
        return {"confirmed": bool(bad), "observed": bad or "fields match layout", "expected": "fields == layout.dec"}
    return {"confirmed": False, "error": "unknown side"}

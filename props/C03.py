"""C03 - every queued burst is transmitted exactly once, in its own frame.

Functions under contract (transceiver.py, data_if.py):
  Transceiver.tx_queue_append(m)   Q' == Q ++ [m]            } every access to _tx_queue happens with _tx_queue_lock held
  Transceiver.tx_queue_clear()     Q' == []                  } (ownership obligations)
  DATAInterface.recv_tx_msg()      never raises; returns None, or the datagram parsed per layout with ver == negotiated version
  Transceiver.recv_data_msg()      never raises; no message / not running -> None and Q unchanged; else Q' == Q ++ [msg], returns msg
  Transceiver.clck_tick(fwd, fn)   not running: nothing happens.  Running (three loop invariants, ghost maps dest/src):
        the queue is partitioned by spec.tdma.klass(m.fn, fn):   due      -> fwd.forward_msg(self, m) called exactly once (calls <-> due members, bijection)
                                                                 passed   -> exactly one "Stale TRXD message" warning (warnings <-> stale members, bijection)
                                                                 future   -> stays queued (new queue <-> waiting members, bijection), nothing else is queued
History lemma C03/fate (over these contracts): a message's fate changes only queued -> {sent in its own frame, stale, cleared}; terminal fates
never change; nothing leaves the queue without a fate.
Schedules: ownership makes the three queue operations atomic; interference pass on the unprotected reads of `fh` (get_rx_freq/get_tx_freq).
"""
import z3
from engine.common.core import Obligation, Cover, mval
from engine.pyvc.values import *
from engine.pyvc import models
from engine.pyvc.loops import LoopSpec
from engine.pyvc.harness import toolkit, raw, where, new_engine, run_paths, path_obligations, register_fn, note_engine, qualname, exc_note, sect
from contracts.py import msgs, trx as T
from contracts.py.common import snapshot, attr, mk_sock
from spec import tdma
from spec import trxd_layout as L

ID = "C03"
ENGINE = "PyVC"
LEVEL = "proof"
Z = models.zint
I, B = z3.IntSort(), z3.BoolSort()
H = tdma.H

QIDS = z3.Array("queue.ids", I, I)
QN = z3.Int("queue.len")
FNARR = z3.Array("msg.fn", I, I)
FN = z3.Int("fn")


def msg_schema():
    return {"fn": "int", "tn": "int"}


def mk_queue(E, arr=QIDS, n=QN):
    dm = toolkit("data_msg")
    sch = msg_schema()
    return models.obj_seq(arr, n, lambda idt: SRef(dm.TxMsg, idt, sch), lambda v: v.idt if isinstance(v, SRef) else z3.IntVal(-v.oid))


def fn_of_pos(j):
    return z3.Select(FNARR, z3.Select(QIDS, j))


def cls_of_pos(j):
    return tdma.klass(fn_of_pos(j), FN)


def queue_pre():
    j, j2 = z3.Ints("j j2")
    return [QN >= 0, FN >= 0, FN < H,
            z3.ForAll([j], z3.Implies(z3.And(j >= 0, j < QN), z3.And(fn_of_pos(j) >= 0, fn_of_pos(j) < H))),
            z3.ForAll([j, j2], z3.Implies(z3.And(j >= 0, j < j2, j2 < QN), z3.Select(QIDS, j) != z3.Select(QIDS, j2)))]


def build(run, prop=ID):
    E = new_engine()
    sect(run, build_queue_ops, run, prop, E)
    sect(run, build_recv, run, prop, E)
    sect(run, build_clck_tick, run, prop, E)
    sect(run, build_fate_lemma, run, prop)
    sect(run, build_interference, run, prop, E)
    if run.tier == "thorough":
        # bounded native stand-in next to the ownership proof: every single-step interleaving of an arrival / POWEROFF with one real tick
        r = replay_schedules()
        run.add(Obligation(prop, "transceiver.Transceiver.clck_tick", "ownership_native_single_step_interleavings", [], z3.BoolVal(not r["confirmed"]),
                           kind="ownership", where="src/target/trx_toolkit/transceiver.py", tag={"what": "schedules"}, bounded=1,
                           note="bounded: one socket-thread step injected at every line boundary of one tick, 3 queued bursts; result: %s" % (r.get("observed"),)))
        run.bounded_notes.append("thorough: native schedule search (one arrival or POWEROFF at every line boundary of one clck_tick, real code, instrumented mutex)")
    note_engine(run, E)
    run.assume("queued messages carry frame numbers 0..2715647 (L1 sends valid frame numbers; parse_msg does not range-check FN)")
    run.assume("queued messages are distinct objects (each recv_data_msg creates a fresh TxMsg)")
    run.assume("schedules: CPython executes one attribute access / one locked region atomically (GIL); threading.Lock is a mutex; "
               "one clock thread and one socket thread (fake_trx.Application.run / CLCKGen)")
    run.assume("liveness half ('is sent'): a tick with number m.fn arrives - supplied by C09's consecutive-tick contract")
    run.extra["paths_explored"] = E.stats["paths"]


# ------------------------------------------------------------------ ownership hook

def install_ownership(E):
    """every read/write of Transceiver._tx_queue must happen while _tx_queue_lock is held"""
    def hook(E, obj, name, op, v):
        lock = obj.attrs.get("_tx_queue_lock")
        held = bool(getattr(lock, "held", False))
        E.require("ownership_tx_queue_%s_under_lock" % op, z3.BoolVal(held), kind="ownership")
        return NotImplemented
    E.attr_hooks = {"_tx_queue": hook}


# ------------------------------------------------------------------ queue operations

def build_queue_ops(run, prop, E):
    tr = toolkit("transceiver")
    dm = toolkit("data_msg")
    fa = raw(tr.Transceiver, "tx_queue_append")
    fc = raw(tr.Transceiver, "tx_queue_clear")
    register_fn(run, fa)
    register_fn(run, fc)
    install_ownership(E)
    E.summaries = {}
    mid = z3.Int("m.id")

    def setup(E):
        t = T.mk_trx(E, "t.")
        t.attrs["_tx_queue"] = mk_queue(E)
        E.assume(QN >= 0)
        E.sheap["fn"] = FNARR
        E.sheap["tn"] = z3.Array("msg.tn", I, I)
        return {"self": t, "q": t.attrs["_tx_queue"], "pre": snapshot(t), "m": SRef(dm.TxMsg, mid, msg_schema())}
    for f, name in ((fa, "append"), (fc, "clear")):
        for p, ctx, out in run_paths(E, setup, lambda E, ctx, f=f, name=name: E.call(f, [ctx["self"]] + ([ctx["m"]] if name == "append" else []))):
            tag = {"what": name}
            run.add(*path_obligations(run, prop, f, p, "", tag=tag))
            if out[0] == "raise":
                run.add(Obligation(prop, qualname(f), "never_raises", p.pc, z3.BoolVal(False), kind="noexc", note=exc_note(out[1]), case=out[1].cls.__name__, where=where(f), tag=tag))
                continue
            t = ctx["self"]
            q = t.attrs["_tx_queue"]
            same_obj = q is ctx["q"]
            if name == "append":
                k = z3.Int("k!skolem")
                run.add(Obligation(prop, qualname(f), "appends_at_end", p.pc, z3.And(z3.BoolVal(same_obj), lst_len(q) == QN + 1, z3.Select(lst_arr(q), QN) == mid),
                                   kind="post", where=where(f), tag=tag))
                run.add(Obligation(prop, qualname(f), "prefix_unchanged", p.pc + [k >= 0, k < QN], z3.Select(lst_arr(q), k) == z3.Select(QIDS, k), kind="post", where=where(f), tag=tag))
            else:
                # Q' == [] ; the list object may be emptied in place or replaced (both are 'Q == []'), ownership decides whether that is safe
                run.add(Obligation(prop, qualname(f), "queue_empty", p.pc, lst_len(q) == 0, kind="post", where=where(f), tag=tag))
            run.add(Obligation(prop, qualname(f), "lock_released", p.pc, z3.BoolVal(not t.attrs["_tx_queue_lock"].held), kind="post", where=where(f), tag=tag))
            run.add(Obligation(prop, qualname(f), "frame_other_state", p.pc,
                               z3.BoolVal(all(t.attrs.get(k) is ctx["pre"][k][0] for k in ctx["pre"] if k != "_tx_queue")), kind="frame", where=where(f), tag=tag))
    E.attr_hooks = {}


# ------------------------------------------------------------------ receive path

def dgram(E, name="d"):
    n = z3.Int(name + ".len")
    E.assume(z3.And(n >= 0, n <= 65507))
    return models.fresh_seq(E, name, "bytes", n, 0, 255)


def build_recv(run, prop, E):
    di = toolkit("data_if")
    dm = toolkit("data_msg")
    tr = toolkit("transceiver")
    f = raw(di.DATAInterface, "recv_tx_msg")
    register_fn(run, f)
    register_fn(run, raw(di.DATAInterface, "recv_raw_data"), "inlined")
    register_fn(run, raw(di.DATAInterface, "match_hdr_ver"), "inlined")
    hv = z3.Int("hdr_ver")
    n = z3.Int("d.len")
    arr = z3.Array("d", I, I)
    octet = lambda i: z3.Select(arr, i if not isinstance(i, int) else z3.IntVal(i))
    n512 = z3.If(n > 512, z3.IntVal(512), n)
    d = L.dec("tx", octet, n512)
    from props.C01 import parsed_matches
    from contracts.py.common import install_validate_summaries

    def parse_summary(E, func, args, kwargs):
        """Msg.parse_msg contract (C01): ValueError iff not acceptable per layout, else fields == layout.dec(data)"""
        self, data = args
        if self.cls is not dm.TxMsg:
            return E.inline(func, args, kwargs)
        dn = Z(data.length)
        dd = L.dec("tx", lambda i: Z(data.get(i)), dn)
        if not E.branch(dd["accept"]):
            E.raise_(ValueError, "contract: parse_msg rejects")
        self.attrs["ver"], self.attrs["tn"], self.attrs["fn"], self.attrs["pwr"] = wrap_int(dd["ver"]), wrap_int(dd["tn"]), wrap_int(dd["fn"]), wrap_int(dd["pwr"])
        if E.branch(dd["burst_none"]):
            self.attrs["burst"] = None
        else:
            self.attrs["burst"] = SSeq("bytearray", z3.simplify(dd["blen"]), dd["bget"])
        return None
    E.summaries = {"data_msg.Msg.parse_msg": parse_summary, "data_msg.TxMsg.desc_hdr": lambda E, f_, a, k: FmtStr("desc_hdr", (a[0],))}

    def setup(E):
        sock = mk_sock(E, "data.sock")
        sock.attrs["pending"] = dgram(E, "d")
        link = SObj(di.DATAInterface, {"sock": sock, "remote_addr": "127.0.0.1", "remote_port": 5802, "_hdr_ver": SInt(hv)})
        E.assume(z3.Or(hv == 0, hv == 1))
        return {"self": link}
    nmsg = 0
    for p, ctx, out in run_paths(E, setup, lambda E, ctx: E.call(f, [ctx["self"]])):
        tag = {"what": "recv_tx_msg"}
        run.add(*path_obligations(run, prop, f, p, "", tag=tag))
        if out[0] == "raise":
            run.add(Obligation(prop, qualname(f), "never_raises", p.pc, z3.BoolVal(False), kind="noexc", note=exc_note(out[1]), case=out[1].cls.__name__, where=where(f), tag=tag))
            continue
        r = out[1]
        run.add(Obligation(prop, qualname(f), "reads_up_to_512_octets", p.pc, z3.BoolVal(p.ghost.get("recv_sizes") == [512]), kind="post", where=where(f), tag=tag))
        if r is None:
            run.add(Obligation(prop, qualname(f), "none_only_if_rejected_or_version_mismatch", p.pc, z3.Or(z3.Not(d["accept"]), d["ver"] != hv), kind="post", where=where(f), tag=tag))
            continue
        nmsg += 1
        ok = isinstance(r, SObj) and r.cls is dm.TxMsg
        run.add(Obligation(prop, qualname(f), "returns_TxMsg_in_negotiated_version", p.pc,
                           z3.And(z3.BoolVal(ok), d["accept"], d["ver"] == hv), kind="post", where=where(f), tag=tag))
        if ok:
            run.add(*parsed_matches(prop, qualname(f), p, "tx", r, d, "", where(f), tag, dm))
    if nmsg == 0:
        run.add(Obligation(prop, qualname(f), "some_path_returns_message", [], z3.BoolVal(False), kind="cover", where=where(f)))

    # recv_data_msg
    g = raw(tr.Transceiver, "recv_data_msg")
    register_fn(run, g)
    install_ownership(E)
    got, rmid = z3.Bool("recv.some"), z3.Int("recv.id")

    def recv_summary(E, func, args, kwargs):
        """recv_tx_msg contract at the call site: None, or a fresh message object"""
        if E.branch(got):
            return SRef(dm.TxMsg, rmid, msg_schema())
        return None
    E.summaries = {"data_if.DATAInterface.recv_tx_msg": recv_summary,
                   "data_msg.TxMsg.desc_hdr": lambda E, f_, a, k: FmtStr("desc_hdr", (a[0],))}
    running = T.fb("t.", "running")

    def setup2(E):
        t = T.mk_trx(E, "t.")
        t.attrs["_tx_queue"] = mk_queue(E)
        E.assume(QN >= 0)
        E.sheap["fn"] = FNARR
        E.sheap["tn"] = z3.Array("msg.tn", I, I)
        return {"self": t, "q": t.attrs["_tx_queue"], "pre": snapshot(t)}
    for p, ctx, out in run_paths(E, setup2, lambda E, ctx: E.call(g, [ctx["self"]])):
        tag = {"what": "recv_data_msg"}
        run.add(*path_obligations(run, prop, g, p, "", tag=tag))
        if out[0] == "raise":
            run.add(Obligation(prop, qualname(g), "never_raises", p.pc, z3.BoolVal(False), kind="noexc", note=exc_note(out[1]), case=out[1].cls.__name__, where=where(g), tag=tag))
            continue
        t = ctx["self"]
        q = t.attrs["_tx_queue"]
        r = out[1]
        accepted = z3.And(got, running)
        if r is None:
            run.add(Obligation(prop, qualname(g), "dropped_iff_no_message_or_idle", p.pc, z3.Not(accepted), kind="post", where=where(g), tag=tag))
            run.add(Obligation(prop, qualname(g), "dropped_leaves_queue_unchanged", p.pc,
                               z3.And(z3.BoolVal(q is ctx["q"]), lst_len(q) == QN, z3.BoolVal(z3.eq(lst_arr(q), QIDS))), kind="post", where=where(g), tag=tag))
        else:
            run.add(Obligation(prop, qualname(g), "accepted_iff_message_and_running", p.pc, accepted, kind="post", where=where(g), tag=tag))
            run.add(Obligation(prop, qualname(g), "accepted_is_enqueued_at_end_and_returned", p.pc,
                               z3.And(z3.BoolVal(q is ctx["q"] and isinstance(r, SRef)), lst_len(q) == QN + 1, z3.Select(lst_arr(q), QN) == rmid,
                                      (r.idt == rmid) if isinstance(r, SRef) else z3.BoolVal(False)), kind="post", where=where(g), tag=tag))
        run.add(Obligation(prop, qualname(g), "frame_other_state", p.pc,
                           z3.BoolVal(all(t.attrs.get(k) is ctx["pre"][k][0] for k in ctx["pre"] if k != "_tx_queue")), kind="frame", where=where(g), tag=tag))
    E.attr_hooks = {}


# ------------------------------------------------------------------ clck_tick

def lst_len(x):
    if isinstance(x, list):
        return z3.IntVal(len(x))
    return Z(x.length)


def lst_arr(x):
    if isinstance(x, list):
        a = z3.K(I, z3.IntVal(0))
        for i, v in enumerate(x):
            a = z3.Store(a, i, v.idt if isinstance(v, SRef) else z3.IntVal(-1))
        return a
    return x.arr


def part_inv(i, lists, dest, srcs):
    """Partition invariant at queue index i: lists = {0: drop, 1: emit, 2: wait} as (len, arr)."""
    k, j = z3.Ints("k j")
    conj = [lists[c][0] >= 0 for c in (0, 1, 2)]
    conj.append(lists[0][0] + lists[1][0] + lists[2][0] == i)
    for c in (0, 1, 2):
        ln, arr = lists[c]
        src = srcs[c]
        sk = z3.Select(src, k)
        conj.append(z3.ForAll([k], z3.Implies(z3.And(k >= 0, k < ln),
                                              z3.And(sk >= 0, sk < i, cls_of_pos(sk) == c, z3.Select(arr, k) == z3.Select(QIDS, sk), z3.Select(dest, sk) == k))))
    dj = z3.Select(dest, j)
    conj.append(z3.ForAll([j], z3.Implies(z3.And(j >= 0, j < i),
                                          z3.Or([z3.And(cls_of_pos(j) == c, dj >= 0, dj < lists[c][0], z3.Select(srcs[c], dj) == j) for c in (0, 1, 2)]))))
    return z3.And(conj)


def log_inv(k, n_now, arr_now, n0, lst):
    """the ghost event log gained exactly lst[0..k) in order"""
    m = z3.Int("m")
    ln, larr = lst
    return z3.And(n_now == n0 + k, z3.ForAll([m], z3.Implies(z3.And(m >= 0, m < k), z3.Select(arr_now, n0 + m) == z3.Select(larr, m))))


def tick_roles(f):
    """Roles of clck_tick's locals and loops, resolved from the AST by use: the loop over self._tx_queue partitions into lists that are
    appended to; the list assigned to self._tx_queue afterwards is `wait`; the list iterated with a forward_msg call is `emit`; the
    remaining one, iterated with a logging call, is `drop`."""
    import ast
    from engine.pyvc.interp import func_ast
    node = func_ast(f)[0]
    loops = [n for n in ast.walk(node) if isinstance(n, ast.For) and hasattr(n, "_ordinal")]

    def calls(n, attr):
        return any(isinstance(c, ast.Call) and isinstance(c.func, ast.Attribute) and c.func.attr == attr for c in ast.walk(n))
    part = [l for l in loops if isinstance(l.iter, ast.Attribute) and l.iter.attr == "_tx_queue"]
    if len(part) != 1 or not isinstance(part[0].target, ast.Name):
        raise Unsupported("clck_tick: no single loop over self._tx_queue")
    appended = []
    for c in ast.walk(part[0]):
        if isinstance(c, ast.Call) and isinstance(c.func, ast.Attribute) and c.func.attr == "append" and isinstance(c.func.value, ast.Name):
            if c.func.value.id not in appended:
                appended.append(c.func.value.id)
    wait = [a.value.id for a in ast.walk(node) if isinstance(a, ast.Assign) and isinstance(a.value, ast.Name) and a.value.id in appended
            and any(isinstance(t, ast.Attribute) and t.attr == "_tx_queue" for t in a.targets)]
    emit_l = [l for l in loops if isinstance(l.iter, ast.Name) and l.iter.id in appended and calls(l, "forward_msg")]
    drop_l = [l for l in loops if isinstance(l.iter, ast.Name) and l.iter.id in appended and l not in emit_l]
    if len(appended) != 3 or len(set(wait)) != 1 or len(emit_l) != 1 or len(drop_l) != 1:
        raise Unsupported("clck_tick: cannot resolve the drop/emit/wait roles of its locals (lists %s)" % appended)
    emit, drop = emit_l[0].iter.id, drop_l[0].iter.id
    if len({emit, drop, wait[0]}) != 3:
        raise Unsupported("clck_tick: roles are not distinct")
    vs = [l.target.id for l in (part[0], emit_l[0], drop_l[0]) if isinstance(l.target, ast.Name)]
    return {"drop": drop, "emit": emit, "wait": wait[0], "vars": vs,
            "loops": {"partition": part[0]._ordinal, "emit": emit_l[0]._ordinal, "stale": drop_l[0]._ordinal}}


def build_clck_tick(run, prop, E):
    tr = toolkit("transceiver")
    bf = toolkit("burst_fwd")
    f = raw(tr.Transceiver, "clck_tick")
    register_fn(run, f)
    install_ownership(E)
    fw_n0, st_n0 = z3.Int("fw.n0"), z3.Int("st.n0")
    fw_arr0, st_arr0 = z3.Array("fw.arr0", I, I), z3.Array("st.arr0", I, I)

    def fwd_summary(E, func, args, kwargs):
        fwd, src, m = args
        E.require("forward_msg_called_with_self_as_source", z3.BoolVal(src is E.ghost.get("self")), kind="post")
        E.ghost["fw.arr"] = z3.Store(E.ghost["fw.arr"], E.ghost["fw.n"], m.idt)
        E.ghost["fw.n"] = E.ghost["fw.n"] + 1
        return None

    def msgs_named(v, depth=0):
        """the queued messages a log record refers to (through desc_hdr() or str()), whatever its text"""
        out = []
        if isinstance(v, FmtStr):
            if v.fmt in ("desc_hdr", "obj") and v.args and isinstance(v.args[0], SRef) and issubclass(v.args[0].cls, toolkit("data_msg").Msg):
                out.append(v.args[0])
            elif depth < 4:
                for a in v.args:
                    out += msgs_named(a, depth + 1)
        elif isinstance(v, (tuple, list)) and depth < 4:
            for a in v:
                out += msgs_named(a, depth + 1)
        elif isinstance(v, SRef) and issubclass(v.cls, toolkit("data_msg").Msg):
            out.append(v)
        return out

    def warn_summary(E, func, args, kwargs):
        # a stale report = one log record at warning level or above that names the message (text and level above warning are free)
        ref = msgs_named(list(args))
        if ref:
            E.require("stale_report_names_exactly_one_message", z3.BoolVal(len(ref) == 1), kind="post")
            E.ghost["st.arr"] = z3.Store(E.ghost["st.arr"], E.ghost["st.n"], ref[0].idt)
            E.ghost["st.n"] = E.ghost["st.n"] + 1
        return None
    E.summaries = {"burst_fwd.BurstForwarder.forward_msg": fwd_summary, "logging.warning": warn_summary, "logging.warn": warn_summary,
                   "logging.error": warn_summary, "logging.critical": warn_summary,
                   "data_msg.TxMsg.desc_hdr": lambda E, f_, a, k: FmtStr("desc_hdr", (a[0],))}

    # the locals of clck_tick are bound by what the code does with them, not by their names (a renamed local keeps the contract attached)
    R = tick_roles(f)
    N_DROP, N_EMIT, N_WAIT = R["drop"], R["emit"], R["wait"]

    def lists_of(fr):
        return {c: (lst_len(fr.locals[nm]), lst_arr(fr.locals[nm])) for c, nm in ((0, N_DROP), (1, N_EMIT), (2, N_WAIT))}

    # loop 1: partition
    def havoc1(E, fr, i):
        for nm in (N_DROP, N_EMIT, N_WAIT):
            ln = E.fresh_int(nm + ".len")
            s = mk_queue(E, z3.Array(E.fresh(nm + ".ids"), I, I), ln)
            fr.locals[nm] = s
        E.ghost["dest"] = z3.Array(E.fresh("dest"), I, I)
        E.ghost["src"] = {c: z3.Array(E.fresh("src%d" % c), I, I) for c in (0, 1, 2)}
        E.ghost["pre_lists"] = lists_of(fr)
        fr.locals.pop(R["vars"][0], None)

    def inv1(E, fr, i):
        q = E.ghost["self"].attrs["_tx_queue"]
        same = z3.BoolVal(q is E.ghost["queue_obj"] and z3.eq(q.arr, QIDS) and z3.eq(Z(q.length), QN))
        return z3.And(same, part_inv(i, lists_of(fr), E.ghost["dest"], E.ghost["src"]))

    def step1(E, fr, i):
        pre = E.ghost["pre_lists"]
        now = lists_of(fr)
        grew = {c: now[c][0] == pre[c][0] + 1 for c in (0, 1, 2)}
        E.ghost["dest"] = z3.Store(E.ghost["dest"], i, z3.If(grew[0], pre[0][0], z3.If(grew[1], pre[1][0], pre[2][0])))
        E.ghost["src"] = {c: z3.If(grew[c], z3.Store(E.ghost["src"][c], pre[c][0], i), E.ghost["src"][c]) for c in (0, 1, 2)}

    def facts1(E, fr, i):
        return []
    # loops 2 and 3: event logs
    def mk_log_loop(name, lst_name, nkey, akey, n0, arr0):
        def havoc(E, fr, k):
            E.ghost[nkey] = E.fresh_int(nkey)
            E.ghost[akey] = z3.Array(E.fresh(akey), I, I)
            for v in R["vars"]:
                fr.locals.pop(v, None)

        def inv(E, fr, k):
            x = fr.locals[lst_name]
            return log_inv(k, E.ghost[nkey], E.ghost[akey], n0, (lst_len(x), lst_arr(x)))
        return LoopSpec(name, havoc, inv)
    qn = "transceiver.Transceiver.clck_tick"
    E.loop_specs = {(qn, R["loops"]["partition"]): LoopSpec("partition_loop", havoc1, inv1, facts=facts1, ghost_step=step1),
                    (qn, R["loops"]["emit"]): mk_log_loop("emit_loop", N_EMIT, "fw.n", "fw.arr", fw_n0, fw_arr0),
                    (qn, R["loops"]["stale"]): mk_log_loop("stale_loop", N_DROP, "st.n", "st.arr", st_n0, st_arr0)}
    running = T.fb("t.", "running")

    def setup(E):
        t = T.mk_trx(E, "t.")
        q = mk_queue(E)
        t.attrs["_tx_queue"] = q
        for c in queue_pre():
            E.assume(c)
        E.sheap["fn"] = FNARR
        E.sheap["tn"] = z3.Array("msg.tn", I, I)
        E.ghost.update({"self": t, "queue_obj": q, "fw.n": fw_n0, "fw.arr": fw_arr0, "st.n": st_n0, "st.arr": st_arr0,
                        "dest": z3.Array("dest0", I, I), "src": {c: z3.Array("src0_%d" % c, I, I) for c in (0, 1, 2)}})
        E.assume(z3.And(fw_n0 >= 0, st_n0 >= 0))
        fwd = SObj(bf.BurstForwarder, {"trx_list": []})
        return {"self": t, "fwd": fwd, "q": q, "pre": snapshot(t)}
    n_done = 0
    for p, ctx, out in run_paths(E, setup, lambda E, ctx: E.call(f, [ctx["self"], ctx["fwd"], SInt(FN)])):
        run.add(*path_obligations(run, prop, f, p, "", tag={"what": "clck_tick"}))
        tag = {"what": "clck_tick"}
        if out[0] == "cut":
            continue
        if out[0] == "raise":
            run.add(Obligation(prop, qualname(f), "never_raises", p.pc, z3.BoolVal(False), kind="noexc", note=exc_note(out[1]), case=out[1].cls.__name__, where=where(f), tag=tag))
            continue
        t = ctx["self"]
        q = t.attrs["_tx_queue"]
        g = p.ghost
        unchanged = z3.And(z3.BoolVal(q is ctx["q"] and z3.eq(q.arr, QIDS)), Z(q.length) == QN, g["fw.n"] == fw_n0, g["st.n"] == st_n0)
        if q is ctx["q"]:
            # nothing was partitioned: only allowed when idle
            run.add(Obligation(prop, qualname(f), "idle_tick_changes_nothing", p.pc, z3.And(z3.Not(running), unchanged), kind="post", where=where(f), tag=tag))
            continue
        n_done += 1
        k, j = z3.Ints("k j")
        lenD, lenE, lenW = st_n_d = (g["st.n"] - st_n0, g["fw.n"] - fw_n0, Z(q.length))
        dest, src = g["dest"], g["src"]
        logs = {0: (lenD, lambda m: z3.Select(g["st.arr"], st_n0 + m)), 1: (lenE, lambda m: z3.Select(g["fw.arr"], fw_n0 + m)), 2: (lenW, lambda m: z3.Select(q.arr, m))}
        names = {0: "stale_warnings", 1: "forward_calls", 2: "new_queue"}
        run.add(Obligation(prop, qualname(f), "runs_only_when_running", p.pc, running, kind="post", where=where(f), tag=tag))
        run.add(Obligation(prop, qualname(f), "every_message_gets_exactly_one_outcome", p.pc, z3.And(lenD >= 0, lenE >= 0, lenW >= 0, lenD + lenE + lenW == QN),
                           kind="post", where=where(f), tag=tag))
        for c in (0, 1, 2):
            ln, at = logs[c]
            sk = z3.Select(src[c], k)
            run.add(Obligation(prop, qualname(f), "%s_are_members_of_their_class" % names[c], p.pc,
                               z3.ForAll([k], z3.Implies(z3.And(k >= 0, k < ln), z3.And(sk >= 0, sk < QN, cls_of_pos(sk) == c, at(k) == z3.Select(QIDS, sk), z3.Select(dest, sk) == k))),
                               kind="post", where=where(f), tag=tag))
            dj = z3.Select(dest, j)
            run.add(Obligation(prop, qualname(f), "every_member_of_class_in_%s" % names[c], p.pc,
                               z3.ForAll([j], z3.Implies(z3.And(j >= 0, j < QN, cls_of_pos(j) == c), z3.And(dj >= 0, dj < ln, z3.Select(src[c], dj) == j, at(dj) == z3.Select(QIDS, j)))),
                               kind="post", where=where(f), tag=tag))
        run.add(Obligation(prop, qualname(f), "lock_released", p.pc, z3.BoolVal(not t.attrs["_tx_queue_lock"].held), kind="post", where=where(f), tag=tag))
        run.add(Obligation(prop, qualname(f), "frame_other_state", p.pc,
                           z3.BoolVal(all(t.attrs.get(kk) is ctx["pre"][kk][0] for kk in ctx["pre"] if kk != "_tx_queue")), kind="frame", where=where(f), tag=tag))
    if n_done == 0:
        run.add(Obligation(prop, qualname(f), "running_path_exists", [], z3.BoolVal(False), kind="cover", where=where(f)))
    run.add(Cover(prop, qualname(f), "cover_pre", queue_pre() + [QN >= 3, cls_of_pos(0) == 0, cls_of_pos(1) == 1, cls_of_pos(2) == 2]))
    E.attr_hooks = {}
    E.loop_specs = {}


# ------------------------------------------------------------------ history lemma

def build_fate_lemma(run, prop):
    """fate in {0 queued, 1 sent, 2 stale, 3 cleared}.  One step = one of the contracts above applied to a message m with
    frame number a at a tick `now` (or an arrival / a clear).  I1: fate == queued <=> in queue.  I2: transitions only
    queued -> sent (now == a) | stale (a passed) | cleared; terminal fates are fixed points."""
    fate, inq, a, now = z3.Int("fate"), z3.Bool("inq"), z3.Int("a"), z3.Int("now")
    I1 = z3.And(fate >= 0, fate <= 3, (fate == 0) == inq)
    rng = [a >= 0, a < H, now >= 0, now < H]
    c = tdma.klass(a, now)
    # tick on a running transceiver (clck_tick contract): members are forwarded / reported stale / kept, non-members untouched
    fate_t = z3.If(inq, z3.If(c == 1, 1, z3.If(c == 0, 2, 0)), fate)
    inq_t = z3.And(inq, c == 2)
    f = "lemma.fate"
    run.add(Obligation(prop, f, "tick_preserves_I1", [I1] + rng, z3.And(fate_t >= 0, fate_t <= 3, (fate_t == 0) == inq_t), kind="lemma"))
    run.add(Obligation(prop, f, "sent_only_in_own_frame", [I1, fate != 1, fate_t == 1] + rng, now == a, kind="lemma"))
    run.add(Obligation(prop, f, "stale_only_after_its_frame", [I1, fate != 2, fate_t == 2] + rng, tdma.passed(a, now), kind="lemma"))
    run.add(Obligation(prop, f, "terminal_fates_never_change", [I1, fate != 0] + rng, fate_t == fate, kind="lemma"))
    run.add(Obligation(prop, f, "never_sent_twice", [I1, fate == 1] + rng, z3.And(fate_t == 1, z3.Not(inq_t)), kind="lemma"))
    run.add(Obligation(prop, f, "due_message_is_sent_by_its_tick", [I1, fate == 0, now == a] + rng, fate_t == 1, kind="lemma"))
    # clear (tx_queue_clear / power off): queued -> cleared
    fate_c = z3.If(inq, 3, fate)
    run.add(Obligation(prop, f, "clear_preserves_I1", [I1], z3.And((fate_c == 0) == z3.BoolVal(False), fate_c >= 1, z3.Implies(fate != 0, fate_c == fate)), kind="lemma"))
    # arrival of another message / idle tick: nothing changes for m (frame clauses of the contracts)
    run.add(Obligation(prop, f, "no_vanishing", [I1, inq] + rng, z3.Or(inq_t, fate_t == 1, fate_t == 2), kind="lemma"))
    run.fn(f, "spec (lemma over the clck_tick / tx_queue_* / recv_data_msg contracts)", 0, "inductive fate invariant")


# ------------------------------------------------------------------ interference pass (schedules)

def build_interference(run, prop, E):
    """Clock-thread functions re-verified with the socket thread allowed to act between two attribute reads:
    POWEROFF may set `fh` to None at any time (Transceiver.disable_fh), SETFH may replace it."""
    tr = toolkit("transceiver")
    gs = toolkit("gsm_shared")

    def resolve_summary(E, func, args, kwargs):
        return (SInt(z3.Int("hop.rx")), SInt(z3.Int("hop.tx")))
    E.summaries = {"gsm_shared.HoppingParams.resolve": resolve_summary}

    def hook(E, obj, name, op, v):
        if op != "get" or name not in obj.attrs:
            return NotImplemented
        cur = obj.attrs[name]
        # environment step before this read: the socket thread may have cleared the hopping parameters
        if cur is not None and E.choose(2, "env_poweroff") == 1:
            obj.attrs[name] = None
            E.ghost.setdefault("env", []).append("fh:=None before read #%d" % (len(E.ghost.get("reads", [])) + 1))
        E.ghost.setdefault("reads", []).append(name)
        return NotImplemented
    for name in ("get_rx_freq", "get_tx_freq"):
        f = raw(tr.Transceiver, name)
        E.attr_hooks = {"fh": hook}

        def setup(E):
            t = T.mk_trx(E, "t.", fh=SObj(gs.HoppingParams, {}))
            return {"self": t}
        for p, ctx, out in run_paths(E, setup, lambda E, ctx, f=f: E.call(f, [ctx["self"], SInt(FN)])):
            tag = {"what": "interference", "func": name, "env": p.ghost.get("env", [])}
            if out[0] == "raise":
                run.add(Obligation(prop, qualname(f), "no_exception_under_interference", p.pc, z3.BoolVal(False), kind="interference",
                                   case="%s,%s" % (out[1].cls.__name__, ";".join(p.ghost.get("env", []))), where=where(f), tag=tag))
            else:
                run.add(Obligation(prop, qualname(f), "no_exception_under_interference", p.pc, z3.BoolVal(True), kind="interference",
                                   case="returns,%s" % ";".join(p.ghost.get("env", [])), where=where(f), tag=tag))
    E.attr_hooks = {}


# ------------------------------------------------------------------ witness / replay

def witness(o, model):
    t = dict(o.tag or {}) if isinstance(o.tag, dict) else {}
    if t.get("what") == "clck_tick":
        n = max(0, min(8, mval(model, QN)))
        ids = [mval(model, z3.Select(QIDS, i)) for i in range(n)]
        fns = [mval(model, z3.Select(FNARR, i)) for i in ids]
        if "inv" in o.clause:
            # the arbitrary iteration the invariant fails to be preserved at: replay with that one message queued
            i = mval(model, z3.Int("i!0"))
            fns = [mval(model, z3.Select(FNARR, z3.Select(QIDS, z3.IntVal(i))))]
        t.update(fn=mval(model, FN), fns=fns, running=True if "inv" in o.clause else mval(model, z3.Bool("t.running")))
    return t


def known_predicate(o, k):
    env = {"z3": z3, "FN": FN, "H": H}
    try:
        return eval(k["witness"], env)
    except Exception:
        return None


def replay_tick(fn, fns, running):
    from contracts.py.native import native_trx
    dm = toolkit("data_msg")
    t = native_trx()
    t.running = running
    msgs_ = []
    for a in fns:
        m = dm.TxMsg(fn=a % H, tn=0)
        m.pwr, m.burst = 0, bytearray(148)
        msgs_.append(m)
        t._tx_queue.append(m)
    sent, stale = [], []

    class Fwd:
        def forward_msg(self, src, m):
            sent.append(m)
    tr = toolkit("transceiver")
    orig = (tr.log.warning, tr.log.error, tr.log.critical)
    tr.log.warning = tr.log.error = tr.log.critical = lambda s_, *a, **k: stale.append(s_)
    try:
        try:
            t.clck_tick(Fwd(), fn)
        except Exception as e:
            return {"confirmed": True, "observed": "raises %s: %s" % (type(e).__name__, e), "expected": "returns", "tick": fn, "queue": list(fns)}
    finally:
        tr.log.warning, tr.log.error, tr.log.critical = orig
    if not running:
        ok = not sent and not stale and t._tx_queue == msgs_
        return {"confirmed": not ok, "observed": [len(sent), len(stale), len(t._tx_queue)], "expected": "idle tick changes nothing"}
    bad = []
    for m in msgs_:
        c = tdma.klass_py(m.fn, fn)
        got = (sum(1 for x in sent if x is m), sum(1 for x in t._tx_queue if x is m))
        if got != ((1 if c == 1 else 0), (1 if c == 2 else 0)):
            bad.append({"msg_fn": m.fn, "tick": fn, "class": ["stale", "due", "future"][c], "sent": got[0], "queued": got[1]})
    exp_stale = sum(1 for m in msgs_ if tdma.klass_py(m.fn, fn) == 0)
    if len(stale) != exp_stale:
        bad.append({"stale_warnings": len(stale), "expected": exp_stale})
    return {"confirmed": bool(bad), "observed": bad or "partition matches spec", "expected": "due sent once, passed reported stale, future kept", "tick": fn, "queue": list(fns)}


def replay_schedules():
    """Native schedule search for ownership failures: ONE socket-thread step (an arrival through tx_queue_append, or POWEROFF through
    power_event_handler(False)) is run at every line boundary of one real clck_tick where the real mutex would let it run (a context
    switch simulated in one thread: a step that needs the held mutex blocks, i.e. it is not injected there).  Judged against the
    statement only: accepted bursts go on the air exactly once in their frame, passed ones are reported stale, power-off discards
    everything still queued, nothing vanishes."""
    import sys
    from contracts.py.native import native_trx
    tr = toolkit("transceiver")
    dm = toolkit("data_msg")

    class WouldBlock(Exception):
        pass

    class ILock:
        def __init__(self):
            self.held = False

        def acquire(self, *a, **k):
            if self.held:
                raise WouldBlock()
            self.held = True
            return True

        def release(self):
            self.held = False

        def __enter__(self):
            self.acquire()

        def __exit__(self, *a):
            self.release()
    code = tr.Transceiver.clck_tick.__code__
    fn = 100

    def mk(a):
        m = dm.TxMsg(fn=a % H, tn=0)
        m.pwr, m.burst = 0, bytearray(148)
        return m
    orig_warn = (tr.log.warning, tr.log.error, tr.log.critical)
    try:
        for action in ("arrival", "poweroff"):
            for inject_at in range(0, 400):
                t = native_trx()
                t.running = True
                t._tx_queue_lock = ILock()
                due, future, passed, new = mk(fn), mk(fn + 1), mk(fn - 1), mk(fn + 2)
                for m in (due, future, passed):
                    t._tx_queue.append(m)
                sent, stale, st = [], [], {"n": 0, "done": False, "blocked": False, "tick": fn}
                tr.log.warning = tr.log.error = tr.log.critical = lambda s_, *a, **k: stale.append(s_)

                class Fwd:
                    def forward_msg(self, src, m):
                        sent.append((st["tick"], m))

                def step():
                    if action == "arrival":
                        t.tx_queue_append(new)
                    else:
                        t.power_event_handler(False)

                def local(frame, event, arg):
                    if event == "line" and not st["done"]:
                        if st["n"] == inject_at:
                            st["done"] = True
                            st["line"] = frame.f_lineno
                            sys.settrace(None)
                            try:
                                step()
                            except WouldBlock:
                                st["blocked"] = True
                            finally:
                                sys.settrace(tracer)
                        st["n"] += 1
                    return local

                def tracer(frame, event, arg):
                    return local if frame.f_code is code else None
                sys.settrace(tracer)
                try:
                    t.clck_tick(Fwd(), fn)
                except Exception as e:
                    sys.settrace(None)
                    return {"confirmed": True, "observed": "tick raises %s: %s" % (type(e).__name__, e), "expected": "returns",
                            "schedule": "%s at line %s of clck_tick" % (action, st.get("line"))}
                finally:
                    sys.settrace(None)
                if not st["done"]:
                    break                      # past the last line of the tick
                if st["blocked"]:
                    continue                   # the step waits for the mutex: same as running it at the next unlocked line
                sched = "%s between the lines of clck_tick, just before transceiver.py:%d" % (action, st["line"])
                if action == "poweroff":
                    left = len(t._tx_queue)
                    t.power_event_handler(True)
                for k in (1, 2):
                    st["tick"] = fn + k
                    t.clck_tick(Fwd(), fn + k)
                bad = []
                cnt = lambda m: [tk for tk, x in sent if x is m]
                if action == "arrival":
                    for nme, m, at in (("due", due, fn), ("queued for the next frame", future, fn + 1), ("arriving during the tick", new, fn + 2)):
                        if cnt(m) != [at]:
                            bad.append("burst %s (fn=%d) transmitted at ticks %s, expected exactly once at tick %d" % (nme, m.fn, cnt(m), at))
                    if cnt(passed) or len(stale) != 1:
                        bad.append("passed burst: sent at %s, %d stale reports" % (cnt(passed), len(stale)))
                else:
                    if left:
                        bad.append("%d burst(s) still queued after POWEROFF completed" % left)
                    for nme, m in (("queued for the next frame", future), ("passed", passed)):
                        if cnt(m):
                            bad.append("burst %s (fn=%d) survived POWEROFF and was transmitted at tick %s after the next POWERON" % (nme, m.fn, cnt(m)))
                    if [tk for tk in cnt(due) if tk != fn] or len(cnt(due)) > 1:
                        bad.append("due burst transmitted at ticks %s" % cnt(due))
                if bad:
                    return {"confirmed": True, "observed": bad, "expected": "exactly-once in its frame / stale report / discarded by power-off", "schedule": sched}
    finally:
        tr.log.warning, tr.log.error, tr.log.critical = orig_warn
        sys.settrace(None)
    return {"confirmed": False, "observed": "every single-step interleaving of an arrival or POWEROFF with one tick behaves as the statement says",
            "expected": "same"}


def replay(payload):
    if str(payload.get("clause", "")).startswith("ownership"):
        return replay_schedules()
    from contracts.py.native import native_trx
    f = payload["inputs"]
    dm = toolkit("data_msg")
    what = f.get("what")
    if what == "clck_tick":
        r = replay_tick(f["fn"], f["fns"], bool(f["running"]))
        if r["confirmed"] or not f["running"]:
            return r
        # the counter-model of a loop-invariant obligation is one abstract iteration, not necessarily a whole failing run:
        # search a small grid of concrete ticks/queues around the model's values (only real misbehaviour confirms)
        H_ = H
        ticks = [f["fn"] % H_, 0, 1, 50, 101, 1325, H_ - 1, H_ // 2]
        for tick in ticks:
            for queue in ([tick], [(tick - 1) % H_], [(tick + 1) % H_], [(tick + 1) % H_, tick, (tick - 1) % H_, tick, (tick + H_ // 2) % H_],
                          [(tick - 2) % H_, (tick - 1) % H_], [tick, tick, tick]):
                r2 = replay_tick(tick, queue, True)
                if r2["confirmed"]:
                    r2["found_by"] = "native search around the model (tick %d, queue %s)" % (tick, queue)
                    return r2
        return r
    if what == "clck_tick_model_only":
        import logging
        t = native_trx()
        t.running = bool(f["running"])
        msgs_ = []
        for a in f["fns"]:
            m = dm.TxMsg(fn=a % H, tn=0)
            m.pwr, m.burst = 0, bytearray(148)
            msgs_.append(m)
            t._tx_queue.append(m)
        sent, stale = [], []

        class Fwd:
            def forward_msg(self, src, m):
                sent.append(m)
        tr = toolkit("transceiver")
        orig = (tr.log.warning, tr.log.error, tr.log.critical)
        tr.log.warning = tr.log.error = tr.log.critical = lambda s, *a, **k: stale.append(s)
        try:
            t.clck_tick(Fwd(), f["fn"])
        finally:
            tr.log.warning, tr.log.error, tr.log.critical = orig
        bad = []
        if not t.running:
            ok = not sent and not stale and t._tx_queue == msgs_
            return {"confirmed": not ok, "observed": [len(sent), len(stale), len(t._tx_queue)], "expected": "idle tick changes nothing"}
        for m in msgs_:
            c = tdma.klass_py(m.fn, f["fn"])
            got = (sum(1 for x in sent if x is m), sum(1 for s in stale if "fn=%u" % f["fn"] in s) if False else None, sum(1 for x in t._tx_queue if x is m))
            exp_sent, exp_q = (1 if c == 1 else 0), (1 if c == 2 else 0)
            if got[0] != exp_sent or got[2] != exp_q:
                bad.append({"msg_fn": m.fn, "tick": f["fn"], "class": ["stale", "due", "future"][c], "sent": got[0], "queued": got[2]})
        exp_stale = sum(1 for m in msgs_ if tdma.klass_py(m.fn, f["fn"]) == 0)
        if len(stale) != exp_stale:
            bad.append({"stale_warnings": len(stale), "expected": exp_stale})
        return {"confirmed": bool(bad), "observed": bad or "partition matches spec", "expected": "due sent once, passed reported stale, future kept"}
    if what == "interference":
        # replay the environment action natively: `fh` becomes None between the check and the use
        t = native_trx()
        gs = toolkit("gsm_shared")
        hp = gs.HoppingParams(1, 0, [(1, 2)])
        reads = {"n": 0}
        kill_at = None
        for e in f.get("env", []):
            kill_at = int(e.rsplit("#", 1)[1])
        cls = type(t)

        class Racy(cls):
            @property
            def fh(self):
                reads["n"] += 1
                if kill_at is not None and reads["n"] >= kill_at:
                    return None
                return hp

            @fh.setter
            def fh(self, v):
                pass
        t.__class__ = Racy
        try:
            getattr(t, f["func"])(5)
            return {"confirmed": False, "observed": "returns", "expected": "returns"}
        except Exception as e:
            return {"confirmed": True, "observed": "raises %s: %s" % (type(e).__name__, e), "expected": "no exception whatever the socket thread does",
                    "schedule": f.get("env")}
    if what in ("append", "clear"):
        bad = []
        for n in range(4):
            t = native_trx()
            old = [dm.TxMsg(fn=10 + k, tn=k) for k in range(n)]
            t._tx_queue.extend(old)
            m = dm.TxMsg(fn=5, tn=1)
            try:
                t.tx_queue_append(m) if what == "append" else t.tx_queue_clear()
            except Exception as e:
                bad.append({"queued": n, "observed": "raises %s: %s" % (type(e).__name__, e)})
                continue
            got = list(t._tx_queue)
            want = old + [m] if what == "append" else []
            if len(got) != len(want) or any(a is not b for a, b in zip(got, want)) or t._tx_queue_lock.locked():
                bad.append({"queued": n, "observed": [x.fn for x in got], "expected": [x.fn for x in want], "lock_held": t._tx_queue_lock.locked()})
        return {"confirmed": bool(bad), "observed": bad or "as specified", "expected": "append at the end / queue emptied, lock released"}
    if what in ("recv_tx_msg", "recv_data_msg"):
        # datagrams of both header versions (real TxMsg.gen_msg output), damaged ones and noise against both negotiated versions
        def mk(ver, fn, tn):
            m = dm.TxMsg(fn=fn, tn=tn, ver=ver)
            m.pwr, m.burst = 3, bytearray([k % 2 for k in range(148)])
            return m.gen_msg()
        grams = [(mk(v, fn, tn), v, fn, tn) for v in (0, 1) for fn, tn in ((0, 0), (2715647, 7), (1234, 3))]
        grams += [(b"", None, 0, 0), (b"\x00", None, 0, 0), (mk(0, 7, 1)[:5], None, 0, 0), (bytes([0x20]) + mk(0, 7, 1)[1:], None, 0, 0)]
        bad = []
        for hv in (0, 1):
            for running in ((True, False) if what == "recv_data_msg" else (True,)):
                for data, ver, fn, tn in grams:
                    t = native_trx()
                    t.data_if._hdr_ver, t.running = hv, running
                    t.data_if.sock.inbox.append((data, ("127.0.0.1", 5802)))
                    old = [dm.TxMsg(fn=99, tn=0)]
                    t._tx_queue.extend(old)
                    try:
                        r = t.data_if.recv_tx_msg() if what == "recv_tx_msg" else t.recv_data_msg()
                    except Exception as e:
                        bad.append({"datagram": data.hex()[:40], "negotiated": hv, "observed": "raises %s: %s" % (type(e).__name__, e)})
                        continue
                    want = ver is not None and ver == hv and (running or what == "recv_tx_msg")
                    ok = (r is not None and r is not False) == want
                    if ok and want:
                        ok = isinstance(r, dm.TxMsg) and (r.fn, r.tn, r.ver) == (fn, tn, ver)
                    if ok and what == "recv_data_msg":
                        q = list(t._tx_queue)
                        ok = (q[:1] == old and len(q) == (2 if want else 1) and (not want or q[1] is r))
                    if not ok:
                        bad.append({"datagram": data.hex()[:40], "datagram_version": ver, "negotiated": hv, "running": running,
                                    "observed": None if r is None else repr(r)[:80], "queue": [x.fn for x in t._tx_queue],
                                    "expected": "message (fn %d tn %d) accepted%s" % (fn, tn, " and queued at the end" if what == "recv_data_msg" else "") if want else "dropped, queue unchanged"})
        return {"confirmed": bool(bad), "observed": bad[:4] or "as specified", "expected": "accepted iff well-formed, negotiated version and powered on"}
    return {"confirmed": False, "error": "no native replay for %r" % what}

"""C17 - TRXD PDU definitions (v0, v1, v2) have the documented structure.

The *live* trxd_proto objects (structure, bit offsets, masks as built by the real constructors) are executed symbolically through the
real codec.py code: field values and input octets are symbolic, the modulation code is enumerated (0..15 x NOPE), so every case is loop-free.

  encode      PDU._to_bytes(vals) == spec.trxd_pdu layout (length and every octet), reserved bits 0
  round trip  PDU._from_bytes({}, PDU._to_bytes(vals) ++ rest) returns exactly the encoded length and the same values
              (rest = nothing for top-level PDUs; arbitrary trailing octets for batched sub-PDUs, which makes them prefix-decodable -
               with codec.Sequence's contract (C16) any number of batched sub-PDUs round-trips)
  decode      on ANY octet string: only DecodeError; success => fields == the layout's bit fields (reserved bits ignored), length exact,
              version nibble right; NOPE => no burst consumed
  MTS.get_burst_len  == spec table for all 16 codes (ValueError exactly for undefined codes)
  cross       every valid v0/v1 message of the message codec (spec.trxd_layout.enc == gen_msg by C01), legacy padding on/off, is accepted
              by PDUv0/v1 Rx/Tx with identical field values
"""
import z3
from engine.common.core import Obligation, Cover, mval
from engine.pyvc.values import *
from engine.pyvc import models
from engine.pyvc.harness import toolkit, raw, where, new_engine, run_paths, path_obligations, register_fn, note_engine, qualname, par_cases, exc_note, sect
from contracts.py import msgs
from spec import trxd_pdu as P
from spec import trxd_layout as L
from spec import valid_msg as V

ID = "C17"
ENGINE = "PyVC"
LEVEL = "proof"
Z = models.zint
I = z3.IntSort()


def pdus():
    tp = toolkit("trxd_proto")
    return [("PDUv0Rx", tp.PDUv0Rx(), "soft-bits", False), ("PDUv0Tx", tp.PDUv0Tx(), "hard-bits", False),
            ("PDUv1Rx", tp.PDUv1Rx(), "soft-bits", False), ("PDUv1Tx", tp.PDUv1Tx(), "hard-bits", False),
            ("PDUv2Rx", tp.PDUv2Rx(), "soft-bits", False), ("PDUv2Tx", tp.PDUv2Tx(), "hard-bits", False),
            ("PDUv2Rx.BPDU", tp.PDUv2Rx.BPDU(check_len=False), "soft-bits", True), ("PDUv2Tx.BPDU", tp.PDUv2Tx.BPDU(check_len=False), "hard-bits", True)]


def has_mts(name):
    return name.startswith(("PDUv1Rx", "PDUv2"))


def mod_cases(name):
    if not has_mts(name):
        return [(None, None)]
    return [(mod, nope) for mod in range(16) for nope in (0, 1)]


def sym_vals(E, name, mod, nope, pfx="v."):
    """vals dict with symbolic in-range integers; the burst is a symbolic octet string of the length the case prescribes"""
    vals, terms = {}, {}
    for f in P.FIELDS[name]:
        t = z3.Int(pfx + f)
        lo, hi = P.RANGES[f]
        if f == "mod" and mod is not None:
            vals[f], terms[f] = mod, z3.IntVal(mod)
            continue
        if f == "nope" and nope is not None:
            vals[f], terms[f] = nope, z3.IntVal(nope)
            continue
        E.assume(z3.And(t >= lo, t <= hi))
        vals[f], terms[f] = SInt(t), t
    return vals, terms


def burst_for(E, name, key, mod, nope, terms):
    """(burst value or None, its length term, pad)"""
    if has_mts(name):
        if nope:
            return None, 0
        bl = P.burst_len(mod)
        if bl is None:
            return "undefined", 0
        return models.fresh_seq(E, "burst", "bytes", bl, 0, 255), bl
    if name == "PDUv0Rx":
        n = z3.Int("burst.len")
        E.assume(z3.Or(n == 148, n == 444))
        return models.fresh_seq(E, "burst", "bytes", n, 0, 255), n
    n = z3.Int("burst.len")
    E.assume(z3.And(n >= 0, n <= 1024))
    return models.fresh_seq(E, "burst", "bytes", n, 0, 255), n


def build(run, prop=ID):
    E = new_engine()
    E.live_modules = ("codec", "trxd_proto")
    cd = toolkit("codec")
    tp = toolkit("trxd_proto")
    for c, names in ((cd.Envelope, ("_to_bytes", "_from_bytes")), (cd.Field, ("to_bytes", "from_bytes")), (cd.Uint, ("_to_bytes", "_from_bytes")),
                     (cd.BitFieldSet, ("_to_bytes", "_from_bytes")), (cd.BitField, ("enc_val", "dec_val")), (cd.Buf, ("_to_bytes", "_from_bytes")),
                     (cd.Spare, ("_to_bytes", "_from_bytes")), (tp.MTS, ("get_burst_len",))):
        for nm in names:
            register_fn(run, raw(c, nm), "executed on the live PDU objects")
    sect(run, build_burst_len, run, prop, E, tp)
    sect(run, build_encode_roundtrip, run, prop, E, cd)
    sect(run, build_decode_any, run, prop, E, cd)
    sect(run, build_cross, run, prop, E, cd)
    # "every datagram the message codec produces is accepted" rests on what data_msg validates and emits: the cross lemma above takes that from
    # the layout (spec/trxd_layout.py, = the message codec's contract C01/C13); the validation contract is discharged in this check as well,
    # so a message codec that starts to accept and emit something the definitions refuse fails here too
    from props import C13 as _C13
    sect(run, _C13.build, run, prop)
    note_engine(run, E)
    run.assume("PDU structure (STRUCT tuples, bit offsets/masks, lambdas) is taken from the live objects built by the real constructors; "
               "the constructors themselves (BitFieldSet.__init__ layout arithmetic) are C16's obligations")
    run.assume("v2 batching for any count: batched sub-PDUs are proved prefix-decodable here; the repetition law is codec.Sequence's contract (C16)")
    run.extra["paths_explored"] = E.stats["paths"]


# ------------------------------------------------------------------ MTS.get_burst_len

def build_burst_len(run, prop, E, tp):
    f = raw(tp.MTS, "get_burst_len")
    for mod in range(16):
        paths = run_paths(E, lambda E: {}, lambda E, ctx, mod=mod: E.call(f, [mod]))
        want = P.burst_len(mod)
        for p, ctx, out in paths:
            if out[0] == "raise":
                ok = want is None and issubclass(out[1].cls, ValueError)
            else:
                ok = out[1] == want
            run.add(Obligation(prop, qualname(f), "burst_length_by_modulation_code", p.pc, z3.BoolVal(bool(ok)), kind="table", case="mod=%d" % mod, where=where(f),
                               tag={"what": "burst_len", "mod": mod, "want": want}))


# ------------------------------------------------------------------ encode + round trip

def build_encode_roundtrip(run, prop, E, cd):
    to_b, from_b = raw(cd.Envelope, "_to_bytes"), raw(cd.Envelope, "_from_bytes")
    cases = [(name, mod, nope) for (name, obj, key, batched) in pdus() for (mod, nope) in mod_cases(name)]
    table = {name: (obj, key, batched) for (name, obj, key, batched) in pdus()}
    k = z3.Int("k!skolem")

    def one(case):
        name, mod, nope = case
        obj, key, batched = table[name]
        obls = []
        cs = "%s,mod=%s,nope=%s" % (name, mod, nope)
        base = name.split(".")[0]

        def setup(E):
            vals, terms = sym_vals(E, name, mod, nope)
            b, bl = burst_for(E, name, key, mod, nope, terms)
            if isinstance(b, SSeq):
                vals[key] = b
            if name == "PDUv0Rx":
                pad = z3.Int("pad.len")
                E.assume(z3.Or(pad == 0, pad == 2))
                vals["pad"] = SSeq("bytes", pad, lambda i: 0)
            if name in ("PDUv2Rx", "PDUv2Tx"):
                vals["bpdu"] = []
            rest = models.fresh_seq(E, "rest", "bytes", z3.Int("rest.len"), 0, 255) if batched else None
            if batched:
                E.assume(z3.Int("rest.len") >= 0)
            return {"vals": vals, "terms": terms, "burst": b, "bl": bl, "rest": rest}

        def invoke(E, ctx):
            enc = E.call(to_b, [obj, ctx["vals"]])
            ctx["enc"] = enc
            data = enc if ctx["rest"] is None else models.concat(enc, ctx["rest"], "bytes")
            out = {}
            n = E.call(from_b, [obj, out, data])
            return (enc, out, n)
        for p, ctx, out in run_paths(E, setup, invoke):
            tag = {"what": "encode", "name": name, "mod": mod, "nope": nope}
            undefined = ctx["burst"] == "undefined"
            if out[0] == "raise":
                # undefined modulation codes cannot be encoded (burst length unknown): EncodeError is the codec's own answer
                ok = undefined and issubclass(out[1].cls, (cd.EncodeError,)) and "enc" not in ctx
                obls.append(Obligation(prop, "trxd_proto." + name, "encodes_and_decodes_own_encoding", p.pc, z3.BoolVal(bool(ok)), kind="post",
                                       case=cs + "," + out[1].cls.__name__, where="src/target/trx_toolkit/trxd_proto.py", tag=tag))
                continue
            enc, dec, n = out[1]
            hdr = P.hdr(base, ctx["terms"], batched=batched)
            bl = ctx["bl"]
            padl = z3.Int("pad.len") if name == "PDUv0Rx" else 0
            total = len(hdr) + Z(bl) + padl

            def ob(clause, goal, extra=()):
                obls.append(Obligation(prop, "trxd_proto." + name, clause, p.pc + list(extra), goal, kind="post", case=cs, where="src/target/trx_toolkit/trxd_proto.py", tag=tag))
            ob("encoded_length_per_layout", Z(enc.length) == total)
            ob("header_octets_per_layout", z3.And([Z(enc.get(i)) == hdr[i] for i in range(len(hdr))]))
            if isinstance(ctx["burst"], SSeq):
                ob("burst_octets_follow_header", Z(enc.get(len(hdr) + k)) == Z(ctx["burst"].get(k)), extra=[k >= 0, k < Z(bl)])
            if name == "PDUv0Rx":
                ob("legacy_padding_octets_zero", Z(enc.get(len(hdr) + Z(bl) + k)) == 0, extra=[k >= 0, k < padl])
            # round trip through the real decoder
            ob("decoder_consumes_exactly_the_encoding", Z(n) == total)
            for fname in P.FIELDS[name]:
                got = dec.get(fname)
                ob("roundtrip_%s" % fname, Z(got) == ctx["terms"][fname] if isinstance(got, (int, SInt)) else z3.BoolVal(False))
            if base in ("PDUv0Rx", "PDUv0Tx", "PDUv1Rx", "PDUv1Tx", "PDUv2Rx", "PDUv2Tx") and not batched:
                got = dec.get("ver")
                ob("roundtrip_ver", Z(got) == int(base[4]) if isinstance(got, (int, SInt)) else z3.BoolVal(False))
            gb = dec.get(key)
            if isinstance(ctx["burst"], SSeq):
                if isinstance(gb, SSeq):
                    ob("roundtrip_burst_length", Z(gb.length) == Z(bl))
                    ob("roundtrip_burst_octets", Z(gb.get(k)) == Z(ctx["burst"].get(k)), extra=[k >= 0, k < Z(bl)])
                else:
                    ob("roundtrip_burst_length", z3.BoolVal(False))
            else:
                ob("nope_carries_no_burst", z3.BoolVal(key not in dec))
        return obls
    par_cases(run, E, cases, one)


# ------------------------------------------------------------------ decode arbitrary octets

def build_decode_any(run, prop, E, cd):
    from_b = raw(cd.Envelope, "_from_bytes")
    d = z3.Array("d", I, I)
    n = z3.Int("d.len")
    oct_ = lambda i: z3.Select(d, i if not isinstance(i, int) else z3.IntVal(i))
    cases = [(name,) for (name, obj, key, batched) in pdus()]
    table = {name: (obj, key, batched) for (name, obj, key, batched) in pdus()}

    def layout_fields(name, batched):
        """field -> term extracted from the octets per layout (reserved bits not looked at)"""
        base = name.split(".")[0]
        o0 = oct_(0)
        f = {"tn": o0 % 8}
        ver = o0 / 16
        if base in ("PDUv0Rx", "PDUv1Rx"):
            f["fn"] = oct_(1) * 16777216 + oct_(2) * 65536 + oct_(3) * 256 + oct_(4)
            f["rssi"] = -oct_(5)
            f["toa256"] = L.s16_of_u16(oct_(6) * 256 + oct_(7))
            if base == "PDUv1Rx":
                m = oct_(8)
                f.update(nope=m / 128, mod=(m / 8) % 16, tsc=m % 8, cir=L.s16_of_u16(oct_(9) * 256 + oct_(10)))
            hlen = 8 if base == "PDUv0Rx" else 11
        elif base in ("PDUv0Tx", "PDUv1Tx"):
            f["fn"] = oct_(1) * 16777216 + oct_(2) * 65536 + oct_(3) * 256 + oct_(4)
            f["pwr"] = oct_(5)
            hlen = 6
        else:
            o1 = oct_(1)
            m = oct_(2)
            f.update(batch=o1 / 128, trxn=o1 % 64, nope=m / 128, mod=(m / 8) % 16, tsc=m % 8)
            if batched:
                f["shadow"] = (o1 / 64) % 2
            if base == "PDUv2Rx":
                f.update(rssi=-oct_(3), toa256=L.s16_of_u16(oct_(4) * 256 + oct_(5)), cir=L.s16_of_u16(oct_(6) * 256 + oct_(7)))
                hlen = 8
            else:
                s = oct_(4)
                f.update(pwr=oct_(3), scpir=z3.If(s >= 128, s - 256, s))
                hlen = 8
            if not batched:
                f["fn"] = oct_(hlen) * 16777216 + oct_(hlen + 1) * 65536 + oct_(hlen + 2) * 256 + oct_(hlen + 3)
                hlen += 4
        return f, ver, hlen

    def one(case):
        (name,) = case
        obj, key, batched = table[name]
        base = name.split(".")[0]
        obls = []
        fields, ver, hlen = layout_fields(name, batched)

        def setup(E):
            E.assume(z3.And(n >= 0, n <= 2048))
            return {"data": models.fresh_seq(E, "d", "bytes", n, 0, 255), "out": {}}
        want_ver = int(base[4])
        # the layout's acceptance condition, written from the statement (version nibble, length by modulation bits, NOPE carries no burst)
        if has_mts(name):
            blen_, defined = z3.IntVal(0), z3.BoolVal(False)
            for mod_ in range(16):
                bl_ = P.burst_len(mod_)
                if bl_ is not None:
                    blen_ = z3.If(fields["mod"] == mod_, bl_, blen_)
                    defined = z3.Or(defined, fields["mod"] == mod_)
            exact = not batched and name not in ("PDUv2Rx", "PDUv2Tx")
            body = z3.If(fields["nope"] == 1, (n == hlen) if exact else z3.BoolVal(True),
                         z3.And(defined, (n == hlen + blen_) if exact else (n >= hlen + blen_)))
            accept = z3.And(n >= hlen, body)
        elif name == "PDUv0Rx":
            accept = n >= hlen + 148
        else:
            accept = n >= hlen
        if not batched:
            accept = z3.And(n >= 1, ver == want_ver, accept)
        if name in ("PDUv2Rx", "PDUv2Tx"):
            # the trailing Sequence field is covered by C16's contract: here the decoder is cut after the fixed part by decoding a PDU
            # whose batch list is empty, i.e. inputs that end right after the first burst (anything else goes to the Sequence)
            pass
        nok = 0
        for p, ctx, out in run_paths(E, setup, lambda E, ctx: E.call(from_b, [obj, ctx["out"], ctx["data"]])):
            tag = {"what": "decode", "name": name}
            cs = name
            if out[0] == "raise":
                obls.append(Obligation(prop, "trxd_proto." + name, "rejects_only_with_DecodeError", p.pc, z3.BoolVal(issubclass(out[1].cls, cd.DecodeError)), kind="noexc", note=exc_note(out[1]),
                                       case=cs + "," + out[1].cls.__name__, where="src/target/trx_toolkit/trxd_proto.py", tag=tag))
                a = getattr(out[1], "args", ()) or ()
                from_seq = len(a) >= 2 and isinstance(obj.STRUCT[-1], cd.Sequence.F) and a[1] is obj.STRUCT[-1]
                if not from_seq:
                    # acceptance depends on the version nibble, the modulation bits and the length only: reserved bits/octets are ignored
                    obls.append(Obligation(prop, "trxd_proto." + name, "rejects_only_what_the_layout_rejects_reserved_bits_ignored", p.pc, z3.Not(accept), kind="post",
                                           case=cs, where="src/target/trx_toolkit/trxd_proto.py", tag=tag))
                continue
            nok += 1
            dec, cons = ctx["out"], out[1]

            def ob(clause, goal):
                obls.append(Obligation(prop, "trxd_proto." + name, clause, p.pc, goal, kind="post", case=cs, where="src/target/trx_toolkit/trxd_proto.py", tag=tag))
            if not batched:
                ob("accepts_only_its_own_version_nibble", ver == want_ver)
            ob("accepts_only_what_the_layout_accepts", accept)
            for fname, term in fields.items():
                got = dec.get(fname)
                ob("decoded_%s_per_layout_reserved_bits_ignored" % fname, Z(got) == term if isinstance(got, (int, SInt)) else z3.BoolVal(False))
            gb = dec.get(key)
            if has_mts(name):
                nope = fields["nope"]
                blen = z3.IntVal(0)
                for mod in range(16):
                    bl = P.burst_len(mod)
                    if bl is not None:
                        blen = z3.If(fields["mod"] == mod, bl, blen)
                want_bl = z3.If(nope == 1, 0, blen)
                if isinstance(gb, SSeq):
                    ob("burst_length_by_modulation_bits", z3.And(nope == 0, Z(gb.length) == want_bl))
                else:
                    ob("nope_carries_no_burst", nope == 1)
                if batched:
                    ob("consumes_header_and_burst_only", Z(cons) == hlen + want_bl)
                elif name in ("PDUv2Rx", "PDUv2Tx"):
                    pass
                else:
                    ob("length_exact", z3.And(Z(cons) == n, n == hlen + want_bl))
            elif name == "PDUv0Rx":
                ob("v0_burst_148_or_444_then_optional_padding",
                   z3.And(z3.Or(Z(gb.length) == 148, Z(gb.length) == 444), Z(cons) == n) if isinstance(gb, SSeq) else z3.BoolVal(False))
            else:
                ob("rest_is_the_burst", z3.And(Z(cons) == n, Z(gb.length) == n - hlen) if isinstance(gb, SSeq) else z3.BoolVal(False))
        if nok == 0:
            obls.append(Obligation(prop, "trxd_proto." + name, "some_input_accepted", [], z3.BoolVal(False), kind="cover", case=name))
        return obls
    # v2 top level: decode with the Sequence field's loop unrolled is unbounded; restrict to the batched/top-level fixed parts by
    # giving Sequence.from_bytes its contract (returns a list, consumes everything, never raises other than DecodeError)
    def seq_summary(E, func, args, kwargs):
        if E.branch(z3.Bool(E.fresh("seq_ok"))):
            return []
        E.raise_(cd.DecodeError, "contract: Sequence item rejected")
    E.summaries = {"codec.Sequence.from_bytes": seq_summary}
    par_cases(run, E, cases, one)
    E.summaries = {}


# ------------------------------------------------------------------ cross lemma with the message codec

def build_cross(run, prop, E, cd):
    dm = toolkit("data_msg")
    from_b = raw(cd.Envelope, "_from_bytes")
    table = {name: obj for (name, obj, key, batched) in pdus()}
    cases = []
    for ver in (0, 1):
        # legacy padding exists only in the TRX -> L1 direction (PDUv0Rx documents an optional 'pad'; PDUv0Tx has none)
        cases.append(("tx", None, ver, False, None))
        for mod in dm.Modulation:
            for legacy in (False, True):
                if ver == 0 and mod.name not in ("ModGMSK", "Mod8PSK"):
                    continue        # v0 carries no modulation: GMSK / 8-PSK lengths only (C13: 148 or 444)
                for nope in ((False, True) if ver == 1 else (False,)):
                    cases.append(("rx", mod, ver, legacy, nope))
    k = z3.Int("k!skolem")

    def one(case):
        cls, mod, ver, legacy, nope = case
        name = "PDUv%d%s" % (ver, "Tx" if cls == "tx" else "Rx")
        obj = table[name]
        obls = []
        cs = "%s,mod=%s,ver=%d,legacy=%s,nope=%s" % (cls, getattr(mod, "name", None), ver, legacy, nope)
        v = msgs.view(cls, mod)
        lo, hi = (-127, 127) if cls == "rx" else (0, 1)

        def setup(E):
            from engine.common.core import ranged_array
            ranged_array("m.burst", lo, hi)
            E.assume(V.valid(v))
            E.assume(v.ver == ver)
            if cls == "rx" and ver == 1:
                E.assume(v.nope == nope)
            if cls == "rx" and ver == 0:
                # a v0 message of modulation `mod` has that modulation's burst length
                E.assume(v.burst.val == V.MOD_TABLE[mod.name][1])
            return {"data": L.enc_seq(E, v, legacy), "out": {}}
        for p, ctx, out in run_paths(E, setup, lambda E, ctx: E.call(from_b, [obj, ctx["out"], ctx["data"]])):
            tag = {"what": "cross", "cls": cls, "mod": getattr(mod, "name", None), "ver": ver, "legacy": legacy, "nope": nope, "name": name}

            def ob(clause, goal, extra=()):
                obls.append(Obligation(prop, "lemma.accepts_codec_output", clause, p.pc + list(extra), goal, kind="lemma", case=cs, where="src/target/trx_toolkit/trxd_proto.py", tag=tag))
            if out[0] == "raise":
                ob("definition_accepts_every_valid_codec_datagram", z3.BoolVal(False))
                continue
            dec = ctx["out"]
            conj = [Z(dec.get("tn", -1)) == v.tn.val, Z(dec.get("fn", -1)) == v.fn.val, Z(dec.get("ver", -1)) == ver]
            if cls == "tx":
                conj.append(Z(dec.get("pwr", -1)) == v.pwr.val)
            else:
                conj += [Z(dec.get("rssi", 1)) == v.rssi.val, Z(dec.get("toa256", 99999)) == v.toa256.val]
                if ver == 1:
                    conj += [Z(dec.get("cir", 99999)) == v.ci.val, Z(dec.get("nope", -1)) == (1 if nope else 0)]
                    if not nope:
                        coding = V.MOD_TABLE[mod.name][0]
                        conj += [Z(dec.get("mod", -1)) == coding + v.tsc_set.val, Z(dec.get("tsc", -1)) == v.tsc.val]
            ob("identical_field_values", z3.And(conj))
            key = "hard-bits" if cls == "tx" else "soft-bits"
            gb = dec.get(key)
            if cls == "rx" and ver == 1 and nope:
                ob("nope_without_burst", z3.BoolVal(gb is None))
            else:
                okb = isinstance(gb, SSeq)
                ob("identical_burst_length", Z(gb.length) == v.burst.val if okb else z3.BoolVal(False))
                if okb:
                    bv = z3.Select(v.burst_arr, k)
                    ob("identical_burst_octets", Z(gb.get(k)) == (bv if cls == "tx" else 127 - bv), extra=[k >= 0, k < v.burst.val])
        return obls
    par_cases(run, E, cases, one)
    run.fn("lemma.accepts_codec_output", "spec/trxd_layout.py + live trxd_proto objects", 0, "every valid v0/v1 codec datagram is accepted with identical values")


# ------------------------------------------------------------------ witness / replay

def _is_c13(func):
    return str(func).startswith(("data_msg.", "data_if."))


def block_model(o, model):
    if _is_c13(o.func):
        from props import C13 as _C13
        return _C13.block_model(o, model)
    return None


def witness(o, model):
    if _is_c13(o.func):
        from props import C13 as _C13
        return _C13.witness(o, model)
    t = dict(o.tag or {}) if isinstance(o.tag, dict) else {}
    what = t.get("what")
    if what == "encode":
        for f in P.FIELDS[t["name"]]:
            t["v." + f] = mval(model, z3.Int("v." + f))
        t["burst.len"] = mval(model, z3.Int("burst.len"))
        t["pad.len"] = mval(model, z3.Int("pad.len"))
    elif what == "decode":
        n = max(0, min(2048, mval(model, z3.Int("d.len"))))
        arr = z3.Array("d", I, I)
        t["data"] = [min(255, max(0, mval(model, z3.Select(arr, i)))) for i in range(n)]
    elif what == "cross":
        dm = toolkit("data_msg")
        mod = getattr(dm.Modulation, t["mod"]) if t.get("mod") else None
        t["msg"] = msgs.concrete_fields(model, t["cls"], mod)
    return t


def layout_accepts(name, data):
    """statement-level acceptance of an octet string by a PDU definition (native oracle for the replay; independent of codec.py)"""
    base, batched = name.split(".")[0], "." in name
    n = len(data)
    if not batched and (n < 1 or data[0] >> 4 != int(base[4])):
        return False
    if base == "PDUv0Rx":
        return n >= 8 + 148
    if base in ("PDUv0Tx", "PDUv1Tx"):
        return n >= 6
    hlen = 11 if base == "PDUv1Rx" else (8 if batched else 12)
    if n < hlen:
        return False
    m = data[8] if base == "PDUv1Rx" else data[2]
    bl = 0 if m >> 7 else P.burst_len((m >> 3) & 15)
    if bl is None:
        return False
    if base == "PDUv1Rx":
        return n == hlen + bl
    if batched:
        return n >= hlen + bl
    rest = data[hlen + bl:] if n >= hlen + bl else None
    if rest is None:
        return False
    while rest:                      # batched sub-PDUs tile the rest exactly
        if len(rest) < 8:
            return False
        m = rest[2]
        bl = 0 if m >> 7 else P.burst_len((m >> 3) & 15)
        if bl is None or len(rest) < 8 + bl:
            return False
        rest = rest[8 + bl:]
    return True


def replay(payload):
    if _is_c13(payload.get("function")):
        from props import C13 as _C13
        return _C13.replay(payload)
    f = payload["inputs"]
    what = f.get("what")
    tp = toolkit("trxd_proto")
    cd = toolkit("codec")

    def get(name):
        o = tp
        for part in name.split("."):
            o = getattr(o, part)
        return o
    if what == "burst_len":
        try:
            got = tp.MTS.get_burst_len(f["mod"])
        except ValueError:
            got = None
        return {"confirmed": got != f["want"], "observed": got, "expected": f["want"]}
    if what == "encode":
        name = f["name"]
        pdu = get(name)(check_len=False) if "." in name else get(name)()
        vals = {k_: f["v." + k_] for k_ in P.FIELDS[name]}
        if f.get("mod") is not None:
            vals["mod"], vals["nope"] = f["mod"], f["nope"]
        key = "hard-bits" if "Tx" in name else "soft-bits"
        bl = P.burst_len(f["mod"]) if f.get("mod") is not None else f.get("burst.len", 148)
        if not (f.get("nope") or bl is None):
            vals[key] = bytes((i * 7 + 3) % 256 for i in range(bl))
        if name == "PDUv0Rx":
            vals["pad"] = bytes(f.get("pad.len", 0))
        if name in ("PDUv2Rx", "PDUv2Tx"):
            vals["bpdu"] = []
        try:
            enc = pdu._to_bytes(vals)
            out = {}
            n = pdu._from_bytes(out, enc)
        except Exception as e:
            return {"confirmed": bl is not None, "observed": "raises %s: %s" % (type(e).__name__, e), "expected": "round trip" if bl is not None else "EncodeError"}
        zv = {k_: z3.IntVal(v_) for k_, v_ in vals.items() if isinstance(v_, int)}
        hdr = [z3.simplify(x).as_long() if not isinstance(x, int) else x for x in P.hdr(name.split(".")[0], zv, batched="." in name)]
        bad = []
        if list(enc[:len(hdr)]) != hdr:
            bad.append(("header", list(enc[:len(hdr)]), hdr))
        for k_, v_ in vals.items():
            if k_ != "bpdu" and out.get(k_) != v_:
                bad.append((k_, out.get(k_), v_))
        if n != len(enc):
            bad.append(("consumed", n, len(enc)))
        return {"confirmed": bool(bad), "observed": bad or "layout and round trip ok", "expected": "documented layout"}
    if what == "decode":
        name = f["name"]
        pdu = get(name)(check_len=False) if "." in name else get(name)()
        data = bytes(f["data"])
        want = layout_accepts(name, data)
        try:
            pdu._from_bytes({}, data)
            return {"confirmed": not want, "observed": "accepted", "expected": "accepted" if want else "DecodeError (the documented layout rejects these octets)",
                    "note": "field comparison is done by the verifier"}
        except cd.DecodeError as e:
            return {"confirmed": want, "observed": "DecodeError%r" % (tuple(str(a)[:60] for a in e.args),),
                    "expected": "accepted: version nibble, modulation bits and length are right; reserved bits/octets are to be ignored" if want else "DecodeError"}
        except Exception as e:
            return {"confirmed": True, "observed": "raises %s" % type(e).__name__, "expected": "only DecodeError"}
    if what == "cross":
        m = msgs.build_native(f["msg"])
        data = m.gen_msg(f["legacy"])
        pdu = get(f["name"])()
        try:
            pdu.from_bytes(bytes(data))
        except Exception as e:
            return {"confirmed": True, "observed": "%s rejects the codec's datagram: %s" % (f["name"], type(e).__name__),
                    "expected": "accepted with identical values", "datagram_head": list(data[:12]), "message": {k_: v_ for k_, v_ in f["msg"].items() if k_ != "burst"}}
        c = pdu.c
        bad = []
        if (c["tn"], c["fn"]) != (m.tn, m.fn):
            bad.append(("tn/fn", (c["tn"], c["fn"]), (m.tn, m.fn)))
        if f["cls"] == "rx" and (c["rssi"], c["toa256"]) != (m.rssi, m.toa256):
            bad.append(("rssi/toa", (c["rssi"], c["toa256"]), (m.rssi, m.toa256)))
        return {"confirmed": bool(bad), "observed": bad or "identical", "expected": "identical values"}
    return {"confirmed": False, "error": "no native replay for %r" % what}

"""C08 - firmware TDMA scheduler (src/target/firmware/layer1/tdma_sched.c, ARM parse).

Per-function contracts on the concrete arrays (contracts/c/tdma_sched.py) + the statement's ring-view formulation and the
exactly-once history lemma derived from them at spec level (spec/ring_view.py).  `./check C08`.
"""
import z3

from engine.common.core import Obligation, Cover, mval
from engine.cvc import frontend, contract as K, replay as R
from contracts.c import tdma_sched as CT
from spec import ring_view as RV

ID = "C08"
ENGINE = "CVC"
LEVEL = "proof"
CHECK_ID = "C08"

CONTRACTS = (CT.WrapBucket, CT.TdmaSchedule, CT.TdmaScheduleSet, CT.TdmaSchedAdvance, CT.TdmaSchedReset, CT.BucketSort,
             CT.TdmaSchedExecute)


def build_c(run):
    for con in CONTRACTS:
        K.sect(run, con.name, lambda con=con: K.verify(run, ID, frontend.parse_file(CT.TDMA, "fw"), con))
    K.sect(run, "ring_lemmas", ring_lemmas, run)
    K.sect(run, "set_lemmas", set_lemmas, run)
    run.assume("callbacks called by tdma_sched_execute report success (>= 0) and do not modify l1s.tdma_sched "
               "(the statement's `callbacks that report success`; items scheduling further items from inside a callback are outside the contract)")
    run.assume("protocol: each TDMA frame runs tdma_sched_execute() then tdma_sched_advance() (call site l1_sync in sync.c)")
    K.finish(run)


build = build_c


def set_lemmas(run):
    """induction proofs of the lemmas about the set counting functions nul / pos used as instances by tdma_schedule_set"""
    cb = z3.Array("lemma.cb", z3.IntSort(), z3.IntSort())
    p, q = z3.Int("lemma.p"), z3.Int("lemma.q")
    tag = {"side": "c", "func": "lemma"}

    def lemma(name, hyps, goal):
        run.add(Obligation(ID, "spec.ring_view", "lemma." + name, hyps, goal, kind="lemma", tag=tag))
    lemma("nul_monotone.base", [0 <= p], RV.nul(cb, p) <= RV.nul(cb, p))
    lemma("nul_monotone.step", [0 <= p, p <= q, RV.nul(cb, p) <= RV.nul(cb, q), RV.set_unfold(cb, q)], RV.nul(cb, p) <= RV.nul(cb, q + 1))
    lemma("pos_nonneg.base", [RV.set_unfold(cb, 0)], RV.pos(cb, 0) >= 0)
    lemma("pos_nonneg.step", [p >= 0, RV.pos(cb, p) >= 0, RV.set_unfold(cb, p)], RV.pos(cb, p + 1) >= 0)
    lemma("pos_run.base", [0 <= p], RV.pos(cb, p) == RV.pos(cb, p) + p - p)
    lemma("pos_run.step", [0 <= p, p <= q, z3.Implies(RV.nul(cb, q) == RV.nul(cb, p), RV.pos(cb, q) == RV.pos(cb, p) + q - p),
                           RV.set_unfold(cb, q), CT.mono_nul(cb, p, q)],
          z3.Implies(RV.nul(cb, q + 1) == RV.nul(cb, p), RV.pos(cb, q + 1) == RV.pos(cb, p) + q + 1 - p))
    run.assume("set_nul / set_pos are the counting functions defined by their recursive unfoldings (spec/ring_view.py); only "
               "instances of the unfoldings and of the lemmas proved by induction above reach the solver")


def abstract_sched(tag):
    I = z3.IntSort()
    fld = {f: z3.Array("%s.%s" % (tag, f), I, I) for f in CT.ITEM_FIELDS}
    return RV.Sched(z3.Int("%s.cur" % tag), z3.Array("%s.num" % tag, I, I), fld)


def ring_lemmas(run):
    """the statement's ring-view formulation follows from the array-level post-conditions (spec-level, z3 over arrays)"""
    o, n = abstract_sched("pre"), abstract_sched("post")
    d, k = z3.Int("d"), z3.Int("k")
    tag = {"side": "c", "func": "lemma"}

    def lemma(name, hyps, goal):
        run.add(Obligation(ID, "spec.ring_view", "lemma." + name, hyps, goal, kind="lemma", tag=tag))
    same_slots = [n.fld[f] == o.fld[f] for f in CT.ITEM_FIELDS]
    drange = z3.And(0 <= d, d < RV.DEPTH)
    # advance: ring'(d) = ring(d+1) for d < 24, ring'(24) = ring(0)
    adv = [RV.wf(o), n.cur == (o.cur + 1) % RV.DEPTH, n.num == o.num] + same_slots
    lemma("advance_shifts_ring", adv + [0 <= d, d < RV.DEPTH - 1], RV.same_list(n, d, o, d + 1, k))
    lemma("advance_wraps_last", adv, RV.same_list(n, RV.DEPTH - 1, o, 0, k))
    # execute: ring'(0) = [], other lists unchanged
    exe = [RV.wf(o), n.cur == o.cur, n.num == z3.Store(o.num, o.cur, 0)] + same_slots
    lemma("execute_empties_current", exe, n.ring_len(0) == 0)
    lemma("execute_keeps_other_lists", exe + [1 <= d, d < RV.DEPTH], RV.same_list(n, d, o, d, k))
    # schedule N < 25 (not full): ring'(N) = ring(N) ++ [item], other lists unchanged
    N = z3.Int("N")
    vals = {f: z3.Int("item.%s" % f) for f in RV.FIELDS}
    b = (o.cur + N) % RV.DEPTH
    cnt = z3.Select(o.num, b)
    sch = [RV.wf(o), 0 <= N, N < RV.DEPTH, cnt < RV.CAP, n.cur == o.cur, n.num == z3.Store(o.num, b, cnt + 1),
           n.fld["flags"] == o.fld["flags"]] + [n.fld[f] == z3.Store(o.fld[f], b * RV.CAP + cnt, vals[f]) for f in RV.FIELDS]
    lemma("schedule_appends_to_ring_N", sch,
          z3.And([n.ring_len(N) == o.ring_len(N) + 1] + [n.ring_item(N, o.ring_len(N), f) == vals[f] for f in RV.FIELDS]
                 + [z3.Implies(z3.And(0 <= k, k < o.ring_len(N)), n.ring_item(N, k, f) == o.ring_item(N, k, f)) for f in RV.FIELDS]))
    lemma("schedule_keeps_other_lists", sch + [drange, d != N], RV.same_list(n, d, o, d, k))
    # reset
    rst = [RV.wf(o), n.cur == o.cur] + same_slots + [z3.Select(n.num, bb) == z3.If(o.cur == bb, z3.Select(o.num, bb), 0) for bb in range(RV.DEPTH)]
    lemma("reset_empties_future_lists", rst + [1 <= d, d < RV.DEPTH], n.ring_len(d) == 0)
    lemma("reset_keeps_current_list", rst, RV.same_list(n, 0, o, 0, k))
    # history lemma (inductive step over one frame = execute ; advance): what was d+1 frames ahead is d frames ahead, the list
    # that was executed is empty and 24 frames ahead; with the execute contract (calls == ring(0)) an item appended to ring(N)
    # is therefore called in exactly the N-th following frame and in no other.
    m = abstract_sched("mid")
    frame = [RV.wf(o), m.cur == o.cur, m.num == z3.Store(o.num, o.cur, 0)] + [m.fld[f] == o.fld[f] for f in CT.ITEM_FIELDS] + \
            [n.cur == (m.cur + 1) % RV.DEPTH, n.num == m.num] + [n.fld[f] == m.fld[f] for f in CT.ITEM_FIELDS]
    lemma("once.frame_step_shifts", frame + [0 <= d, d < RV.DEPTH - 1], RV.same_list(n, d, o, d + 1, k))
    lemma("once.executed_list_is_empty_and_last", frame, n.ring_len(RV.DEPTH - 1) == 0)
    lemma("once.wf_after_frame", frame, RV.wf(n))
    run.trust("induction over the number of frames (history lemma C08/once): the frame step lemmas are discharged, "
              "`every item of ring(N) is called exactly in the N-th following frame` follows by induction on N")


# ------------------------------------------------------------------ witness / replay

def witness_c(o, model):
    t = o.tag or {}
    w = {"func": t.get("func"), "clause": o.clause, "kind": o.kind, "case": t.get("case")}
    for k, term in (o.inputs or {}).items():
        if isinstance(term, tuple) and term[0] == "array":
            w[k] = [mval(model, z3.Select(term[1], i)) for i in range(term[2])]
        elif isinstance(term, tuple) and term[0] == "array_n":
            n_ = min(max(mval(model, term[2]), 0), 40)
            w[k] = [mval(model, z3.Select(term[1], i)) for i in range(n_)]
        else:
            w[k] = mval(model, term)
    return w


witness = witness_c

_MAIN = r"""
#include <stdlib.h>
struct l1s_state l1s;
static int nlog;
#define CB(n) static int cb##n(uint8_t a, uint8_t b, uint16_t c) { printf("call=%d,%d,%d,%d\n", n, a, b, c); nlog++; return 0; }
CB(1) CB(2) CB(3) CB(4) CB(5) CB(6) CB(7) CB(8)
static tdma_sched_cb *cbs[] = { 0, cb1, cb2, cb3, cb4, cb5, cb6, cb7, cb8 };
static void dump(void)
{
	int b, k;
	printf("cur=%d\n", l1s.tdma_sched.cur_bucket);
	for (b = 0; b < 25; b++) {
		printf("bucket=%d:%d:", b, l1s.tdma_sched.bucket[b].num_items);
		for (k = 0; k < 8; k++) {
			struct tdma_sched_item *it = &l1s.tdma_sched.bucket[b].item[k];
			int id = 0, j;
			for (j = 1; j <= 8; j++) if (it->cb == cbs[j]) id = j;
			printf("%d/%d/%d/%d/%d;", id, it->p1, it->p2, it->p3, it->prio);
		}
		printf("\n");
	}
}
int main(int argc, char **argv)
{
	/* script on stdin: cur C | num B N | item B K cbid p1 p2 p3 prio | schedule N cbid p1 p2 p3 prio | execute | advance | reset | sort B | dump */
	char op[32];
	memset(&l1s, 0, sizeof(l1s));
	while (scanf("%31s", op) == 1) {
		int a[8] = {0};
		if (!strcmp(op, "cur")) { scanf("%d", &a[0]); l1s.tdma_sched.cur_bucket = a[0]; }
		else if (!strcmp(op, "num")) { scanf("%d %d", &a[0], &a[1]); l1s.tdma_sched.bucket[a[0]].num_items = a[1]; }
		else if (!strcmp(op, "item")) {
			struct tdma_sched_item *it;
			scanf("%d %d %d %d %d %d %d", &a[0], &a[1], &a[2], &a[3], &a[4], &a[5], &a[6]);
			it = &l1s.tdma_sched.bucket[a[0]].item[a[1]];
			it->cb = cbs[a[2]]; it->p1 = a[3]; it->p2 = a[4]; it->p3 = a[5]; it->prio = a[6];
		}
		else if (!strcmp(op, "schedule")) {
			scanf("%d %d %d %d %d %d", &a[0], &a[1], &a[2], &a[3], &a[4], &a[5]);
			printf("ret=%d\n", tdma_schedule(a[0], cbs[a[1]], a[2], a[3], a[4], a[5]));
		}
		else if (!strcmp(op, "set")) {
			/* set N p3 count {cbid p1 p2 p3 prio}  ; cbid 0 = frame separator, 9 = end of set */
			struct tdma_sched_item *set; int n, k;
			scanf("%d %d %d", &a[0], &a[1], &n);
			set = calloc(n ? n : 1, sizeof(*set));
			for (k = 0; k < n; k++) {
				scanf("%d %d %d %d %d", &a[2], &a[3], &a[4], &a[5], &a[6]);
				set[k].cb = a[2] == 9 ? &tdma_end_set : cbs[a[2]]; set[k].p1 = a[3]; set[k].p2 = a[4]; set[k].p3 = a[5]; set[k].prio = a[6];
			}
			printf("ret=%d\n", tdma_schedule_set(a[0], set, a[1]));
			free(set);
		}
		else if (!strcmp(op, "execute")) printf("ret=%d\n", tdma_sched_execute());
		else if (!strcmp(op, "advance")) tdma_sched_advance();
		else if (!strcmp(op, "reset")) tdma_sched_reset();
		else if (!strcmp(op, "wrap")) { scanf("%d", &a[0]); printf("ret=%d\n", wrap_bucket(a[0])); }
		else if (!strcmp(op, "sort")) {
			int seq[8], k; scanf("%d", &a[0]);
			_tdma_sched_bucket_sort(&l1s.tdma_sched.bucket[a[0]], seq);
			printf("seq=");
			for (k = 0; k < 8; k++) printf("%d,", seq[k]);
			printf("\n");
		}
		else if (!strcmp(op, "dump")) dump();
	}
	return 0;
}
"""


def harness():
    return '#include "%s"\n%s' % (frontend.repo(CT.TDMA), _MAIN)


def harness_flags():
    return R.host_flags() + ["-idirafter", frontend.repo("src/target/firmware/include"), "-idirafter", frontend.l1ctl_include()]


def parse_dump(out):
    st = {"calls": [], "rets": [], "buckets": {}, "seq": None}
    for line in out.splitlines():
        if line.startswith("call="):
            st["calls"].append(tuple(int(x) for x in line[5:].split(",")))
        elif line.startswith("ret="):
            st["rets"].append(int(line[4:]))
        elif line.startswith("cur="):
            st["cur"] = int(line[4:])
        elif line.startswith("seq="):
            st["seq"] = [int(x) for x in line[4:].split(",") if x]
        elif line.startswith("bucket="):
            b, n, items = line[7:].split(":", 2)
            st["buckets"][int(b)] = (int(n), [tuple(int(x) for x in it.split("/")) for it in items.split(";") if it])
    return st


def c_int(v, bits, signed):
    v &= (1 << bits) - 1
    return v - (1 << bits) if signed and v >= (1 << (bits - 1)) else v


def set_case(script, state, cur, num, n_, p3, cbs_in, end_code):
    """append the harness command for a set whose cb pattern comes from the model; returns the expectation"""
    pat = []
    for v in cbs_in[:40]:
        pat.append(9 if v == end_code else (0 if v == 0 else 1 + (v % 8)))
        if v == end_code:
            break
    if not pat or pat[-1] != 9:
        pat.append(9)
    items = [(cbid, (11 * m) % 256, (5 * m + 1) % 256, 777, m - 3) for m, cbid in enumerate(pat)]
    script.append("set %d %d %d " % (n_, p3, len(items)) + " ".join("%d %d %d %d %d" % it for it in items))
    script.append("dump")
    # reference: items of frame k are appended, in order, to the list N + k frames ahead; overflow -> -1
    lists = {b: [state[(b, k)] for k in range(num[b])] for b in range(RV.DEPTH)}
    ret, frame = 0, 0
    for (cbid, p1, p2, _p3, prio) in items:
        if cbid == 9:
            ret = frame
            break
        if cbid == 0:
            frame += 1
            continue
        b = (cur + n_ + frame) % RV.DEPTH
        if len(lists[b]) >= RV.CAP:
            ret = -1
            break
        lists[b].append((cbid, p1, p2, p3, prio))
    return {"ret": ret, "lists": lists, "frames_fit": n_ + sum(1 for x in pat if x == 0) < RV.DEPTH}


def check_set(st, exp, state):
    bad = {}
    if not exp["frames_fit"]:
        return bad          # outside the pre-condition (N + frames must stay below the ring depth)
    if st["rets"] != [exp["ret"]]:
        bad["ret"] = [st["rets"], [exp["ret"]]]
    for b, lst in exp["lists"].items():
        got = st["buckets"].get(b)
        if got is None or got[0] != len(lst) or got[1][:len(lst)] != lst:
            bad.setdefault("lists", {})[b] = [got and (got[0], got[1][:got[0]]), lst]
    return bad


def replay_c(payload):
    """native: put the scheduler into the model's state, run the operation, compare with the ring-view reference"""
    import random
    w = payload["inputs"]
    func = w.get("func")
    if func == "lemma":
        return {"confirmed": False, "error": "spec-level lemma: there is no native run that could refute or confirm it", "observed": "spec-level lemma", "expected": "n/a"}
    cur = w.get("cur", 0) % RV.DEPTH
    num_in = w.get("num") if isinstance(w.get("num"), list) else None
    num = [min(max(x, 0), RV.CAP) for x in (num_in or [0] * RV.DEPTH)]
    rnd = random.Random(1234)
    prio_in = w.get("prio") if func != "_tdma_sched_bucket_sort" and isinstance(w.get("prio"), list) else None      # (tdma_schedule has a scalar `prio` argument)
    script = ["cur %d" % cur]
    state = {}
    for b in range(RV.DEPTH):
        script.append("num %d %d" % (b, num[b]))
        for k in range(RV.CAP):
            pr = c_int(prio_in[b * RV.CAP + k], 16, True) if prio_in and len(prio_in) > b * RV.CAP + k else rnd.randrange(-5, 6)
            it = (1 + (b + k) % 8, (3 * b + k) % 256, (7 * k + b) % 256, (b * 100 + k) % 65536, pr)
            state[(b, k)] = it
            script.append("item %d %d %d %d %d %d %d" % ((b, k) + it))
    exp, op = {}, None
    ring = lambda d: [state[((cur + d) % RV.DEPTH, k)] for k in range(num[(cur + d) % RV.DEPTH])]
    if func == "wrap_bucket":
        off = w["offset"] % 256
        script.append("wrap %d" % off)
        exp["rets"] = [(cur + off) % RV.DEPTH]
    elif func == "tdma_schedule":
        n_ = w["frame_offset"] % 256
        item = (1 + w.get("cb", 1) % 8, w["p1"] % 256, w["p2"] % 256, w["p3"] % 65536, c_int(w["prio"], 16, True))
        script += ["schedule %d %d %d %d %d %d" % ((n_,) + item), "dump"]
        b = (cur + n_) % RV.DEPTH
        full = num[b] >= RV.CAP
        exp["rets"] = [-1 if full else 0]
        exp["bucket"] = (b, num[b] + (0 if full else 1), None if full else (num[b], item))
    elif func == "tdma_sched_advance":
        script += ["advance", "dump"]
        exp["cur"] = (cur + 1) % RV.DEPTH
    elif func == "tdma_sched_reset":
        script += ["reset", "dump"]
        exp["nums"] = [num[b] if b == cur else 0 for b in range(RV.DEPTH)]
    elif func == "_tdma_sched_bucket_sort":
        n0 = min(max(w.get("num", 0) if not isinstance(w.get("num"), list) else 0, 0), RV.CAP)
        pr = [c_int(x, 16, True) for x in (w.get("prio") or [0] * RV.CAP)][:RV.CAP]
        script = ["cur 0", "num 0 %d" % n0] + ["item 0 %d 1 0 0 0 %d" % (k, pr[k]) for k in range(RV.CAP)] + ["sort 0"]
        exp["sort"] = (n0, pr)
    elif func == "tdma_sched_execute":
        script += ["execute", "dump"]
        exp["exec"] = ring(0)
    elif func == "tdma_schedule_set":
        exp["set"] = set_case(script, state, cur, num, w.get("frame_offset", 0) % 256, w.get("p3", 0) % 65536, w.get("set_cb") or [], w.get("END", 9))
    else:
        return {"confirmed": False, "error": "no replay for %r" % func}
    res = R.run_harness(harness(), harness_flags(), [], stdin="\n".join(script) + "\n")
    if res.get("rc") is None:
        return {"confirmed": False, "error": "harness build failed", "detail": res}
    st = parse_dump(res.get("stdout", ""))
    bad = {}
    if res.get("sanitizer") or res["rc"] != 0:
        bad["sanitizer"] = res.get("sanitizer") or "exit status %s" % res["rc"]
    if func in ("tdma_schedule", "tdma_schedule_set") and (w.get("frame_offset", 0) % 256) >= RV.DEPTH:
        # the statement quantifies over frame offsets 0..24 (below the scheduler depth): what an offset beyond the ring does is not part of the
        # property (the present code wraps it silently, a refusal is as good).  The counter-model is executed; only memory safety is judged.
        return {"confirmed": bool(bad), "found_by": "model", "observed": {k: v for k, v in st.items() if k != "buckets"}, "differs": bad,
                "expected": "frame offset %d is outside the statement's quantifier (0..%d): no sanitizer report; nothing else is judged" % (w.get("frame_offset", 0) % 256, RV.DEPTH - 1),
                "outside_the_statements_quantifier": True, "sanitizer": res.get("sanitizer"), "cmd": res.get("cmd")}
    if "rets" in exp and st["rets"] != exp["rets"]:
        bad["ret"] = [st["rets"], exp["rets"]]
    if "cur" in exp and st.get("cur") != exp["cur"]:
        bad["cur"] = [st.get("cur"), exp["cur"]]
    if "nums" in exp:
        got = [st["buckets"].get(b, (None,))[0] for b in range(RV.DEPTH)]
        if got != exp["nums"]:
            bad["num_items"] = [got, exp["nums"]]
    if "bucket" in exp:
        b, n1, new = exp["bucket"]
        got = st["buckets"].get(b)
        if got is None or got[0] != n1 or (new and got[1][new[0]] != new[1]):
            bad["bucket"] = [got, exp["bucket"]]
        for (bb, kk), it in state.items():
            if new and (bb, kk) == (b, new[0]):
                continue
            if st["buckets"].get(bb, (0, []))[1][kk:kk + 1] != [it]:
                bad.setdefault("other_slots_changed", []).append([bb, kk])
    if "sort" in exp:
        n0, pr = exp["sort"]
        seq = st.get("seq") or []
        ok = sorted(seq) == list(range(RV.CAP)) and all(seq[k] == k for k in range(n0, RV.CAP)) and \
            all(pr[seq[a]] <= pr[seq[a + 1]] for a in range(max(n0 - 1, 0)))
        if not ok:
            bad["seq"] = [seq, "permutation of 0..7 fixing indices >= %d with ascending priorities %r" % (n0, pr)]
    if "set" in exp:
        bad.update(check_set(st, exp["set"], state))
    if "exec" in exp:
        items = exp["exec"]
        calls = st["calls"]
        if st["rets"] != [len(items)]:
            bad["ret"] = [st["rets"], [len(items)]]
        if sorted(calls) != sorted(it[:4] for it in items):
            bad["calls"] = [calls, "a permutation of %r" % [it[:4] for it in items]]
        else:
            prios = []
            pool = list(items)
            for cl in calls:
                cand = [it for it in pool if it[:4] == cl]
                # items with identical (cb,p1,p2,p3) are distinct by construction of the state
                prios.append(cand[0][4])
                pool.remove(cand[0])
            if any(prios[x] > prios[x + 1] for x in range(len(prios) - 1)):
                bad["order"] = [prios, "ascending"]
        if st["buckets"].get(cur, (None,))[0] != 0:
            bad["current_list_not_emptied"] = st["buckets"].get(cur)
    out = {"confirmed": bool(bad), "found_by": "model", "observed": {k: v for k, v in st.items() if k != "buckets"},
           "expected": {k: str(v)[:300] for k, v in exp.items()}, "differs": bad, "sanitizer": res.get("sanitizer"), "cmd": res.get("cmd")}
    if not bad:
        # a counter-model of an inductive step need not be reachable: bounded native search over seeded operation histories
        import os
        found = search_history(int(os.environ.get("VERIF_SEED", "0") or 0))
        if found:
            out.update(confirmed=True, found_by="search (the model's state did not fail; seeded native histories compared with the ring-view reference)",
                       differs=found)
        else:
            out["note"] = "model state and the seeded native histories all agree with the reference"
    return out


def search_history(seed, histories=6, steps=120):
    """random histories of schedule / set / execute / advance / reset from the zero state, each step compared with RV.Model"""
    import random
    with R.Harness(harness(), harness_flags()) as h:
        for hi in range(histories):
            rnd = random.Random(seed * 1000 + hi)
            model = RV.Model()
            script, expect = [], []
            uid = 0
            for _ in range(steps):
                op = rnd.choice(["schedule"] * 5 + ["set"] * 3 + ["execute", "advance"] * 3 + ["reset"] * (1 if hi % 2 else 0))
                if op == "schedule":
                    uid += 1
                    n_ = rnd.randrange(RV.DEPTH)
                    item = (1 + uid % 8, uid % 256, (uid // 256) % 256, rnd.randrange(65536), rnd.randrange(-3, 4))
                    script.append("schedule %d %d %d %d %d %d" % ((n_,) + item))
                    expect.append(("ret", model.schedule(n_, item)))
                elif op == "set":
                    n_ = rnd.randrange(RV.DEPTH - 6)
                    p3 = rnd.randrange(65536)
                    items, ret, frame = [], 0, 0
                    for _k in range(rnd.randrange(1, 12)):
                        if rnd.random() < 0.3 and frame < 5:
                            items.append((0, 0, 0, 0, 0))
                        else:
                            uid += 1
                            items.append((1 + uid % 8, uid % 256, (uid // 256) % 256, 4242, rnd.randrange(-3, 4)))
                    items.append((9, 0, 0, 0, 0))
                    for (cbid, p1, p2, _x, prio) in items:
                        if cbid == 9:
                            ret = frame
                            break
                        if cbid == 0:
                            frame += 1
                            continue
                        if model.schedule(n_ + frame, (cbid, p1, p2, p3, prio)) < 0:
                            ret = -1
                            break
                    script.append("set %d %d %d " % (n_, p3, len(items)) + " ".join("%d %d %d %d %d" % it for it in items))
                    expect.append(("ret", ret))
                elif op == "execute":
                    items = model.execute()
                    script.append("execute")
                    expect.append(("exec", items))
                elif op == "advance":
                    model.advance()
                    script.append("advance")
                    expect.append(None)
                else:
                    model.reset()
                    script.append("reset")
                    expect.append(None)
            script.append("dump")
            res = h.run([], stdin="\n".join(script) + "\n")
            if res.get("rc") is None:
                return None
            if res.get("sanitizer") or res["rc"] != 0:
                return {"sanitizer": res.get("sanitizer") or "exit %s" % res["rc"], "history": script[:40]}
            lines = [l for l in res["stdout"].splitlines() if l.startswith(("ret=", "call=", "cur=", "bucket=", "seq="))]
            pos = 0
            for step, e in enumerate(expect):
                if e is None:
                    continue
                if e[0] == "ret":
                    if pos >= len(lines) or lines[pos] != "ret=%d" % e[1]:
                        return {"step": step, "op": script[step], "observed": lines[pos:pos + 1], "expected": "ret=%d" % e[1], "history": script[:step + 1][-12:]}
                    pos += 1
                else:
                    calls = []
                    while pos < len(lines) and lines[pos].startswith("call="):
                        calls.append(tuple(int(x) for x in lines[pos][5:].split(",")))
                        pos += 1
                    items = e[1]
                    ok = sorted(calls) == sorted(it[:4] for it in items) and pos < len(lines) and lines[pos] == "ret=%d" % len(items)
                    if ok:
                        pr = {it[:4]: it[4] for it in items}
                        ok = all(pr[calls[x]] <= pr[calls[x + 1]] for x in range(len(calls) - 1))
                    if not ok:
                        return {"step": step, "op": "execute", "observed": calls, "expected": "a priority-ordered permutation of %r" % (items,),
                                "history": script[:step + 1][-12:]}
                    pos += 1
            st = parse_dump("\n".join(lines[pos:]))
            for d in range(RV.DEPTH):
                b = (st.get("cur", 0) + d) % RV.DEPTH
                got = st["buckets"].get(b, (0, []))
                if got[0] != len(model.ring[d]) or got[1][:got[0]] != model.ring[d]:
                    return {"final_state": "ring(%d)" % d, "observed": (got[0], got[1][:got[0]]), "expected": model.ring[d]}
    return None


replay = replay_c


# ------------------------------------------------------------------ negative controls (engine/cvc/selftest.py)

class _WrongAdvance(CT.TdmaSchedAdvance):
    """deliberately wrong: claims the ring moves by two"""

    def ensures(self, c, old, new, ret):
        o, n = CT.sched_of(old, c.g), CT.sched_of(new, c.g)
        return [("WRONG_advances_by_two", n.cur == (o.cur + 2) % RV.DEPTH)]


class _WrongSort(CT.BucketSort):
    """deliberately wrong: claims descending priorities"""

    def ensures(self, c, old, new, ret):
        num = old.get(c.a.bucket, "num_items")
        seq, prio = self.seq_of(c, new), self.prio_fn(c, old)
        return [("WRONG_descending", z3.And([z3.Implies(b < num, prio(seq[a]) >= prio(seq[b])) for a in range(8) for b in range(a + 1, 8)]))]


class _WrongSet(CT.TdmaScheduleSet):
    """deliberately wrong: claims the set's own p3 values are kept"""

    def ensures(self, c, old, new, ret):
        m = c.memo
        o, st, cb, slen = m["o"], m["set"], m["set"]["cb"], m["slen"]
        n = CT.sched_of(new, c.g)

        def keeps_p3(x):
            b = self.bkt(c, x)
            slot = b * RV.CAP + z3.Select(o.num, b) + RV.pos(cb, x)
            return z3.Implies(z3.And(ret != -1, 0 <= x, x < slen - 1, z3.Select(cb, x) != 0), z3.Select(n.fld["p3"], slot) == z3.Select(st["p3"], x))
        return [("WRONG_p3_of_the_set_kept", c.forall(keeps_p3, "m", sort="set"))]


def _wrong(cls):
    return lambda run: K.verify(run, ID, frontend.parse_file(CT.TDMA, "fw"), cls)


WRONG_POSTS = [
    ("advance: by two", _wrong(_WrongAdvance), "post.WRONG_advances_by_two"),
    ("sort: descending", _wrong(_WrongSort), "post.WRONG_descending"),
    ("schedule_set: p3 kept", _wrong(_WrongSet), "post.WRONG_p3_of_the_set_kept"),
]
MUTANTS = [
    # wrap_bucket is a static helper (Contract.helper): its failing contract becomes a violation through the statement-level oracle
    (CT.TDMA, "% ARRAY_SIZE(l1s.tdma_sched.bucket);", "% (ARRAY_SIZE(l1s.tdma_sched.bucket) - 1);", "bounded-native-oracle_execute"),
    # an internal helper (leading underscore): engine/cli.py lets only the statement-level oracle turn its failing contract into a violation
    (CT.TDMA, "if (item_i->prio > item_j->prio)", "if (item_i->prio < item_j->prio)", "bounded-native-oracle_execute"),
    (CT.TDMA, "\t/* clear/reset the bucket */\n\tbucket->num_items = 0;", "\t/* clear/reset the bucket */\n", "tdma_sched_execute_post.current_list_emptied"),
    (CT.TDMA, "if (bucket->num_items >= ARRAY_SIZE(bucket->item)) {\n\t\tputs(\"tdma_schedule bucket overflow\\n\");\n\t\treturn -1;\n\t}\n\n\tsched_item = ",
     "if (bucket->num_items > ARRAY_SIZE(bucket->item)) {\n\t\tputs(\"tdma_schedule bucket overflow\\n\");\n\t\treturn -1;\n\t}\n\n\tsched_item = ", "tdma_schedule_"),
    (CT.TDMA, "\t\tbucket->item[bucket->num_items].p3 = p3;\n", "", "tdma_schedule_set_"),
    (CT.TDMA, "next_bucket = wrap_bucket(1);", "next_bucket = wrap_bucket(2);", "tdma_sched_advance_post.cur_advances"),
    (CT.TDMA, "if (bucket_nr != sched->cur_bucket)", "if (bucket_nr == sched->cur_bucket)", "tdma_sched_reset_post"),
]


def FUZZ_NATIVE(seed):
    return search_history(seed, histories=4, steps=200)

"""C05 (C side) - trxcon's TRXC command emitters and the acceptance of the toolkit's responses (trx_if.c, verbatim extraction).

  * trx_ctrl_cmd: the text it builds ("CMD " verb [" " args] NUL, inside cmd[1024]), tail insertion, first command sent;
  * every trx_if_cmd_*: exactly one command with its verb / critical flag (or an error and none);
    trx_if_cmd_setfh: memory safety of the ma_buf composition for any ma_len, and whether the text fits for ma_len <= 64;
  * trx_ctrl_read_cb accepts "RSP " verb " " decimal(status) [...] NUL for the pending command (acceptance contract).
`./check cparts.C05` runs this part alone.
"""
import z3

from engine.common.core import Obligation, Cover, mval
from engine.cvc import frontend, contract as K, replay as R
from contracts.c import trx_if as CT

ID = "C05"
ENGINE = "CVC"
LEVEL = "proof"


def get_tu():
    return frontend.parse_extract(CT.TRX_IF_C, list(CT.CMD_FUNCS), CT.PRELUDE, decls=CT.CTRL_DECLS, includes=CT.INCLUDES)


def build_c(run):
    def one(con):
        tu = get_tu()
        K.verify(run, ID, tu, con)
        run.extra["verbatim_extraction"] = tu.extraction
    for con in [CT.TrxCtrlCmd] + list(CT.EMITTERS) + [CT.EmitSetslot, CT.EmitSetfh, CT.CtrlAccept]:
        K.sect(run, getattr(con, "name", None) or getattr(con, "__name__", str(con)), one, con)
    K.sect(run, "format_lemma", format_lemma, run)
    run.assume("sscanf applied to the decimal numeral the assumed response format places at that offset yields its value (\"%d\" -> status, "
               "\"%u %d\" at offset 14 -> kHz, dBm); the response format itself is the Python side's proved post-condition (C05 handle_rx/send_response)")
    run.assume("list of pending commands of length one in the acceptance proof (the next command's transmission is covered by trx_ctrl_cmd/trx_ctrl_send)")
    run.assume("prelude enum gsm_phys_chan_config / _GSM_PCHAN_MAX = 12 as in current libosmocore (the bundled header lacks the *_CBCH values)")
    K.finish(run)


build = build_c


def format_lemma(run):
    """C05/accept (C half): the text trx_ctrl_cmd is proved to build satisfies the acceptance contract's assumption on tcm->cmd"""
    I = z3.IntSort()
    cmd = z3.Array("lemma.cmd", I, I)
    verb = z3.Array("lemma.verb", I, I)
    v, f, z, j = z3.Ints("lemma.v lemma.f lemma.z lemma.j")
    C = lambda k: z3.Select(cmd, k)
    post = [v >= 1, v <= CT.VERB_MAX, f >= 0, C(0) == 67, C(1) == 77, C(2) == 68, C(3) == 32,
            z3.Implies(z3.And(0 <= j, j < v), C(4 + j) == z3.Select(verb, j)),
            z3.Implies(z3.And(0 <= j, j < v), z3.And(z3.Select(verb, j) != 0, z3.Select(verb, j) != 32)),
            C(4 + v) == z3.If(f > 0, 32, 0), z >= 4 + v, z <= 1023, C(z) == 0]
    goal = z3.And(z3.Implies(z3.And(0 <= j, j < v), z3.And(C(4 + j) != 0, C(4 + j) != 32)),
                  z3.Or(C(4 + v) == 32, C(4 + v) == 0), z3.Or([C(k) == 0 for k in ()] + [z3.And(z >= 4, z <= 1023, C(z) == 0)]))
    run.add(Obligation(ID, "spec.trxc", "lemma.emitted_text_satisfies_acceptance_precondition", post, goal, kind="lemma",
                       tag={"side": "c", "func": "lemma"}))


# ------------------------------------------------------------------ witness / replay

def witness_c(o, model):
    t = o.tag or {}
    w = {"func": t.get("func"), "clause": o.clause, "kind": o.kind, "case": t.get("case")}
    for k, term in (o.inputs or {}).items():
        try:
            if isinstance(term, tuple) and term[0] in ("array", "array_n"):
                n_ = term[2] if term[0] == "array" else min(max(mval(model, term[2]), 0), 1100)
                w[k] = [mval(model, z3.Select(term[1], i)) % 256 for i in range(n_)]
            else:
                w[k] = mval(model, term)
        except Exception as ex:
            w[k] = "?%r" % (ex,)
    return w


witness = witness_c

_MAIN = r"""
#include <sys/socket.h>
void osmo_panic(const char *fmt, ...) { printf("osmo_panic\n"); fflush(stdout); abort(); }   /* OSMO_ASSERT of the code under test failed */
int verif_fsm_state_chg(struct osmo_fsm_inst *fi, uint32_t st) { printf("fsm_chg=%u\n", st); fi->state = st; return 0; }
void verif_fsm_term(struct osmo_fsm_inst *fi, enum osmo_fsm_term_cause cause, void *data) { printf("fsm_term=%d\n", (int)cause); }
int talloc_free(void *p) { printf("freed\n"); free(p); return 0; }
void *_talloc_zero(const void *ctx, size_t size, const char *name) { return calloc(1, size); }
void osmo_timer_del(struct osmo_timer_list *t) { }
void osmo_timer_schedule(struct osmo_timer_list *t, int s, int us) { }
uint16_t gsm_freq102arfcn(uint16_t f, int ul) { return f; }
int trxcon_phyif_handle_rsp(void *priv, const struct trxcon_phyif_rsp *rsp) { printf("phyif_rsp type=%d\n", (int)rsp->type); return 0; }
static int hexbytes(const char *h, uint8_t *out) { int n = 0; unsigned v; while (h[0] && h[1] && sscanf(h, "%2x", &v) == 1) { out[n++] = v; h += 2; } return n; }
static struct trx_instance *mk(int sv[2])
{
	struct trx_instance *trx = calloc(1, sizeof(*trx));
	trx->fi = calloc(1, sizeof(struct osmo_fsm_inst));
	INIT_LLIST_HEAD(&trx->trx_ctrl_list);
	if (socketpair(AF_UNIX, SOCK_DGRAM, 0, sv)) exit(3);
	trx->trx_ofd_ctrl.fd = sv[0]; trx->trx_ofd_ctrl.data = trx;
	return trx;
}
static void drain(int fd)
{
	char out[2048]; int r;
	while ((r = recv(fd, out, sizeof(out) - 1, MSG_DONTWAIT)) > 0) { out[r] = 0; printf("sent=%d:%s\n", r, out); }
}
int main(int argc, char **argv)
{
	int sv[2], i;
	struct trx_instance *trx = mk(sv);
	if (!strcmp(argv[1], "setfh")) {
		/* setfh hsn maio n arfcn... */
		struct trxcon_phyif_cmdp_setfreq_h1 p;
		int n = atoi(argv[4]);
		uint16_t *ma = malloc(sizeof(uint16_t) * (n ? n : 1));
		for (i = 0; i < n; i++) ma[i] = atoi(argv[5 + i]);
		p.hsn = atoi(argv[2]); p.maio = atoi(argv[3]); p.ma = ma; p.ma_len = n;
		printf("ret=%d\n", trx_if_cmd_setfh(trx, &p));
		drain(sv[1]);
	} else if (!strcmp(argv[1], "simple")) {
		const char *w = argv[2];
		int rc = -999;
		struct trxcon_phyif_cmdp_setta ta = { .ta = atoi(argv[3]) };
		struct trxcon_phyif_cmdp_setfreq_h0 h0 = { .band_arfcn = atoi(argv[3]) };
		struct trxcon_phyif_cmdp_measure ms = { .band_arfcn = atoi(argv[3]) };
		struct trxcon_phyif_cmdp_setslot sl = { .tn = atoi(argv[3]) & 7, .pchan = atoi(argv[3]) % 12 };
		if (!strcmp(w, "trx_if_cmd_echo")) rc = trx_if_cmd_echo(trx);
		else if (!strcmp(w, "trx_if_cmd_poweroff")) rc = trx_if_cmd_poweroff(trx);
		else if (!strcmp(w, "trx_if_cmd_poweron")) rc = trx_if_cmd_poweron(trx);
		else if (!strcmp(w, "trx_if_cmd_setta")) rc = trx_if_cmd_setta(trx, &ta);
		else if (!strcmp(w, "trx_if_cmd_rxtune")) rc = trx_if_cmd_rxtune(trx, &h0);
		else if (!strcmp(w, "trx_if_cmd_txtune")) rc = trx_if_cmd_txtune(trx, &h0);
		else if (!strcmp(w, "trx_if_cmd_measure")) rc = trx_if_cmd_measure(trx, &ms);
		else if (!strcmp(w, "trx_if_cmd_setslot")) rc = trx_if_cmd_setslot(trx, &sl);
		printf("ret=%d\n", rc);
		if (!llist_empty(&trx->trx_ctrl_list)) {
			struct trx_ctrl_msg *q = llist_entry(trx->trx_ctrl_list.prev, struct trx_ctrl_msg, list);
			printf("critical=%d cmd_len=%d\n", q->critical, q->cmd_len);
		}
		drain(sv[1]);
	} else {
		/* accept <critical> <cmd hex> <dgram hex> */
		static uint8_t d[4096];
		struct trx_ctrl_msg *tcm = calloc(1, sizeof(*tcm));
		int m = hexbytes(argv[3], (uint8_t *)tcm->cmd), n;
		tcm->cmd[m < 1023 ? m : 1023] = 0;
		tcm->critical = atoi(argv[2]);
		trx->prev_state = 7;
		llist_add_tail(&tcm->list, &trx->trx_ctrl_list);
		n = hexbytes(argv[4], d);
		if (send(sv[1], d, n, 0) != n) return 4;
		printf("ret=%d\n", trx_ctrl_read_cb(&trx->trx_ofd_ctrl, 1));
		printf("list_empty=%d powered_up=%d\n", llist_empty(&trx->trx_ctrl_list), (int)trx->powered_up);
	}
	return 0;
}
"""


def harness(tu=None):
    tu = tu or get_tu()
    fn, line = R.cut_verbatim("src/shared/libosmocore/src/gsm/gsm_utils.c", "gsm_arfcn2freq10")
    defs = frontend.cut_defines("src/shared/libosmocore/include/osmocom/gsm/gsm_utils.h", r"ARFCN_(PCS|UPLINK)")
    return tu.source_text + "\n" + defs + "\n" + fn + "\n" + _MAIN


def harness_flags():
    return frontend.extract_flags(CT.INCLUDES)


def hexs(bs):
    return "".join("%02x" % (b & 255) for b in bs) or "00"


def accept_expect(cmd, d, crit):
    """Concrete check of the acceptance contract's pre-condition and, when it holds, the outcome the statement prescribes:
    cmd = b"CMD " verb [b" " ...], d = b"RSP " verb b" " digits [b" " results] b"\\0".  None = pre-condition not met."""
    import re
    m = re.fullmatch(rb"CMD ([^ \x00]{1,16})( [^\x00]*)?", cmd)
    if not m or len(cmd) > 1022:
        return None
    verb = m.group(1)
    r = re.fullmatch(rb"RSP ([^ \x00]{1,16}) ([0-9]{1,9})( [^\x00]*)?\x00", d)
    if not r or r.group(1) != verb or len(d) > 1023:
        return None
    status = int(r.group(2))
    results = r.group(3)
    if verb == b"MEASURE" and status == 0:
        if not results or not re.fullmatch(rb" [0-9]{1,9} -?[0-9]{1,4}", results) or len(r.group(2)) != 1:
            return None          # an accepted MEASURE carries "<kHz> <dBm>" (proved reply format of the toolkit)
    # verbs that only share a prefix with a dispatch keyword are outside the emitted set
    for kw in (b"POWERON", b"POWEROFF", b"MEASURE", b"ECHO"):
        if verb.startswith(kw) and verb != kw:
            return None
    accepted = status == 0 or not crit
    exp = {"ret": 0 if accepted else -5, "list_empty": 1 if accepted else 0, "fsm_term": 0 if accepted else 1}
    if accepted:
        exp["freed"] = 1
        if verb == b"POWERON":
            exp.update(powered_up=1, fsm_chg=[2])
        elif verb == b"POWEROFF":
            exp.update(powered_up=0, fsm_chg=[1])
        elif verb == b"ECHO":
            exp.update(fsm_chg=[1])
        elif verb == b"MEASURE":
            exp.update(fsm_chg=[], phyif_rsp=1 if (status == 0) else None)
        else:
            exp.update(fsm_chg=[7])          # prev_state, set to 7 by the harness
    return exp


def run_accept(h, cmd, d, crit, exp):
    r = h.run(["accept", int(crit), hexs(cmd), hexs(d)])
    so = r.get("stdout") or ""
    obs = R.kv_output(so.replace("\n", " "))
    obs["fsm_chg"] = [int(l.split("=")[1]) for l in so.splitlines() if l.startswith("fsm_chg=")]
    obs["fsm_term"] = len([l for l in so.splitlines() if l.startswith("fsm_term=")])
    obs["freed"] = len([l for l in so.splitlines() if l == "freed"])
    obs["phyif_rsp"] = len([l for l in so.splitlines() if l.startswith("phyif_rsp")])
    bad = {k: [obs.get(k), v] for k, v in exp.items() if v is not None and obs.get(k) != v}
    if r.get("sanitizer") or r.get("rc") not in (0,):
        bad["sanitizer"] = r.get("sanitizer") or "exit %s" % r.get("rc")
    return bad, obs


def accept_candidates(case, clause):
    """well-formed command/response pairs, the verb class of the failing case first"""
    verbs = ["POWERON", "POWEROFF", "MEASURE", "ECHO", "SETSLOT", "RXTUNE", "SETTA", "SETFH"]
    for v in verbs:
        if v in case:
            verbs.remove(v)
            verbs.insert(0, v)
    if "other" in case:
        verbs = verbs[4:] + verbs[:4]
    for v in verbs:
        for crit in (1, 0):
            for st in ("0", "1", "12"):
                args = {"MEASURE": " 935000", "SETSLOT": " 1 5", "RXTUNE": " 935000", "SETTA": " 3", "SETFH": " 1 0 935000 890000"}.get(v, "")
                res = " 935000 -60" if v == "MEASURE" else args
                yield ("CMD %s%s" % (v, args)).encode(), ("RSP %s %s%s" % (v, st, res)).encode() + b"\0", crit
                if not (v == "MEASURE" and st == "0"):
                    yield ("CMD %s%s" % (v, args)).encode(), ("RSP %s %s" % (v, st)).encode() + b"\0", crit


def replay_c(payload):
    w = payload["inputs"]
    func, clause = w.get("func"), payload.get("clause") or w.get("clause") or ""
    if func == "lemma":
        return {"confirmed": False, "error": "spec-level lemma: there is no native run that could refute or confirm it", "observed": "spec-level lemma", "expected": "n/a"}
    with R.Harness(harness(), harness_flags()) as h:
        if func == "trx_if_cmd_setfh":
            n = max(min(w.get("ma_len", 64), 200), 0)
            if "fits" not in clause:
                n = max(n, 80)          # memory-safety obligations of the composition loop: a long allocation exercises the buffer end
            # DCS 1800 channels: seven-digit kHz values on both links
            arfcns = [512 + k for k in range(n)]
            r = h.run(["setfh", 1, 0, n] + arfcns)
            out = R.kv_output((r.get("stdout") or "").split("\n")[0])
            sent = [l for l in (r.get("stdout") or "").splitlines() if l.startswith("sent=")]
            bad = {}
            if r.get("sanitizer") or r.get("rc") not in (0,):
                bad["sanitizer"] = r.get("sanitizer") or "exit %s" % r.get("rc")
            if n <= 64 and n >= 1 and out.get("ret") == -28:
                bad["ret"] = [out.get("ret"), "not -ENOSPC for a mobile allocation of %d <= 64 channels" % n]
            return {"confirmed": bool(bad), "observed": {"ret": out.get("ret"), "sent": [s[:60] for s in sent]}, "expected": "SETFH queued (0 / -ENOMEM)",
                    "differs": bad, "inputs_used": {"ma_len": n, "arfcn": "%d..%d (DCS 1800)" % (arfcns[0], arfcns[-1]) if arfcns else None}, "cmd": h.cmd}
        if func in ("trx_ctrl_read_cb",):
            cmd = bytes((b & 255) for b in (w.get("cmd1") or [])[:max(w.get("cmdlen1", 0), 0)])
            d = bytes((b & 255) for b in list(w.get("dgram") or [])[:max(w.get("n", 0), 0)])
            crit = w.get("critical", 1)
            exp = accept_expect(cmd, d, crit)
            tried = 0
            found_by = "model"
            if exp is None:
                # the counter-model's octets do not satisfy the contract's (quantified) pre-condition on command / response format:
                # nothing can be concluded from running them.  Clause-directed search over inputs that DO satisfy it.
                found_by = None
                for cmd2, d2, crit2 in accept_candidates(w.get("case") or "", clause):
                    tried += 1
                    e2 = accept_expect(cmd2, d2, crit2)
                    if e2 is None:
                        continue
                    bad2, obs2 = run_accept(h, cmd2, d2, crit2, e2)
                    if bad2:
                        return {"confirmed": True, "found_by": "search (the model's octets violate the assumed format; %d well-formed inputs tried)" % tried,
                                "observed": obs2, "expected": e2, "differs": bad2,
                                "inputs_used": {"cmd": cmd2.decode("latin1"), "dgram": d2.decode("latin1"), "critical": crit2}, "cmd": h.cmd}
                return {"confirmed": False, "error": "counter-model not executed: its command/response text is outside the pre-condition", "observed": "model input outside the pre-condition (format of command/response); %d well-formed inputs ran as specified" % tried,
                        "expected": "n/a", "precondition_met_by_model_input": False}
            bad, obs = run_accept(h, cmd, d, crit, exp)
            return {"confirmed": bool(bad), "found_by": found_by, "observed": obs, "expected": exp, "differs": bad, "precondition_met_by_model_input": True,
                    "inputs_used": {"cmd": cmd.decode("latin1"), "dgram": d.decode("latin1"), "critical": crit}, "cmd": h.cmd}
        if func and func.startswith("trx_if_cmd_"):
            em = {e.name: e for e in CT.EMITTERS + [CT.EmitSetslot]}.get(func)
            verb = em.verb
            r = h.run(["simple", func, 5])
            so = r.get("stdout") or ""
            sent = [l for l in so.splitlines() if l.startswith("sent=")]
            kv = R.kv_output(so.replace("\n", " "))
            ok = len(sent) == 1 and sent[0].split(":", 1)[1].startswith("CMD %s" % verb) and kv.get("critical") == em.critical \
                and kv.get("cmd_len") == len(verb)
            bad = {} if ok and not r.get("sanitizer") else {"observed": [sent, kv], "expected": "one datagram `CMD %s...`, critical=%d, cmd_len=%d" % (verb, em.critical, len(verb)),
                                                           "sanitizer": r.get("sanitizer")}
            return {"confirmed": bool(bad), "observed": {"stdout": so[:300]}, "expected": "CMD %s queued and sent" % verb, "differs": bad, "cmd": h.cmd}
        if func == "trx_ctrl_cmd":
            return {"confirmed": False, "error": "no standalone native replay for trx_ctrl_cmd (exercised through the emitters)", "expected": "n/a"}
    return {"confirmed": False, "error": "no replay for %r" % func}


replay = replay_c


# ------------------------------------------------------------------ negative controls

class _WrongAccept(CT.CtrlAccept):
    """deliberately wrong: claims POWERON leads to state IDLE"""
    cases = (("verb", "POWERON"),)

    def ensures(self, c, old, new, ret):
        chg = new.ghost("fsm_chg", [])
        return [("WRONG_poweron_goes_idle", z3.BoolVal(True) if len(chg) != 1 else chg[0] == CT.TRX_STATE["IDLE"])]


class _WrongCmdText(CT.TrxCtrlCmd):
    """deliberately wrong: claims the verb starts at octet 3"""
    cases = (("pending", 1),)

    def ensures(self, c, old, new, ret):
        trx = c.a.trx
        tail = new.get(trx, "trx_ctrl_list.prev")
        if tail is old.get(trx, "trx_ctrl_list.prev"):
            return []
        from engine.cvc.values import Ptr
        msg = Ptr(tail.block, tail.steps[:-1], tail.block.elem)
        c.instantiate(3)
        return [("WRONG_verb_at_octet_3", new.get(msg, "cmd[]", 3) == old.get(c.at(c.a.cmd, 0)))]


def _wrong(cls):
    return lambda run: K.verify(run, ID, get_tu(), cls)


WRONG_POSTS = [
    ("accept: POWERON -> IDLE", _wrong(_WrongAccept), "post.WRONG_poweron_goes_idle"),
    ("trx_ctrl_cmd: verb at octet 3", _wrong(_WrongCmdText), "post.WRONG_verb_at_octet_3"),
]
BASELINE_VIOLATIONS = ()
MUTANTS = [
    (CT.TRX_IF_C, 'trx_ctrl_cmd(trx, 0, "SETTA", "%d", cmdp->ta);', 'trx_ctrl_cmd(trx, 1, "SETTA", "%d", cmdp->ta);', "trx_if_cmd_setta_post.critical_flag"),
    (CT.TRX_IF_C, 'return trx_ctrl_cmd(trx, 1, "POWEROFF", "");', 'return trx_ctrl_cmd(trx, 1, "POWERON", "");', "trx_if_cmd_poweroff_post.verb_is_POWEROFF"),
    (CT.TRX_IF_C, "\t\tif (tcm->critical)\n\t\t\tgoto rsp_error;", "\t\tgoto rsp_error;", "trx_ctrl_read_cb_post"),
    (CT.TRX_IF_C, "osmo_fsm_inst_state_chg(trx->fi, TRX_STATE_ACTIVE, 0, 0);", "osmo_fsm_inst_state_chg(trx->fi, TRX_STATE_IDLE, 0, 0);", "trx_ctrl_read_cb_post.state_change_target"),
    (CT.TRX_IF_C, "if (rc < 0 || rc > ma_buf_len) { /* Prevent buffer overflow */", "if (rc < 0) { /* Prevent buffer overflow */", "trx_if_cmd_setfh_"),
]

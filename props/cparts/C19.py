"""C19 (C side) - GSM time arithmetic: gsm_fn2gsmtime / gsm_gsmtime2fn (libosmocore) and l1s_time_inc (firmware).

All frame numbers 0..2715647 and all deltas 1..2715647 are symbolic (a superset of the statement's delta list).
`./check cparts.C19` runs this part alone.
"""
import os
import z3

from engine.common.core import Obligation, Cover, mval
from engine.cvc import frontend, contract as K, replay as R
from contracts.c import gsm_time as CT
from spec import gsm_time as G

ID = "C19"
ENGINE = "CVC"
LEVEL = "proof"


def build_c(run):
    K.sect(run, "gsm_fn2gsmtime", lambda: K.verify(run, ID, frontend.parse_file(CT.GSM_UTILS, "host"), CT.Fn2GsmTime))
    K.sect(run, "gsm_gsmtime2fn", lambda: K.verify(run, ID, frontend.parse_file(CT.GSM_UTILS, "host"), CT.GsmTime2Fn))
    K.sect(run, "l1s_time_inc", lambda: K.verify(run, ID, frontend.parse_file(CT.SYNC, "fw"), CT.L1sTimeInc))
    # the callee contract used inside l1s_time_inc was verified on the host parse of gsm_utils.c; the same text is
    # what the firmware links (bundled libosmocore), its types have identical widths on ARM (uint32/16/8)
    run.assume("gsm_fn2gsmtime verified on the x86-64 parse of gsm_utils.c; its fixed-width types (uint32_t/uint16_t/uint8_t) "
               "and the int promotions involved are identical on arm-none-eabi")
    # spec-level lemma from the statement: decomposition followed by recomposition is the identity on the hyperframe
    fn = z3.Int("fn")
    t1, t2, t3, tc = G.gsm_time(fn)
    run.add(Obligation(ID, "spec.gsm_time", "lemma.recompose_after_decompose", [fn >= 0, fn < G.HYPERFRAME],
                       51 * ((t3 - t2) % 26) + t3 + 1326 * t1 == fn, kind="lemma", tag={"side": "c", "func": "lemma"}))
    K.finish(run)


build = build_c


# ------------------------------------------------------------------ witness / replay

def witness_c(o, model):
    t = o.tag or {}
    w = {"func": t.get("func"), "clause": o.clause, "kind": o.kind}
    for k, term in (o.inputs or {}).items():
        w[k] = mval(model, term)
    return w


witness = witness_c

_MAIN = r"""
#include <stdio.h>
#include <stdlib.h>
int main(int argc, char **argv)
{
	struct gsm_time t;
	const char *f = argv[1];
	t.fn = strtoul(argv[2], 0, 10); t.t1 = atoi(argv[3]); t.t2 = atoi(argv[4]); t.t3 = atoi(argv[5]); t.tc = atoi(argv[6]);
	unsigned long arg = strtoul(argv[7], 0, 10);
	unsigned long ret = 0;
	if (f[0] == 'd') gsm_fn2gsmtime(&t, arg);
	else if (f[0] == 'r') ret = gsm_gsmtime2fn(&t);
	else l1s_time_inc(&t, arg);
	printf("fn=%u t1=%u t2=%u t3=%u tc=%u ret=%lu\n", t.fn, t.t1, t.t2, t.t3, t.tc, ret);
	return 0;
}
"""


def harness():
    text, line = R.cut_verbatim(CT.SYNC, "l1s_time_inc")
    return ('#include "%s"\n#line %d "%s"\n%s\n%s' % (frontend.repo(CT.GSM_UTILS), line, frontend.repo(CT.SYNC), text, _MAIN))


def replay_c(payload):
    w = payload["inputs"]
    func = w.get("func")
    if func == "lemma":
        return {"confirmed": False, "error": "spec-level lemma: there is no native run that could refute or confirm it", "observed": "spec-level lemma", "expected": "n/a"}
    H_ = G.HYPERFRAME
    outside = None
    if func == "gsm_fn2gsmtime" and not (0 <= w["fn"] < H_):
        outside = "fn out of the hyperframe"
    elif func == "gsm_gsmtime2fn" and not (0 <= w["f"] < H_ and (w["t1"], w["t2"], w["t3"]) == tuple(G.gsm_time(w["f"]))[:3]):
        outside = "t1/t2/t3 are not the decomposition of f"
    elif func == "l1s_time_inc" and not (0 <= w["fn"] < H_ and 1 <= w["delta_fn"] < H_):
        outside = "fn / delta outside their ranges"
    if outside:
        # a replay only counts for inputs that satisfy the contract's pre-condition
        return {"confirmed": False, "error": "counter-model not executed: outside the pre-condition (%s)" % outside, "observed": "model input outside the pre-condition: %s" % outside, "expected": "n/a",
                "precondition_met_by_model_input": False}
    if func == "gsm_fn2gsmtime":
        fn = w["fn"]
        argv = ["d", 0, 0, 0, 0, 0, fn]
        exp = dict(zip(("t1", "t2", "t3", "tc"), G.gsm_time(fn)), fn=fn)
    elif func == "gsm_gsmtime2fn":
        argv = ["r", 0, w["t1"], w["t2"], w["t3"], 0, 0]
        exp = {"ret": w["f"]}
    else:
        fn, d = w["fn"], w["delta_fn"]
        t1, t2, t3, tc = G.gsm_time(fn)
        argv = ["i", fn, t1, t2, t3, tc, d]
        fn1 = (fn + d) % G.HYPERFRAME
        exp = dict(zip(("t1", "t2", "t3", "tc"), G.gsm_time(fn1)), fn=fn1)
    res = R.run_harness(harness(), R.host_flags(), argv)
    if res.get("rc") is None:
        return {"confirmed": False, "error": "harness build failed", "detail": res}
    obs = R.kv_output(res.get("stdout", ""))
    bad = {k: (obs.get(k), v) for k, v in exp.items() if obs.get(k) != v}
    confirmed = bool(bad) or bool(res.get("sanitizer")) or res["rc"] != 0
    return {"confirmed": confirmed, "observed": obs, "expected": exp, "differs": {k: list(v) for k, v in bad.items()},
            "sanitizer": res.get("sanitizer"), "argv": argv, "cmd": res.get("cmd")}


replay = replay_c


# ------------------------------------------------------------------ negative controls (engine/cvc/selftest.py)

class _WrongInc(CT.L1sTimeInc):
    """deliberately wrong: claims T2 counts modulo 27"""

    def ensures(self, c, old, new, ret):
        fn1 = (c.fn0 + c.a.delta_fn) % G.HYPERFRAME
        return [("t2_mod27", new.get(c.a.time, "t2") == fn1 % 27)]


class _WrongRecompose(CT.GsmTime2Fn):
    """deliberately wrong: claims the result is f + 1"""

    def ensures(self, c, old, new, ret):
        return [("returns_f_plus_1", ret == c.f + 1)]


WRONG_POSTS = [
    ("l1s_time_inc: T2 modulo 27", lambda run: K.verify(run, ID, frontend.parse_file(CT.SYNC, "fw"), _WrongInc), "post.t2_mod27"),
    ("gsm_gsmtime2fn: returns f+1", lambda run: K.verify(run, ID, frontend.parse_file(CT.GSM_UTILS, "host"), _WrongRecompose),
     "post.returns_f_plus_1"),
]
MUTANTS = [
    (CT.SYNC, "if (time->t2 == 0)", "if (time->t3 == 0)", "l1s_time_inc_post.t1"),
    (CT.GSM_UTILS, "(time->t3 - time->t2 + 26) % 26", "(time->t3 - time->t2) % 26", "gsm_gsmtime2fn_post.returns_f"),
    (CT.GSM_UTILS, "time->t3 = time->fn % 51;", "time->t3 = time->fn % 52;", "gsm_fn2gsmtime_post.t3"),
    (CT.SYNC, "ADD_MODULO(time->fn, delta_fn, GSM_MAX_FN);", "ADD_MODULO(time->fn, delta_fn, GSM_MAX_FN + 1);", "l1s_time_inc_post.fn"),
]


def FUZZ(seed, n=10):
    """random inputs for the native replay (real code vs oracle); none may be `confirmed` on the unchanged tree"""
    import random
    rnd = random.Random(seed)
    H = G.HYPERFRAME
    for k in range(n):
        fn = rnd.choice([0, 1, 25, 26, 50, 51, 1325, 1326, H - 1, H - 2, rnd.randrange(H), rnd.randrange(H)])
        d = rnd.choice([1, 1, 2, 26, 51, 1325, 1326, H - 1, rnd.randrange(1, H)])
        t1, t2, t3, tc = G.gsm_time(fn)
        yield {"func": "l1s_time_inc", "fn": fn, "delta_fn": d}
        yield {"func": "gsm_fn2gsmtime", "fn": fn}
        yield {"func": "gsm_gsmtime2fn", "t1": t1, "t2": t2, "t3": t3, "f": fn}

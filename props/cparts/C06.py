"""C06 - serial link framing (src/target/firmware/comm/sercomm.c; ARM build with 256-octet receive buffer, HOST_BUILD with 2048).

Stage 1  step contracts of sercomm_sendmsg / sercomm_drv_pull / sercomm_drv_rx_char / sercomm_register_rx_cb on the real bodies
         (contracts/c/sercomm.py), both builds
Stage 2  on the pull contract (clauses of the busy case, proved on the code): between the flags no 7E / 00 is emitted unescaped;
         lower DLCI first (clause from_lowest_non_empty_queue of the idle case)
Stage 3  delivery: coupling invariant I of the product step `if (pull(&c)) rx_char(c)` over the abstract step functions the
         contracts prove the code to implement (unbounded: any payload length below the buffer size, any octets, any history)
Stage 4  noise / over-long frames: invariants K (any well-formed frame from the in-sync state) and J (the frame that follows
         an over-long one), i.e. at most the one following frame is lost
`./check cparts.C06`
"""
import z3

from engine.common.core import Obligation, Cover, mval
from engine.cvc import frontend, contract as K, replay as R
from contracts.c import sercomm as CT
from contracts.c.sercomm import ST_WAIT, ST_ADDR, ST_CTRL, ST_DATA, ST_ESC, ST_AESC, ST_CESC, NDLCI
from spec import hdlc_wire as W

ID = "C06"
ENGINE = "CVC"
LEVEL = "proof"
CHECK_ID = "cparts.C06"

BUILDS = (("fw", (), 256), ("host", CT.HOST_EXTRA, 2048))


def parse(mode):
    for m, extra, rx in BUILDS:
        if m == mode:
            return (frontend.parse_file(CT.SERCOMM, m, extra=extra) if extra else frontend.parse_file(CT.SERCOMM, m)), rx
    raise KeyError(mode)


def enumerators_of(tu, enum_name):
    out = []

    def walk(n):
        if n.get("kind") == "EnumDecl" and n.get("name") == enum_name:
            out.extend(c.get("name") for c in n.get("inner", []) if c.get("kind") == "EnumConstantDecl")
        for c in n.get("inner", []):
            if isinstance(c, dict):
                walk(c)
    walk(tu.ast)
    return out


def rx_size_of(tu):
    """SERCOMM_RX_MSG_SIZE as the build under analysis sees it (argument of sercomm_alloc_msgb in sercomm_drv_rx_char)"""
    vals = set()

    def walk(n):
        if n.get("kind") == "CallExpr":
            x = n["inner"][0]
            while x.get("kind") in ("ImplicitCastExpr", "ParenExpr"):
                x = x["inner"][0]
            if x.get("referencedDecl", {}).get("name") == "sercomm_alloc_msgb":
                a = n["inner"][1]
                while a.get("kind") in ("ImplicitCastExpr", "ParenExpr"):
                    a = a["inner"][0]
                if a.get("kind") == "IntegerLiteral":
                    vals.add(int(a["value"]))
        for c in n.get("inner", []):
            walk(c)
    walk(tu.functions["sercomm_drv_rx_char"])
    if len(vals) != 1:
        raise K.Unsupported("SERCOMM_RX_MSG_SIZE not found as a literal in sercomm_drv_rx_char (%r)" % (sorted(vals),))
    return vals.pop()


def build_c(run):
    for mode, extra, rx_expected in BUILDS:
        def prepared():
            tu, _ = parse(mode)
            rx = rx_size_of(tu)
            for nm, val in CT.STATE_NAMES.items():
                if tu.enum_by_name.get(nm) != val:
                    raise K.Unsupported("enum rx_state: %s is %r in this build, the case table of contracts/c/sercomm.py assumes %d" % (nm, tu.enum_by_name.get(nm), val))
            return tu, rx

        def rx_states_known(tu):
            """the receive step's state set is `the enumerators of enum rx_state as declared in the CURRENT source`: a state the contract's case
            table does not know puts the step function out of reach (the statement-level oracle decides), it is not a violation"""
            names = enumerators_of(tu, "rx_state")
            extra = sorted(set(names) - set(CT.STATE_NAMES))
            if extra:
                raise K.Unsupported("enum rx_state declares %s: receive states the case table of contracts/c/sercomm.py does not describe" % ", ".join(extra))

        def one(mk, nm):
            tu, rx = prepared()
            if nm == "sercomm_drv_rx_char":
                rx_states_known(tu)
            n0 = len(run.obls)
            K.verify(run, ID, tu, mk(rx), tag_extra={"build": mode, "rx_size": rx})
            for o in run.obls[n0:]:
                o.case = "%s,%s build" % (o.case, mode) if o.case else "%s build" % mode       # the two builds have the same paths: keep their names apart
        # one section per function and build: a step contract that cannot be bound to a refactored function is out of reach on its own
        for nm, mk in (("sercomm_sendmsg", lambda rx: CT.SendMsg), ("sercomm_drv_pull", lambda rx: CT.DrvPull), ("sercomm_drv_rx_char", lambda rx: CT.DrvRxChar(rx)),
                       ("sercomm_register_rx_cb", lambda rx: CT.RegisterRxCb)):
            K.sect(run, "%s (%s build)" % (nm, mode), one, mk, nm)
        # the spec-level stages reason about the step relations of the contracts; the buffer size is the build's
        K.sect(run, "coupling invariant (%s build)" % mode, lambda: coupling(run, mode, prepared()[1]))
        K.sect(run, "resync lemma (%s build)" % mode, lambda: resync(run, mode, prepared()[1]))
    run.assume("handlers registered with sercomm_register_rx_cb take ownership of the message and do not call back into sercomm "
               "(the echo handler of DLCI 128, sercomm_sendmsg itself, re-queues the message: outside the delivery statement)")
    run.assume("initial state: C zero-initialisation of the static `sercomm` object (tx.msg == rx.msg == NULL, both states 0 == WAIT_START); "
               "sercomm_init() (queue heads, rx.msg = NULL, echo handler) is not run through the engine (array of list heads)")
    run.assume("sercomm_sendmsg is the only producer for the transmit queues and msgb_enqueue/msgb_dequeue are FIFO per queue (assumed msgb "
               "contracts): every dequeued message starts with the octets dlci . 03 written by sercomm_sendmsg")
    run.assume("interleaving: sercomm_sendmsg writes only the message it is given and the queue linkage (frame obligations of its contract); "
               "the message in transmission is owned by sercomm (not passed to sendmsg again), so sendmsg preserves the coupling invariant")
    run.trust("induction over the number of product steps: `initial`, `start`, `preserved`, `delivery`, `noise` obligations are discharged; "
              "`every queued message is delivered intact, one at a time, in dequeue order` follows by induction")
    K.finish(run)


build = build_c


# ---------------------------------------------------------------------- spec-level obligations over the abstract steps

def _symbols():
    tx, rx = CT.Tx("tx"), CT.Rx("rx")
    O = z3.Array("O", z3.IntSort(), z3.IntSort())
    j = z3.Int("j")
    return tx, rx, O, j


def _inputs(tx, O, RX, **more):
    d = {"dlci": z3.Select(O, tx.d), "payload_len": tx.t - tx.d - 2, "payload": ("array_from", O, tx.d + 2, tx.t - tx.d - 2),
         "position": tx.n - tx.d, "escape_pending": tx.esc, "rx_size": z3.IntVal(RX)}
    d.update(more)
    return d


def _emit(run, func, mode, RX, stage):
    tag = {"side": "c", "func": func, "build": mode, "rx_size": RX, "stage": stage, "file": CT.SERCOMM}

    def ob(clause, hyps, goal, inputs=None, kind="inv"):
        run.add(Obligation(ID, func, clause, list(hyps), goal, kind=kind, case="%s build" % mode, inputs=inputs or {}, tag=dict(tag, clause=clause)))

    def cover(clause, hyps):
        run.add(Cover(ID, func, clause, list(hyps), case="%s build" % mode, tag=dict(tag)))
    return ob, cover


STORED_OFFSET = 2          # octets of a frame that are not payload (address, control); the negative control changes it


def i_rx(tx, rx, O, RX, js):
    """receiver part of the coupling invariant: what the receiver must have understood after the transmitter conveyed k octets"""
    k = tx.n - tx.d
    sel = lambda i: z3.Select(O, i)
    content = [z3.Implies(z3.And(0 <= x, x < k - 2), z3.Select(rx.rb, rx.rd + x) == sel(tx.d + 2 + x)) for x in js]
    return z3.And(
        CT.rx_geometry(rx, RX), rx.types(),
        # an escape marker conveyed for the address / control octet is remembered in the *_ESCAPE states
        z3.Implies(k == 0, z3.And(rx.st == z3.If(tx.esc, ST_AESC, ST_ADDR), CT.rx_empty(rx))),
        z3.Implies(k == 1, z3.And(rx.st == z3.If(tx.esc, ST_CESC, ST_CTRL), rx.dlci == sel(tx.d), CT.rx_empty(rx))),
        z3.Implies(k >= 2, z3.And(rx.has, rx.st == z3.If(tx.esc, ST_ESC, ST_DATA), rx.dlci == sel(tx.d), rx.ctrl == sel(tx.d + 1),
                                  rx.rt - rx.rd == k - STORED_OFFSET, *content)))


def i_busy(tx, rx, O, RX, js):
    L = tx.t - tx.d
    return CT.txi(tx, O, js) + [L >= 2, L - 2 <= RX, z3.Select(O, tx.d + 1) == W.CTRL_UI, 0 <= z3.Select(O, tx.d), z3.Select(O, tx.d) < NDLCI,
                                i_rx(tx, rx, O, RX, js)]


def coupling(run, mode, RX):
    ob, cover = _emit(run, "product_step", mode, RX, 3)
    tx, rx, O, j = _symbols()
    I = z3.IntSort()
    oct_ = CT.octet

    # (a) initial state
    z = rx.but(st=z3.IntVal(0), dlci=z3.IntVal(0), ctrl=z3.IntVal(0), has=z3.BoolVal(False))
    ob("coupling.initial", [], CT.sync_idle(z, RX))

    # what sendmsg puts on a queue
    buf, d, t, dl = z3.Array("m.buf", I, I), z3.Int("m.d"), z3.Int("m.t"), z3.Int("m.dlci")
    sent = z3.Store(z3.Store(buf, d - 2, dl), d - 1, W.CTRL_UI)
    hy = [0 <= dl, dl < NDLCI, d >= 2, d <= t]
    ob("coupling.queue_entry_from_sendmsg.header", hy, CT.queue_entry(dl, sent, d - 2, t))
    ob("coupling.queue_entry_from_sendmsg.payload", hy + [d <= j, j < t], z3.Select(sent, j) == z3.Select(buf, j))

    # start of a frame: transmitter idle, receiver in sync, message (O, md, mt) dequeued
    md, mt, qi = z3.Int("m.d"), z3.Int("m.t"), z3.Int("m.queue")
    hy = [tx.idle, z3.Not(tx.esc), CT.sync_idle(rx, RX), CT.queue_entry(qi, O, md, mt), mt - md - 2 <= RX]
    ch, tx1 = CT.pull_start(tx, O, md, mt)
    rx1, dv = CT.rx_abs(rx, ch, RX, "s")
    inp = _inputs(tx1, O, RX)
    cover("coupling.start.reachable", hy)
    for n_, g in enumerate(i_busy(tx1, rx1, O, RX, [j])):
        ob("coupling.start.establishes_invariant.%d" % n_, hy, g, inp)
    ob("coupling.start.nothing_delivered", hy, z3.And(z3.Not(dv["flag"]), z3.Not(dv["discard"])), inp)

    # a step inside the frame
    n = tx.n
    inst = [j, n, n + 1, j + 1 + (tx.n - tx.d) - 0]          # instances of the quantified clauses used as hypotheses
    inst = [j, n]
    end = z3.And(z3.Not(tx.esc), tx.n >= tx.t)
    hy = i_busy(tx, rx, O, RX, inst + [j - 0]) + [z3.Not(end), oct_(z3.Select(O, n)), oct_(z3.Select(tx.buf, n)), oct_(z3.Select(O, tx.d)),
                                                   oct_(z3.Select(O, tx.d + 2 + j))]
    ch, tx1 = CT.pull_busy(tx)
    rx1, dv = CT.rx_abs(rx, ch, RX, "p")
    inp = _inputs(tx, O, RX)
    cover("coupling.preserved.reachable", hy)
    for n_, g in enumerate(CT.txi(tx1, O, [j])):
        ob("coupling.preserved.transmitter_invariant.%d" % n_, hy, g, inp)
    ob("coupling.preserved.receiver_tracks_transmitter", hy, i_rx(tx1, rx1, O, RX, [j]), inp)
    ob("coupling.preserved.no_overflow_nothing_delivered", hy, z3.And(z3.Not(dv["discard"]), z3.Not(dv["flag"])), inp)

    # the closing flag: delivery
    hy = i_busy(tx, rx, O, RX, [j, n]) + [end, oct_(z3.Select(O, tx.d))]
    ch, tx1 = CT.pull_busy(tx)
    rx1, dv = CT.rx_abs(rx, ch, RX, "e")
    L = tx.t - tx.d
    cover("coupling.delivery.reachable", hy)
    ob("coupling.delivery.closing_flag", hy, z3.And(ch == W.FLAG, tx1.idle, z3.Not(tx1.esc)), inp)
    # payloads shorter than the buffer MUST be delivered; a payload of exactly RX octets (boundary left open by the statement) MAY be:
    # whatever is delivered is identical
    ob("coupling.delivery.handed_to_handler_once", hy + [L - 2 < RX], z3.And(dv["flag"], z3.Not(dv["discard"])), inp)
    ob("coupling.delivery.dlci_identical", hy + [dv["flag"]], dv["dlci"] == z3.Select(O, tx.d), inp)
    ob("coupling.delivery.length_identical", hy + [dv["flag"]], dv["t"] - dv["d"] == L - 2, inp)
    ob("coupling.delivery.payload_identical", hy + [dv["flag"], 0 <= j, j < L - 2], z3.Select(dv["buf"], dv["d"] + j) == z3.Select(O, tx.d + 2 + j), inp)
    ob("coupling.delivery.back_in_sync", hy, CT.sync_idle(rx1, RX), inp)

    # noise between frames
    c = z3.Int("noise")
    hy = [CT.sync_idle(rx, RX), oct_(c), c != W.FLAG]
    rx1, dv = CT.rx_abs(rx, c, RX, "n")
    ob("coupling.noise_between_frames_ignored", hy, z3.And(CT.sync_idle(rx1, RX), z3.Not(dv["flag"]), z3.Not(dv["discard"])), {"noise_octet": c, "rx_size": z3.IntVal(RX)})


def txrep(tx):
    """the representation invariant DrvPull requires and re-establishes"""
    cur = z3.Select(tx.buf, tx.n)
    return [z3.Not(tx.idle), tx.d <= tx.n, tx.n <= tx.t, z3.Implies(tx.esc, z3.And(tx.n < tx.t, CT.wire_safe(cur)))]


def addr_empty(rx, RX):
    """one flag ahead: the closing flag of a frame whose tail was ignored has been taken for an opening flag"""
    return z3.And(rx.st == ST_ADDR, CT.rx_empty(rx), CT.rx_geometry(rx, RX), rx.types())


def k_inv(tx, rx, RX):
    """any well-formed frame (of ANY length) sent to a receiver that was in sync: the receiver follows or has dropped the frame"""
    k = tx.n - tx.d
    lost = z3.And(rx.st == ST_WAIT, CT.rx_empty(rx))
    a = z3.And(rx.st == z3.If(tx.esc, ST_AESC, ST_ADDR), k == 0, CT.rx_empty(rx))
    c = z3.And(rx.st == z3.If(tx.esc, ST_CESC, ST_CTRL), k == 1, CT.rx_empty(rx))
    dd = z3.And(z3.Or(rx.st == ST_DATA, rx.st == ST_ESC), (rx.st == ST_ESC) == tx.esc, rx.has, rx.rt - rx.rd >= k - 2, k >= 2)
    return txrep(tx) + [tx.t - tx.d >= 2, CT.rx_geometry(rx, RX), rx.types(), z3.Or(lost, a, c, dd)]


def j_inv(tx, rx, O, RX, js):
    """the frame that follows an over-long one, receiver one flag ahead: everything is understood one field late (the opening flag as
    address, the address octet as control octet, control octet and payload as payload: one octet more than the payload is stored)"""
    k = tx.n - tx.d
    c = z3.And(rx.st == z3.If(tx.esc, ST_CESC, ST_CTRL), CT.rx_empty(rx), k == 0)
    dd = z3.And(k >= 1, z3.Or(rx.st == ST_DATA, rx.st == ST_ESC), (rx.st == ST_ESC) == tx.esc, rx.has, rx.rt - rx.rd == k - 1)
    L = tx.t - tx.d
    return CT.txi(tx, O, js) + [L >= 2, L - 2 < RX, z3.Select(O, tx.d + 1) == W.CTRL_UI, CT.rx_geometry(rx, RX), rx.types(), z3.Or(c, dd)]


def resync(run, mode, RX):
    ob, cover = _emit(run, "resync", mode, RX, 4)
    tx, rx, O, j = _symbols()
    oct_ = CT.octet
    c = z3.Int("octet")

    # buffer full and the octet would have to be stored: the frame is discarded (every implementation of the step contract)
    hy = [CT.rx_geometry(rx, RX), rx.types(), oct_(c), rx.has, rx.rdl - rx.rt == 0, CT.must_store(rx.st, c)]
    rx1, dv = CT.rx_abs(rx, c, RX, "o")
    ob("resync.overflow_resets_to_wait_start", hy, z3.And(dv["discard"], CT.sync_idle(rx1, RX), z3.Not(dv["flag"])), {"rx_size": z3.IntVal(RX)})

    # K: a well-formed frame of any length, receiver in sync at its start
    md, mt = z3.Int("m.d"), z3.Int("m.t")
    hy = [tx.idle, z3.Not(tx.esc), CT.sync_idle(rx, RX), mt - md >= 2]
    ch, tx1 = CT.pull_start(tx, O, md, mt)
    rx1, dv = CT.rx_abs(rx, ch, RX, "ks")
    for n_, g in enumerate(k_inv(tx1, rx1, RX)):
        ob("resync.any_frame.start.%d" % n_, hy, g)
    n = tx.n
    end = z3.And(z3.Not(tx.esc), tx.n >= tx.t)
    hy = k_inv(tx, rx, RX) + [z3.Not(end), oct_(z3.Select(tx.buf, n))]
    ch, tx1 = CT.pull_busy(tx)
    rx1, dv = CT.rx_abs(rx, ch, RX, "kp")
    inp = {"length": tx.t - tx.d - 2, "position": tx.n - tx.d, "rx_size": z3.IntVal(RX)}
    cover("resync.any_frame.preserved.reachable", hy)
    for n_, g in enumerate(k_inv(tx1, rx1, RX)):
        ob("resync.any_frame.preserved.%d" % n_, hy, g, inp)
    ob("resync.any_frame.nothing_delivered_before_closing_flag", hy, z3.Not(dv["flag"]), inp)
    hy = k_inv(tx, rx, RX) + [end]
    ch, tx1 = CT.pull_busy(tx)
    rx1, dv = CT.rx_abs(rx, ch, RX, "ke")
    ob("resync.any_frame.exit_in_sync_or_one_flag_ahead", hy, z3.And(tx1.idle, z3.Not(tx1.esc), z3.Or(CT.sync_idle(rx1, RX), addr_empty(rx1, RX))), inp)
    ob("resync.overlong_frame_never_delivered", hy + [tx.t - tx.d - 2 > RX], z3.Not(dv["flag"]), inp)

    # J: the following frame, receiver one flag ahead
    qi = z3.Int("m.queue")
    hy = [tx.idle, z3.Not(tx.esc), addr_empty(rx, RX), CT.queue_entry(qi, O, md, mt), mt - md - 2 < RX]
    ch, tx1 = CT.pull_start(tx, O, md, mt)
    rx1, dv = CT.rx_abs(rx, ch, RX, "js")
    inp = _inputs(tx1, O, RX)
    for n_, g in enumerate(j_inv(tx1, rx1, O, RX, [j])):
        ob("resync.following_frame.start.%d" % n_, hy, g, inp)
    hy = j_inv(tx, rx, O, RX, [j, n]) + [z3.Not(end), oct_(z3.Select(O, n)), oct_(z3.Select(tx.buf, n)), oct_(z3.Select(O, tx.d))]
    ch, tx1 = CT.pull_busy(tx)
    rx1, dv = CT.rx_abs(rx, ch, RX, "jp")
    inp = _inputs(tx, O, RX)
    cover("resync.following_frame.preserved.reachable", hy)
    goals = j_inv(tx1, rx1, O, RX, [j])
    for n_, g in enumerate(goals[:-1]):
        ob("resync.following_frame.preserved.%d" % n_, hy, g, inp)
    ob("resync.following_frame.preserved.not_lost_again", hy, goals[-1], inp)
    hy = j_inv(tx, rx, O, RX, [j, n]) + [end, oct_(z3.Select(O, tx.d))]
    ch, tx1 = CT.pull_busy(tx)
    rx1, dv = CT.rx_abs(rx, ch, RX, "je")
    ob("resync.following_frame.exit_back_in_sync", hy, z3.And(tx1.idle, z3.Not(tx1.esc), CT.sync_idle(rx1, RX)), inp)
    run.trust("composition of the resync lemma: an over-long frame sent to a receiver in sync ends (K) in sync or one flag ahead; from one flag "
              "ahead the following frame ends (J) in sync; flag-free noise keeps either state (noise / WAIT_START clauses)")


# ---------------------------------------------------------------------- witness / replay

def witness_c(o, model):
    t = o.tag or {}
    w = {"func": t.get("func"), "clause": o.clause, "kind": o.kind, "case": t.get("case"), "build": t.get("build"), "rx_size": t.get("rx_size"),
         "stage": t.get("stage", 1)}
    for k, term in (o.inputs or {}).items():
        if isinstance(term, tuple) and term[0] == "array_n":
            n_ = min(max(mval(model, term[2]), 0), 64)
            w[k] = [mval(model, z3.Select(term[1], i)) for i in range(n_)]
        elif isinstance(term, tuple) and term[0] == "array_from":
            s0 = mval(model, term[2])
            n_ = min(max(mval(model, term[3]), 0), 64)
            w[k] = [mval(model, z3.Select(term[1], s0 + i)) for i in range(n_)]
        elif z3.is_bool(term):
            w[k] = bool(z3.is_true(model.eval(term, model_completion=True)))
        else:
            w[k] = mval(model, term)
    return w


witness = witness_c

_MAIN = r"""
#include <stdio.h>
#include <stdlib.h>
#include <string.h>
#include <stdint.h>
#include "%(sercomm_c)s"
#ifndef HOST_BUILD
void uart_irq_enable(uint8_t uart, enum uart_irq irq, int on) { }
#endif
void osmo_panic(const char *fmt, ...) { printf("panic\n"); exit(7); }
static void hex(const char *tag, const uint8_t *p, int n) { int i; printf("%%s", tag); for (i = 0; i < n; i++) printf("%%02x", p[i]); if (!n) printf("-"); printf("\n"); }
static void handler(uint8_t dlci, struct msgb *msg)
{
	printf("deliver %%u ", dlci);
	hex("", msg->data, msg->tail - msg->data);
	msgb_free(msg);
}
static int hexbytes(const char *h, uint8_t *out) { int n = 0; unsigned v; if (!strcmp(h, "-")) return 0; while (h[0] && h[1] && sscanf(h, "%%2x", &v) == 1) { out[n++] = v; h += 2; } return n; }
int main(int argc, char **argv)
{
	/* script on stdin:  send <dlci> <hex>  |  pump  |  feed <hex>  |  state */
	static uint8_t buf[70000], wire[400000];
	static char line[150000], a2[140100];
	int i, n;
	unsigned d;
	sercomm_init();
	for (i = 0; i < _SC_DLCI_MAX; i++) {
		int skip = 0, a;
		for (a = 1; a < argc; a++) if (atoi(argv[a]) == i) skip = 1;	/* DLCIs named on the command line stay without a handler */
		if (i != SC_DLCI_ECHO && !skip) sercomm_register_rx_cb(i, handler);
	}
	printf("rx_size %%d\n", SERCOMM_RX_MSG_SIZE);
	while (fgets(line, sizeof(line), stdin)) {
		a2[0] = 0;
		if (!strncmp(line, "send", 4)) {
			struct msgb *m;
			sscanf(line + 4, "%%u %%140000s", &d, a2);
			n = hexbytes(a2, buf);
			m = sercomm_alloc_msgb(n ? n : 1);	/* msgb_alloc_headroom() demands size > headroom */
			memcpy(msgb_put(m, n), buf, n);
			sercomm_sendmsg(d, m);
		} else if (!strncmp(line, "pump", 4)) {
			uint8_t ch; int k = 0;
			while (k < 400000 && sercomm_drv_pull(&ch)) {
				wire[k++] = ch;
				if (!sercomm_drv_rx_char(ch)) printf("overflow\n");
			}
			hex("wire ", wire, k);
		} else if (!strncmp(line, "feed", 4)) {
			sscanf(line + 4, "%%140000s", a2);
			n = hexbytes(a2, buf);
			for (i = 0; i < n; i++)
				if (!sercomm_drv_rx_char(buf[i])) printf("overflow\n");
		} else if (!strncmp(line, "state", 5)) {
			printf("state rx=%%d tx=%%d txmsg=%%d rxfill=%%d\n", (int)sercomm.rx.state, (int)sercomm.tx.state, sercomm.tx.msg != NULL,
			       sercomm.rx.msg ? (int)(sercomm.rx.msg->tail - sercomm.rx.msg->data) : -1);
		}
	}
	printf("done\n");
	return 0;
}
"""


def harness():
    return _MAIN % {"sercomm_c": frontend.repo(CT.SERCOMM)}


def harness_flags(mode):
    """host: HOST_BUILD exactly as osmocon builds it.  fw: the target variant (receive buffer 256) compiled natively; only <asm/system.h>
    (ARM inline assembly for the interrupt lock) is replaced by shim/sercomm_native, the rest are the real firmware headers."""
    import os
    L = frontend.repo("src/shared/libosmocore")
    common = ["-I", os.path.join(L, "include"), "-I", os.path.join(frontend.SHIM, "host", "a", "b"), "-I", os.path.join(frontend.SHIM, "host"),
              os.path.join(L, "src", "msgb.c"), os.path.join(L, "src", "talloc.c")]
    if mode == "host":
        return ["-DHOST_BUILD", "-I", frontend.repo("src/target/firmware/include/comm")] + common
    return ["-I", os.path.join(frontend.SHIM, "sercomm_native"), "-idirafter", frontend.repo("src/target/firmware/include")] + common


def hexs(bs):
    return "".join("%02x" % (b & 255) for b in bs) or "-"


def run_script(h, script, unregistered=()):
    """-> dict(deliveries [(dlci, payload)], wire [octets per pump], overflow count, sanitizer, rc); `unregistered`: DLCIs left without a handler"""
    r = h.run([str(x) for x in unregistered], timeout=60, stdin="\n".join(script) + "\n")
    if r.get("rc") is None:
        return {"error": "harness build failed", "detail": r}
    out = {"deliveries": [], "wire": [], "overflows": 0, "sanitizer": r.get("sanitizer"), "rc": r["rc"], "states": []}
    for ln in (r.get("stdout") or "").splitlines():
        p = ln.split()
        if not p:
            continue
        if p[0] == "deliver":
            out["deliveries"].append((int(p[1]), [] if p[2] == "-" else list(bytes.fromhex(p[2]))))
        elif p[0] == "wire":
            out["wire"].append([] if p[1] == "-" else list(bytes.fromhex(p[1])))
        elif p[0] == "overflow":
            out["overflows"] += 1
        elif p[0] == "panic":
            out["panic"] = True
        elif p[0] == "rx_size":
            out["rx_size"] = int(p[1])
        elif p[0] == "state":
            out["states"].append(ln)
    out["completed"] = (r.get("stdout") or "").rstrip().endswith("done")
    return out


def valid_message(dlci, payload, rx):
    """the statement's quantifier (= pre-conditions of the contracts): DLCI with a (generic) handler, payload shorter than the buffer"""
    return isinstance(dlci, int) and 0 <= dlci < NDLCI and dlci != 128 and len(payload) < rx and all(0 <= b <= 255 for b in payload)


def expect_and_observe(h, batches, rx, overlong_first=0):
    """batches: list of lists of (dlci, payload); each batch is queued completely, then pumped through the receiver.
    Expected (spec/hdlc_wire.py): wire of a batch = frames lowest DLCI first, FIFO per DLCI; deliveries = ideal_receive(wire)."""
    script, exp_wire, exp_deliv = [], [], []
    for b in batches:
        for (d, p) in b:
            script.append("send %d %s" % (d, hexs(p)))
        script.append("pump")
        order = sorted(range(len(b)), key=lambda i: (b[i][0], i))
        w = []
        for i in order:
            w += W.frame(b[i][0], b[i][1])
        exp_wire.append(w)
        exp_deliv += [(d, p) for (d, p) in W.ideal_receive(w) if len(p) < rx]
    script.append("state")
    obs = run_script(h, script)
    return script, exp_wire, exp_deliv, obs


def judge(exp_wire, exp_deliv, obs, only_probe=None):
    """-> list of differences between the prescribed and the observed behaviour"""
    bad = []
    if obs.get("error"):
        return None
    if obs.get("sanitizer"):
        bad.append("sanitizer: %s" % obs["sanitizer"])
    if obs.get("panic"):
        bad.append("osmo_panic() called (msgb abort: store beyond the receive buffer)")
    if not obs.get("completed"):
        bad.append("harness did not complete (rc %s)" % obs.get("rc"))
    if only_probe is not None:
        if only_probe not in obs["deliveries"]:
            bad.append("frame (dlci %d, %d octets) sent after the frame following the over-long one was not delivered" % (only_probe[0], len(only_probe[1])))
        return bad
    # the wire is judged by the statement's grammar (spec.hdlc_wire.scan_transmitter_output): frames 7E body 7E, no unescaped 7E / 00 inside,
    # bodies decode to dlci . 03 . payload in the order of the queueing discipline - which further octets an implementation escapes is its choice
    for k, (a, b) in enumerate(zip(obs["wire"], exp_wire)):
        got, err = W.scan_transmitter_output(a)
        want, _ = W.scan_transmitter_output(b)
        if err:
            bad.append("wire of batch %d violates the wire grammar at octet %d: %s (around %s)" % (k, err[0], err[1], hexs(a[max(0, err[0] - 4):err[0] + 4])))
            break
        if got != want:
            i = next((i for i in range(min(len(got), len(want))) if got[i] != want[i]), min(len(got), len(want)))
            bad.append("wire of batch %d: frame %d does not decode to dlci . 03 . payload of the message whose turn it is (got %s, expected %s; %d frames, %d expected)"
                       % (k, i, hexs((got[i] if i < len(got) else [])[:10]), hexs((want[i] if i < len(want) else [])[:10]), len(got), len(want)))
            break
    if len(obs["wire"]) != len(exp_wire):
        bad.append("%d pump operations produced output, %d expected" % (len(obs["wire"]), len(exp_wire)))
    if obs["deliveries"] != exp_deliv:
        miss = [x for x in exp_deliv if x not in obs["deliveries"]]
        extra = [x for x in obs["deliveries"] if x not in exp_deliv]
        bad.append("deliveries differ: %d expected, %d observed; first missing %s; first unexpected %s"
                   % (len(exp_deliv), len(obs["deliveries"]), [(d, hexs(p[:12])) for d, p in miss[:1]], [(d, hexs(p[:12])) for d, p in extra[:1]]))
    return bad


def model_message(w, rx):
    dlci, n = w.get("dlci"), w.get("payload_len")
    if not isinstance(dlci, int) or not isinstance(n, int):
        return None
    head = [b & 255 for b in (w.get("payload") or [])][:max(n, 0)]
    payload = head + [0x41 + (i % 23) for i in range(max(n, 0) - len(head))]
    return (dlci, payload) if valid_message(dlci, payload, rx) else None


def scenarios(seed, rx, clause, func=""):
    """seeded scenarios inside the statement's quantifier, ordered by the clause that failed"""
    import random
    rnd = random.Random(seed)
    special = [0x7E, 0x7D, 0x00, 0x5E, 0x5D, 0x20, 0x03, 0xFF]
    safe = list(range(0, 128))          # every DLCI the harness registers its handler for (128 is the echo handler)
    esc_dlci = [0x00, 0x7D, 0x7E]

    def payload(n):
        return [rnd.choice(special) if rnd.random() < 0.5 else rnd.randrange(256) for _ in range(n)]
    if not (func in ("sercomm_sendmsg", "sercomm_drv_pull", "sercomm_register_rx_cb") and "resync" not in clause):
        # over-long frames whose first octets beyond the buffer are escaped / ordinary ones (the discard can be triggered at a store of
        # either kind), then frames of all lengths around the boundary
        for at in (rx, rx - 1, rx + 1):
            for sp in (0x7E, 0x7D, 0x00):
                p_ = [0x41 + (i % 7) for i in range(rx + 6)]
                p_[at] = sp
                yield ("overlong", [[(4, p_)], [(5, payload(9))], [(6, payload(5))], [(7, payload(3))]])
        for n_over in (rx + 1, rx + 40, 3 * rx):
            for d in (rnd.choice(safe), 5, rnd.choice(esc_dlci)):
                yield ("overlong", [[(4, payload(n_over))], [(d, payload(rnd.choice([0, 1, 7, rx - 2, rx - 1])))], [(6, payload(5))], [(7, payload(3))]])
        # payload of exactly RX octets: delivered intact or discarded (the statement leaves the boundary open), never corrupted
        yield ("boundary", [[(4, payload(rx))], [(5, payload(9))], [(6, payload(5))], [(7, payload(3))]])
    for k in range(12):
        lens = [rnd.choice([0, 1, 2, 3, 8, 31, rx - 1, rx - 2]) for _ in range(rnd.randrange(1, 6))]
        yield ("plain", [[(rnd.choice(esc_dlci) if rnd.random() < 0.3 else rnd.choice(safe), payload(n)) for n in lens] for _ in range(rnd.randrange(1, 3))])


def replay_rx_step(h, w, rx):
    """A counter-model of the receive step contract is a receiver state (state, octets stored, address and control octet seen, handler or not for
    that address) and an octet.  It is executed on the real code EXACTLY: the receiver is driven into that state through sercomm_drv_rx_char()
    itself (7E <dlci> <ctrl> <stored octets>, escaped where needed; the DLCI is left without a handler when the model says so - DLCIs >=
    _SC_DLCI_MAX never have one), then the octet is fed.  When the stream is one a transmitter can produce the frame is completed, and in
    every case FOUR more good frames follow.  Judged at statement level: deliveries == spec.hdlc_wire.ideal_receive(stream) restricted to the
    DLCIs that have a handler (a frame nobody listens to costs nothing), the over-long rules, and after anything the statement does not
    speak about (malformed stream) at most two of the following frames may be lost; memory safety always.
    -> replay result, or None when the state cannot be reached through the interface (representation invariant violated by the model)."""
    st, ch, k = w.get("state"), w.get("ch"), w.get("stored", 0) or 0
    d, ctl, hnd = w.get("dlci", 5), w.get("ctrl", W.CTRL_UI), w.get("handler", 1)
    if not all(isinstance(x, int) for x in (st, ch, k, d, ctl)) or not (0 <= ch <= 255) or not (0 <= st <= 6) or not (0 <= k <= rx) or not (0 <= d <= 255) or not (0 <= ctl <= 255):
        return None
    if st in (0, 1, 5, 2, 6) and k != 0:
        return None
    esc = lambda b: [W.ESCAPE, b ^ 0x20] if W.needs_escape(b) else [b]
    # in the states before the address / control octet is complete the model's dlci / ctrl values are stale (they will be overwritten):
    # the frame under construction gets a DLCI with a handler unless the address is already in
    addr_in = st in (2, 6, 3, 4)
    d_use = d if addr_in else 5
    c_use = ctl if st in (3, 4) else W.CTRL_UI
    no_handler = (d_use >= NDLCI or d_use == 128 or (addr_in and hnd == 0))
    unregistered = [d_use] if (d_use < NDLCI and addr_in and hnd == 0) else []
    if addr_in and d_use == 128:
        return None                     # the echo DLCI re-queues the message: outside the delivery statement
    if addr_in and d_use < NDLCI and hnd != 0 and False:
        pass
    body = [0x41 + (i % 23) for i in range(k)]
    prefix = {0: [], 1: [W.FLAG], 5: [W.FLAG, W.ESCAPE], 2: [W.FLAG] + esc(d_use), 6: [W.FLAG] + esc(d_use) + [W.ESCAPE],
              3: [W.FLAG] + esc(d_use) + esc(c_use) + body, 4: [W.FLAG] + esc(d_use) + esc(c_use) + body + [W.ESCAPE]}[st]
    inv = (0x5E, 0x5D, 0x20)
    wellformed = {0: True, 1: ch not in (W.FLAG, 0), 5: ch in inv, 2: ch not in (W.FLAG, 0), 6: ch in inv, 3: ch != 0, 4: ch in inv}[st]
    stream = prefix + [ch]
    closed = (st == 3 and ch == W.FLAG) or st == 0 and ch != W.FLAG
    if wellformed and not closed:
        # complete the frame the way a transmitter would
        tail = []
        pending_escape = (ch == W.ESCAPE and st in (1, 2, 3))
        if pending_escape:
            tail.append(0x5E)
        if st == 0:
            tail += esc(5) + [W.CTRL_UI]
        elif st in (1, 5):
            tail += [W.CTRL_UI]
        tail += [0x51, 0x52, W.FLAG]
        stream += tail
    probes = [(6, [0x70, 0x72, 0x6F]), (7, [0x62, 0x65, 0x7E, 0x00]), (9, [0x33]), (10, [0x7D, 0x11, 0x13, 0x00, 0x7E])]
    stream2 = list(stream)
    for pr in probes:
        stream2 += W.frame(*pr)
    obs = run_script(h, ["feed " + hexs(stream2), "state"], unregistered)
    info = {"receiver_driven_to": {"state": st, "stored": k, "dlci": d_use, "ctrl": c_use, "handler_for_dlci": not no_handler}, "octet": ch, "stream_len": len(stream2),
            "stream_head": hexs(stream2[:24]), "stream_tail": hexs(stream2[-24:]), "well_formed_stream": wellformed, "state_afterwards": (obs.get("states") or [None])[-1],
            "counter_model_executed_exactly": True}
    bad = []
    if obs.get("error"):
        return {"confirmed": False, "error": "harness build failed"}
    if obs.get("sanitizer"):
        bad.append("sanitizer: %s" % obs["sanitizer"])
    if obs.get("panic"):
        bad.append("osmo_panic() called (msgb abort: store beyond the receive buffer)")
    if not obs.get("completed"):
        bad.append("harness did not complete (rc %s)" % obs.get("rc"))
    got = obs.get("deliveries", [])
    listened = lambda x: x[0] < NDLCI and x[0] != 128 and x[0] not in unregistered
    if not bad:
        if wellformed:
            every = W.ideal_receive(stream2)
            exp = [x for x in every if listened(x)]        # delivered to the handler REGISTERED for its DLCI
            if any(x[0] == 128 for x in every):
                exp = None
            # an over-long frame costs the frame that follows it whether or not anybody listens to its DLCI
            long_ = [x for x in every if len(x[1]) >= rx]
            if exp is None:
                pass
            elif not long_:
                if got != exp:
                    bad.append("deliveries differ from the ideal receiver: expected %s, observed %s" % ([(a, hexs(b[:8]), len(b)) for a, b in exp[:6]], [(a, hexs(b[:8]), len(b)) for a, b in got[:6]]))
            else:
                if any(len(x[1]) > rx for x in got):
                    bad.append("over-long frame delivered")
                miss = [p for p in probes[1:] if p not in got]
                if miss:
                    bad.append("%d of the frames after the one following the over-long frame not delivered" % len(miss))
        else:
            # a stream no transmitter produces: the statement is silent about the frames it hits, but reception must come back.  An unfinished
            # frame is ended by the next frame's opening flag, that frame's body is skipped and its closing flag is taken for an opening one, so
            # the frame after it is understood one field late: up to TWO good frames are lost on the unchanged receiver (tools/replay_audit.py
            # found the stricter "last three" rule confirming on the unchanged tree) - the last two must arrive
            miss = [p for p in probes[2:] if p not in got]
            if miss:
                bad.append("after the malformed input %d of the last two good frames are not delivered (first missing: dlci %d)" % (len(miss), miss[0][0]))
    return {"confirmed": bool(bad), "found_by": "model (receiver driven into exactly the counter-model's state through its own input)", "observed": bad or "behaves as the statement prescribes",
            "precondition_met_by_model_input": True,
            "deliveries_observed": [(a, hexs(b[:12]), len(b)) for a, b in got[:6]], "executed": info,
            "expected": "deliveries == ideal receiver of spec/hdlc_wire.py for the DLCIs with a handler (well-formed stream), over-long rules, reception back in sync, no sanitizer report / panic"}


def replay_c(payload):
    """Native replay: host harness = the real sercomm.c (#include) + bundled libosmocore msgb.c/talloc.c, ASan+UBSan.  The prescribed behaviour is
    computed from spec/hdlc_wire.py for the CONCRETE messages; a message taken from the model is used only if it lies inside the statement's
    quantifier (DLCI < 129 with a handler, payload shorter than the buffer) - otherwise seeded scenarios inside the quantifier are searched."""
    import os
    w = payload["inputs"]
    mode = w.get("build") or "host"
    rx = {m: r for m, _, r in BUILDS}[mode]
    clause = str(payload.get("clause") or w.get("clause") or "")
    with R.Harness(harness(), harness_flags(mode)) as h:
        probe = run_script(h, ["state"])
        if probe.get("error"):
            return {"confirmed": False, "error": "harness build failed", "detail": probe["detail"].get("build_error", "")[-1500:], "cmd": h.cmd}
        if probe.get("rx_size") != rx:
            return {"confirmed": False, "error": "harness receive buffer is %r, the obligation is about %r" % (probe.get("rx_size"), rx)}
        if w.get("func") in ("sercomm_drv_rx_char", "msgb_put", "msgb_tailroom", "dispatch_rx_msg", "sercomm_alloc_msgb") and "state" in w and "ch" in w:
            res = replay_rx_step(h, w, rx)
            if res is not None and (res.get("confirmed") or res.get("error")):
                return res
            step_executed = res
        else:
            step_executed = None
        msg = model_message(w, rx)
        tried = 0
        if msg is not None:
            if "following_frame" in clause:
                over = (4, [0x41] * (rx + 9))
                pr = (6, [0x70, 0x72, 0x6f, 0x62, 0x65])
                batches = [[over], [msg], [pr]]
                script, ew, ed, obs = expect_and_observe(h, batches, rx)
                bad = judge(ew, ed, obs, only_probe=pr)
            else:
                script, ew, ed, obs = expect_and_observe(h, [[msg]], rx)
                bad = judge(ew, ed, obs)
            tried += 1
            if bad:
                return {"confirmed": True, "found_by": "model", "precondition_met_by_model_input": True, "observed": bad,
                        "expected": "wire == hdlc_wire frames (lowest DLCI first), deliveries == the messages sent, no sanitizer report",
                        "message": {"dlci": msg[0], "payload_len": len(msg[1]), "payload_head": hexs(msg[1][:24])},
                        "deliveries_observed": [(d, hexs(p[:24])) for d, p in obs["deliveries"][:4]], "script_head": [s[:80] for s in script[:6]], "cmd": h.cmd}
        for kind, batches in scenarios(int(os.environ.get("VERIF_SEED", "0") or 0), rx, clause, str(w.get("func") or "")):
            if not all(valid_message(d, p, rx) or (kind in ("overlong", "boundary") and b is batches[0]) for b in batches for (d, p) in b):
                continue
            script, ew, ed, obs = expect_and_observe(h, batches, rx)
            tried += 1
            if kind in ("overlong", "boundary"):
                # the over-long frame itself and the one that follows may be lost; everything after must arrive; no memory error, no panic
                bad = judge(ew, ed, obs, only_probe=batches[2][0])
                if bad is not None and batches[3][0] not in obs.get("deliveries", []):
                    bad.append("second frame after the over-long one not delivered either")
                if bad is not None and kind == "overlong" and batches[0][0] in obs.get("deliveries", []):
                    bad.append("over-long frame delivered")
                if bad is not None and kind == "boundary":
                    got = [x for x in obs.get("deliveries", []) if x[0] == batches[0][0][0]]
                    if got and got != [batches[0][0]]:
                        bad.append("frame with a payload of exactly the buffer size delivered corrupted")
            else:
                bad = judge(ew, ed, obs)
            if bad:
                return {"confirmed": True, "found_by": "search (%d scenarios inside the statement's quantifier tried; kind %s)" % (tried, kind),
                        "precondition_met_by_model_input": msg is not None, "observed": bad,
                        "expected": "wire == hdlc_wire frames (lowest DLCI first), deliveries == the messages sent, no sanitizer report",
                        "script_head": [s[:80] for s in script[:6]], "cmd": h.cmd}
        res = {"confirmed": False, "precondition_met_by_model_input": msg is not None,
               "note": "%d scenarios inside the statement's quantifier behaved as prescribed" % tried, "cmd": h.cmd}
        if step_executed is not None:
            res.update(executed=step_executed.get("executed"), counter_model_executed="receiver driven into the counter-model's state and fed its octet: behaves as the statement prescribes")
        elif msg is None:
            # a counter-model of a step contract (a receiver / transmitter state) or one outside the quantifier was NOT executed: the scenarios
            # above are a search, not a refutation of this counter-model
            res["error"] = "counter-model not executed natively (a step-level state or a message outside the statement's quantifier); %d seeded scenarios behaved as prescribed" % tried
        return res


replay = replay_c


# ---------------------------------------------------------------------- negative controls

BASELINE_VIOLATIONS = ()      # H5 (address/control octets not un-escaped) is repaired in /repo (70ceb72)


class _WrongPullPlain(CT.DrvPull):
    def ensures(self, c, old, new, ret):
        return [("WRONG_zero_sent_plain", new.get(c.a.ch) != W.ESCAPE)] if c.case[0] == "busy" else []


class _WrongPriority(CT.DrvPull):
    def ensures(self, c, old, new, ret):
        deq = new.ghost("dequeued", [])
        if c.case[0] != "idle" or not deq:
            return []
        return [("WRONG_highest_dlci_first", c.forall(lambda j: z3.Implies(z3.And(deq[0][0] < j, j < NDLCI), z3.Select(c.qlen0, j) == 0), "j", sort="dlci"))]


class _WrongRxEscape(CT.DrvRxChar):
    def ensures(self, c, old, new, ret):
        return [("WRONG_escape_state_left_on_flag_only", z3.Implies(old.get(c.g, "rx.state") == ST_ESC, new.get(c.g, "rx.state") == ST_ESC))]


class _WrongSend(CT.SendMsg):
    def ensures(self, c, old, new, ret):
        n = CT.msg_parts(new, c.mp)
        return [("WRONG_control_octet_first", z3.Select(n["buf"], n["d"]) == W.CTRL_UI)]


def _wrong(cls, *a):
    def b(run):
        tu, rx = parse("fw")
        K.verify(run, ID, tu, cls(*a))
    return b


def _wrong_coupling(run):
    """coupling invariant that counts the control octet as payload (receiver buffer one octet longer): must be refuted"""
    global STORED_OFFSET
    STORED_OFFSET = 1
    try:
        coupling(run, "fw", 256)
    finally:
        STORED_OFFSET = 2


def _pre_repair(fn):
    """spec-level control: with the receiver case table from before the repair of H5 (no ADDR_ESCAPE / CTRL_ESCAPE) the delivery
    invariant must fail again"""
    def b(run):
        CT.PRE_REPAIR_TABLE = True
        try:
            fn(run, "fw", 256)
        finally:
            CT.PRE_REPAIR_TABLE = False
    return b


# property-preserving refactorings that must stay green (applied with patch -p1 to a scratch copy; `selftest --mutants` runs them)
HARMLESS = [
    ("overflow guard moved from the top of sercomm_drv_rx_char() to the two store sites", "mutants/harmless/C06/h1.diff"),
]
# seeded defects kept outside the repo that must stay red with a confirmed replay: (label, patch, obligation substring)
SEEDED = [
    ("ESCAPE store unguarded", "seeded/C06-c-escape-store-unguarded/patch.diff", "sercomm_drv_rx_char_"),
]

WRONG_POSTS = [
    ("coupling over the pre-repair receiver table", _pre_repair(lambda run, m, rx: coupling(run, m, rx)), "coupling.preserved.receiver_tracks_transmitter"),
    ("resync over the pre-repair receiver table", _pre_repair(lambda run, m, rx: resync(run, m, rx)), "resync.following_frame.preserved"),
    ("pull: never sends the escape octet", _wrong(_WrongPullPlain), "post.WRONG_zero_sent_plain"),
    ("pull: highest DLCI first", _wrong(_WrongPriority), "post.WRONG_highest_dlci_first"),
    ("rx_char: stays in ESCAPE", _wrong(_WrongRxEscape, 256), "post.WRONG_escape_state_left_on_flag_only"),
    ("sendmsg: control octet first", _wrong(_WrongSend), "post.WRONG_control_octet_first"),
    ("coupling: control octet counted as payload", _wrong_coupling, "coupling.delivery.length_identical"),
]
_ADDR_ESC = "\t\tif (ch == HDLC_ESCAPE) {\n\t\t\tsercomm.rx.state = RX_ST_ADDR_ESCAPE;\n\t\t\tbreak;\n\t\t}\n"
_CTRL_ESC = "\t\tif (ch == HDLC_ESCAPE) {\n\t\t\tsercomm.rx.state = RX_ST_CTRL_ESCAPE;\n\t\t\tbreak;\n\t\t}\n"
MUTANTS = [
    # the repair of H5 reverted: the step contract of rx_char fails on the code (the coupling obligations are about the contract's case
    # table, see WRONG_POSTS for their sensitivity); replay: a message on DLCI 00 / 7D / 7E is not delivered intact
    (CT.SERCOMM, _ADDR_ESC, "", "sercomm_drv_rx_char_post.state"),
    (CT.SERCOMM, _CTRL_ESC, "", "sercomm_drv_rx_char_post.state"),
    (CT.SERCOMM, "\t\tsercomm.rx.dlci = ch ^ (1 << 5);", "\t\tsercomm.rx.dlci = ch;", "sercomm_drv_rx_char_post.dlci"),
    (CT.SERCOMM, "\t\t   *sercomm.tx.next_char == HDLC_ESCAPE ||\n\t\t   *sercomm.tx.next_char == 0x00) {", "\t\t   *sercomm.tx.next_char == HDLC_ESCAPE) {",
     "sercomm_drv_pull_post.no_zero_between_flags"),
    (CT.SERCOMM, "\t\tsercomm.rx.msg = sercomm_alloc_msgb(SERCOMM_RX_MSG_SIZE);\n\t\tsercomm.rx.state = RX_ST_WAIT_START;\n\t\treturn 0;",
     "\t\tsercomm.rx.msg = sercomm_alloc_msgb(SERCOMM_RX_MSG_SIZE);\n\t\treturn 0;", "sercomm_drv_rx_char_post.state"),
    (CT.SERCOMM, "\t\tch ^= (1 << 5);\n\t\tptr = msgb_put(sercomm.rx.msg, 1);", "\t\tptr = msgb_put(sercomm.rx.msg, 1);", "sercomm_drv_rx_char_post.buffer_content"),
    (CT.SERCOMM, "\thdr[0] = dlci;\n\thdr[1] = HDLC_C_UI;", "\thdr[1] = dlci;\n\thdr[0] = HDLC_C_UI;", "sercomm_sendmsg_post.buffer_gets_header_only"),
    (CT.SERCOMM, "\t} else if (sercomm.tx.next_char >= sercomm.tx.msg->tail) {", "\t} else if (sercomm.tx.next_char > sercomm.tx.msg->tail) {", "sercomm_drv_pull_"),
    (CT.SERCOMM, "\t\tfor (i = 0; i < ARRAY_SIZE(sercomm.tx.dlci_queues); i++) {\n\t\t\tsercomm.tx.msg = msgb_dequeue(&sercomm.tx.dlci_queues[i]);",
     "\t\tfor (i = 0; i < ARRAY_SIZE(sercomm.tx.dlci_queues); i++) {\n\t\t\tsercomm.tx.msg = msgb_dequeue(&sercomm.tx.dlci_queues[ARRAY_SIZE(sercomm.tx.dlci_queues) - 1 - i]);",
     "sercomm_drv_pull_post.from_lowest_non_empty_queue"),
]

"""C04 (C side) - trxcon's TRXD paths (trx_if.c: trx_data_rx_cb, trx_if_handle_phyif_burst_req) follow the protocol layout of
spec/trxd_layout.py, the oracle the Python codec is verified against; the agreement lemmas py2c / c2py are spec-level.
`./check cparts.C04` runs this part alone.
"""
import z3

from engine.common.core import Obligation, Cover, mval
from engine.cvc import frontend, contract as K, replay as R
from contracts.c import trx_if as CT
from spec import trxd_layout as L
from spec import valid_msg as VM

ID = "C04"
ENGINE = "CVC"
LEVEL = "proof"


def get_tu(names=("trx_data_rx_cb", "trx_if_handle_phyif_burst_req")):
    return frontend.parse_extract(CT.TRX_IF_C, list(names), CT.PRELUDE, decls=CT.DECLS, includes=CT.INCLUDES)


def consts(tu):
    e = tu.enum_by_name
    return e["VERIF_EINVAL"], e["VERIF_ENOTSUP"], e["VERIF_TRXD_BUF_SIZE"]


def build_c(run):
    def rx():
        tu = get_tu(("trx_data_rx_cb",))
        einval, enotsup, bufsize = consts(tu)
        K.verify(run, ID, tu, CT.TrxDataRxCb(einval, enotsup, bufsize))
        run.extra.setdefault("verbatim_extraction", {})["trx_data_rx_cb"] = tu.extraction

    def tx():
        tu = get_tu(("trx_if_handle_phyif_burst_req",))
        K.verify(run, ID, tu, CT.BurstReq(consts(tu)[2]))
        run.extra.setdefault("verbatim_extraction", {})["trx_if_handle_phyif_burst_req"] = tu.extraction
    K.sect(run, "trx_data_rx_cb", rx)
    K.sect(run, "trx_if_handle_phyif_burst_req", tx)
    K.sect(run, "agreement_lemmas", agreement_lemmas, run)
    run.assume("prelude shim/trxcon_trx_if_prelude.h: GSM_TDMA_HYPERFRAME = 2715648, GSM_NBITS_NB_{GMSK,8PSK}_BURST = 148/444, "
               "GSM_TDMA_FN_SUM, osmo_load32be/osmo_store32be as defined in current libosmocore (the bundled one lacks them)")
    run.assume("trx->fn_advance < 2715648 (configuration value; otherwise the 32-bit sum fn + fn_advance could wrap before the modulo)")
    K.finish(run)


build = build_c


def agreement_lemmas(run):
    """C04/py2c and C04/c2py at spec level: what one side emits per the layout, the other side accepts per its contract."""
    tag = {"side": "c", "func": "lemma"}
    I = z3.IntSort()
    # py2c: a valid version-0 Rx message m encoded per the layout (legacy padding on or off) satisfies trx_data_rx_cb's acceptance
    # condition and is handed over with m's fn, tn, rssi, toa256 and soft bits
    fn, tn, rssi, toa, bl = z3.Ints("m.fn m.tn m.rssi m.toa256 m.blen")
    bits = z3.Array("m.burst", I, I)
    k = z3.Int("k")
    valid = [0 <= fn, fn < CT.HYPERFRAME, 0 <= tn, tn <= 7, -120 <= rssi, rssi <= -47, -32768 <= toa, toa <= 32767,
             z3.Or(bl == 148, bl == 444), z3.And(-127 <= z3.Select(bits, k), z3.Select(bits, k) <= 127)]
    for legacy in (False, True):
        toau = L.u16_of_s16(toa)
        hdr = [0 * 16 + tn, (fn / 16777216) % 256, (fn / 65536) % 256, (fn / 256) % 256, fn % 256, -rssi, toau / 256, toau % 256]
        n = 8 + bl + (2 if legacy else 0)

        def octet(i, hdr=hdr):
            r = z3.If(i < 8 + bl, 127 - z3.Select(bits, i - 8), z3.IntVal(0))
            for j in range(7, -1, -1):
                r = z3.If(i == j, hdr[j], r)
            return r
        d = L.dec("rx", octet, n)
        acc = z3.And(n >= 8, octet(0) / 16 == 0, L.in_set(n - 8, CT.ACCEPTED_BURST_PARTS), d["fn"] < CT.HYPERFRAME)
        got_rssi = -CT.s8(octet(5))
        goal = z3.And(acc, d["tn"] == tn, d["fn"] == fn, got_rssi == rssi, d["toa256"] == toa, d["blen"] == bl,
                      z3.Implies(z3.And(0 <= k, k < bl), d["bget"](k) == z3.Select(bits, k)))
        run.add(Obligation(ID, "spec.trxd_layout", "lemma.py2c", valid, goal, kind="lemma", case="legacy=%s" % legacy, tag=tag))
    # c2py: a burst request in the C pre-condition with burst_len in {148, 444} and hard bits 0/1, encoded per the layout (which
    # trx_if_handle_phyif_burst_req is proved to emit), is accepted by the Tx decoder of the layout with the same tn, fn, pwr, bits
    pwr = z3.Int("br.pwr")
    hb = z3.Array("br.burst", I, I)
    for blc in (148, 444):
        pre = [0 <= fn, fn < 4294967296, 0 <= tn, tn <= 7, 0 <= pwr, pwr <= 255]
        length, octet = L.enc(CT._TxView(tn, fn, pwr, z3.IntVal(blc)), False, lambda i: z3.Select(hb, i))
        d = L.dec("tx", octet, length)
        goal = z3.And(d["accept"], d["ver"] == 0, d["tn"] == tn, d["fn"] == fn, d["pwr"] == pwr, d["blen"] == blc,
                      z3.Implies(z3.And(0 <= k, k < blc), d["bget"](k) == z3.Select(hb, k)))
        run.add(Obligation(ID, "spec.trxd_layout", "lemma.c2py", pre, goal, kind="lemma", case="burst_len=%d" % blc, tag=tag))


# ------------------------------------------------------------------ witness / replay

def witness_c(o, model):
    t = o.tag or {}
    w = {"func": t.get("func"), "clause": o.clause, "kind": o.kind}
    for k, term in (o.inputs or {}).items():
        if isinstance(term, tuple) and term[0] in ("array", "array_n"):
            n_ = term[2] if term[0] == "array" else min(max(mval(model, term[2]), 0), 600)
            w[k] = [mval(model, z3.Select(term[1], i)) % 256 for i in range(n_)]
        else:
            w[k] = mval(model, term)
    return w


witness = witness_c

_MAIN = r"""
#include <sys/socket.h>
void osmo_panic(const char *fmt, ...) { printf("osmo_panic\n"); fflush(stdout); abort(); }   /* OSMO_ASSERT of the code under test failed */
int trxcon_phyif_handle_burst_ind(void *priv, const struct trxcon_phyif_burst_ind *bi)
{
	unsigned int i;
	printf("ind fn=%u tn=%u toa256=%d rssi=%d burst_len=%u\nbits=", bi->fn, bi->tn, bi->toa256, bi->rssi, bi->burst_len);
	for (i = 0; i < bi->burst_len; i++) printf("%d,", bi->burst[i]);
	printf("\n");
	return 0;
}
int trxcon_phyif_handle_rts_ind(void *priv, const struct trxcon_phyif_rts_ind *rts)
{
	printf("rts fn=%u tn=%u\n", rts->fn, rts->tn);
	return 0;
}
int main(int argc, char **argv)
{
	/* rx ADV n o0 .. o(n-1)   |   tx tn fn pwr blen b0 .. */
	int sv[2], i;
	struct trx_instance *trx = calloc(1, sizeof(*trx));
	if (socketpair(AF_UNIX, SOCK_DGRAM, 0, sv)) return 3;
	if (!strcmp(argv[1], "rx")) {
		int n = atoi(argv[3]);
		uint8_t *d = malloc(n ? n : 1);
		trx->fn_advance = strtoul(argv[2], 0, 10);
		for (i = 0; i < n; i++) d[i] = (uint8_t)atoi(argv[4 + i]);
		trx->trx_ofd_data.fd = sv[0];
		trx->trx_ofd_data.data = trx;
		if (send(sv[1], d, n, 0) != n) return 4;
		printf("ret=%d\n", trx_data_rx_cb(&trx->trx_ofd_data, 1));
		free(d);
	} else {
		struct trxcon_phyif_burst_req br;
		uint8_t out[2048];
		int blen = atoi(argv[5]), r;
		ubit_t *bits = malloc(blen ? blen : 1);
		for (i = 0; i < blen; i++) bits[i] = (ubit_t)atoi(argv[6 + i]);
		br.tn = atoi(argv[2]); br.fn = strtoul(argv[3], 0, 10); br.pwr = atoi(argv[4]); br.burst = bits; br.burst_len = blen;
		trx->trx_ofd_data.fd = sv[0];
		printf("ret=%d\n", trx_if_handle_phyif_burst_req(trx, &br));
		r = recv(sv[1], out, sizeof(out), MSG_DONTWAIT);
		printf("sent=%d\noctets=", r);
		for (i = 0; i < r; i++) printf("%d,", out[i]);
		printf("\n");
		free(bits);
	}
	free(trx);
	return 0;
}
"""


def harness(tu=None):
    tu = tu or get_tu()
    return tu.source_text + "\n" + _MAIN


def harness_flags():
    return frontend.extract_flags(CT.INCLUDES)


def expected_rx(adv, d):
    """reference per the statement: acceptance as trx_data_rx_cb's contract, fields per the layout"""
    # the value returned by the callback is not judged (the statement is silent, libosmocore's select loop ignores it); a rejected
    # datagram is one for which nothing is indicated
    n = len(d)
    if n == 0:
        return None
    if n < 8:
        return {}
    if d[0] >> 4:
        return {}
    P = n - 8
    if P not in CT.ACCEPTED_BURST_PARTS:
        return {}
    fn = (d[1] << 24) | (d[2] << 16) | (d[3] << 8) | d[4]
    if fn >= CT.HYPERFRAME:
        return {}
    bl = P if P in (148, 444) else P - 2
    s8 = lambda x: x - 256 if x >= 128 else x
    rssi = -s8(d[5])
    rssi = rssi - 256 if rssi > 127 else rssi
    toa = (d[6] << 8) | d[7]
    toa = toa - 65536 if toa >= 32768 else toa
    return {"ind": {"fn": fn, "tn": d[0] & 7, "toa256": toa, "rssi": rssi, "burst_len": bl},
            "bits": [-127 if x == 255 else 127 - x for x in d[8:8 + bl]], "rts": {"fn": (fn + adv) % CT.HYPERFRAME, "tn": d[0] & 7}}


def parse_out(out):
    obs = {}
    for line in out.splitlines():
        if line.startswith("ret="):
            obs["ret"] = int(line[4:])
        elif line.startswith("ind "):
            obs["ind"] = R.kv_output(line[4:])
        elif line.startswith("bits="):
            obs["bits"] = [int(x) for x in line[5:].split(",") if x]
        elif line.startswith("rts "):
            obs["rts"] = R.kv_output(line[4:])
        elif line.startswith("sent="):
            obs["sent"] = int(line[5:])
        elif line.startswith("octets="):
            obs["octets"] = [int(x) for x in line[7:].split(",") if x]
    return obs


def replay_c(payload):
    """the model's inputs first; when they do not fail (counter-models of the loop's inductive step are not always reachable
    states) a seeded native search over valid and invalid datagrams / burst requests, reported as `found_by: search`"""
    import os
    if "reads_with_room_for_the_largest_valid_datagram" in str(payload.get("clause") or (payload.get("inputs") or {}).get("clause") or ""):
        # datagram-level check of the read() call site: the largest valid datagrams of the statement's quantifier (8 + 444 + 2 legacy padding
        # octets, and the two next smaller ones) go through the real socket and must be accepted with the right fields
        for soft, pad in ((444, 2), (444, 0), (148, 2)):
            d = [3, 0, 1, 2, 3, 60, 0xFF, 0xF0] + [(5 * i) % 255 for i in range(soft)] + [0] * pad
            r1 = replay_one({"inputs": {"func": "trx_data_rx_cb", "n": len(d), "dgram": d, "fn_advance": 20}})
            if r1.get("confirmed") or r1.get("error"):
                r1["found_by"] = "the largest valid TRXD v0 datagram (%d octets = 8 + %d + %d) sent through the socket" % (len(d), soft, pad)
                r1["precondition_met_by_model_input"] = True
                return r1
        r1["note"] = "datagrams of 454, 452 and 158 octets are accepted with the fields of the layout"
        return r1
    res = replay_one(payload)
    if res.get("confirmed") or res.get("error") or payload.get("_no_search"):
        res.setdefault("found_by", "model")
        return res
    func = (payload.get("inputs") or {}).get("func")
    tried = 0
    for inp in FUZZ(int(os.environ.get("VERIF_SEED", "0") or 0), 14):
        if inp["func"] != func:
            continue
        tried += 1
        r2 = replay_one({"inputs": inp})
        if r2.get("confirmed"):
            r2["found_by"] = "search (the model's inputs did not fail; %d seeded native runs)" % tried
            r2["failing_inputs"] = {k: (v if not isinstance(v, list) else v[:40]) for k, v in inp.items()}
            return r2
    res["note"] = "model inputs and %d seeded native runs agree with the reference" % tried
    return res


def replay_one(payload):
    w = payload["inputs"]
    func = w.get("func")
    if func == "lemma":
        return {"confirmed": False, "error": "spec-level lemma: there is no native run that could refute or confirm it", "observed": "spec-level lemma", "expected": "n/a"}
    if func == "trx_data_rx_cb":
        d = list(w.get("dgram") or [])
        n = max(min(w.get("n", len(d)), 512), 0)
        d = (d + [0] * n)[:n]
        adv = w.get("fn_advance", 0) % CT.HYPERFRAME
        if n == 0:
            return {"confirmed": False, "error": "counter-model not executed: n <= 0 (read error / empty datagram) is not replayable over a socket", "expected": "ret == n"}
        res = R.run_harness(harness(), harness_flags(), ["rx", adv, n] + d)
        exp = expected_rx(adv, d)
    elif func == "trx_if_handle_phyif_burst_req":
        bl = max(min(w.get("burst_len", 0), 506), 0)
        bits = (list(w.get("burst") or []) + [0] * bl)[:bl]
        tn, fn, pwr = w.get("tn", 0) % 256, w.get("fn", 0) % (1 << 32), w.get("pwr", 0) % 256
        res = R.run_harness(harness(), harness_flags(), ["tx", tn, fn, pwr, bl] + bits)
        if tn > 7 or fn >= CT.HYPERFRAME or bl not in (0, 148, 444):
            # outside the statement's domain (burst requests as the scheduler produces them): executed, only memory safety is judged
            exp = {}
        else:
            # (the value returned is not judged: nobody consumes it)
            exp = {"sent": 6 + bl, "octets": [tn, (fn >> 24) & 255, (fn >> 16) & 255, (fn >> 8) & 255, fn & 255, pwr] + bits}
    else:
        return {"confirmed": False, "error": "no replay for %r" % func}
    if res.get("rc") is None:
        return {"confirmed": False, "error": "harness build failed", "detail": res}
    obs = parse_out(res.get("stdout", ""))
    bad = {k: [obs.get(k), v] for k, v in exp.items() if obs.get(k) != v}
    for k in ("ind", "rts", "bits"):
        if k in obs and k not in exp and func == "trx_data_rx_cb":
            bad[k] = [obs[k], None]
    if res.get("sanitizer") or res["rc"] != 0:
        bad["sanitizer"] = [res.get("sanitizer") or "exit status %s" % res["rc"], None]
    short = {k: (v if k not in ("bits", "octets") else v[:24]) for k, v in obs.items()}
    return {"confirmed": bool(bad), "observed": short, "expected": {k: (v if k not in ("bits", "octets") else v[:24]) for k, v in exp.items()},
            "differs": {k: (v if k not in ("bits", "octets") else [x[:24] if isinstance(x, list) else x for x in v]) for k, v in bad.items()},
            "sanitizer": res.get("sanitizer"), "cmd": res.get("cmd")}


replay = replay_c


# ------------------------------------------------------------------ negative controls (engine/cvc/selftest.py)

class _WrongRssi(CT.TrxDataRxCb):
    """deliberately wrong: claims rssi = -octet 5 for every octet (the code converts through int8_t first)"""

    def ensures(self, c, old, new, ret):
        dg = self.dgram(c, new)
        inds = new.ghost("burst_ind", [])
        if dg is None or len(inds) != 1:
            return []
        g, octet, n = dg
        return [("WRONG_rssi_is_minus_octet5", inds[0]["rssi"] == -octet(5))]


class _WrongTxLen(CT.BurstReq):
    def ensures(self, c, old, new, ret):
        sent = new.ghost("sent", [])
        return [("WRONG_length_8_plus_burst", z3.BoolVal(len(sent) == 1) if len(sent) != 1 else sent[0]["len"] == 8 + old.get(c.a.br, "burst_len"))]


def _wrong(mk):
    def b(run):
        tu = get_tu()
        K.verify(run, ID, tu, mk(tu))
    return b


WRONG_POSTS = [
    ("rx: rssi = -octet5 unbounded", _wrong(lambda tu: _WrongRssi(*consts(tu))), "post.WRONG_rssi_is_minus_octet5"),
    ("tx: length 8 + burst_len", _wrong(lambda tu: _WrongTxLen(consts(tu)[2])), "post.WRONG_length_8_plus_burst"),
]
MUTANTS = [
    (CT.TRX_IF_C, "burst[i] = 127 - buf[8 + i];", "burst[i] = buf[8 + i] - 127;", "trx_data_rx_cb_"),
    (CT.TRX_IF_C, ".tn = buf[0] & 0x07,", ".tn = buf[0] & 0x0f,", "trx_data_rx_cb_post.ind.tn"),
    (CT.TRX_IF_C, "if (bi.fn >= GSM_TDMA_HYPERFRAME) {", "if (bi.fn > GSM_TDMA_HYPERFRAME) {", "trx_data_rx_cb_post"),
    (CT.TRX_IF_C, "\tbuf[5] = br->pwr;", "\tbuf[5] = br->tn;", "trx_if_handle_phyif_burst_req_post.octets_follow_the_layout"),
    (CT.TRX_IF_C, "osmo_store32be(br->fn, buf + 1);", "osmo_store32be(br->fn + 1, buf + 1);", "trx_if_handle_phyif_burst_req_post.octets_follow_the_layout"),
]


def FUZZ(seed, n=6):
    import random
    rnd = random.Random(seed)
    for k in range(n):
        bl = rnd.choice([148, 150, 444, 446, 147, 0, 296])
        d = [rnd.choice([0, 0, 0, 16, 7, 8, rnd.randrange(16)])] + [rnd.choice([0, 0, rnd.randrange(256)])] + [rnd.randrange(256) for _ in range(6 + bl)]
        if k % 2:
            fnv = rnd.randrange(CT.HYPERFRAME)
            d[1:5] = [(fnv >> 24) & 255, (fnv >> 16) & 255, (fnv >> 8) & 255, fnv & 255]
        yield {"func": "trx_data_rx_cb", "n": len(d), "dgram": d, "fn_advance": rnd.randrange(64)}
        blt = rnd.choice([0, 1, 148, 444, 506])
        yield {"func": "trx_if_handle_phyif_burst_req", "tn": rnd.randrange(8), "fn": rnd.randrange(1 << 32), "pwr": rnd.randrange(256),
               "burst_len": blt, "burst": [rnd.randrange(2) for _ in range(blt)]}

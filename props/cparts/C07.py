"""C07 (C side) - firmware hopping sequence generation (rfch.c) against 3GPP TS 45.002 6.2.3 (spec/mai_45002.py).

Full domain: HSN 0..63, MAIO 0..63, N 1..64, FN 0..2715647 all symbolic; one case per bit length of N (the spec's NBIN)
plus the cyclic case.  `./check cparts.C07` runs this part alone.
"""
import z3

from engine.common.core import Obligation, Cover, mval
from engine.pyvc.values import Unsupported
from engine.cvc import frontend, contract as K, replay as R
from engine.cvc.interp import Engine
from contracts.c import rfch as CR
from spec import gsm_time as G
from spec import mai_45002 as M

ID = "C07"
ENGINE = "CVC"
LEVEL = "proof"


def c_rntable(tu):
    """rn_table as initialised in the real file (semantic InitListExpr)"""
    E = Engine(tu)
    E.trusted_init.add("rn_table")
    b = E.global_block("rn_table")
    if b.init is None:
        raise Unsupported("rn_table has no constant initialiser")
    tab = b.init[("[]",)]
    return [tab[k] for k in range(max(tab) + 1)], b.count.t


def build_c(run):
    K.sect(run, "rn_table", table_section, run)
    for con in (CR.PowNbinMask, CR.HopSeqGen, CR.GetParams):
        K.sect(run, con.name, lambda con=con: K.verify(run, ID, frontend.parse_file(CR.RFCH, "fw"), con))
    run.assume("struct gsm_time passed to rfch_* is consistent with its fn member (established by C19: gsm_fn2gsmtime / l1s_time_inc)")
    run.assume("rfch_get_params: l1s.dedicated.h1.{hsn,maio} <= 63 and 1 <= n <= 64 when hopping (the statement's quantifier; set from L1CTL_DM_EST_REQ)")
    K.finish(run)


def table_section(run):
    tu = frontend.parse_file(CR.RFCH, "fw")
    where = "%s:rn_table" % CR.RFCH
    # --- the table: 114 entries compared one by one with the values of the standard embedded in the spec
    if not K.never_written(tu, "rn_table"):
        raise Unsupported("rn_table is written or has its address taken somewhere in rfch.c: its initialiser is not its content")
    run.assume("rn_table (static, non-const) holds its initialiser: every reference to it in rfch.c is a subscripted read (checked syntactically on the AST)")
    vals, size = c_rntable(tu)
    run.fn("%s:rn_table" % CR.RFCH, CR.RFCH, tu.globals["rn_table"].get("loc", {}).get("line", 0), "table extracted from InitListExpr")
    run.add(Obligation(ID, "rn_table", "table.length", [], z3.BoolVal(size == len(M.RNTABLE) and len(vals) == len(M.RNTABLE)),
                       kind="table", where=where, tag={"side": "c", "func": "rn_table", "index": -1}))
    for k in range(min(len(vals), len(M.RNTABLE))):
        run.add(Obligation(ID, "rn_table", "table.entry", [], z3.IntVal(vals[k]) == M.RNTABLE[k], kind="table", case="k=%d" % k,
                           where=where, tag={"side": "c", "func": "rn_table", "index": k}))


build = build_c


# ------------------------------------------------------------------ witness / replay

def witness_c(o, model):
    t = o.tag or {}
    w = {"func": t.get("func"), "clause": o.clause, "kind": o.kind, "case": t.get("case")}
    if t.get("func") == "rn_table":
        w["index"] = t.get("index")
        return w
    for k, term in (o.inputs or {}).items():
        if isinstance(term, tuple) and term[0] == "array":
            w[k] = [mval(model, z3.Select(term[1], i)) for i in range(term[2])]
        else:
            w[k] = mval(model, term)
    return w


witness = witness_c

_MAIN = r"""
#include <stdio.h>
#include <stdlib.h>
#include <string.h>
struct l1s_state l1s;
static long A(char **argv, int i) { return strtol(argv[i], 0, 10); }
int main(int argc, char **argv)
{
	const char *f = argv[1];
	struct gsm_time t;
	unsigned long fn = strtoul(argv[2], 0, 10);
	int i;
	memset(&l1s, 0, sizeof(l1s));
	t.fn = fn; t.t1 = fn / 1326; t.t2 = fn % 26; t.t3 = fn % 51; t.tc = (fn / 51) % 8;
	if (!strcmp(f, "table")) { printf("len=%d val=%d\n", (int)(sizeof(rn_table)/sizeof(rn_table[0])), (int)rn_table[A(argv, 2)]); return 0; }
	if (!strcmp(f, "mask")) { printf("ret=%d\n", pow_nbin_mask((int)A(argv, 2))); return 0; }
	if (!strcmp(f, "gen")) {
		/* gen fn hsn maio n isnull tbl[0..n) */
		int hsn = A(argv, 3), maio = A(argv, 4), n = A(argv, 5), isnull = A(argv, 6);
		uint16_t *tbl = malloc(sizeof(uint16_t) * (n ? n : 1));
		for (i = 0; i < n; i++) tbl[i] = (uint16_t)A(argv, 7 + i);
		printf("ret=%d\n", (int)rfch_hop_seq_gen(&t, hsn, maio, n, isnull ? NULL : tbl));
		free(tbl);
		return 0;
	}
	if (!strcmp(f, "params")) {
		/* params fn dtype h hsn maio n h0 serv tsc tn bsic ma[0..64) */
		uint16_t arfcn = 0xffff; uint8_t tsc = 0xff, tn = 0xff;
		l1s.dedicated.type = A(argv, 3); l1s.dedicated.h = A(argv, 4);
		if (l1s.dedicated.h) {
			l1s.dedicated.h1.hsn = A(argv, 5); l1s.dedicated.h1.maio = A(argv, 6); l1s.dedicated.h1.n = A(argv, 7);
			for (i = 0; i < 64; i++) l1s.dedicated.h1.ma[i] = (uint16_t)A(argv, 13 + i);
		} else
			l1s.dedicated.h0.arfcn = A(argv, 8);
		l1s.serving_cell.arfcn = A(argv, 9); l1s.dedicated.tsc = A(argv, 10); l1s.dedicated.tn = A(argv, 11);
		l1s.serving_cell.bsic = A(argv, 12);
		rfch_get_params(&t, &arfcn, &tsc, &tn);
		printf("arfcn=%u tsc=%u tn=%u\n", arfcn, tsc, tn);
		return 0;
	}
	return 2;
}
"""


def harness():
    return '#include "%s"\n%s' % (frontend.repo(CR.RFCH), _MAIN)


def harness_flags():
    # firmware headers after the host's own (the firmware tree shadows stdio.h/string.h/stdint.h)
    return R.host_flags() + ["-idirafter", frontend.repo("src/target/firmware/include"), "-idirafter", frontend.l1ctl_include()]


def s16(x):
    x &= 0xffff
    return x - 65536 if x >= 32768 else x


def precondition_met(func, w):
    if func == "pow_nbin_mask":
        return 1 <= w["n"] <= 64
    if not (0 <= w["fn"] < G.HYPERFRAME):
        return False
    if func == "rfch_get_params" and not (w["dtype"] != 0 and w["h"] != 0):
        return True
    return 0 <= w["hsn"] <= 63 and 0 <= w["maio"] <= 63 and 1 <= w["n"] <= 64


def replay_c(payload):
    w = payload["inputs"]
    func = w.get("func")
    if func == "rn_table":
        k = w["index"]
        res = R.run_harness(harness(), harness_flags(), ["table", max(k, 0)])
        obs = R.kv_output(res.get("stdout", ""))
        exp = {"len": len(M.RNTABLE)} if k < 0 else {"val": M.RNTABLE[k]}
    elif func in ("pow_nbin_mask", "rfch_hop_seq_gen", "rfch_get_params") and not precondition_met(func, w):
        # a replay only counts for inputs that satisfy the contract's pre-condition
        return {"confirmed": False, "error": "counter-model not executed: outside the pre-condition", "observed": "model input outside the pre-condition (HSN/MAIO <= 63, 1 <= N <= 64, FN in the hyperframe)",
                "expected": "n/a", "precondition_met_by_model_input": False}
    elif func == "pow_nbin_mask":
        n = w["n"]
        res = R.run_harness(harness(), harness_flags(), ["mask", n])
        obs = R.kv_output(res.get("stdout", ""))
        exp = {"ret": (1 << n.bit_length()) - 1}
    elif func == "rfch_hop_seq_gen":
        fn, hsn, maio, n = w["fn"], w["hsn"], w["maio"], w["n"]
        isnull = bool(w.get("arfcn_tbl.isnull"))
        tbl = [(1000 + 7 * i) & 0xffff for i in range(n)]       # distinct entries: the index is observable
        res = R.run_harness(harness(), harness_flags(), ["gen", fn, hsn, maio, n, int(isnull)] + tbl)
        obs = R.kv_output(res.get("stdout", ""))
        mai = M.mai_concrete(hsn, maio, n, fn)
        exp = {"ret": mai if isnull else s16(tbl[mai])}
    elif func == "rfch_get_params":
        fn = w["fn"]
        ma = [(2000 + 3 * i) & 0xffff for i in range(64)]
        argv = ["params", fn, w["dtype"], w["h"], w["hsn"], w["maio"], w["n"], w["h0_arfcn"], w["serv_arfcn"], 5, 3, 0x2d] + ma
        res = R.run_harness(harness(), harness_flags(), argv)
        obs = R.kv_output(res.get("stdout", ""))
        if w["dtype"] == 0:
            exp = {"arfcn": w["serv_arfcn"], "tsc": 0x2d & 7, "tn": 0}
        elif w["h"]:
            exp = {"arfcn": ma[M.mai_concrete(w["hsn"], w["maio"], w["n"], fn)], "tsc": 5, "tn": 3}
        else:
            exp = {"arfcn": w["h0_arfcn"], "tsc": 5, "tn": 3}
    else:
        return {"confirmed": False, "error": "no replay for %r" % func}
    if res.get("rc") is None:
        return {"confirmed": False, "error": "harness build failed", "detail": res}
    bad = {k: [obs.get(k), v] for k, v in exp.items() if obs.get(k) != v}
    confirmed = bool(bad) or bool(res.get("sanitizer")) or res["rc"] != 0
    return {"confirmed": confirmed, "observed": obs, "expected": exp, "differs": bad, "sanitizer": res.get("sanitizer"),
            "cmd": res.get("cmd")}


replay = replay_c


# ------------------------------------------------------------------ negative controls (engine/cvc/selftest.py)

class _WrongGen(CR.HopSeqGen):
    """deliberately wrong: T' is not reduced modulo 2^NBIN (the mutant `tp = t->t3` as a specification)"""
    cases = (("hop", 3),)

    def spec_mai(self, c):
        a = c.a
        t1, t2, t3, _ = G.gsm_time(c.fn)
        m = t2 + M.rntable(M.xor6(a.hsn, t1 % 64) + t3)
        mp = m % 8
        s = z3.If(mp < a.n, mp, (mp + t3) % a.n)
        return (s + a.maio) % a.n


class _WrongMask(CR.PowNbinMask):
    """deliberately wrong: claims 2^NBIN instead of 2^NBIN - 1"""
    cases = (("n", 5), ("n", 64))

    def returns(self, c, old):
        return 1 << M.nbin(c.case[1])


WRONG_POSTS = [
    ("rfch_hop_seq_gen: T' not masked", lambda run: K.verify(run, ID, frontend.parse_file(CR.RFCH, "fw"), _WrongGen), "rfch_hop_seq_gen/post."),
    ("pow_nbin_mask: 2^NBIN", lambda run: K.verify(run, ID, frontend.parse_file(CR.RFCH, "fw"), _WrongMask), "post.returns_exactly"),
]
MUTANTS = [
    (CR.RFCH, "tp = t->t3 & pnm;", "tp = t->t3;", "rfch_hop_seq_gen_post."),
    (CR.RFCH, "117, 114,   4,  90", "117, 114,   4,  91", "rn_table_table.entry_k_83"),
    (CR.RFCH, "(n >> 6);", "(n >> 7);", "pow_nbin_mask_post.returns_exactly"),
    (CR.RFCH, "mai = (s + maio) % n;", "mai = (s + maio) % (n + 1);", "rfch_hop_seq_gen"),
]


def FUZZ(seed, n=8):
    """random inputs for the native replay (real code vs oracle); none may be `confirmed` on the unchanged tree"""
    import random
    rnd = random.Random(seed)
    for k in range(n):
        fn = rnd.randrange(G.HYPERFRAME)
        hsn, maio, nn = rnd.randrange(64), rnd.randrange(64), rnd.randrange(1, 65)
        yield {"func": "rfch_hop_seq_gen", "fn": fn, "hsn": hsn, "maio": maio, "n": nn, "arfcn_tbl.isnull": bool(k % 3 == 0)}
        yield {"func": "rfch_get_params", "fn": fn, "dtype": rnd.choice([0, 1, 3]), "h": rnd.choice([0, 1]), "hsn": hsn, "maio": maio, "n": nn,
               "h0_arfcn": rnd.randrange(1024), "serv_arfcn": rnd.randrange(1024)}
        yield {"func": "pow_nbin_mask", "n": nn}

"""C20 - Mobile Allocation decoding (gsm48_decode_mobile_alloc, layer23 sysinfo.c, verbatim extraction).

All cell allocations (any subset of ARFCN 0..1023), all bitmap lengths 0..255 and contents, si4 on/off are symbolic.
Three loop invariants (contracts/c/mobile_alloc.py); the counting functions of the spec get their induction lemmas
proved here (base + step obligations).  `./check C20` (props/C20.py delegates to this module).
"""
import z3

from engine.common.core import Obligation, Cover, mval
from engine.cvc import frontend, contract as K, replay as R
from contracts.c import mobile_alloc as CM
from spec import ma_decode as S

ID = "C20"
ENGINE = "CVC"
LEVEL = "proof"
CHECK_ID = "C20"


def get_tu():
    return frontend.parse_extract(CM.SYSINFO, [CM.FUNC], CM.PRELUDE, defines=CM.DEFINES)


def the_contract(tu, cls=CM.DecodeMobileAlloc):
    serv, hopp, einval = (tu.enum_by_name.get(k) for k in ("VERIF_FREQ_TYPE_SERV", "VERIF_FREQ_TYPE_HOPP", "VERIF_EINVAL"))
    if None in (serv, hopp, einval) or serv & (serv - 1) or hopp & (hopp - 1) or serv == hopp:
        from engine.pyvc.values import Unsupported
        raise Unsupported("FREQ_TYPE_SERV/FREQ_TYPE_HOPP are not two distinct single-bit flags (%r, %r)" % (serv, hopp))
    return cls(serv, hopp, einval)


def lemmas(run, serv):
    """induction proofs of the two monotonicity lemmas used as instances by the invariants"""
    m = z3.Array("lemma.mask", z3.IntSort(), z3.IntSort())
    ma = z3.Array("lemma.ma", z3.IntSort(), z3.IntSort())
    ln, p, q = z3.Int("lemma.len"), z3.Int("lemma.p"), z3.Int("lemma.q")
    tag = {"side": "c", "func": "lemma"}
    run.add(Obligation(ID, "spec.ma_decode", "lemma.rank_monotone.base", [0 <= p], S.rank(m, serv, p) <= S.rank(m, serv, p),
                       kind="lemma", tag=tag))
    run.add(Obligation(ID, "spec.ma_decode", "lemma.rank_monotone.step",
                       [0 <= p, p <= q, S.rank(m, serv, p) <= S.rank(m, serv, q), S.rank_unfold(m, serv, q)],
                       S.rank(m, serv, p) <= S.rank(m, serv, q + 1), kind="lemma", tag=tag))
    run.add(Obligation(ID, "spec.ma_decode", "lemma.hrank_monotone.base", [0 <= p], S.hrank(ma, ln, p) <= S.hrank(ma, ln, p),
                       kind="lemma", tag=tag))
    run.add(Obligation(ID, "spec.ma_decode", "lemma.hrank_monotone.step",
                       [0 <= p, p <= q, S.hrank(ma, ln, p) <= S.hrank(ma, ln, q), S.hrank_unfold(ma, ln, q)],
                       S.hrank(ma, ln, p) <= S.hrank(ma, ln, q + 1), kind="lemma", tag=tag))
    run.trust("induction over the naturals: a lemma whose base and step obligations are discharged is used at arbitrary instances")
    run.assume("ca_rank / ma_rank are the counting functions defined by their recursive unfoldings (spec/ma_decode.py); "
               "only instances of the unfoldings and of the proved lemmas are given to the solver")


def build_c(run):
    def section():
        tu = get_tu()
        con = the_contract(tu)
        lemmas(run, con.SERV)
        K.verify(run, ID, tu, con)
        run.extra["verbatim_extraction"] = tu.extraction
    # one function, one contract with three loop invariants: when it cannot be bound to the current shape of the function the whole
    # section is out of reach (bounded native oracle oracles/c_C20.py stands in)
    K.sect(run, "gsm48_decode_mobile_alloc", section)
    run.assume("freq[1024], ma[len], hopping[64], *hopp_len are valid, pairwise separate objects (both call sites pass members of "
               "struct gsm48_sysinfo / struct gsm48_rrlayer and a message buffer)")
    K.finish(run)


build = build_c


# ------------------------------------------------------------------ witness / replay

def witness_c(o, model):
    t = o.tag or {}
    w = {"func": t.get("func"), "clause": o.clause, "kind": o.kind, "case": t.get("case")}
    if t.get("func") == "lemma":
        return w
    ins = o.inputs or {}
    ln = mval(model, ins["len"])
    w["len"] = ln
    w["si4"] = mval(model, ins["si4"])
    mask = ins["mask"][1]
    w["mask"] = [mval(model, z3.Select(mask, k)) % 256 for k in range(S.NARFCN)]
    w["ma"] = [mval(model, z3.Select(ins["ma"][1], k)) % 256 for k in range(min(ln, 64))]
    return w


witness = witness_c

_MAIN = r"""
#include <stdio.h>
#include <stdlib.h>
#include <string.h>
int main(int argc, char **argv)
{
	/* argv: len si4 ma[0..len) then 1024 mask values ; outputs live in separately allocated buffers (ASan red zones) */
	int len = atoi(argv[1]), si4 = atoi(argv[2]), i, rc;
	struct gsm_sysinfo_freq *freq = malloc(1024 * sizeof(*freq));
	uint8_t *ma = malloc(len ? len : 1);
	uint16_t *hopping = malloc(64 * sizeof(uint16_t));
	uint8_t *hopp_len = malloc(1);
	for (i = 0; i < len; i++) ma[i] = (uint8_t)atoi(argv[3 + i]);
	for (i = 0; i < 1024; i++) freq[i].mask = (uint8_t)atoi(argv[3 + len + i]);
	for (i = 0; i < 64; i++) hopping[i] = 0xeeee;
	*hopp_len = 0xee;
	rc = gsm48_decode_mobile_alloc(freq, ma, (uint8_t)len, hopping, hopp_len, si4);
	printf("rc=%d hopp_len=%d\nhopping=", rc, *hopp_len);
	for (i = 0; i < 64; i++) printf("%d,", hopping[i]);
	printf("\nmask=");
	for (i = 0; i < 1024; i++) printf("%d,", freq[i].mask);
	printf("\n");
	return 0;
}
"""


def harness(tu=None):
    tu = tu or get_tu()
    return tu.source_text + "\n" + _MAIN


def harness_flags():
    import os
    return R.host_flags() + ["-I", frontend.SHIM]


def run_one(h, con, ln, si4, ma, mask):
    """run the real function on one input; -> (differences from the oracle, observation summary, expectation)"""
    res = h.run([ln, si4] + ma + mask, timeout=60)
    if res.get("rc") is None:
        return None, res, None
    out = res.get("stdout", "")
    obs = {}
    for line in out.splitlines():
        if line.startswith("rc="):
            obs.update(R.kv_output(line))
        elif line.startswith("hopping="):
            obs["hopping"] = [int(x) for x in line[8:].split(",") if x]
        elif line.startswith("mask="):
            obs["mask"] = [int(x) for x in line[5:].split(",") if x]
    rc, hop = S.decode(mask, con.SERV, ma)
    exp = {"rc": "error (< 0)" if rc else "success (>= 0)"}
    bad = {}
    if res.get("sanitizer") or res["rc"] != 0:
        bad["sanitizer"] = [res.get("sanitizer") or "exit status %s" % res["rc"], "no sanitizer report"]
    if len(S.cell_alloc(mask, con.SERV)) > S.MAX_HOPPING:
        # outside the statement's quantifier (cell allocations of 0..64 channels): only memory safety is judged
        return bad, {"rc": obs.get("rc"), "sanitizer": res.get("sanitizer"), "outside_the_statements_quantifier": "cell allocation of %d channels" % len(S.cell_alloc(mask, con.SERV))}, exp
    # the statement asks for an error for bitmaps longer than 8 octets and is silent about the value returned on success (both callers,
    # sysinfo.c and gsm48_rr.c, ignore it): error <=> negative
    if not isinstance(obs.get("rc"), int) or (obs["rc"] < 0) != (rc != 0):
        bad["rc"] = [obs.get("rc"), exp["rc"]]
    if rc == 0 and "hopping" in obs:
        exp.update(hopp_len=len(hop), hopping=hop)
        if obs.get("hopp_len") != len(hop):
            bad["hopp_len"] = [obs.get("hopp_len"), len(hop)]
        if obs["hopping"][:len(hop)] != hop:
            bad["hopping"] = [obs["hopping"][:len(hop)], hop]
        if si4:
            expmask = [(x & ~con.HOPP) | (con.HOPP if a in hop else 0) for a, x in enumerate(mask)]
        else:
            expmask = mask
        if obs.get("mask") != expmask:
            d = [a for a in range(S.NARFCN) if obs.get("mask", [None] * S.NARFCN)[a] != expmask[a]][:8]
            bad["mask"] = [{a: obs["mask"][a] for a in d}, {a: expmask[a] for a in d}]
    elif rc != 0 and "hopping" in obs:
        if obs["hopp_len"] != 0xee or any(x != 0xeeee for x in obs["hopping"]) or obs.get("mask") != mask:
            bad["outputs_touched"] = [True, False]
    short = {k: v for k, v in obs.items() if k not in ("mask",)}
    short["sanitizer"] = res.get("sanitizer")
    short["stderr_head"] = (res.get("stderr") or "")[:400]
    return bad, short, exp


def search_inputs(seed, n):
    """inputs for the bounded native search: small cell allocations around the ARFCN-0 / order corner cases, dense bitmaps"""
    import random
    rnd = random.Random(seed)
    for k in range(n):
        size = rnd.choice([0, 1, 2, 3, 5, 8, 9, 16, 17, 40, 64, 65])
        pool = [0, 1, 2, 1022, 1023] + [rnd.randrange(1024) for _ in range(80)]
        ca = set(rnd.sample(pool, min(size, len(set(pool))))) if size else set()
        mask = [(rnd.randrange(256) & ~1) | (1 if a in ca else 0) for a in range(S.NARFCN)]
        ln = rnd.choice([1, 1, 2, 2, 3, 8, 8, 9, 0 if k % 50 == 49 else 4])
        ma = [rnd.choice([0, 0xff, rnd.randrange(256), rnd.randrange(256)]) for _ in range(ln)]
        yield ln, rnd.randrange(2), ma, mask


def replay_c(payload):
    """1. the model's inputs on the real function (ASan/UBSan) against the oracle.
    2. when they do not fail (a counter-model of an inductive step need not be a reachable state): bounded native search
       over seeded inputs; a failing input found there is reported as such (`found_by: search`)."""
    import os
    w = payload["inputs"]
    if w.get("func") == "lemma":
        return {"confirmed": False, "error": "spec-level lemma: there is no native run that could refute or confirm it", "observed": "spec-level lemma", "expected": "n/a"}
    tu = get_tu()
    con = the_contract(tu)
    ln, si4, ma, mask = w["len"], w["si4"], list(w["ma"]), list(w["mask"])
    ma = (ma + [0] * ln)[:ln]
    with R.Harness(harness(tu), harness_flags()) as h:
        bad, obs, exp = run_one(h, con, ln, si4, ma, mask)
        if bad is None:
            return {"confirmed": False, "error": "harness build failed", "detail": obs}
        summary = {"len": ln, "si4": si4, "ma": ma, "cell_allocation": S.cell_alloc(mask, con.SERV)[:70]}
        if bad:
            out = {"confirmed": True, "found_by": "model", "observed": obs, "expected": exp, "differs": bad,
                   "sanitizer": obs.get("sanitizer"), "inputs_summary": summary, "cmd": h.cmd}
            if ln == 0 and not S.cell_alloc(mask, con.SERV):
                # same bitmap length with a non-empty cell allocation: the `f[j++]` loop then runs past the zero-size VLA.
                # UBSan stops at the VLA bound first, so this variant is run with that one check not fatal.
                mask2 = list(mask)
                for a in (1, 2, 3, 700):
                    mask2[a] |= con.SERV
                res2 = R.run_harness(harness(tu), harness_flags() + ["-fsanitize-recover=vla-bound"], [ln, si4] + ma + mask2, ubsan_halt=False)
                out["also_with_nonempty_cell_allocation"] = {"sanitizer": res2.get("sanitizer"), "stderr_head": (res2.get("stderr") or "")[:500]}
            return out
        seed = int(os.environ.get("VERIF_SEED", "0") or 0)
        tried = 0
        for (l2, s2, ma2, mask2) in search_inputs(seed, 400):
            tried += 1
            b2, o2, e2 = run_one(h, con, l2, s2, ma2, mask2)
            if b2 and not (l2 == 0 and payload.get("clause") != "vla_bound_positive"):
                return {"confirmed": True, "found_by": "search (the model's inputs did not fail; seeded native search, %d runs)" % tried,
                        "observed": o2, "expected": e2, "differs": b2, "sanitizer": o2.get("sanitizer"),
                        "inputs_summary": {"len": l2, "si4": s2, "ma": ma2, "cell_allocation": S.cell_alloc(mask2, con.SERV)[:70]},
                        "failing_inputs": {"len": l2, "si4": s2, "ma": ma2, "mask": mask2}, "cmd": h.cmd}
        return {"confirmed": False, "observed": obs, "expected": exp, "differs": {}, "inputs_summary": summary,
                "note": "model inputs and %d seeded native runs all agree with the oracle" % tried, "cmd": h.cmd}


replay = replay_c


def known_predicate_c(o, k):
    env = {"len": (o.inputs or {}).get("len"), "si4": (o.inputs or {}).get("si4"), "z3": z3}
    try:
        return eval(k["witness"], env)
    except Exception:
        return None


known_predicate = known_predicate_c


# ------------------------------------------------------------------ negative controls (engine/cvc/selftest.py)

class _WrongOrder(CM.DecodeMobileAlloc):
    """deliberately wrong: claims the bitmap is read from the FIRST octet (MSB-first octet order)"""
    cases = (("si4", 0),)

    def ensures(self, c, old, new, ret):
        posts = CM.DecodeMobileAlloc.ensures(self, c, old, new, ret)
        m = c.memo
        try:
            T = c.ret_locals.i
        except Exception:
            return posts
        ma, ln = m["ma"], c.a.len
        wrong_bit = lambda x: S.has_bit(z3.Select(ma, x / 8), 1)        # bit 0 of octet x/8, counted from the first octet
        return posts + [("WRONG_first_octet_first", z3.Implies(z3.And(ln == 2, T == 16, S.bit(ma, ln, 0)), wrong_bit(0)))]


class _WrongCount(CM.DecodeMobileAlloc):
    """deliberately wrong: claims the list always has as many entries as the bitmap has bits"""
    cases = (("si4", 1),)

    def ensures(self, c, old, new, ret):
        return [("WRONG_count_is_8len", z3.Implies(c.a.len <= 8, new.get(c.a.hopp_len) == 8 * c.a.len))]


def _wrong(cls):
    def b(run):
        tu = get_tu()
        K.verify(run, ID, tu, the_contract(tu, cls))
    return b


WRONG_POSTS = [
    ("decode: first octet first", _wrong(_WrongOrder), "post.WRONG_first_octet_first"),
    ("decode: count is 8*len", _wrong(_WrongCount), "post.WRONG_count_is_8len"),
]
BASELINE_VIOLATIONS = ("vla_bound_positive",)       # H9: fails on the unchanged tree (len == 0)
MUTANTS = [
    (CM.SYSINFO, "ma[len - 1 - (i >> 3)]", "ma[i >> 3]", "gsm48_decode_mobile_alloc_loop3"),
    (CM.SYSINFO, "if (i >= j) {", "if (i > j) {", "gsm48_decode_mobile_alloc_"),
    (CM.SYSINFO, "if (len > 8)\n\t\treturn -EINVAL;", "if (len > 9)\n\t\treturn -EINVAL;", "gsm48_decode_mobile_alloc_"),
    (CM.SYSINFO, "for (i = 1; i <= 1024 && j < (len << 3); i++) {", "for (i = 1; i < 1024 && j < (len << 3); i++) {", "gsm48_decode_mobile_alloc_"),
    (CM.SYSINFO, "freq[i].mask &= ~FREQ_TYPE_HOPP;", "freq[i].mask &= ~FREQ_TYPE_SERV;", "gsm48_decode_mobile_alloc_loop1"),
]


def FUZZ_NATIVE(seed):
    """seeded native runs of the real function against the oracle (len == 0 excluded: reported finding H9); -> first difference or None"""
    tu = get_tu()
    con = the_contract(tu)
    with R.Harness(harness(tu), harness_flags()) as h:
        for (ln, si4, ma, mask) in search_inputs(seed, 150):
            if ln == 0:
                continue
            bad, obs, exp = run_one(h, con, ln, si4, ma, mask)
            if bad:
                return {"len": ln, "si4": si4, "ma": ma, "differs": bad}
    return None

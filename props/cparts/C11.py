"""C11 - firmware and trxcon agree on the multiframe mapping of every logical channel.

Real code under contract (contracts/c/mframe.py):
  firmware  mframe_schedule_set()            mframe_sched.c, ARM parse, loop invariant over the NULL-terminated task table,
                                             one case per enumerator of enum mframe_task
  trxcon    l1sched_mframe_layout()          sched_mframe.c parsed WHOLE behind shim/trxcon_mframe_shim.h
            l1sched_configure_ts()           sched_trx.c, cut verbatim, prefix up to the validation of the chosen layout: establishes
                                             the representation invariant `ts->mf_layout is NULL or a layout with period > 0 and
                                             frames != NULL` (the GSM_PCHAN_NONE entry can never be installed)
            frame lookups of sched_trx.c     l1sched_pull_burst, l1sched_handle_rx_burst, l1sched_handle_rx_probe, subst_frame_loss:
                                             cut verbatim, compiled after `#include <real sched_mframe.c>`; prefix contracts with
                                             that invariant as pre-condition, one case per layouts[] entry it admits
Tables extracted on every run from the semantic InitListExprs of the real files (engine/cvc/dptr.py: Extractor):
  every mf_*[] reachable from sched_set_for_task[], every frame_*[] reachable from layouts[], layouts[] itself; enum values from
  the real headers.
Spec-level obligations (spec/mframe_correspondence.py), all finite and complete (FN symbolic over one 51*26*8 cycle, frame index
symbolic over the period, tn 0..7 enumerated):
  C11/agree/<task>/<dir>/...     C11/bid_cycle/<layout>/...     C11/mask/<layout>/...     C11/lookup/<config>/...
"""
import os, re, json

import z3

from engine.common import core
from engine.common.core import Obligation, Cover, mval
from engine.cvc import frontend, dptr, contract as K, replay as R
from engine.pyvc.values import Unsupported
from contracts.c import mframe as CM
from spec import mframe_correspondence as MC

ID = "C11"
ENGINE = "CVC"
LEVEL = "proof"
CHECK_ID = "C11"

SITES = (("l1sched_pull_burst", "br", "bid"), ("l1sched_handle_rx_burst", "bi", "bid"), ("l1sched_handle_rx_probe", "probe", None))
CUT = ("l1sched_pull_burst", "l1sched_configure_ts", "subst_frame_loss", "l1sched_handle_rx_burst", "l1sched_handle_rx_probe")  # source order
CUT_DEFINES = r"LAYOUT_HAS_LCHAN"       # macro of sched_trx.c used by l1sched_configure_ts (after the verified prefix), cut verbatim


# ====================================================================== extraction

def fw_tu():
    return frontend.parse_file(CM.MFRAME_SCHED, "fw")


def trx_tu():
    return dptr.parse_trxcon_whole(CM.SCHED_MFRAME)


def sites_tu():
    return dptr.parse_tables_plus_cut(CM.SCHED_MFRAME, CM.SCHED_TRX, list(CUT), CM.LOOKUP_PRELUDE, defines=CUT_DEFINES)


class FW:
    """the firmware side: tasks and their tables"""

    def __init__(self, tu):
        self.tu = tu
        X = dptr.Extractor(tu)
        self.tasks = {k: v for k, v in tu.enum_by_name.items() if k.startswith("MF_TASK_") and v is not None}
        if not self.tasks or sorted(self.tasks.values()) != list(range(len(self.tasks))):
            raise Unsupported("enum mframe_task is not a dense enumeration starting at 0")
        self.sacch_flag = tu.enum_by_name.get("MF_F_SACCH")
        if self.sacch_flag != 1:
            raise Unsupported("MF_F_SACCH is not bit 0")
        n, cols = X.table("sched_set_for_task")
        self.root_len = n
        self.table_of, self.entries, self.rows, self.terminated = {}, {}, {}, {}
        for name, val in self.tasks.items():
            code = cols[""][val] if val < n else 0
            tname = X.target(code)
            self.table_of[name] = tname
            if tname is None:
                continue
            rn, tc = X.table(tname)
            ents = []
            term = False
            for k in range(rn):
                s = X.target(tc["sched_set"][k])
                if s is None:
                    term = True
                    break
                ents.append((s, tc["modulo"][k], tc["frame_nr"][k], tc["flags"][k]))
            self.entries[name], self.rows[name], self.terminated[name] = ents, rn, term

    def summary(self):
        return {"enum mframe_task": self.tasks, "sched_set_for_task[]": self.root_len,
                "tables": {self.table_of[t]: {"task": t, "rows": self.rows.get(t), "entries": len(self.entries.get(t, []))}
                           for t in self.tasks if self.table_of[t]}}


class TRX:
    """the trxcon side: layouts[] and the frame tables"""

    def __init__(self, tu):
        self.tu = tu
        X = dptr.Extractor(tu)
        self.chan = {k: v for k, v in tu.enum_by_name.items() if k.startswith("L1SCHED_") and v is not None
                     and not k.startswith(("L1SCHED_PRIM", "L1SCHED_BURST", "L1SCHED_DT", "L1SCHED_PROBE", "L1SCHED_CH_"))}
        self.chan_max = tu.enum_by_name.get("_L1SCHED_CHAN_MAX")
        self.chan = {k: v for k, v in self.chan.items() if v < (self.chan_max or 0)}
        if not self.chan_max or sorted(self.chan.values()) != list(range(self.chan_max)):
            raise Unsupported("enum l1sched_lchan_type is not the dense enumeration 0.._L1SCHED_CHAN_MAX-1")
        self.chan_name = {v: k for k, v in self.chan.items()}
        self.config = {k: v for k, v in tu.enum_by_name.items() if k.startswith("GSM_PCHAN_") and v is not None}
        for m in re.finditer(r"#define\s+(GSM_PCHAN_\w+)\s+\(\(enum gsm_phys_chan_config\)\s*(\d+)\)", tu.shim_text):
            self.config.setdefault(m.group(1), int(m.group(2)))
        self.config_name = {}
        for k, v in self.config.items():
            self.config_name.setdefault(v, k)
        n, L = X.table("layouts")
        self.n = n
        self.L = L
        self.layout = []
        self.frames = {}
        for i in range(n):
            fname = X.target(L["frames"][i])
            if fname is not None and fname not in self.frames:
                rn, fc = X.table(fname)
                self.frames[fname] = (rn, fc)
            self.layout.append({"index": i, "config": L["chan_config"][i], "config_name": self.config_name.get(L["chan_config"][i], str(L["chan_config"][i])),
                                "name": (X.target(L["name"][i]) or "").strip('"'), "period": L["period"][i], "slotmask": L["slotmask"][i],
                                "lchan_mask": L["lchan_mask"][i], "frames": fname, "nframes": self.frames[fname][0] if fname else 0})

    def label(self, i):
        lay = self.layout[i]
        return "%d:%s" % (i, lay["frames"] or "NULL")

    def lookup(self, config, tn):
        return MC.first_match(self.L["chan_config"], self.L["slotmask"], config, tn)

    def col(self, i, direction, what):
        fname = self.layout[i]["frames"]
        return self.frames[fname][1]["%s_%s" % ("dl" if direction == MC.DL else "ul", what)]

    def summary(self):
        return {"layouts[]": [{k: (hex(v) if k in ("slotmask", "lchan_mask") else v) for k, v in lay.items()} for lay in self.layout],
                "frame tables": {k: v[0] for k, v in self.frames.items()}, "enum l1sched_lchan_type": self.chan,
                "enum gsm_phys_chan_config (+shim)": self.config}


def check_mf_layout_assignments(stu, prefix_info):
    """ts->mf_layout is written only inside the verified prefix of l1sched_configure_ts (the lookup result, then possibly NULL)
    and NULL elsewhere: every textual assignment to a member called mf_layout in trxcon's sources is classified"""
    d = frontend.repo("src/host/trxcon/src")
    found = []
    for fn in sorted(os.listdir(d)):
        if not fn.endswith(".c"):
            continue
        for n, line in enumerate(open(os.path.join(d, fn), encoding="utf-8", errors="replace"), 1):
            m = re.search(r"mf_layout\s*=(?!=)\s*(.*?);", line)
            if m:
                found.append((fn, n, m.group(1).strip()))
    lo, hi = prefix_info["first_line"], prefix_info["last_line_of_prefix"]
    bad = []
    for (fn, n, rhs) in found:
        in_prefix = fn == os.path.basename(CM.SCHED_TRX) and lo <= n <= hi
        if rhs == "NULL" or (in_prefix and rhs.startswith("l1sched_mframe_layout(")):
            continue
        bad.append((fn, n, rhs))
    if bad or not any(f[2].startswith("l1sched_mframe_layout(") for f in found):
        raise Unsupported("ts->mf_layout is assigned outside the verified prefix of l1sched_configure_ts: %r" % (bad,))
    return found


# ====================================================================== build

def _merge(dst, src):
    for k, v in src.items():
        if k not in dst:
            dst[k] = v
        elif isinstance(v, dict) and isinstance(dst[k], dict):
            _merge(dst[k], v)
        elif isinstance(v, list) and isinstance(dst[k], list):
            dst[k].extend(x for x in v if x not in dst[k])
        elif isinstance(v, bool) or isinstance(dst[k], bool):
            dst[k] = dst[k] or v
        elif isinstance(v, (int, float)) and isinstance(dst[k], (int, float)):
            dst[k] = dst[k] + v


def _input_names(o):
    out = {}
    for k, t in (o.inputs or {}).items():
        if isinstance(t, z3.ExprRef) and z3.is_const(t) and t.decl().kind() == z3.Z3_OP_UNINTERPRETED:
            out[k] = ["bool" if z3.is_bool(t) else "int", t.decl().name()]
        elif isinstance(t, z3.ExprRef) and z3.is_int_value(t):
            out[k] = ["val", t.as_long()]
    return out


def par_build(run, jobs):
    """jobs: [fn(sub_run)]; each runs in a forked worker (the parsed units are inherited), the obligations come back frozen
    (SMT-LIB text); the names of the symbolic inputs travel in the tag (witness extraction by name)"""
    def job(i):
        sub = core.Run(run.prop, run.tier, run.seed)
        jobs[i](sub)
        frozen = []
        for o in sub.obls:
            if o.inputs:
                o.tag = dict(o.tag or {}, input_names=_input_names(o))
            frozen.append(o.freeze())
        return frozen, sub.functions, sub.assumptions, sub.trusted, sorted(sub.inlined), sub.extra
    for frozen, fns, assumptions, trusted, inl, extra in core.par_map(job, len(jobs)):
        for d in frozen:
            run.add(Obligation.thaw(d))
        run.functions.update(fns)
        for a in assumptions:
            run.assume(a)
        for t in trusted:
            run.trust(t)
        run.inlined.update(inl)
        _merge(run.extra, extra)


def vjob(tu, con):
    return lambda sub: dptr.verify(sub, ID, tu, con)


def build_c(run):
    # the tables of both stacks are extracted from the AST and every obligation group depends on that extraction: one section
    # (when the tables / lookup sites cannot be found in a refactored file the bounded native oracle oracles/c_C11.py stands in)
    K.sect(run, "mframe tables and lookup sites (firmware + trxcon)", build_all, run)
    K.finish(run)


def build_all(run):
    ftu, ttu, stu = fw_tu(), trx_tu(), sites_tu()
    fw, trx = FW(ftu), TRX(ttu)
    TRX_for_sites(stu, trx)
    run.extra["extracted"] = {"firmware " + CM.MFRAME_SCHED: fw.summary(), "trxcon " + CM.SCHED_MFRAME: trx.summary()}
    for t in sorted(set(fw.table_of.values()) - {None}) + ["sched_set_for_task"]:
        run.fn("%s:%s" % (CM.MFRAME_SCHED, t), CM.MFRAME_SCHED, dptr.line_of(ftu, t), "table extracted from InitListExpr")
    for t in sorted(trx.frames) + ["layouts"]:
        run.fn("%s:%s" % (CM.SCHED_MFRAME, t), CM.SCHED_MFRAME, dptr.line_of(ttu, t), "table extracted from InitListExpr")
    if not K.never_written(ftu, "sched_set_for_task"):
        raise Unsupported("sched_set_for_task is written or has its address taken in mframe_sched.c: its initialiser is not its content")
    run.assume("sched_set_for_task[] (static, array of pointers to const) holds its initialiser: every reference to it in "
               "mframe_sched.c is a subscripted read (checked on the AST)")
    # spec-level obligations first (their VIOLATION lines come first)
    for task in MC.TASKS:
        if task not in fw.tasks:
            raise Unsupported("firmware has no task %s (statement's channel list)" % task)
    jobs = [(lambda sub, task=task: agree(sub, fw, trx, task)) for task in MC.TASKS]
    jobs += [(lambda sub, i=i: bid_cycle(sub, trx, i)) for i in range(trx.n)]
    jobs.append(lambda sub: mask(sub, trx))
    # the real functions
    by_value = {v: k for k, v in fw.tasks.items()}
    longest_first = sorted(fw.tasks.values(), key=lambda v: -len(fw.entries.get(by_value[v], [])))
    jobs += [vjob(ftu, CM.MframeScheduleSet([v])) for v in longest_first]
    jobs.append(vjob(ttu, CM.MframeLayout()))
    cid, cinfo = CM.find_configure_prefix(stu)
    assigned = check_mf_layout_assignments(stu, cinfo)
    run.extra["mf_layout_assignments"] = ["%s:%d = %s" % a for a in assigned]
    run.extra["configure_ts_prefix"] = cinfo
    jobs.append(vjob(stu, CM.ConfigureTs(cid)))
    # the layouts a configured timeslot can hold: ConfigureTs.REP (period > 0, frames != NULL) - proved above, not assumed
    installable = [i for i in range(trx.n) if trx.layout[i]["period"] > 0 and trx.layout[i]["frames"] is not None]
    run.extra["layouts_a_timeslot_can_hold"] = [trx.label(i) for i in installable]
    run.extra["layouts_never_installed"] = [trx.label(i) for i in range(trx.n) if i not in installable]
    site_info = {}
    for (f, arg, out) in SITES:
        sid, info = CM.find_lookup_site(stu, f)
        site_info[f] = info
        jobs += [vjob(stu, CM.LookupSite(f, arg, sid, [i], out)) for i in installable]
    sid, info = CM.find_lookup_site(stu, "subst_frame_loss")
    site_info["subst_frame_loss"] = info
    jobs += [vjob(stu, CM.SubstFrameLossSite(sid, [i])) for i in installable]
    run.extra["lookup_sites"] = site_info
    par_build(run, jobs)
    for o in run.obls:
        t = o.tag if isinstance(o.tag, dict) else None
        if t and t.get("func") in [x[0] for x in SITES] + ["subst_frame_loss"] and str(t.get("case", "")).isdigit():
            i = int(t["case"])
            t["layout"] = i
            t["layout_config"] = trx.layout[i]["config_name"]
    lookup(run, trx)
    run.extra["verbatim_extraction"] = stu.extraction
    run.extra["shims"] = {"shim/" + dptr.MFRAME_SHIM: ttu.shim_text, "shim/" + CM.LOOKUP_PRELUDE: stu.prelude_text}
    run.extra["not_compared"] = MC.NOT_COMPARED
    run.assume("shim/%s: GSM_NBITS_NB_*_BURST and GSM_PCHAN_CCCH_SDCCH4_CBCH = 9, GSM_PCHAN_SDCCH8_SACCH8C_CBCH = 10, GSM_PCHAN_OSMO_DYN = 11 "
               "as in current libosmocore (the bundled libosmocore predates them)" % dptr.MFRAME_SHIM)
    run.assume("tdma_schedule_set() obeys its C08 contract for the scheduler sets the tables point to (declared extern in layer1/prim.h, "
               "defined in prim_*.c): it returns -1 or the number of frames of the set (<= 24) and writes only l1s.tdma_sched")
    run.assume("l1s.current_time.fn < GSM_MAX_FN when mframe_schedule() runs (maintained by l1s_time_inc, property C19)")
    run.assume("mframe_schedule_set(task_id) is only called with enumerators of enum mframe_task (mframe_schedule() calls it for the bits "
               "set through mframe_enable/mframe_set)")
    run.assume("configured timeslot: a struct l1sched_ts reachable as sched->ts[tn] (0 <= tn <= 7) whose mf_layout != NULL.  ts->mf_layout is "
               "written only by l1sched_configure_ts - the result of l1sched_mframe_layout(config, tn), reset to NULL by the validation "
               "that follows (prefix lines %d-%d under contract: C11/l1sched_configure_ts/post.REP_*) - and set to NULL elsewhere "
               "(assignments in src/host/trxcon/src: %s; textual + AST check on every run).  Hence at every lookup site ts->mf_layout is "
               "NULL or &layouts[i] with period > 0 and frames != NULL: this proved invariant is the sites' pre-condition"
               % (cinfo["first_line"], cinfo["last_line_of_prefix"], ", ".join(run.extra["mf_layout_assignments"])))
    run.assume("trxcon is single-threaded (osmocom select loop): no frame lookup runs between `ts->mf_layout = l1sched_mframe_layout(...)` "
               "and the validation that follows it inside l1sched_configure_ts")
    run.assume("l1sched_reset_ts(sched, tn) sets sched->ts[tn]->mf_layout = NULL (sched_trx.c; its only assignment to mf_layout) and "
               "l1sched_add_ts(sched, tn) returns NULL or a newly allocated timeslot: assumed contracts of the two callees of the "
               "l1sched_configure_ts prefix")
    run.assume("the first burst of a firmware block is in frame fn + SCHEDULE_AHEAD of the mframe_schedule() run that triggers it "
               "(set scheduled SCHEDULE_AHEAD - SCHEDULE_LATENCY frames ahead, DSP latency SCHEDULE_LATENCY)")
    run.trust("clang JSON AST: semantic InitListExpr (designators resolved) of the constant tables")
    run.notes.append("scope: GSM_PCHAN_NONE is an enumerator of the channel-combination type and has an entry in layouts[] (period 0, frames "
                     "NULL) that the lookup returns for every timeslot (hypothesis H11, repaired in /repo by the validation in "
                     "l1sched_configure_ts).  A layout the lookup returns must be valid for the timeslot (period > 0, period == rows of "
                     "frames) or be one that l1sched_configure_ts refuses to install (period == 0 or frames == NULL): "
                     "C11/lookup/<config>/valid_or_never_installed + C11/l1sched_configure_ts/post.*; for the combinations both stacks "
                     "implement it must be valid (period_positive, period_equals_table_length).")
    run.notes.append("scope: compared firmware tasks = the statement's channel list (spec/mframe_correspondence.py ROWS); not compared: %s"
                     % "; ".join("%s (%s)" % kv for kv in sorted(MC.NOT_COMPARED.items())))


build = build_c


def TRX_for_sites(stu, trx):
    """the combined unit must see the same layouts[] as the whole-file parse (same real file, included)"""
    X = dptr.Extractor(stu)
    n, L = X.table("layouts")
    if n != trx.n or L["period"] != trx.L["period"] or L["chan_config"] != trx.L["chan_config"] or L["slotmask"] != trx.L["slotmask"]:
        raise Unsupported("layouts[] differs between the two parses of sched_mframe.c")
    return X


# ---------------------------------------------------------------------- spec-level obligations

def T(vals):
    return core.uf_table(vals)


def agree(run, fw, trx, task):
    F = z3.Int("F")
    dom = [F >= 0, F < MC.CYCLE]
    if True:
        ents = fw.entries.get(task)
        where = "%s:%s" % (CM.MFRAME_SCHED, fw.table_of.get(task))
        rows = [r for r in MC.ROWS if r.task == task]
        # every firmware entry of the task has a counterpart in the correspondence (or no logical channel at all)
        keys = {(r.fw_set, r.sacch) for r in rows}
        for k, (s, mod, fr, fl) in enumerate(ents or []):
            role = MC.FW_SET_ROLE.get(s, "?")
            ok = role is None or (role != "?" and (s, fl & 1) in keys and (fl & ~1) == 0)
            run.add(Obligation(ID, "agree/%s" % task, "every_entry_has_a_counterpart", [], z3.BoolVal(bool(ok)), kind="table",
                               case="entry=%d" % k, where=where,
                               tag={"side": "c", "func": "agree.coverage", "task": task, "entry": k, "set": s, "modulo": mod, "frame_nr": fr, "flags": fl}))
        run.add(Obligation(ID, "agree/%s" % task, "table_is_null_terminated", [], z3.BoolVal(bool(ents is not None and fw.terminated.get(task))),
                           kind="table", where=where, tag={"side": "c", "func": "agree.terminated", "task": task}))
        for r in rows:
            mine = [(k, e) for k, e in enumerate(ents or []) if e[0] == r.fw_set and (e[3] & 1) == r.sacch]
            fwt = z3.Or([MC.triggers(F, e[1], e[2]) for k, e in mine if e[1]] + [z3.BoolVal(False)])
            chan = trx.chan.get(r.chan)
            if chan is None:
                raise Unsupported("trxcon has no channel %s" % r.chan)
            for cfg in r.configs:
                cv = trx.config.get(cfg)
                if cv is None:
                    raise Unsupported("no value for %s" % cfg)
                groups = {}
                for tn in r.tns:
                    groups.setdefault(trx.lookup(cv, tn), []).append(tn)
                for li, tns in groups.items():
                    case = "%s,tn=%s,%s" % (cfg, "".join(map(str, tns)), "sacch" if r.sacch else "main")
                    tag = {"side": "c", "func": "agree", "task": task, "task_id": fw.tasks[task], "fw_set": r.fw_set, "sacch": r.sacch,
                           "direction": r.direction, "config": cfg, "config_value": cv, "tns": tns, "layout": li, "chan": r.chan,
                           "chan_value": chan, "mode": r.mode}
                    if li is None or not trx.layout[li]["period"] or not trx.layout[li]["frames"]:
                        goal = z3.BoolVal(False)
                    else:
                        lay = trx.layout[li]
                        f = F % lay["period"]
                        tx = T(trx.col(li, r.direction, "chan"))(f) == chan
                        if r.mode == MC.BLOCK:
                            tx = z3.And(tx, T(trx.col(li, r.direction, "bid"))(f) == 0)
                        goal = fwt == tx
                        tag["period"] = lay["period"]
                    run.add(Obligation(ID, "agree/%s/%s" % (task, r.direction), "%s_frames_equal_%s" % (r.mode, r.chan), dom, goal,
                                       kind="post", case=case, where=where, tag=tag))
                    run.add(Cover(ID, "agree/%s/%s" % (task, r.direction), "%s_is_scheduled_somewhere" % r.chan, dom + [fwt], case=case,
                                  where=where, tag=dict(tag, func="agree.cover")))


def bid_cycle(run, trx, i):
    f = z3.Int("f")
    lay = trx.layout[i]
    if True:
        if not lay["frames"] or not lay["period"]:
            return
        per = min(lay["period"], lay["nframes"])
        for d in (MC.DL, MC.UL):
            chans, bids = trx.col(i, d, "chan")[:per], trx.col(i, d, "bid")[:per]
            for c in sorted(set(chans)):
                cname = trx.chan_name.get(c, str(c))
                m = MC.bid_modulus(cname)
                if m is None:
                    continue
                owned = [k for k in range(per) if chans[k] == c]
                nxt = [0] * per
                for a, k in enumerate(owned):
                    nxt[k] = owned[(a + 1) % len(owned)]
                b, bn = T(bids)(f), T(bids)(T(nxt)(f))
                goal = z3.And(b >= 0, b < m, bn == (b + 1) % m, T(chans)(T(nxt)(f)) == c)
                run.add(Obligation(ID, "bid_cycle/%s" % trx.label(i), "%s_%s_burst_ids_cycle_mod_%d" % (d, cname, m),
                                   [f >= 0, f < per, T(chans)(f) == c], goal, kind="table", where="%s:%s" % (CM.SCHED_MFRAME, lay["frames"]),
                                   tag={"side": "c", "func": "bid_cycle", "layout": i, "direction": d, "chan": cname, "chan_value": c, "modulus": m,
                                        "next": nxt}))


def mask(run, trx):
    f = z3.Int("f")
    idle = trx.chan[MC.IDLE]
    for i, lay in enumerate(trx.layout):
        if not lay["frames"] or not lay["period"]:
            continue
        per = min(lay["period"], lay["nframes"])
        inmask = T([(lay["lchan_mask"] >> c) & 1 for c in range(trx.chan_max)])
        for d in (MC.DL, MC.UL):
            ch = T(trx.col(i, d, "chan")[:per])(f)
            goal = z3.And(ch >= 0, ch < trx.chan_max, z3.Or(ch == idle, inmask(ch) == 1))
            run.add(Obligation(ID, "mask/%s" % trx.label(i), "every_%s_channel_is_in_lchan_mask" % d, [f >= 0, f < per], goal, kind="table",
                               where="%s:%s" % (CM.SCHED_MFRAME, lay["frames"]),
                               tag={"side": "c", "func": "mask", "layout": i, "direction": d, "lchan_mask": lay["lchan_mask"]}))


def lookup(run, trx):
    """for every (channel combination, timeslot): the result of the lookup - computed with the specification of the lookup that
    l1sched_mframe_layout is verified against - is a layout valid for that timeslot"""
    for cname, cv in sorted(trx.config.items(), key=lambda kv: kv[1]):
        if cname.startswith("_"):
            continue
        for tn in range(8):
            li = trx.lookup(cv, tn)
            tag = {"side": "c", "func": "lookup", "config": cname, "config_value": cv, "tn": tn, "layout": li,
                   "layout_config": cname}
            where = "%s:layouts" % CM.SCHED_MFRAME
            if cname in MC.IMPLEMENTED_CONFIGS:
                run.add(Obligation(ID, "lookup/%s" % cname, "layout_exists", [], z3.BoolVal(li is not None), kind="table", case="tn=%d" % tn,
                                   where=where, tag=dict(tag, clause="layout_exists")))
            if li is None:
                continue
            lay = trx.layout[li]
            valid = lay["period"] > 0 and lay["frames"] is not None and lay["period"] == lay["nframes"]
            refused = lay["period"] == 0 or lay["frames"] is None       # the condition l1sched_configure_ts rejects (ConfigureTs.REP)
            facts = [("layout_is_for_this_combination", lay["config"] == cv),
                     ("slotmask_contains_tn", bool((lay["slotmask"] >> tn) & 1)),
                     ("valid_or_never_installed", valid or refused)]
            if cname in MC.IMPLEMENTED_CONFIGS:
                facts += [("period_positive", lay["period"] > 0), ("period_equals_table_length", lay["period"] == lay["nframes"])]
            for label, ok in facts:
                run.add(Obligation(ID, "lookup/%s" % cname, label, [], z3.BoolVal(bool(ok)), kind="table", case="tn=%d" % tn, where=where,
                                   tag=dict(tag, clause=label)))
    # vacuity: every layouts[] entry is the result of some lookup (the site contracts range over the installable ones)
    for i, lay in enumerate(trx.layout):
        reach = [tn for tn in range(8) if trx.lookup(lay["config"], tn) == i]
        run.add(Cover(ID, "lookup/%s" % lay["config_name"], "entry_%d_is_returned_for_some_timeslot" % i, [z3.BoolVal(bool(reach))],
                      where="%s:layouts" % CM.SCHED_MFRAME, tag={"side": "c", "func": "lookup.cover", "layout": i}))


# ====================================================================== witness

def witness_c(o, model):
    t = dict(o.tag) if isinstance(o.tag, dict) else {}
    w = {k: v for k, v in t.items() if k not in ("input_names", "next")}
    w["clause"], w["kind"] = o.clause, o.kind
    for k, (kind, nm) in (t.get("input_names") or {}).items():
        if kind == "val":
            w[k] = nm
        elif model is not None:
            w[k] = mval(model, z3.Bool(nm) if kind == "bool" else z3.Int(nm))
    if model is not None:
        for nm in ("F", "f"):
            for d in model.decls():
                if d.name() == nm and d.arity() == 0:
                    w[nm] = model[d].as_long()
    return w


witness = witness_c


def known_predicate_c(o, entry):
    """a known-finding entry may name a layout's channel combination (`config`): every counter-model of an obligation that is
    generated for that layout/combination only is the listed one"""
    t = o.tag if isinstance(o.tag, dict) else {}
    want = entry.get("config") or entry.get("witness", {}).get("config")
    if not want:
        return None
    return z3.BoolVal(t.get("layout_config") == want)


known_predicate = known_predicate_c


# ====================================================================== native replay

_FW_MAIN = r"""
#include <stdlib.h>
struct l1s_state l1s;
const struct tdma_sched_item nb_sched_set[1], nb_sched_set_ul[1], tch_sched_set[1], tch_a_sched_set[1], tch_d_sched_set[1],
	neigh_pm_sched_set[1];
static const char *setname(const struct tdma_sched_item *s)
{
	if (s == nb_sched_set) return "nb_sched_set";
	if (s == nb_sched_set_ul) return "nb_sched_set_ul";
	if (s == tch_sched_set) return "tch_sched_set";
	if (s == tch_a_sched_set) return "tch_a_sched_set";
	if (s == tch_d_sched_set) return "tch_d_sched_set";
	if (s == neigh_pm_sched_set) return "neigh_pm_sched_set";
	return "?";
}
int tdma_schedule_set(uint8_t frame_offset, const struct tdma_sched_item *item_set, uint16_t p3)
{
	printf(" call=%u,%s,%u", frame_offset, setname(item_set), p3);
	return 3;
}
int main(int argc, char **argv)
{
	/* argv: task fn_lo fn_hi : the REAL mframe_schedule_set(task) is run with l1s.current_time.fn = fn for every fn */
	int task = atoi(argv[1]);
	unsigned long lo = strtoul(argv[2], 0, 0), hi = strtoul(argv[3], 0, 0), fn;
	for (fn = lo; fn <= hi; fn++) {
		memset(&l1s, 0, sizeof(l1s));
		l1s.current_time.fn = fn;
		printf("fn=%lu", fn);
		mframe_schedule_set(task);
		printf("\n");
	}
	return 0;
}
"""


def fw_harness():
    return '#include <stdint.h>\n#include <stdio.h>\n#include <string.h>\n#include "%s"\n%s' % (frontend.repo(CM.MFRAME_SCHED), _FW_MAIN)


def fw_flags():
    return R.host_flags() + ["-idirafter", frontend.repo("src/target/firmware/include"), "-idirafter", frontend.l1ctl_include()]


def fw_calls(h, task_id, lo, hi):
    """{fn: [(frame_offset, set name, p3)]} observed natively; or {"sanitizer": ...}"""
    res = h.run([task_id, lo, hi])
    if res.get("rc") is None:
        return {"error": "harness build failed", "detail": res}
    out = {}
    for line in res.get("stdout", "").splitlines():
        if not line.startswith("fn="):
            continue
        parts = line.split()
        fn = int(parts[0][3:])
        out[fn] = [(int(a), b, int(c)) for a, b, c in (p[5:].split(",") for p in parts[1:] if p.startswith("call="))]
    if res.get("sanitizer") or res["rc"] != 0:
        return {"sanitizer": res.get("sanitizer") or "exit status %s" % res["rc"], "calls": out, "stderr": res.get("stderr", "")[-400:]}
    return out


_TRX_MAIN = r"""
#include <stdio.h>
#include <stdlib.h>
#include <string.h>
/* what the lookup functions touch after the lookup: every channel has (dummy) handlers, no channel has a state; the channel
 * the function asks a state for - the one it read from the looked-up row - is recorded */
static int dummy_rx(struct l1sched_lchan_state *lchan, const struct l1sched_burst_ind *bi) { return 0; }
static int dummy_tx(struct l1sched_lchan_state *lchan, struct l1sched_burst_req *br) { return 0; }
const struct l1sched_lchan_desc l1sched_lchan_desc[_L1SCHED_CHAN_MAX] = {
	[0 ... _L1SCHED_CHAN_MAX - 1] = { .name = "x", .rx_fn = dummy_rx, .tx_fn = dummy_tx },
};
static int asked_chan = -1;
struct l1sched_lchan_state *l1sched_find_lchan_by_type(struct l1sched_ts *ts, enum l1sched_lchan_type chan) { asked_chan = chan; return NULL; }
static void l1sched_a5_burst_enc(struct l1sched_lchan_state *lchan, struct l1sched_burst_req *br) { }
static void l1sched_a5_burst_dec(struct l1sched_lchan_state *lchan, struct l1sched_burst_ind *bi) { }
/* callees of l1sched_configure_ts (their effect on mf_layout as in sched_trx.c) */
static int l1sched_cfg_pchan_comb_ind(struct l1sched_state *sched, uint8_t tn, enum gsm_phys_chan_config pchan) { return 0; }
/* libosmocore's panic handler (OSMO_ASSERT): a failed assertion of the code under test aborts the harness (reported as a crash) */
void osmo_panic(const char *fmt, ...) { printf("osmo_panic\n"); fflush(stdout); abort(); }
int l1sched_reset_ts(struct l1sched_state *sched, int tn)
{
	if (sched->ts[tn] == NULL) return -EINVAL;
	sched->ts[tn]->mf_layout = NULL;
	INIT_LLIST_HEAD(&sched->ts[tn]->lchans);
	return 0;
}
struct l1sched_ts *l1sched_add_ts(struct l1sched_state *sched, int tn)
{
	struct l1sched_ts *ts = calloc(1, sizeof(*ts));
	ts->index = tn; ts->sched = sched;
	INIT_LLIST_HEAD(&ts->lchans);
	sched->ts[tn] = ts;
	return ts;
}
int l1sched_activate_lchan(struct l1sched_ts *ts, enum l1sched_lchan_type chan) { return 0; }
void *_talloc_zero(const void *ctx, size_t size, const char *name) { return calloc(1, size); }
static int nframes_of(const struct l1sched_tdma_frame *p)
{
	if (!p) return 0;
@NFRAMES@
	return -1;
}
static void print_layout(const struct l1sched_tdma_multiframe *l)
{
	if (!l) { printf("idx=-1\n"); return; }
	printf("idx=%d config=%d period=%u slotmask=%u lchan_mask=%llu frames_null=%d nframes=%d\n", (int)(l - layouts), (int)l->chan_config,
	       l->period, l->slotmask, (unsigned long long)l->lchan_mask, l->frames == NULL, nframes_of(l->frames));
}
int main(int argc, char **argv)
{
	const char *cmd = argv[1];
	if (!strcmp(cmd, "lookup")) {		/* lookup config tn */
		print_layout(l1sched_mframe_layout(atoi(argv[2]), atoi(argv[3])));
	} else if (!strcmp(cmd, "lookups")) {	/* every config 0..15 x tn 0..7 */
		int c, t;
		for (c = 0; c < 16; c++) for (t = 0; t < 8; t++) {
			const struct l1sched_tdma_multiframe *l = l1sched_mframe_layout(c, t);
			printf("config=%d tn=%d idx=%d\n", c, t, l ? (int)(l - layouts) : -1);
		}
	} else if (!strcmp(cmd, "table")) {	/* table : all layouts[] entries */
		unsigned i;
		for (i = 0; i < ARRAY_SIZE(layouts); i++) print_layout(&layouts[i]);
	} else if (!strcmp(cmd, "row")) {	/* row config tn fn : the row a frame lookup reads, through the REAL lookup */
		const struct l1sched_tdma_multiframe *l = l1sched_mframe_layout(atoi(argv[2]), atoi(argv[3]));
		unsigned long fn = strtoul(argv[4], 0, 0);
		const struct l1sched_tdma_frame *f;
		print_layout(l);
		if (!l) return 0;
		f = &l->frames[fn % l->period];
		printf("row=%lu dl_chan=%d dl_bid=%d ul_chan=%d ul_bid=%d\n", fn % l->period, f->dl_chan, f->dl_bid, f->ul_chan, f->ul_bid);
	} else if (!strcmp(cmd, "rows")) {	/* rows idx : every row of layouts[idx].frames[0..period) */
		const struct l1sched_tdma_multiframe *l = &layouts[atoi(argv[2])];
		unsigned k;
		print_layout(l);
		for (k = 0; k < l->period; k++)
			printf("row=%u dl_chan=%d dl_bid=%d ul_chan=%d ul_bid=%d\n", k, l->frames[k].dl_chan, l->frames[k].dl_bid,
			       l->frames[k].ul_chan, l->frames[k].ul_bid);
	} else if (!strcmp(cmd, "configures")) {	/* configures c_lo c_hi : REAL l1sched_configure_ts for config c_lo..c_hi x tn 0..7 x (new | existing
						   timeslot), then a REAL frame lookup (l1sched_handle_rx_probe) on every timeslot it configured */
		int c, t, ex;
		for (c = atoi(argv[2]); c <= atoi(argv[3]); c++) for (t = 0; t < 8; t++) for (ex = 0; ex < 2; ex++) {
			static struct l1sched_state sched;
			struct l1sched_probe probe = { .fn = 42, .tn = t };
			int rc, prc = 0;
			memset(&sched, 0, sizeof(sched));
			if (ex) l1sched_add_ts(&sched, t);
			printf("try config=%d tn=%d existing=%d\n", c, t, ex);
			fflush(stdout);
			rc = l1sched_configure_ts(&sched, t, c);
			printf("configured req=%d tn=%d existing=%d rc=%d has_ts=%d ", c, t, ex, rc, sched.ts[t] != NULL);
			print_layout(sched.ts[t] ? sched.ts[t]->mf_layout : NULL);
			fflush(stdout);
			if (rc == 0) prc = l1sched_handle_rx_probe(&sched, &probe);
			printf("probed config=%d tn=%d rc=%d\n", c, t, prc);
		}
	} else if (!strcmp(cmd, "site")) {	/* site function config tn fn : the REAL lookup function on a timeslot configured by the REAL lookup */
		static struct l1sched_state sched;
		static struct l1sched_ts ts;
		static struct l1sched_lchan_state lchan;
		int tn = atoi(argv[4]);
		unsigned long fn = strtoul(argv[5], 0, 0);
		ts.index = tn;
		ts.mf_layout = l1sched_mframe_layout(atoi(argv[3]), tn);
		ts.sched = &sched;
		INIT_LLIST_HEAD(&ts.lchans);
		sched.ts[tn] = &ts;
		print_layout(ts.mf_layout);
		fflush(stdout);
		if (!strcmp(argv[2], "l1sched_pull_burst")) {
			static struct l1sched_burst_req br;
			br.fn = fn; br.tn = tn;
			l1sched_pull_burst(&sched, &br);
			printf("done dir=ul bid=%d chan=%d\n", br.bid, asked_chan);
		} else if (!strcmp(argv[2], "l1sched_handle_rx_burst")) {
			static struct l1sched_burst_ind bi;
			bi.fn = fn; bi.tn = tn;
			int rc = l1sched_handle_rx_burst(&sched, &bi);
			printf("done dir=dl rc=%d bid=%d chan=%d\n", rc, bi.bid, asked_chan);
		} else if (!strcmp(argv[2], "l1sched_handle_rx_probe")) {
			struct l1sched_probe probe = { .fn = fn, .tn = tn };
			int rc = l1sched_handle_rx_probe(&sched, &probe);
			printf("done dir=dl rc=%d chan=%d\n", rc, asked_chan);
		} else if (!strcmp(argv[2], "subst_frame_loss")) {
			lchan.ts = &ts;
			lchan.type = L1SCHED_IDLE;
			lchan.tdma.num_proc = 1;
			lchan.tdma.last_proc = fn;
			printf("done rc=%d\n", subst_frame_loss(&lchan, NULL, (fn + 3) % GSM_TDMA_HYPERFRAME));
		}
	}
	return 0;
}
"""


def trx_harness():
    stu = sites_tu()
    trx = TRX(trx_tu())
    nfr = "\n".join("\tif (p == %s) return (int)ARRAY_SIZE(%s);" % (n, n) for n in sorted(trx.frames))
    return stu.source_text + "\n" + _TRX_MAIN.replace("@NFRAMES@", nfr)


def trx_flags():
    return dptr.trxcon_flags()


def kv(line):
    return R.kv_output(line)


def trx_run(h, *argv):
    res = h.run(list(argv))
    if res.get("rc") is None:
        return None, {"error": "harness build failed", "detail": res}
    lines = [kv(l) for l in res.get("stdout", "").splitlines() if "=" in l]
    return lines, res


def replay_c(payload):
    w = payload.get("inputs") or {}
    func = w.get("func")
    if func in ("agree", "agree.cover"):
        return replay_agree(w)
    if func in ("agree.coverage", "agree.terminated"):
        return replay_fw_table(w)
    if func in ("bid_cycle", "mask"):
        return replay_layout_rows(w)
    if func in ("lookup", "lookup.cover"):
        return replay_lookup(w)
    if func == "mframe_schedule_set":
        return replay_fw_contract(w)
    if func == "l1sched_mframe_layout":
        return replay_lookup_contract(w)
    if func == "l1sched_configure_ts":
        return replay_configure(w)
    if func in [s[0] for s in SITES] + ["subst_frame_loss"]:
        return replay_site(w)
    return {"confirmed": False, "error": "no replay for %r" % func}


replay = replay_c


def _fw_expected(fw, task, fn):
    """calls the statement's trigger rule expects of mframe_schedule_set(task) at l1s.current_time.fn = fn"""
    tid = fw.tasks[task]
    return [(1, s, tid | (fl << 8)) for (s, mod, fr, fl) in fw.entries[task] if mod and (fn + CM.SCHEDULE_AHEAD) % mod == fr % mod]


def replay_fw_contract(w):
    """the REAL compiled mframe_schedule_set against the trigger rule evaluated on the extracted table: at the model's fn,
    then (a counter-model of the inductive step need not be reachable) on every fn of one cycle"""
    fw = FW(fw_tu())
    tid = int(w.get("case") or 0)
    task = [k for k, v in fw.tasks.items() if v == tid][0]
    fn = int(w.get("fn") or 0) % CM.GSM_MAX_FN
    with R.Harness(fw_harness(), fw_flags()) as h:
        for (lo, hi, how) in ((fn, fn, "model"), (0, MC.CYCLE + 1, "search over one 51*26*8 cycle")):
            got = fw_calls(h, tid, lo, hi)
            if "error" in got:
                return {"confirmed": False, "error": got}
            if "sanitizer" in got:
                return {"confirmed": True, "found_by": how, "observed": got["sanitizer"], "expected": "no undefined behaviour", "task": task,
                        "fn_range": [lo, hi], "stderr": got.get("stderr")}
            for f in range(lo, hi + 1):
                exp = _fw_expected(fw, task, f)
                if got.get(f) != exp:
                    return {"confirmed": True, "found_by": how, "task": task, "fn": f, "observed": got.get(f), "expected": exp, "cmd": h.cmd}
    return {"confirmed": False, "task": task, "observed": "real mframe_schedule_set agrees with the trigger rule on every fn of one cycle",
            "expected": "same"}


def replay_fw_table(w):
    fw = FW(fw_tu())
    task = w["task"]
    if w.get("func") == "agree.terminated":
        ok = fw.terminated.get(task)
        return {"confirmed": not ok, "observed": {"table": fw.table_of.get(task), "rows": fw.rows.get(task), "terminated": ok},
                "expected": "a NULL-terminated table"}
    ents = fw.entries.get(task) or []
    k = w["entry"]
    e = ents[k] if k < len(ents) else None
    keys = {(r.fw_set, r.sacch) for r in MC.ROWS if r.task == task}
    role = MC.FW_SET_ROLE.get(e[0], "?") if e else "?"
    ok = e is not None and (role is None or (role != "?" and (e[0], e[3] & 1) in keys and (e[3] & ~1) == 0))
    # natively: the entry does fire (so it is not dead text)
    fired = None
    if e and e[1]:
        with R.Harness(fw_harness(), fw_flags()) as h:
            fn = (e[2] % e[1] - CM.SCHEDULE_AHEAD) % MC.CYCLE
            fired = fw_calls(h, fw.tasks[task], fn, fn)
    return {"confirmed": not ok, "observed": {"entry": e, "native_calls_at_its_frame": fired},
            "expected": "an entry whose (scheduler set, SACCH flag) is one of %r or that carries no logical channel" % sorted(keys)}


def replay_agree(w):
    """natively: the REAL mframe_schedule_set(task) at fn = F - SCHEDULE_AHEAD, and the row the REAL l1sched_mframe_layout(config, tn)
    ->frames[F mod period] holds; at the model's F first, then every F of the cycle"""
    fw = FW(fw_tu())
    task, tid = w["task"], w["task_id"]
    tn = (w.get("tns") or [0])[0]
    d = "dl" if w["direction"] == MC.DL else "ul"
    Fs = [w["F"]] if isinstance(w.get("F"), int) else []
    with R.Harness(fw_harness(), fw_flags()) as hf, R.Harness(trx_harness(), trx_flags()) as ht:
        lines, res = trx_run(ht, "lookup", w["config_value"], tn)
        if lines is None:
            return {"confirmed": False, "error": res}
        if not lines or lines[0].get("idx", -1) < 0:
            return {"confirmed": True, "observed": "l1sched_mframe_layout(%s, %d) == NULL" % (w["config"], tn), "expected": "a layout"}
        idx = lines[0]["idx"]
        rows, res = trx_run(ht, "rows", idx)
        if rows is None or res.get("sanitizer"):
            return {"confirmed": bool(res.get("sanitizer")), "observed": res.get("sanitizer") or res, "expected": "table dump"}
        period = rows[0]["period"]
        tab = {r["row"]: r for r in rows[1:]}
        if not period:
            return {"confirmed": True, "observed": rows[0], "expected": "period > 0"}
        calls = fw_calls(hf, tid, 0, MC.CYCLE + 1)
        if "error" in calls or "sanitizer" in calls:
            return {"confirmed": "sanitizer" in calls, "observed": calls.get("sanitizer") or calls, "expected": "no undefined behaviour"}
        for how, cand in (("model", Fs), ("search over one 51*26*8 cycle", range(MC.CYCLE))):
            for F in cand:
                fn = (F - CM.SCHEDULE_AHEAD) % MC.CYCLE
                cl = calls.get(fn, [])
                fwb = any(s == w["fw_set"] and ((p3 >> 8) & 1) == w["sacch"] and (p3 & 0xff) == tid for (_o, s, p3) in cl)
                row = tab.get(F % period)
                if row is None:
                    return {"confirmed": True, "observed": "row %d outside the dump" % (F % period), "expected": "a row"}
                txb = row[d + "_chan"] == w["chan_value"] and (w["mode"] == MC.FRAME or row[d + "_bid"] == 0)
                if fwb != txb:
                    return {"confirmed": True, "found_by": how, "frame": F, "layout": idx, "row": F % period,
                            "observed": {"firmware": {"task": task, "l1s.current_time.fn": fn, "tdma_schedule_set calls": cl,
                                                      "starts %s %s%s here" % (w["direction"], w["mode"], " (SACCH)" if w["sacch"] else ""): fwb},
                                         "trxcon": {"lookup": "l1sched_mframe_layout(%s, %d) = &layouts[%d]" % (w["config"], tn, idx), "row": row,
                                                    "%s of %s here" % ("first burst" if w["mode"] == MC.BLOCK else "frame", w["chan"]): txb}},
                            "expected": "both or neither", "cmd": [hf.cmd, ht.cmd]}
    return {"confirmed": False, "observed": "firmware and trxcon agree on every frame of the cycle", "expected": "same"}


def replay_layout_rows(w):
    trx = TRX(trx_tu())
    i = w["layout"]
    d = "dl" if w["direction"] == MC.DL else "ul"
    with R.Harness(trx_harness(), trx_flags()) as ht:
        rows, res = trx_run(ht, "rows", i)
        if rows is None or res.get("sanitizer"):
            return {"confirmed": bool(res and res.get("sanitizer")), "observed": res, "expected": "table dump"}
    head, tab = rows[0], rows[1:]
    per = len(tab)
    if w["func"] == "mask":
        idle = trx.chan[MC.IDLE]
        for r in tab:
            c = r[d + "_chan"]
            if not (0 <= c < trx.chan_max) or (c != idle and not (head["lchan_mask"] >> c) & 1):
                return {"confirmed": True, "layout": i, "row": r["row"], "observed": {"row": r, "channel": trx.chan_name.get(c, c), "lchan_mask": hex(head["lchan_mask"])},
                        "expected": "channel contained in lchan_mask", "cmd": ht.cmd}
        return {"confirmed": False, "observed": "every %s channel of layouts[%d] is in its lchan_mask" % (d, i), "expected": "same"}
    c, m = w["chan_value"], w["modulus"]
    owned = [r for r in tab if r[d + "_chan"] == c]
    for a, r in enumerate(owned):
        nx = owned[(a + 1) % len(owned)]
        b = r[d + "_bid"]
        if not (0 <= b < m) or nx[d + "_bid"] != (b + 1) % m:
            return {"confirmed": True, "layout": i, "row": r["row"], "observed": {"row": r, "next_row_of_the_channel": nx}, "channel": w["chan"],
                    "expected": "burst ids of %s advance by one modulo %d" % (w["chan"], m), "cmd": ht.cmd}
    return {"confirmed": False, "observed": "burst ids of %s in layouts[%d] cycle modulo %d" % (w["chan"], i, m), "expected": "same"}


def replay_lookup(w):
    with R.Harness(trx_harness(), trx_flags()) as ht:
        if w["func"] == "lookup.cover":
            lines, res = trx_run(ht, "lookups")
            hit = [l for l in (lines or []) if l.get("idx") == w["layout"]]
            return {"confirmed": not hit, "observed": hit[:3], "expected": "layouts[%d] returned by some lookup" % w["layout"]}
        lines, res = trx_run(ht, "lookup", w["config_value"], w["tn"])
        if lines is None:
            return {"confirmed": False, "error": res}
        l = lines[0]
        clause = w.get("clause")
        if l.get("idx", -1) < 0:
            bad = clause == "layout_exists"
        else:
            bad = {"layout_exists": False, "layout_is_for_this_combination": l["config"] != w["config_value"],
                   "slotmask_contains_tn": not (l["slotmask"] >> w["tn"]) & 1, "period_positive": l["period"] <= 0,
                   "period_equals_table_length": l["period"] != l["nframes"],
                   "valid_or_never_installed": not ((l["period"] > 0 and not l["frames_null"] and l["period"] == l["nframes"])
                                                    or l["period"] == 0 or l["frames_null"])}.get(clause, False)
        out = {"confirmed": bool(bad), "observed": {"l1sched_mframe_layout(%s, %d)" % (w["config"], w["tn"]): l}, "expected": clause, "cmd": ht.cmd}
        if bad and l.get("idx", -1) >= 0 and clause in ("period_positive", "valid_or_never_installed", "period_equals_table_length"):
            # what a frame lookup on that layout does
            site = ht.run(["site", "l1sched_handle_rx_probe", w["config_value"], w["tn"], 42])
            out["frame_lookup_on_it"] = {"cmd": "site l1sched_handle_rx_probe %d %d 42" % (w["config_value"], w["tn"]), "rc": site.get("rc"),
                                         "sanitizer": site.get("sanitizer"), "stdout": site.get("stdout", "")[-200:]}
        return out


def replay_lookup_contract(w):
    trx = TRX(trx_tu())
    with R.Harness(trx_harness(), trx_flags()) as ht:
        lines, res = trx_run(ht, "lookups")
        if lines is None or res.get("sanitizer"):
            return {"confirmed": bool(res.get("sanitizer")), "observed": res, "expected": "no undefined behaviour"}
        for l in lines:
            exp = trx.lookup(l["config"], l["tn"])
            if l["idx"] != (-1 if exp is None else exp):
                return {"confirmed": True, "found_by": "search over config 0..15 x tn 0..7", "observed": l,
                        "expected": "first layouts[] entry with that config and slotmask bit: %r" % exp}
    return {"confirmed": False, "observed": "l1sched_mframe_layout returns the first matching entry for config 0..15 x tn 0..7", "expected": "same"}


def replay_configure(w):
    """the REAL l1sched_configure_ts (callees stubbed with their sched_trx.c effect on mf_layout) for the model's config first, then
    config 0..15, every tn, new and existing timeslot; every timeslot it reports configured gets a REAL frame lookup"""
    cfg = w.get("config") if isinstance(w.get("config"), int) and 0 <= w.get("config") < 64 else None
    with R.Harness(trx_harness(), trx_flags()) as ht:
        for (lo, hi, how) in ([(cfg, cfg, "model")] if cfg is not None else []) + [(0, 15, "search over config 0..15 x tn 0..7")]:
            r = ht.run(["configures", lo, hi])
            if r.get("rc") is None:
                return {"confirmed": False, "error": r}
            lines = r.get("stdout", "").splitlines()
            if r.get("sanitizer") or r["rc"] != 0:
                return {"confirmed": True, "found_by": how, "observed": {"last_lines": lines[-3:], "exit": r["rc"], "sanitizer": r.get("sanitizer"),
                                                                           "stderr": r.get("stderr", "")[-300:]},
                        "expected": "a timeslot l1sched_configure_ts reports configured can be looked up without undefined behaviour", "cmd": ht.cmd}
            for l in lines:
                if not l.startswith("configured "):
                    continue
                d = kv(l)
                if d["rc"] == 0:
                    bad = d.get("idx", -1) < 0 or d.get("period", 0) <= 0 or d.get("frames_null", 1) or d.get("nframes", 0) <= 0 \
                        or d.get("config") != d.get("req")
                    if bad:
                        return {"confirmed": True, "found_by": how, "observed": l,
                                "expected": "rc == 0 only with a layout of the requested combination that has period > 0 and frames", "cmd": ht.cmd}
                elif d.get("has_ts") and d.get("idx", -1) >= 0:
                    return {"confirmed": True, "found_by": how, "observed": l, "expected": "an error return leaves ts->mf_layout == NULL", "cmd": ht.cmd}
    return {"confirmed": False, "observed": "l1sched_configure_ts installs only layouts with period > 0 and frames, and leaves mf_layout NULL on error",
            "expected": "same"}


def replay_site(w):
    """the REAL lookup function on a timeslot configured through the REAL l1sched_mframe_layout, under ASan/UBSan"""
    i = int(w.get("layout", w.get("case") or 0))
    fn = int(w.get("fn") or 0) % (1 << 32)
    with R.Harness(trx_harness(), trx_flags()) as ht:
        lines, res = trx_run(ht, "lookups")
        if lines is None:
            return {"confirmed": False, "error": res}
        hit = [l for l in lines if l.get("idx") == i]
        if not hit:
            return {"confirmed": False, "error": "counter-model not executable: layouts[%d] is not returned by any lookup" % i, "expected": "n/a"}
        tn = w.get("tn") if isinstance(w.get("tn"), int) and any(l["tn"] == w.get("tn") for l in hit) else hit[0]["tn"]
        cfg = hit[0]["config"]
        rows, _res = trx_run(ht, "rows", i) if (hit and lines is not None) else (None, None)
        period = rows[0]["period"] if rows else 0
        tab = {r["row"]: r for r in rows[1:]} if rows else {}
        for f in (fn, 0, 1, 51, 101, 102, 103, 104, 2715647):
            r = ht.run(["site", w["func"], cfg, tn, f])
            if r.get("rc") is None:
                return {"confirmed": False, "error": r}
            if r.get("sanitizer") or r["rc"] != 0:
                return {"confirmed": True, "observed": {"cmd": "site %s config=%d tn=%d fn=%d" % (w["func"], cfg, tn, f), "exit": r["rc"],
                                                        "sanitizer": r.get("sanitizer"), "stdout": r.get("stdout", "")[-300:], "stderr": r.get("stderr", "")[-300:]},
                        "expected": "no undefined behaviour in the frame lookup", "layout": i, "cmd": ht.cmd}
            done = [kv(l) for l in r.get("stdout", "").splitlines() if l.startswith("done ")]
            if done and "dir" in done[0] and period and (f % period) in tab:
                d, row = done[0]["dir"], tab[f % period]
                bad = {}
                if done[0].get("chan", -1) != row[d + "_chan"]:
                    bad["channel"] = [done[0].get("chan"), row[d + "_chan"]]
                if "bid" in done[0] and done[0]["bid"] != row[d + "_bid"]:
                    bad["bid"] = [done[0]["bid"], row[d + "_bid"]]
                if bad:
                    return {"confirmed": True, "observed": {"cmd": "site %s config=%d tn=%d fn=%d" % (w["func"], cfg, tn, f), "read": done[0]},
                            "expected": {"row fn mod period": f % period, "row": row}, "differs": bad, "layout": i, "cmd": ht.cmd}
    return {"confirmed": False, "observed": "no sanitizer report for layouts[%d]" % i, "expected": "same"}


# ====================================================================== negative controls (engine/cvc/selftest.py, tools/mutest.py)

class _WrongAhead(CM.MframeScheduleSet):
    """deliberately wrong: claims the block starts three frames after the scheduling run"""
    AHEAD = CM.SCHEDULE_AHEAD + 1


class _WrongLookup(CM.MframeLayout):
    """deliberately wrong: claims the first entry of that channel combination is returned whatever the timeslot"""

    def ensures(self, c, old, new, ret):
        m = c.memo
        r = c.E.last_return
        same_cfg = [c.a.config == x for x in m["cfgs"]]
        if r.block is None:
            return [("WRONG_first_of_the_combination", z3.Not(z3.Or(same_cfg)))]
        i = r.steps[0][1].t
        return [("WRONG_first_of_the_combination", z3.And(same_cfg[i], z3.Not(z3.Or(same_cfg[:i] + [z3.BoolVal(False)]))))]


class _WrongSite(CM.LookupSite):
    """deliberately wrong: claims the lookup reads row (fn + 1) mod period"""

    def ensures(self, c, old, new, ret):
        m = c.memo
        if not c.E.stopped or not m["period"]:
            return []
        return [("WRONG_row_is_fn_plus_1_mod_period", c.ret_locals.offset == (m["fn"] + 1) % m["period"])]


def _wrong_site(run):
    stu = sites_tu()
    sid, _ = CM.find_lookup_site(stu, "l1sched_pull_burst")
    dptr.verify(run, ID, stu, _WrongSite("l1sched_pull_burst", "br", sid, [4], "bid"))


WRONG_POSTS = [
    ("mframe_schedule_set: SCHEDULE_AHEAD + 1", lambda run: dptr.verify(run, ID, fw_tu(), _WrongAhead([13])), "every_entry_called_once_iff_triggered"),
    ("l1sched_mframe_layout: first entry of the combination, any timeslot", lambda run: dptr.verify(run, ID, trx_tu(), _WrongLookup()), "WRONG_first_of_the_combination"),
    ("l1sched_pull_burst: row fn+1", _wrong_site, "WRONG_row_is_fn_plus_1_mod_period"),
]
BASELINE_VIOLATIONS = ()       # H11 (NONE layout, period 0) is repaired in /repo: l1sched_configure_ts refuses to install it
_GUARD = ("\tif (ts->mf_layout->period == 0 || ts->mf_layout->frames == NULL) {\n\t\tts->mf_layout = NULL;\n\t\treturn -EINVAL;\n\t}\n")
MUTANTS = [
    (CM.SCHED_TRX, _GUARD, "", "l1sched_configure_ts_post"),                                             # H11 comes back
    (CM.SCHED_TRX, "\tif (ts->mf_layout->period == 0 || ts->mf_layout->frames == NULL) {\n\t\tts->mf_layout = NULL;\n",
     "\tif (ts->mf_layout->period == 0 || ts->mf_layout->frames == NULL) {\n", "l1sched_configure_ts_post.error_return_leaves"),
    (CM.MFRAME_SCHED, ".frame_nr = 51+36,", ".frame_nr = 51+32,", "agree_MF_TASK_SDCCH8_5_DL"),
    (CM.MFRAME_SCHED, "(l1s.current_time.fn + SCHEDULE_AHEAD) % si->modulo", "(l1s.current_time.fn + SCHEDULE_AHEAD + 1) % si->modulo", "mframe_schedule_set"),
    (CM.SCHED_MFRAME, "\t\tGSM_PCHAN_TCH_F, \"TCH/F+SACCH\",\n\t\t104,\t0x02,", "\t\tGSM_PCHAN_TCH_F, \"TCH/F+SACCH\",\n\t\t104,\t0x00,", "lookup_GSM_PCHAN_TCH_F"),
    (CM.SCHED_MFRAME, "\t\t102,\t0xff,\n\t\tM64_SDCCH8,", "\t\t101,\t0xff,\n\t\tM64_SDCCH8,", "agree_MF_TASK_SDCCH8_0"),
    (CM.SCHED_MFRAME, "M64(L1SCHED_SDCCH8_3) | M64(L1SCHED_SACCH8_3)", "M64(L1SCHED_SDCCH8_3)", "mask_4_frame_sdcch8"),
    (CM.SCHED_MFRAME, "\t\tif (~layouts[i].slotmask & (1 << tn))\n\t\t\tcontinue;\n", "", "l1sched_mframe_layout"),
    (CM.SCHED_TRX, "offset = bi->fn % ts->mf_layout->period;", "offset = (bi->fn + 1) % ts->mf_layout->period;", "l1sched_handle_rx_burst_post.row_is_fn_mod_period"),
    (CM.SCHED_MFRAME, "frame_sdcch8[102] = {\n\t/* dl_chan\t\tdl_bid\tul_chan\t\t\tul_bid */\n\t{ L1SCHED_SDCCH8_0,\t0,\tL1SCHED_SACCH8_5,\t0 },\n\t{ L1SCHED_SDCCH8_0,\t1,\tL1SCHED_SACCH8_5,\t1 },\n\t{ L1SCHED_SDCCH8_0,\t2,",
     "frame_sdcch8[102] = {\n\t/* dl_chan\t\tdl_bid\tul_chan\t\t\tul_bid */\n\t{ L1SCHED_SDCCH8_0,\t0,\tL1SCHED_SACCH8_5,\t0 },\n\t{ L1SCHED_SDCCH8_0,\t1,\tL1SCHED_SACCH8_5,\t1 },\n\t{ L1SCHED_SDCCH8_0,\t3,",
     "bid_cycle_4_frame_sdcch8_DL_L1SCHED_SDCCH8_0"),
]


def FUZZ_NATIVE(seed):
    """positive control of the replay machinery on the unchanged tree: the real compiled functions agree with the oracle
    (every task over one full cycle; every lookup config 0..15 x tn 0..7)"""
    fw = FW(fw_tu())
    with R.Harness(fw_harness(), fw_flags()) as h:
        for task, tid in sorted(fw.tasks.items(), key=lambda kv: kv[1]):
            got = fw_calls(h, tid, 0, MC.CYCLE + 1)
            if "error" in got or "sanitizer" in got:
                return {"task": task, "native": got.get("sanitizer") or got}
            for f in range(MC.CYCLE + 2):
                if got.get(f) != _fw_expected(fw, task, f):
                    return {"task": task, "fn": f, "observed": got.get(f), "expected": _fw_expected(fw, task, f)}
    r = replay_lookup_contract({})
    return r if r.get("confirmed") or r.get("error") else None

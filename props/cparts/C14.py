"""C14 (C side) - no datagram can crash trxcon's receive paths: all memory-safety / undefined-behaviour side conditions of
trx_ctrl_read_cb, trx_if_measure_rsp_cb and trx_data_rx_cb (trx_if.c, verbatim extraction) for EVERY datagram content and
length and every state of the pending-command list.  `./check cparts.C14` runs this part alone.
"""
import z3

from engine.common.core import Obligation, Cover, mval
from engine.cvc import frontend, contract as K, replay as R
from contracts.c import trx_if as CT

ID = "C14"
ENGINE = "CVC"
LEVEL = "proof"


def get_tu():
    return frontend.parse_extract(CT.TRX_IF_C, list(CT.CTRL_FUNCS) + ["trx_data_rx_cb"], CT.PRELUDE, decls=CT.CTRL_DECLS, includes=CT.INCLUDES)


def build_c(run):
    def data():
        tu = get_tu()
        e = tu.enum_by_name
        K.verify(run, ID, tu, CT.DataRxSafety(e["VERIF_EINVAL"], e["VERIF_ENOTSUP"], e["VERIF_TRXD_BUF_SIZE"]))
        run.extra["verbatim_extraction"] = tu.extraction
    K.sect(run, "trx_data_rx_cb", data)
    K.sect(run, "trx_if_measure_rsp_cb", lambda: K.verify(run, ID, get_tu(), CT.MeasureRspCb))
    K.sect(run, "trx_ctrl_read_cb", lambda: K.verify(run, ID, get_tu(), CT.CtrlReadCb))
    run.assume("representation invariant of trx->trx_ctrl_list: every queued struct trx_ctrl_msg is a live talloc object whose cmd[] "
               "holds a NUL-terminated string of 4..1022 octets (built by trx_ctrl_cmd with snprintf)")
    K.finish(run)


build = build_c


def witness_c(o, model):
    t = o.tag or {}
    w = {"func": t.get("func"), "clause": o.clause, "kind": o.kind, "case": t.get("case")}
    for k, term in (o.inputs or {}).items():
        try:
            if isinstance(term, tuple) and term[0] in ("array", "array_n"):
                n_ = term[2] if term[0] == "array" else min(max(mval(model, term[2]), 0), 1100)
                w[k] = [mval(model, z3.Select(term[1], i)) % 256 for i in range(n_)]
            else:
                w[k] = mval(model, term)
        except Exception as ex:
            w[k] = "?%r" % (ex,)
    return w


witness = witness_c


_MAIN = r"""
#include <sys/socket.h>
/* stubs of the library / upper layer (their contracts are assumptions of the check) */
void osmo_panic(const char *fmt, ...) { printf("osmo_panic\n"); fflush(stdout); abort(); }   /* OSMO_ASSERT of the code under test failed */
int verif_fsm_state_chg(struct osmo_fsm_inst *fi, uint32_t st) { fi->state = st; return 0; }
void verif_fsm_term(struct osmo_fsm_inst *fi, enum osmo_fsm_term_cause cause, void *data) { printf("fsm_term=%d\n", (int)cause); }
int talloc_free(void *p) { free(p); return 0; }
void osmo_timer_del(struct osmo_timer_list *t) { }
void osmo_timer_schedule(struct osmo_timer_list *t, int s, int us) { }
uint16_t gsm_freq102arfcn(uint16_t f, int ul) { return f; }
int trxcon_phyif_handle_rsp(void *priv, const struct trxcon_phyif_rsp *rsp) { printf("phyif_rsp type=%d\n", (int)rsp->type); return 0; }
int trxcon_phyif_handle_burst_ind(void *priv, const struct trxcon_phyif_burst_ind *bi) { printf("burst_ind\n"); return 0; }
int trxcon_phyif_handle_rts_ind(void *priv, const struct trxcon_phyif_rts_ind *rts) { return 0; }
static int hexbytes(const char *h, uint8_t *out) { int n = 0; unsigned v; while (h[0] && h[1] && sscanf(h, "%2x", &v) == 1) { out[n++] = v; h += 2; } return n; }
int main(int argc, char **argv)
{
	/* ctrl <dgram hex> [<cmd hex> ...]   |   data <dgram hex>   |   measure <resp hex>   (hex "-" = empty) */
	static uint8_t d[4096];
	int sv[2], i, n;
	struct trx_instance *trx = calloc(1, sizeof(*trx));
	struct osmo_fsm_inst *fi = calloc(1, sizeof(*fi));
	trx->fi = fi;
	INIT_LLIST_HEAD(&trx->trx_ctrl_list);
	if (socketpair(AF_UNIX, SOCK_DGRAM, 0, sv)) return 3;
	n = strcmp(argv[2], "-") ? hexbytes(argv[2], d) : 0;
	if (!strcmp(argv[1], "measure")) {
		char *resp = malloc(n + 1);
		memcpy(resp, d, n); resp[n] = 0;
		trx_if_measure_rsp_cb(trx, resp);
		free(resp);
		printf("done\n");
		return 0;
	}
	if (send(sv[1], d, n, 0) != n) return 4;
	if (!strcmp(argv[1], "data")) {
		trx->trx_ofd_data.fd = sv[0]; trx->trx_ofd_data.data = trx;
		printf("ret=%d\n", trx_data_rx_cb(&trx->trx_ofd_data, 1));
		return 0;
	}
	for (i = 3; i < argc; i++) {
		struct trx_ctrl_msg *tcm = calloc(1, sizeof(*tcm));
		int m = hexbytes(argv[i], (uint8_t *)tcm->cmd);
		tcm->cmd[m < 1023 ? m : 1023] = 0;
		tcm->critical = 1;
		llist_add_tail(&tcm->list, &trx->trx_ctrl_list);
	}
	trx->trx_ofd_ctrl.fd = sv[0]; trx->trx_ofd_ctrl.data = trx;
	printf("ret=%d\n", trx_ctrl_read_cb(&trx->trx_ofd_ctrl, 1));
	return 0;
}
"""


def harness(tu=None):
    tu = tu or get_tu()
    return tu.source_text + "\n" + _MAIN


def harness_flags():
    return frontend.extract_flags(CT.INCLUDES)


def hexs(bs):
    return "".join("%02x" % (b & 255) for b in bs) or "-"


def argv_of(w):
    func = w.get("func")
    if func == "trx_if_measure_rsp_cb":
        return ["measure", hexs([b for b in (w.get("resp") or []) if b][:1009])]
    d = list(w.get("dgram") or [])
    n = w.get("n", len(d))
    n = max(min(n if isinstance(n, int) else len(d), 2000), 0)      # harness buffer: 4096 octets
    d = (d + [0x20] * n)[:n]
    if func == "trx_data_rx_cb" and "dgram" not in w:
        d = [0] * 160
    if func == "trx_data_rx_cb":
        if "read.buf" in str(w.get("clause", "")):
            d = (d + [0x55] * 600)[:600]          # a datagram longer than the buffer: read() stores as much as it is allowed to
        return ["data", hexs(d[:1000])]
    argv = ["ctrl", hexs(d)]
    for k in (1, 2):
        cmd = w.get("cmd%d" % k)
        if cmd is not None:
            ln = w.get("cmdlen%d" % k, len(cmd))
            cmd = [b if b else 0x41 for b in cmd[:ln]]
            argv.append(hexs(cmd))
    return argv


def run_both(hs, argv):
    """run the ASan/UBSan and the MSan binary; -> (sanitizer findings, outputs)"""
    out = {}
    for name, h in hs.items():
        r = h.run(argv, timeout=30)
        if r.get("rc") is None:
            return None, r
        bad = r.get("sanitizer") or (("killed by signal / exit status %s" % r["rc"]) if r["rc"] not in (0,) else None)
        out[name] = {"finding": bad, "stdout": (r.get("stdout") or "")[:200], "stderr_head": (r.get("stderr") or "")[:400]}
    found = {k: v["finding"] for k, v in out.items() if v["finding"]}
    return found, out


def search_inputs(seed, clause):
    """seeded candidates around the TRXC response grammar, ordered by the obligation that failed: (inputs, marker the native
    finding must carry to count for THIS obligation)"""
    import random
    rnd = random.Random(seed)
    verbs = ["POWERON", "POWEROFF", "ECHO", "SETSLOT", "RXTUNE", "SETTA", "MEASURE"]

    def ctrl(d, c):
        return {"func": "trx_ctrl_read_cb", "dgram": list(d.encode()), "cmd1": list(c.encode())}
    if "pointer_arithmetic" in clause:
        # response without a status field: strchr() finds no space
        for v in verbs:
            yield ctrl("RSP " + v, "CMD " + v + " 1"), ("null pointer", "SEGV")
    elif "uninitialised_local(resp)" in clause:
        for v in verbs[:-1]:
            for t in (" x", " ", " -", " abc 0"):
                yield ctrl("RSP " + v + t, "CMD " + v), ("trx_ctrl_read_cb",)
    elif "measure_rsp_cb.resp" in clause:
        # RSP MEASURE shorter than 14 octets: buf + 14 lies beyond the terminator
        for t in (" 0", " 1", " 7"):
            yield ctrl("RSP MEASURE" + t, "CMD MEASURE 935000"), ("trx_if_measure_rsp_cb", "sscanf", "overflow")
    elif "uninitialised_local(freq10)" in clause:
        for r in ("", "x", " ", "-"):
            yield {"func": "trx_if_measure_rsp_cb", "resp": list(r.encode())}, ("trx_if_measure_rsp_cb",)
    elif "uninitialised_local(dbm)" in clause:
        for r in ("935000", "935000 ", "935000 x", "1"):
            yield {"func": "trx_if_measure_rsp_cb", "resp": list(r.encode())}, ("trxcon_phyif_handle_rsp", "trx_if_measure_rsp_cb")
    else:
        for k in range(30):
            v = rnd.choice(verbs)
            body = "RSP " + v + rnd.choice(["", " "]) + "".join(rnd.choice("0123456789 -x") for _ in range(rnd.randrange(0, 12)))
            yield ctrl(body, "CMD " + v), ()


def replay_c(payload):
    """Native replay under ASan+UBSan and under MSan (uninitialised reads).  The abstract model of sscanf does not tie `assigns nothing`
    to the text, so when the model's datagram does not misbehave natively a seeded search over malformed TRXC responses follows
    (`found_by: search`)."""
    import os
    w = payload["inputs"]
    func = w.get("func")
    tu = get_tu()
    with R.Harness(harness(tu), harness_flags()) as ha, R.Harness(harness(tu), harness_flags(), san=R.MSAN) as hm:
        hs = {"asan_ubsan": ha, "msan": hm}
        argv = argv_of(w)
        found, out = run_both(hs, argv)
        if found is None:
            return {"confirmed": False, "error": "harness build failed", "detail": out}
        if found:
            return {"confirmed": True, "found_by": "model", "observed": found, "expected": "no sanitizer report, no crash", "argv": argv[:2] + [a[:80] for a in argv[2:]],
                    "detail": out, "cmd": ha.cmd}
        tried = 0
        for inp, markers in search_inputs(int(os.environ.get("VERIF_SEED", "0") or 0), payload.get("clause") or w.get("clause") or ""):
            inp = dict(inp)
            if "cmd1" in inp:
                inp["cmdlen1"] = len(inp["cmd1"])
                inp["n"] = len(inp["dgram"])
            a2 = argv_of(inp)
            tried += 1
            f2, o2 = run_both(hs, a2)
            if f2 and markers and not any(mk in str(f2) for mk in markers):
                continue            # some other defect fired on this input: not evidence for this obligation
            if f2:
                text = {k: bytes(inp[k]).decode("latin1") for k in ("dgram", "cmd1", "resp") if k in inp}
                return {"confirmed": True, "found_by": "search (the model's datagram did not misbehave natively; %d seeded malformed responses tried)" % tried,
                        "observed": f2, "expected": "no sanitizer report, no crash", "failing_inputs": text, "detail": o2, "cmd": ha.cmd}
        return {"confirmed": False, "observed": out, "expected": "no sanitizer report, no crash",
                "note": "model input and %d seeded inputs ran clean" % tried}


replay = replay_c


# ------------------------------------------------------------------ negative controls
BASELINE_VIOLATIONS = ()       # the four findings of the first run (H10 and friends) are repaired in /repo (ca51b88)
MUTANTS = [
    (CT.TRX_IF_C, "read_len = read(ofd->fd, buf, sizeof(buf) - 1);", "read_len = read(ofd->fd, buf, sizeof(buf));", "trx_ctrl_read_cb_store.in_bounds"),
    (CT.TRX_IF_C, "\tbuf[read_len] = '\\0';\n", "", "trx_ctrl_read_cb_str"),
    (CT.TRX_IF_C, "read_len = read(ofd->fd, buf, sizeof(buf));\n\tif (read_len <= 0) {\n\t\tstrerror_r", "read_len = read(ofd->fd, buf, sizeof(buf) + 64);\n\tif (read_len <= 0) {\n\t\tstrerror_r", "trx_data_rx_cb_read.buf"),
]

"""C07 - frequency hopping follows 3GPP TS 45.002 6.2.3 in simulator (Python) and firmware (C)."""
import os, importlib.util
from props._combine import make
_c = "props.cparts.C07" if os.path.exists(os.path.join(os.path.dirname(__file__), "cparts", "C07.py")) else None
make(globals(), "C07", py="props.pyparts.C07", c=_c)

"""C10 - forwarded bursts carry faithful bits and correct simulated radio metadata.

Functions under contract:
  data_msg.TxMsg.trans(ver)                new RxMsg: fn, tn copied, ver = own or requested; burst'[i] = -127 if burst[i] != 0 else 127,
                                           same length; burst None -> nope_ind
  fake_trx.FakeTRX.toa256 / rssi / ci      base when threshold == 0, a value in [base-thr, base+thr] when > 0; ValueError iff thr < 0
  gsm_shared.TrainingSeqGMSK.pick(burst)   (len 148) first member in definition order whose sequence stands at its burst type's
                                           offset (NB 61, AB 8, SB 42), None iff no member does
  fake_trx.FakeTRX._handle_data_msg_v1     C/I window; modulation by burst length; TSC/TSC set of the sequence present (uses pick's contract)
  fake_trx.FakeTRX.handle_data_msg         (not suppressed, thresholds >= 0) exactly one datagram iff the computed message is valid (C13),
     + Transceiver.handle_data_msg          on the recipient's own DATA link, legacy=True, == layout.enc(msg): ver/fn/tn/burst of the
                                           forwarded message, toa256 = window(toa) - 256*src.ta, rssi = src.tx_power_base - src.tx_att_base
                                           - src_msg.pwr - 110 or the FAKE_RSSI window, v1 fields as above
  rand_burst_gen.RandBurstGen.gen_nb/gen_sb/gen_ab(tsc)   148 bits, tail/guard bits 0, the given training sequence at its offset
Lemma C10/gen: on a generated burst, pick() returns a member whose sequence is present; it is the generated one whenever no
earlier member also matches (stated side condition).
"""
import z3
from engine.common.core import Obligation, Cover, mval
from engine.pyvc.values import *
from engine.pyvc import models
from engine.pyvc.harness import toolkit, raw, where, new_engine, run_paths, path_obligations, register_fn, note_engine, qualname, par_cases, exc_note, sect
from contracts.py import msgs, trx as T, radio as R
from contracts.py.common import view_of, snapshot, frame_obligations, attr
from spec import valid_msg as V

ID = "C10"
ENGINE = "PyVC"
LEVEL = "proof"
Z = models.zint


def build(run, prop=ID):
    E = new_engine()
    sect(run, build_trans, run, prop, E)
    sect(run, build_windows, run, prop, E)
    sect(run, build_pick, run, prop, E)
    sect(run, build_v1, run, prop, E)
    sect(run, build_handle, run, prop, E)
    sect(run, build_gen, run, prop, E)
    note_engine(run, E)
    run.assume("random.randint(a, b) returns some integer in [a, b] (ValueError when a > b)")
    run.assume("FAKE_* thresholds >= 0 on the non-suppressed path (a negative threshold is C14's concern: the getter raises)")
    run.assume("training sequence bit patterns in gsm_shared.TrainingSeqGMSK are taken as given data (3GPP TS 45.002 tables not available offline)")
    run.extra["paths_explored"] = E.stats["paths"]


# ------------------------------------------------------------------ TxMsg.trans

def build_trans(run, prop, E):
    dm = toolkit("data_msg")
    f = raw(dm.TxMsg, "trans")
    register_fn(run, f)
    register_fn(run, raw(dm.Msg, "ubit2sbit"), "inlined into trans")
    E.summaries = {}
    k = z3.Int("k!skolem")
    for vcase in ("None", "int"):
        def setup(E):
            m = msgs.mk_msg(E, "tx", None)
            return {"self": m, "pre": snapshot(m)}

        def inv(E, ctx, vcase=vcase):
            return E.call(f, [ctx["self"], None if vcase == "None" else SInt(z3.Int("ver_req"))])
        v = msgs.view("tx", None)
        for p, ctx, out in run_paths(E, setup, inv):
            tag = {"what": "trans", "vcase": vcase}
            cs = "ver=" + vcase
            if out[0] == "raise":
                run.add(Obligation(prop, qualname(f), "never_raises", p.pc, z3.BoolVal(False), kind="noexc", note=exc_note(out[1]), case=cs + "," + out[1].cls.__name__, where=where(f), tag=tag))
                continue
            r = out[1]
            ok_type = isinstance(r, SObj) and r.cls is dm.RxMsg
            run.add(Obligation(prop, qualname(f), "returns_RxMsg", p.pc, z3.BoolVal(ok_type), kind="post", case=cs, where=where(f), tag=tag))
            if not ok_type:
                continue
            s = ctx["self"]
            run.add(Obligation(prop, qualname(f), "fn_tn_copied", p.pc,
                               z3.BoolVal(attr(r, "fn") is s.attrs["fn"] and attr(r, "tn") is s.attrs["tn"]), kind="post", case=cs, where=where(f), tag=tag))
            want_ver = v.ver if vcase == "None" else z3.Int("ver_req")
            rv = attr(r, "ver")
            run.add(Obligation(prop, qualname(f), "version_of_recipient", p.pc,
                               Z(rv) == want_ver if isinstance(rv, (int, SInt)) else z3.BoolVal(False), kind="post", case=cs, where=where(f), tag=tag))
            b = attr(r, "burst")
            nope = attr(r, "nope_ind")
            nz = models.to_z3bool(nope) if isinstance(nope, (bool, SBool)) else z3.BoolVal(False)
            if b is None:
                run.add(Obligation(prop, qualname(f), "no_burst_iff_nope", p.pc, z3.And(v.burst.isnone, nz), kind="post", case=cs, where=where(f), tag=tag))
            elif isinstance(b, SSeq):
                run.add(Obligation(prop, qualname(f), "no_burst_iff_nope", p.pc, z3.And(z3.Not(v.burst.isnone), z3.Not(nz)), kind="post", case=cs, where=where(f), tag=tag))
                run.add(Obligation(prop, qualname(f), "burst_length_kept", p.pc, z3.And(Z(b.length) == v.burst.val, z3.BoolVal(b.kind == "array_b")),
                                   kind="post", case=cs, where=where(f), tag=tag))
                run.add(Obligation(prop, qualname(f), "bits_sign_faithful_full_confidence", p.pc + [k >= 0, k < v.burst.val],
                                   Z(b.get(k)) == z3.If(z3.Select(v.burst_arr, k) != 0, -127, 127), kind="post", case=cs, where=where(f), tag=tag))
            else:
                run.add(Obligation(prop, qualname(f), "burst_is_sequence", p.pc, z3.BoolVal(False), kind="post", case=cs, where=where(f), tag=tag))
            run.add(*frame_obligations(prop, qualname(f), p, s, ctx["pre"], cs, where(f)))


# ------------------------------------------------------------------ toa256 / rssi / ci

def build_windows(run, prop, E):
    ft = toolkit("fake_trx")
    E.summaries = {}
    for name, base, thr in (("toa256", "toa256_base", "toa256_rand_threshold"), ("rssi", "rssi_base", "rssi_rand_threshold"),
                            ("ci", "ci_base", "ci_rand_threshold")):
        g = raw(ft.FakeTRX, name)
        register_fn(run, g)
        b, t = T.fz("t.", base), T.fz("t.", thr)

        def setup(E):
            tr = T.mk_trx(E, "t.")
            return {"self": tr, "pre": snapshot(tr)}
        for p, ctx, out in run_paths(E, setup, lambda E, ctx, g=g: E.call(g, [ctx["self"]])):
            tag = {"what": "window", "name": name}
            if out[0] == "raise":
                goal = z3.And(t < 0, z3.BoolVal(issubclass(out[1].cls, ValueError)))
                run.add(Obligation(prop, qualname(g), "raises_ValueError_iff_negative_threshold", p.pc, goal, kind="post", case=out[1].cls.__name__, where=where(g), tag=tag))
                continue
            r = out[1]
            rz = Z(E.as_int(r)) if isinstance(r, (int, SInt)) else None
            if rz is None:
                run.add(Obligation(prop, qualname(g), "returns_int", p.pc, z3.BoolVal(False), kind="post", where=where(g), tag=tag))
                continue
            run.add(Obligation(prop, qualname(g), "raises_ValueError_iff_negative_threshold", p.pc, t >= 0, kind="post", case="returns", where=where(g), tag=tag))
            run.add(Obligation(prop, qualname(g), "value_in_window", p.pc, z3.If(t == 0, rz == b, z3.And(rz >= b - t, rz <= b + t)), kind="post", where=where(g), tag=tag))
            run.add(*frame_obligations(prop, qualname(g), p, ctx["self"], ctx["pre"], "", where(g)))
        run.add(Cover(prop, qualname(g), "cover_random", [t > 0]))


# ------------------------------------------------------------------ TrainingSeqGMSK.pick

def mk_burst148(E, name="b", lo=0, hi=255):
    return models.fresh_seq(E, name, "bytearray", 148, lo, hi)


def build_pick(run, prop, E):
    gs = toolkit("gsm_shared")
    f = raw(gs.TrainingSeqGMSK, "pick")
    register_fn(run, f)
    E.summaries = {}
    arr = z3.Array("b", z3.IntSort(), z3.IntSort())
    spec = R.pick_spec(lambda i: z3.Select(arr, i))
    conds = {(ts.name if ts is not None else None): c for ts, c in spec}
    seen = set()
    for p, ctx, out in run_paths(E, lambda E: {"b": mk_burst148(E)}, lambda E, ctx: E.call(f, [gs.TrainingSeqGMSK, ctx["b"]])):
        tag = {"what": "pick"}
        if out[0] == "raise":
            run.add(Obligation(prop, qualname(f), "never_raises", p.pc, z3.BoolVal(False), kind="noexc", note=exc_note(out[1]), case=out[1].cls.__name__, where=where(f), tag=tag))
            continue
        r = out[1]
        nm = r.name if isinstance(r, gs.TrainingSeqGMSK) else (None if r is None else "?")
        seen.add(nm)
        goal = conds.get(nm, z3.BoolVal(False))
        run.add(Obligation(prop, qualname(f), "first_member_present_at_its_offset", p.pc, goal, kind="post", case="result=%s" % nm, where=where(f), tag=dict(tag, result=nm)))
    for nm, c in conds.items():
        run.add(Cover(prop, qualname(f), "cover_result", [c], case="result=%s" % nm))
        if nm not in seen:
            run.add(Obligation(prop, qualname(f), "every_outcome_reachable", [], z3.BoolVal(False), kind="cover", case="result=%s" % nm, where=where(f)))
    # the tables the spec relies on: offsets by burst type as documented (NB 61, AB 8, SB 42), tsc 0..7, tsc_set 0
    okmeta = all(0 <= ts.tsc <= 7 and ts.tsc_set == 0 and len(ts.seq) == {"NORMAL": 26, "ACCESS": 41, "SYNC": 64}[ts.bt.name] for ts in gs.TrainingSeqGMSK)
    run.add(Obligation(prop, "gsm_shared.TrainingSeqGMSK", "member_metadata", [], z3.BoolVal(okmeta), kind="table", where="src/target/trx_toolkit/gsm_shared.py", tag={"what": "tsmeta"}))


# ------------------------------------------------------------------ _handle_data_msg_v1

def build_v1(run, prop, E):
    ft = toolkit("fake_trx")
    dm = toolkit("data_msg")
    f = raw(ft.FakeTRX, "_handle_data_msg_v1")
    register_fn(run, f)
    E.summaries = {"gsm_shared.TrainingSeqGMSK.pick": R.pick_summary, "fake_trx.FakeTRX.ci": R.window_summary("ci_base", "ci_rand_threshold")}
    cb, ct = T.fz("t.", "ci_base"), T.fz("t.", "ci_rand_threshold")
    for blen in (148, 444):
        cs = "len=%d" % blen

        def setup(E, blen=blen):
            tr = T.mk_trx(E, "t.")
            E.assume(ct >= 0)
            sm = SObj(dm.TxMsg, {"burst": models.fresh_seq(E, "sb", "bytearray", blen, 0, 255), "fn": 0, "tn": 0, "pwr": 0, "ver": 0})
            m = SObj(dm.RxMsg, {"fn": 0, "tn": 0, "ver": 1})
            return {"self": tr, "sm": sm, "m": m, "pre": snapshot(tr)}
        arr = z3.Array("sb", z3.IntSort(), z3.IntSort())
        for p, ctx, out in run_paths(E, setup, lambda E, ctx: E.call(f, [ctx["self"], ctx["sm"], ctx["m"]])):
            tag = {"what": "v1", "blen": blen}
            run.add(*path_obligations(run, prop, f, p, cs, tag=tag))
            if out[0] == "raise":
                run.add(Obligation(prop, qualname(f), "never_raises", p.pc, z3.BoolVal(False), kind="noexc", note=exc_note(out[1]), case=cs + "," + out[1].cls.__name__, where=where(f), tag=tag))
                continue
            m = ctx["m"]
            ci = m.attrs.get("ci")
            run.add(Obligation(prop, qualname(f), "ci_in_window", p.pc,
                               z3.If(ct == 0, Z(ci) == cb, z3.And(Z(ci) >= cb - ct, Z(ci) <= cb + ct)) if isinstance(ci, (int, SInt)) else z3.BoolVal(False),
                               kind="post", case=cs, where=where(f), tag=tag))
            want_mod = dm.Modulation.ModGMSK if blen == 148 else dm.Modulation.Mod8PSK
            run.add(Obligation(prop, qualname(f), "modulation_by_burst_length", p.pc, z3.BoolVal(m.attrs.get("mod_type") is want_mod), kind="post", case=cs, where=where(f), tag=tag))
            tsc, tset = m.attrs.get("tsc"), m.attrs.get("tsc_set")
            if not isinstance(tsc, (int, SInt)) or not isinstance(tset, (int, SInt)):
                run.add(Obligation(prop, qualname(f), "tsc_fields_set", p.pc, z3.BoolVal(False), kind="post", case=cs, where=where(f), tag=tag))
            elif blen == 148:
                run.add(Obligation(prop, qualname(f), "tsc_of_sequence_present", p.pc, R.v1_tsc_relation(lambda i: z3.Select(arr, i), Z(tsc), Z(tset)),
                                   kind="post", case=cs, where=where(f), tag=tag))
            else:
                run.add(Obligation(prop, qualname(f), "tsc_zero_for_8psk", p.pc, z3.And(Z(tsc) == 0, Z(tset) == 0), kind="post", case=cs, where=where(f), tag=tag))
            run.add(*frame_obligations(prop, qualname(f), p, ctx["self"], ctx["pre"], cs, where(f)))


# ------------------------------------------------------------------ handle_data_msg (not suppressed)

def build_handle(run, prop, E):
    ft = toolkit("fake_trx")
    tr_mod = toolkit("transceiver")
    h = raw(ft.FakeTRX, "handle_data_msg")
    register_fn(run, h)
    register_fn(run, raw(tr_mod.Transceiver, "handle_data_msg"), "inlined into FakeTRX.handle_data_msg")
    register_fn(run, raw(ft.FakeTRX, "tx_power"), "inlined")
    from props.C18 import sim_drop_summary
    E.summaries = dict(R.radio_summaries())
    E.summaries.update({"data_if.DATAInterface.send_msg": T.send_msg_summary, "fake_trx.FakeTRX.sim_burst_drop": sim_drop_summary})
    amt, per, muted = T.fz("t.", "burst_drop_amount"), T.fz("t.", "burst_drop_period"), T.fb("t.", "rf_muted")
    fn, tn, ver, nope_in = T.fz("x.", "fn"), T.fz("x.", "tn"), T.fz("x.", "ver"), T.fb("x.", "nope")
    suppressed = z3.Or(muted, nope_in, z3.And(amt > 0, fn % per == 0))
    thr_ok = z3.And(T.fz("t.", "toa256_rand_threshold") >= 0, T.fz("t.", "rssi_rand_threshold") >= 0, T.fz("t.", "ci_rand_threshold") >= 0)
    tb, tt = T.fz("t.", "toa256_base"), T.fz("t.", "toa256_rand_threshold")
    rb, rt = T.fz("t.", "rssi_base"), T.fz("t.", "rssi_rand_threshold")
    cb, ct = T.fz("t.", "ci_base"), T.fz("t.", "ci_rand_threshold")
    fake_rssi = T.fb("t.", "fake_rssi_enabled")
    s_pwr, s_att, s_ta = T.fz("s.", "tx_power_base"), T.fz("s.", "tx_att_base"), T.fz("s.", "ta")
    sm_pwr = z3.Int("sm.pwr")

    def setup(E):
        t = T.mk_trx(E, "t.")
        s = T.mk_trx(E, "s.", name="SRC")
        m = T.mk_rx_from_trans(E, "x.")
        sm = msgs.mk_msg(E, "tx", None, pfx="sm.")
        E.assume(V.valid_tx(msgs.view("tx", None, pfx="sm.")))
        E.assume(z3.Int("sm.burst.len") == z3.Int("x.burst.len"))
        E.assume(thr_ok)
        E.assume(z3.Not(suppressed))
        return {"self": t, "src": s, "msg": m, "sm": sm, "pre": snapshot(t), "spre": snapshot(s), "burst": m.attrs["burst"].val}

    def inv(E, ctx):
        E.call(h, [ctx["self"], ctx["src"], ctx["sm"], ctx["msg"]])
        return (list(E.ghost.get("sent_views", [])), list(E.ghost.get("refused", [])))

    def window(x, b, t):
        return z3.If(t == 0, x == b, z3.And(x >= b - t, x <= b + t))
    smarr = z3.Array("sm.burst", z3.IntSort(), z3.IntSort())
    n_sent = 0
    for p, ctx, out in run_paths(E, setup, inv):
        tag = {"what": "handle"}
        run.add(*path_obligations(run, prop, h, p, "", tag=tag))
        if out[0] == "raise":
            run.add(Obligation(prop, qualname(h), "never_raises", p.pc, z3.BoolVal(False), kind="noexc", note=exc_note(out[1]), case=out[1].cls.__name__, where=where(h), tag=tag))
            continue
        sent, refused = out[1]
        t, s = ctx["self"], ctx["src"]
        if len(sent) + len(refused) != 1:
            run.add(Obligation(prop, qualname(h), "exactly_one_send_attempt", p.pc, z3.BoolVal(False), kind="post", where=where(h), tag=tag))
            continue
        if sent:
            n_sent += 1
            link, v, legacy = sent[0]
        else:
            link, v = refused[0]
            legacy = True
        def ob(clause, goal, kind="post"):
            run.add(Obligation(prop, qualname(h), clause, p.pc, goal, kind=kind, where=where(h), tag=tag))
        ob("on_own_data_link_with_legacy_padding", z3.BoolVal(link is t.attrs["data_if"] and legacy is True))
        ob("keeps_version_fn_tn", z3.And(v.ver == ver, v.fn.val == fn, v.tn.val == tn, z3.Not(v.fn.isnone), z3.Not(v.tn.isnone)))
        ob("keeps_burst_bits", z3.And(z3.BoolVal(v.burst_seq is ctx["burst"]), z3.Not(v.burst.isnone), z3.Not(v.nope)))
        ob("toa256_is_window_minus_256_ta", z3.And(z3.Not(v.toa256.isnone), window(v.toa256.val + 256 * s_ta, tb, tt)))
        ob("rssi_formula_or_fake_window", z3.And(z3.Not(v.rssi.isnone),
                                                 z3.If(fake_rssi, window(v.rssi.val, rb, rt), v.rssi.val == s_pwr - s_att - sm_pwr - 110)))
        mn = V.mod_name(v.mod)
        ob("v1_ci_window_and_modulation", z3.Implies(ver == 1, z3.And(z3.Not(v.ci.isnone), window(v.ci.val, cb, ct),
                                                                      z3.BoolVal(mn in ("ModGMSK", "Mod8PSK")),
                                                                      v.burst.val == (V.MOD_TABLE[mn][1] if mn else -1))))
        if mn == "ModGMSK":
            ob("v1_tsc_of_sequence_present", z3.Implies(ver == 1, z3.And(z3.Not(v.tsc.isnone), z3.Not(v.tsc_set.isnone),
                                                                            R.v1_tsc_relation(lambda i: z3.Select(smarr, i), v.tsc.val, v.tsc_set.val))))
        ob("frame_recipient_state_unchanged", z3.BoolVal(all(t.attrs.get(k) is ctx["pre"][k][0] for k in ctx["pre"])), kind="frame")
        ob("frame_sender_state_unchanged", z3.BoolVal(all(s.attrs.get(k) is ctx["spre"][k][0] for k in ctx["spre"])), kind="frame")
    if n_sent == 0:
        run.add(Obligation(prop, qualname(h), "some_path_sends", [], z3.BoolVal(False), kind="cover", where=where(h)))
    run.add(Cover(prop, qualname(h), "cover_pre", [T.class_invariant("t."), thr_ok, z3.Not(suppressed), fn >= 0]))


# ------------------------------------------------------------------ burst generator

def build_gen(run, prop, E):
    rb = toolkit("rand_burst_gen")
    gs = toolkit("gsm_shared")
    E.summaries = {}
    G = rb.RandBurstGen
    layouts = {"gen_nb": ("NORMAL", [(0, 3), (145, 148)]), "gen_sb": ("SYNC", [(0, 3), (145, 148)]),
               "gen_ab": ("ACCESS", [(0, 8), (85, 148)])}
    cases = [(g, ts) for g, (bt, _z) in layouts.items() for ts in gs.TrainingSeqGMSK if ts.bt.name == bt]
    for g in layouts:
        register_fn(run, raw(G, g))

    def one(case):
        g, ts = case
        f = raw(G, g)
        bt, zeros = layouts[g]
        obls = []
        cs = "%s(%s)" % (g, ts.name)
        for p, ctx, out in run_paths(E, lambda E: {"self": SObj(G, {})}, lambda E, ctx: E.call(f, [ctx["self"], ts])):
            tag = {"what": "gen", "gen": g, "ts": ts.name}
            if out[0] == "raise" or not isinstance(out[1], SSeq):
                obls.append(Obligation(prop, qualname(f), "returns_burst", p.pc, z3.BoolVal(False), kind="post", case=cs, where=where(f), tag=tag))
                continue
            b = out[1]
            obls.append(Obligation(prop, qualname(f), "length_148_bits", p.pc, z3.And(Z(b.length) == 148, z3.BoolVal(b.kind == "bytearray")), kind="post", case=cs, where=where(f), tag=tag))
            if not (isinstance(b.length, int) and b.length == 148):
                continue
            bits01 = z3.And([z3.Or(Z(b.get(i)) == 0, Z(b.get(i)) == 1) for i in range(148)])
            obls.append(Obligation(prop, qualname(f), "all_bits_binary", p.pc, bits01, kind="post", case=cs, where=where(f), tag=tag))
            zs = z3.And([Z(b.get(i)) == 0 for (lo, hi) in zeros for i in range(lo, hi)])
            obls.append(Obligation(prop, qualname(f), "tail_and_guard_bits_zero", p.pc, zs, kind="post", case=cs, where=where(f), tag=tag))
            obls.append(Obligation(prop, qualname(f), "training_sequence_at_offset", p.pc, R.occurs(ts, b.get), kind="post", case=cs, where=where(f), tag=tag))
            # lemma C10/gen: pick() on this burst finds a present sequence; it is `ts` unless an earlier member also matches
            spec = R.pick_spec(b.get)
            earlier = []
            for m_, c in spec:
                if m_ is ts:
                    break
                earlier.append(R.occurs(m_, b.get))
            none_c = [c for m_, c in spec if m_ is None][0]
            obls.append(Obligation(prop, "lemma.gen_pick", "pick_is_not_None", p.pc, z3.Not(none_c), kind="lemma", case=cs, tag=tag))
            mine = [c for m_, c in spec if m_ is ts][0]
            obls.append(Obligation(prop, "lemma.gen_pick", "pick_is_generated_ts_unless_earlier_member_matches", p.pc,
                                   z3.Or(mine, z3.Or(earlier) if earlier else z3.BoolVal(False)), kind="lemma", case=cs, tag=tag))
        return obls
    par_cases(run, E, cases, one)
    run.fn("lemma.gen_pick", "spec (lemma over gen_* and pick contracts)", 0, "generator output is recognised by pick")
    # frequency-correction and dummy bursts: fixed content
    f = raw(G, "gen_fb")
    register_fn(run, f)
    for p, ctx, out in run_paths(E, lambda E: {"self": SObj(G, {})}, lambda E, ctx: E.call(f, [ctx["self"]])):
        b = out[1] if out[0] == "return" else None
        ok = isinstance(b, SSeq) and isinstance(b.length, int) and b.length == 148 and all(b.get(i) == 0 for i in range(148))
        run.add(Obligation(prop, qualname(f), "148_zero_bits", p.pc, z3.BoolVal(bool(ok)), kind="post", where=where(f), tag={"what": "fb"}))
    db = list(G.db_bits)
    run.add(Obligation(prop, "rand_burst_gen.RandBurstGen.db_bits", "dummy_burst_148_binary", [], z3.BoolVal(len(db) == 148 and set(db) <= {0, 1}),
                       kind="table", where="src/target/trx_toolkit/rand_burst_gen.py", tag={"what": "db"}))


# ------------------------------------------------------------------ witness / replay

def witness(o, model):
    t = dict(o.tag or {}) if isinstance(o.tag, dict) else {}
    what = t.get("what")
    if what == "trans":
        f = msgs.concrete_fields(model, "tx", None)
        t["msg"] = f
        t["ver_req"] = mval(model, z3.Int("ver_req")) if t.get("vcase") == "int" else None
    elif what in ("window", "handle", "v1"):
        for nme in ["t." + x for x in T.INT_FIELDS] + ["s." + x for x in T.INT_FIELDS] + ["x.fn", "x.tn", "x.ver", "sm.pwr", "x.burst.len"]:
            t[nme] = mval(model, z3.Int(nme))
        for nme in ("t.fake_rssi_enabled",):
            t[nme] = mval(model, z3.Bool(nme))
        arr = z3.Array("sm.burst" if what == "handle" else "sb", z3.IntSort(), z3.IntSort())
        n = t.get("blen") or t["x.burst.len"]
        if n in (148, 444):
            t["bits"] = [min(255, max(0, mval(model, z3.Select(arr, i)))) for i in range(n)]
    elif what == "pick":
        arr = z3.Array("b", z3.IntSort(), z3.IntSort())
        t["bits"] = [min(255, max(0, mval(model, z3.Select(arr, i)))) for i in range(148)]
    return t


def native_pick_spec(bits):
    gs = toolkit("gsm_shared")
    for ts in gs.TrainingSeqGMSK:
        off = R.TS_OFFSET[ts.bt.name]
        if list(bits[off:off + len(ts.seq)]) == list(ts.seq):
            return ts
    return None


def replay(payload):
    from contracts.py.native import native_trx
    f = payload["inputs"]
    what = f.get("what")
    dm = toolkit("data_msg")
    gs = toolkit("gsm_shared")
    if what == "trans":
        m = msgs.build_native(f["msg"])
        r = m.trans(f["ver_req"])
        exp_ver = m.ver if f["ver_req"] is None else f["ver_req"]
        ok = r.fn == m.fn and r.tn == m.tn and r.ver == exp_ver
        if m.burst is None:
            ok = ok and r.burst is None and r.nope_ind
        else:
            ok = ok and list(r.burst) == [(-127 if b else 127) for b in m.burst] and not r.nope_ind
        return {"confirmed": not ok, "observed": [r.fn, r.tn, r.ver, list(r.burst)[:8] if r.burst is not None else None], "expected": "fn/tn/ver kept, bits +-127"}
    if what == "pick":
        got = gs.TrainingSeqGMSK.pick(bytearray(f["bits"]))
        exp = native_pick_spec(f["bits"])
        return {"confirmed": got is not exp, "observed": str(got), "expected": str(exp)}
    if what == "window":
        t = native_trx()
        for k in T.INT_FIELDS:
            setattr(t, k, f["t." + k])
        name = f["name"]
        b, thr = {"toa256": (t.toa256_base, t.toa256_rand_threshold), "rssi": (t.rssi_base, t.rssi_rand_threshold), "ci": (t.ci_base, t.ci_rand_threshold)}[name]
        try:
            got = getattr(t, name)
            ok = thr >= 0 and (got == b if thr == 0 else b - thr <= got <= b + thr)
        except ValueError:
            got, ok = "ValueError", thr < 0
        return {"confirmed": not ok, "observed": got, "expected": "window(%d, %d)" % (b, thr)}
    if what in ("handle", "v1"):
        from array import array
        t, s = native_trx("T", 5700), native_trx("S", 6700)
        for k in T.INT_FIELDS:
            setattr(t, k, f["t." + k])
            setattr(s, k, f["s." + k])
        t.fake_rssi_enabled = f.get("t.fake_rssi_enabled", False)
        bits = f.get("bits") or [0] * 148
        sm = dm.TxMsg(fn=f["x.fn"], tn=f["x.tn"], ver=f["x.ver"])
        sm.pwr, sm.burst = f["sm.pwr"], bytearray(bits)
        m = sm.trans(ver=f["x.ver"])
        if what == "v1":
            m.ver = 1
            t._handle_data_msg_v1(sm, m)
            ts = native_pick_spec(bits) if len(bits) == 148 else None
            exp = (ts.tsc if ts else 0, ts.tsc_set if ts else 0, "ModGMSK" if len(bits) == 148 else "Mod8PSK")
            got = (m.tsc, m.tsc_set, m.mod_type.name if m.mod_type else None)
            okc = (m.ci == t.ci_base) if t.ci_rand_threshold == 0 else abs(m.ci - t.ci_base) <= t.ci_rand_threshold
            return {"confirmed": got != exp or not okc, "observed": [got, m.ci], "expected": [exp, "ci window"]}
        t.burst_drop_amount = 0
        try:
            t.handle_data_msg(s, sm, m)
        except Exception as e:
            return {"confirmed": True, "observed": "raises %s" % type(e).__name__, "expected": "no exception"}
        sent = t.data_if.sock.sent
        exp_rssi = None if t.fake_rssi_enabled else s.tx_power_base - s.tx_att_base - sm.pwr - 110
        if not sent:
            # allowed only when the computed message is invalid
            bad = (exp_rssi is not None and not (-120 <= exp_rssi <= -47))
            lo = t.toa256_base - t.toa256_rand_threshold - 256 * s.ta
            hi = t.toa256_base + t.toa256_rand_threshold - 256 * s.ta
            bad = bad or lo < -32768 or hi > 32767 or t.fake_rssi_enabled or f["x.ver"] == 1
            return {"confirmed": not bad, "observed": "nothing sent", "expected": "one datagram unless out of range"}
        r = dm.RxMsg()
        r.parse_msg(bytearray(sent[0][0]))
        ok = (r.fn, r.tn, r.ver) == (sm.fn, sm.tn, f["x.ver"]) and list(r.burst) == [(-127 if b else 127) for b in bits]
        ok = ok and (exp_rssi is None or r.rssi == exp_rssi)
        ok = ok and abs(r.toa256 + 256 * s.ta - t.toa256_base) <= t.toa256_rand_threshold
        if f["x.ver"] == 0:
            ok = ok and len(sent[0][0]) == 8 + len(bits) + 2 and sent[0][0][-2:] == b"\0\0"
        else:
            ts = native_pick_spec(bits) if len(bits) == 148 else None
            ok = ok and (r.tsc, r.tsc_set) == ((ts.tsc, ts.tsc_set) if ts else (0, 0))
        return {"confirmed": not ok, "observed": [r.fn, r.tn, r.ver, r.rssi, r.toa256, r.tsc, r.tsc_set], "expected": "per C10 formulae"}
    if what in ("gen", "fb", "db", "tsmeta"):
        # generator output has no input besides the training sequence and the random source: sample the real generator
        rb = toolkit("rand_burst_gen")
        g = rb.RandBurstGen()
        bad = []
        if what == "tsmeta":
            for ts in gs.TrainingSeqGMSK:
                if not (0 <= ts.tsc <= 7 and ts.tsc_set == 0 and len(ts.seq) == {"NORMAL": 26, "ACCESS": 41, "SYNC": 64}[ts.bt.name]):
                    bad.append({"member": ts.name, "tsc": ts.tsc, "tsc_set": ts.tsc_set, "len": len(ts.seq)})
            return {"confirmed": bool(bad), "observed": bad or "as documented", "expected": "tsc 0..7, set 0, 26/41/64 bits"}
        if what == "db":
            db = list(g.db_bits)
            return {"confirmed": not (len(db) == 148 and set(db) <= {0, 1}), "observed": [len(db), sorted(set(db))], "expected": "148 binary values"}
        if what == "fb":
            b = g.gen_fb()
            return {"confirmed": not (isinstance(b, bytearray) and len(b) == 148 and not any(b)), "observed": [type(b).__name__, len(b), sum(b)], "expected": "148 zero bits"}
        layouts = {"gen_nb": ("NORMAL", [(0, 3), (145, 148)]), "gen_sb": ("SYNC", [(0, 3), (145, 148)]), "gen_ab": ("ACCESS", [(0, 8), (85, 148)])}
        gen, bt = f["gen"], layouts[f["gen"]][0]
        for ts in gs.TrainingSeqGMSK:
            if ts.bt.name != bt or (f.get("ts") and ts.name != f["ts"] and len(bad) > 3):
                continue
            for _ in range(60):
                try:
                    b = getattr(g, gen)(ts)
                except Exception as e:
                    bad.append({"ts": ts.name, "observed": "raises %s: %s" % (type(e).__name__, e)})
                    break
                off = R.TS_OFFSET[bt]
                ok = isinstance(b, bytearray) and len(b) == 148 and set(b) <= {0, 1} and list(b[off:off + len(ts.seq)]) == list(ts.seq)
                ok = ok and all(b[i] == 0 for lo, hi in layouts[gen][1] for i in range(lo, hi))
                picked = gs.TrainingSeqGMSK.pick(b) if ok else None
                ok = ok and picked is not None and (picked is ts or list(gs.TrainingSeqGMSK).index(picked) < list(gs.TrainingSeqGMSK).index(ts))
                if not ok:
                    bad.append({"generator": gen, "ts": ts.name, "burst": list(b) if isinstance(b, (bytes, bytearray)) else repr(b)[:60],
                                "picked": getattr(picked, "name", None)})
                    break
        return {"confirmed": bool(bad), "observed": bad[:3] or "as specified", "expected": "148 binary bits, tail/guard zero, training sequence at its offset, recognised by pick()"}
    return {"confirmed": False, "error": "no native replay for %r" % what}

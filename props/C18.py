"""C18 - burst-loss simulation drops exactly the requested bursts.

Functions under contract (fake_trx.py, ctrl_if_trx.py):
  FakeTRX.sim_burst_drop(msg)      amount == 0 -> False, state unchanged; else fn % period == 0 -> True, amount' = amount - 1;
                                   else False, unchanged; never raises (period >= 1 is a class invariant)
  FakeTRX.handle_data_msg          suppressed <=> rf_muted or msg.nope_ind or drop;  suppressed & ver 0 -> no datagram;
     (suppressed path)             suppressed & ver 1 -> exactly one datagram == layout.enc of a burst-less NOPE.ind with
                                   rssi -110, toa256 0, C/I -30, same fn/tn (send_msg used through its C13 contract)
  FakeTRX.ctrl_cmd_handler         FAKE_DROP n [p]: n < 0 or p <= 0 -> -1, state unchanged; else amount := n, period := p (1), 0
  CTRLInterfaceTRX.parse_cmd       RFMUTE v: rf_muted := (v > 0), 0
Lemma C18/counter (over the sim_burst_drop contract): after FAKE_DROP n p exactly the first n bursts with fn % p == 0 are dropped.
The sender-side mute clause of BurstForwarder.forward_msg is proved in C02.
"""
import z3
from engine.common.core import Obligation, Cover, mval
from engine.pyvc.values import *
from engine.pyvc import models
from engine.pyvc.harness import toolkit, raw, where, new_engine, run_paths, path_obligations, register_fn, note_engine, qualname, exc_note, sect
from contracts.py import msgs, trx as T
from contracts.py.common import view_of, snapshot, frame_obligations, attr
from contracts.py.tokens import IntTok, BadTok, install_token_model
from spec import valid_msg as V
from spec import trxd_layout as L

ID = "C18"
ENGINE = "PyVC"
LEVEL = "proof"
Z = models.zint


def state_eq(obj, pre, fields):
    """all listed attributes unchanged w.r.t. snapshot `pre`"""
    conj = []
    for f in fields:
        v0 = pre[f][0]
        v1 = obj.attrs[f]
        if v1 is v0:
            continue
        if isinstance(v0, (SBool, bool)) or isinstance(v1, (SBool, bool)):
            conj.append(models.to_z3bool(v0) == models.to_z3bool(v1))
        else:
            conj.append(Z(v0) == Z(v1))
    return z3.And(conj) if conj else z3.BoolVal(True)


def build(run, prop=ID):
    ft = toolkit("fake_trx")
    FakeTRX = ft.FakeTRX
    E = new_engine()
    install_token_model(E)
    sect(run, build_sim_drop, run, prop, E, FakeTRX)
    sect(run, build_handle_nope, run, prop, E, FakeTRX)
    sect(run, build_cmds, run, prop, E, FakeTRX)
    sect(run, build_counter_lemma, run, prop)
    note_engine(run, E)
    run.assume("class invariant of FakeTRX: burst_drop_amount >= 0, burst_drop_period >= 1, _hdr_ver in {0,1} "
               "(established by __init__, preserved by every command: obligations invariant_preserved here and in C05)")
    run.assume("messages reaching handle_data_msg satisfy the post-condition of TxMsg.trans/forward_msg (C10/C02): fn, tn in range, ver in {0,1}")
    run.extra["paths_explored"] = E.stats["paths"]


def build_sim_drop(run, prop, E, FakeTRX):
    f = raw(FakeTRX, "sim_burst_drop")
    register_fn(run, f)
    amt, per, fn = T.fz("t.", "burst_drop_amount"), T.fz("t.", "burst_drop_period"), T.fz("x.", "fn")

    def setup(E):
        t = T.mk_trx(E, "t.")
        m = T.mk_rx_from_trans(E, "x.")
        return {"self": t, "msg": m, "pre": snapshot(t), "mpre": snapshot(m)}
    for p, ctx, out in run_paths(E, setup, lambda E, ctx: E.call(f, [ctx["self"], ctx["msg"]])):
        tag = {"what": "sim_burst_drop"}
        if out[0] == "raise":
            run.add(Obligation(prop, qualname(f), "never_raises", p.pc, z3.BoolVal(False), kind="noexc", note=exc_note(out[1]), case=out[1].cls.__name__, where=where(f), tag=tag))
            continue
        t = ctx["self"]
        res = out[1]
        rz = models.to_z3bool(res) if isinstance(res, (bool, SBool)) else None
        if rz is None:
            run.add(Obligation(prop, qualname(f), "returns_bool", p.pc, z3.BoolVal(False), kind="post", where=where(f), tag=tag))
            continue
        drop = z3.And(amt > 0, fn % per == 0)
        run.add(Obligation(prop, qualname(f), "drops_iff_armed_and_fn_multiple", p.pc, rz == drop, kind="post", where=where(f), tag=tag))
        run.add(Obligation(prop, qualname(f), "counter_decrements_iff_dropped", p.pc,
                           Z(t.attrs["burst_drop_amount"]) == z3.If(drop, amt - 1, amt), kind="post", where=where(f), tag=tag))
        # the period is observable only while drops remain (every accepted FAKE_DROP rewrites both): it is framed under that condition
        others = [k for k in ctx["pre"] if k not in ("burst_drop_amount", "burst_drop_period")]
        run.add(Obligation(prop, qualname(f), "frame_other_state_unchanged", p.pc,
                           z3.And(state_eq_any(t, ctx["pre"], others)), kind="frame", where=where(f), tag=tag))
        run.add(Obligation(prop, qualname(f), "period_kept_while_drops_remain", p.pc,
                           z3.Implies(Z(t.attrs["burst_drop_amount"]) > 0, Z(t.attrs["burst_drop_period"]) == per), kind="frame", where=where(f), tag=tag))
        run.add(*frame_obligations(prop, qualname(f), p, ctx["msg"], ctx["mpre"], "", where(f)))
        run.add(Obligation(prop, qualname(f), "invariant_preserved", p.pc, T.invariant_of(t), kind="inv", where=where(f), tag=tag))
    run.add(Cover(prop, qualname(f), "cover_drop", [T.class_invariant("t."), amt > 0, fn % per == 0, fn >= 0]))
    run.add(Cover(prop, qualname(f), "cover_pass", [T.class_invariant("t."), amt > 0, fn % per != 0, fn >= 0]))


def state_eq_any(obj, pre, fields):
    conj = []
    for k in fields:
        v0 = pre[k][0]
        v1 = obj.attrs.get(k, "<deleted>")
        if v1 is v0:
            continue
        if isinstance(v0, (SInt, int, SBool, bool)) and isinstance(v1, (SInt, int, SBool, bool)):
            if isinstance(v0, (SBool, bool)) or isinstance(v1, (SBool, bool)):
                conj.append(models.to_z3bool(v0) == models.to_z3bool(v1))
            else:
                conj.append(Z(v0) == Z(v1))
        else:
            conj.append(z3.BoolVal(False))
    return conj or [z3.BoolVal(True)]


def build_handle_nope(run, prop, E, FakeTRX):
    h = raw(FakeTRX, "handle_data_msg")
    register_fn(run, h)
    sd = raw(FakeTRX, "sim_burst_drop")
    from contracts.py.radio import radio_summaries
    E.summaries = dict(radio_summaries())
    E.summaries.update({"data_if.DATAInterface.send_msg": T.send_msg_summary,
                        "fake_trx.FakeTRX.sim_burst_drop": sim_drop_summary})
    amt, per = T.fz("t.", "burst_drop_amount"), T.fz("t.", "burst_drop_period")
    muted = T.fb("t.", "rf_muted")
    fn, tn, ver, nope_in = T.fz("x.", "fn"), T.fz("x.", "tn"), T.fz("x.", "ver"), T.fb("x.", "nope")
    suppressed = z3.Or(muted, nope_in, z3.And(amt > 0, fn % per == 0))

    def setup(E):
        t = T.mk_trx(E, "t.")
        s = T.mk_trx(E, "s.", name="SRC")
        m = T.mk_rx_from_trans(E, "x.")
        sm = msgs.mk_msg(E, "tx", None, pfx="sm.")
        E.assume(V.valid_tx(msgs.view("tx", None, pfx="sm.")))
        E.assume(z3.Int("sm.burst.len") == z3.Int("x.burst.len"))
        # FAKE_* thresholds non-negative: pre-condition of the non-suppressed path (C10); irrelevant here
        E.assume(z3.And(T.fz("t.", "toa256_rand_threshold") >= 0, T.fz("t.", "rssi_rand_threshold") >= 0, T.fz("t.", "ci_rand_threshold") >= 0))
        # this contract clause covers the suppressed case; the complementary case (not suppressed => one burst datagram) is C10's
        E.assume(suppressed)
        return {"self": t, "src": s, "msg": m, "sm": sm, "pre": snapshot(t)}

    def inv(E, ctx):
        E.call(h, [ctx["self"], ctx["src"], ctx["sm"], ctx["msg"]])
        return (list(E.ghost.get("sent_views", [])), list(E.ghost.get("refused", [])))
    nsupp = 0
    for p, ctx, out in run_paths(E, setup, inv):
        tag = {"what": "handle_nope"}
        run.add(*path_obligations(run, prop, h, p, "", tag=tag))
        if out[0] == "raise":
            run.add(Obligation(prop, qualname(h), "never_raises", p.pc, z3.BoolVal(False), kind="noexc", note=exc_note(out[1]), case=out[1].cls.__name__, where=where(h), tag=tag))
            continue
        sent, refused = out[1]
        t = ctx["self"]
        # classify the path by what was emitted
        nope_sent = [s for s in sent if z3.is_true(z3.simplify(s[1].nope)) or not z3.is_false(z3.simplify(s[1].nope)) and False]
        if len(sent) == 0 and not refused:
            # nothing emitted: only allowed when suppressed on a version-0 link
            run.add(Obligation(prop, qualname(h), "silent_only_if_suppressed_v0", p.pc, z3.And(suppressed, ver == 0), kind="post", where=where(h), tag=tag))
            nsupp += 1
            continue
        if refused:
            # send_msg refused an invalid message: on the suppressed path this must be impossible
            run.add(Obligation(prop, qualname(h), "nope_ind_is_valid", p.pc, z3.Not(suppressed), kind="post", where=where(h), tag=tag))
            continue
        if len(sent) != 1:
            run.add(Obligation(prop, qualname(h), "at_most_one_datagram", p.pc, z3.BoolVal(False), kind="post", where=where(h), tag=tag))
            continue
        link, v, legacy = sent[0]
        is_nope = z3.simplify(v.nope)
        run.add(Obligation(prop, qualname(h), "datagram_on_own_data_link", p.pc, z3.BoolVal(link is t.attrs["data_if"]), kind="post", where=where(h), tag=tag))
        # suppressed <=> the datagram is a NOPE indication (ver 1)
        run.add(Obligation(prop, qualname(h), "nope_iff_suppressed", p.pc, v.nope == suppressed, kind="post", where=where(h), tag=tag))
        run.add(Obligation(prop, qualname(h), "suppressed_v1_sends_noise_nope", p.pc,
                           z3.Implies(suppressed, z3.And(ver == 1, v.ver == 1, v.burst.isnone, z3.Not(v.rssi.isnone), v.rssi.val == -110,
                                                         v.toa256.val == 0, z3.Not(v.toa256.isnone), v.ci.val == -30, z3.Not(v.ci.isnone),
                                                         v.fn.val == fn, v.tn.val == tn, z3.Not(v.fn.isnone), z3.Not(v.tn.isnone))),
                           kind="post", where=where(h), tag=tag))
        run.add(Obligation(prop, qualname(h), "suppressed_state_only_counter", p.pc,
                           z3.Implies(suppressed, z3.And(state_eq_any(t, ctx["pre"], [k for k in ctx["pre"] if k != "burst_drop_amount"]))),
                           kind="frame", where=where(h), tag=tag))
        if z3.is_true(is_nope):
            nsupp += 1
    run.add(Cover(prop, qualname(h), "cover_suppressed_v1", [T.class_invariant("t."), suppressed, ver == 1, fn >= 0]))
    run.add(Cover(prop, qualname(h), "cover_suppressed_v0", [T.class_invariant("t."), suppressed, ver == 0, fn >= 0]))
    if nsupp == 0:
        run.add(Obligation(prop, qualname(h), "suppressed_paths_exist", [], z3.BoolVal(False), kind="cover", where=where(h)))


def sim_drop_summary(E, func, args, kwargs):
    """call-site text of sim_burst_drop's contract (verified in build_sim_drop)"""
    self, msg = args[0], args[1]
    amt, per = Z(self.attrs["burst_drop_amount"]), Z(self.attrs["burst_drop_period"])
    fn = Z(E.as_int(attr(msg, "fn")))
    E.require("pre_sim_burst_drop_invariant", z3.And(amt >= 0, per >= 1), kind="pre")
    drop = z3.And(amt > 0, fn % per == 0)
    if E.branch(drop):
        self.attrs["burst_drop_amount"] = wrap_int(amt - 1)
        return True
    return False


# ------------------------------------------------------------------ commands

def build_cmds(run, prop, E, FakeTRX):
    c = raw(FakeTRX, "ctrl_cmd_handler")
    register_fn(run, c)
    ci = toolkit("ctrl_if_trx")
    pc = raw(ci.CTRLInterfaceTRX, "parse_cmd")
    register_fn(run, pc)
    register_fn(run, raw(toolkit("ctrl_if").CTRLInterface, "verify_cmd"), "inlined")
    E.summaries = {}
    a1, a2 = z3.Int("arg1"), z3.Int("arg2")
    amt, per = T.fz("t.", "burst_drop_amount"), T.fz("t.", "burst_drop_period")
    for argc in (1, 2):
        cs = "FAKE_DROP/%d" % argc

        def setup(E, argc=argc):
            t = T.mk_trx(E, "t.")
            req = ["FAKE_DROP", IntTok(a1)] + ([IntTok(a2)] if argc == 2 else [])
            return {"self": t, "req": req, "pre": snapshot(t)}
        bad = (a1 < 0) if argc == 1 else z3.Or(a1 < 0, a2 <= 0)
        for p, ctx, out in run_paths(E, setup, lambda E, ctx: E.call(c, [ctx["self"], ctx["req"]])):
            tag = {"what": "fake_drop", "argc": argc}
            t = ctx["self"]
            if out[0] == "raise":
                run.add(Obligation(prop, qualname(c), "never_raises_on_numeric_args", p.pc, z3.BoolVal(False), kind="noexc", note=exc_note(out[1]), case=cs + "," + out[1].cls.__name__, where=where(c), tag=tag))
                continue
            res = out[1]
            if not isinstance(res, (int, SInt)) or isinstance(res, bool):
                run.add(Obligation(prop, qualname(c), "status_is_int", p.pc, z3.BoolVal(False), kind="post", case=cs, where=where(c), tag=tag))
                continue
            run.add(Obligation(prop, qualname(c), "status", p.pc, Z(res) == z3.If(bad, -1, 0), kind="post", case=cs, where=where(c), tag=tag))
            run.add(Obligation(prop, qualname(c), "rejected_changes_nothing", p.pc,
                               z3.Implies(bad, z3.And(state_eq_any(t, ctx["pre"], list(ctx["pre"])))), kind="frame", case=cs, where=where(c), tag=tag))
            run.add(Obligation(prop, qualname(c), "accepted_sets_amount_and_period", p.pc,
                               z3.Implies(z3.Not(bad), z3.And(Z(t.attrs["burst_drop_amount"]) == a1,
                                                              Z(t.attrs["burst_drop_period"]) == (a2 if argc == 2 else 1),
                                                              *state_eq_any(t, ctx["pre"], [k for k in ctx["pre"] if k not in ("burst_drop_amount", "burst_drop_period")]))),
                               kind="post", case=cs, where=where(c), tag=tag))
            run.add(Obligation(prop, qualname(c), "invariant_preserved", p.pc, T.invariant_of(t), kind="inv", case=cs, where=where(c), tag=tag))
        run.add(Cover(prop, qualname(c), "cover_reject", [bad], case=cs))
        run.add(Cover(prop, qualname(c), "cover_accept", [z3.Not(bad)], case=cs))
    # RFMUTE through parse_cmd (the prioritised handler returns None for it)
    cs = "RFMUTE/1"

    def setup(E):
        t = T.mk_trx(E, "t.")
        return {"self": t, "req": ["RFMUTE", IntTok(a1)], "pre": snapshot(t)}
    for p, ctx, out in run_paths(E, setup, lambda E, ctx: E.call(pc, [ctx["self"].attrs["ctrl_if"], ctx["req"]])):
        tag = {"what": "rfmute"}
        t = ctx["self"]
        if out[0] == "raise":
            run.add(Obligation(prop, qualname(pc), "never_raises_on_numeric_args", p.pc, z3.BoolVal(False), kind="noexc", note=exc_note(out[1]), case=cs + "," + out[1].cls.__name__, where=where(pc), tag=tag))
            continue
        res = out[1]
        run.add(Obligation(prop, qualname(pc), "status", p.pc, Z(res) == 0 if isinstance(res, (int, SInt)) else z3.BoolVal(False), kind="post", case=cs, where=where(pc), tag=tag))
        rm = t.attrs["rf_muted"]
        run.add(Obligation(prop, qualname(pc), "rf_muted_is_arg_positive", p.pc,
                           (models.to_z3bool(rm) == (a1 > 0)) if isinstance(rm, (bool, SBool)) else z3.BoolVal(False), kind="post", case=cs, where=where(pc), tag=tag))
        run.add(Obligation(prop, qualname(pc), "frame_other_state_unchanged", p.pc,
                           z3.And(state_eq_any(t, ctx["pre"], [k for k in ctx["pre"] if k != "rf_muted"])), kind="frame", case=cs, where=where(pc), tag=tag))


# ------------------------------------------------------------------ counter lemma (over the contract)

def build_counter_lemma(run, prop):
    """Inductive invariant over any burst stream after FAKE_DROP n p (n >= 0, p >= 1):
         amount_k = n - dropped_k,  0 <= dropped_k <= n,  a burst is dropped iff amount_k > 0 and fn % p == 0.
       Hence exactly the first n bursts with fn % p == 0 are dropped, then amount == 0 and nothing more is."""
    n, p, amt, dropped, fn = z3.Ints("n p amount dropped fn")
    inv = z3.And(n >= 0, p >= 1, amt == n - dropped, dropped >= 0, dropped <= n)
    drop = z3.And(amt > 0, fn % p == 0)
    amt2 = z3.If(drop, amt - 1, amt)
    dropped2 = z3.If(drop, dropped + 1, dropped)
    inv2 = z3.And(amt2 == n - dropped2, dropped2 >= 0, dropped2 <= n)
    f = "lemma.counter"
    run.add(Obligation(prop, f, "init", [n >= 0, p >= 1, amt == n, dropped == 0], inv, kind="lemma"))
    run.add(Obligation(prop, f, "step_preserves", [inv], inv2, kind="lemma"))
    run.add(Obligation(prop, f, "drops_every_multiple_until_n", [inv, dropped < n, fn % p == 0], drop, kind="lemma"))
    run.add(Obligation(prop, f, "never_drops_non_multiple", [inv, fn % p != 0], z3.Not(drop), kind="lemma"))
    run.add(Obligation(prop, f, "stops_after_n", [inv, dropped == n], z3.And(z3.Not(drop), amt == 0), kind="lemma"))
    run.fn(f, "spec (lemma over sim_burst_drop's contract)", 0, "inductive counter lemma")


def witness(o, model):
    t = dict(o.tag or {}) if isinstance(o.tag, dict) else {}
    names = ["t.burst_drop_amount", "t.burst_drop_period", "x.fn", "x.tn", "x.ver", "arg1", "arg2", "t._hdr_ver"]
    for nme in names:
        t[nme] = mval(model, z3.Int(nme))
    for nme in ("t.rf_muted", "x.nope"):
        t[nme] = mval(model, z3.Bool(nme))
    return t


def replay(payload):
    """Native: a real FakeTRX-like object (sockets replaced by recorders) driven with the model's values."""
    from contracts.py.native import native_trx, Recorder
    f = payload["inputs"]
    dm = toolkit("data_msg")
    what = f.get("what")
    t = native_trx()
    t.burst_drop_amount, t.burst_drop_period = f["t.burst_drop_amount"], f["t.burst_drop_period"]
    if what == "sim_burst_drop":
        m = dm.RxMsg(fn=f["x.fn"], tn=f["x.tn"], ver=f["x.ver"])
        a0 = t.burst_drop_amount
        got = t.sim_burst_drop(m)
        exp = a0 > 0 and f["x.fn"] % t.burst_drop_period == 0
        ok = got == exp and t.burst_drop_amount == (a0 - 1 if exp else a0)
        return {"confirmed": not ok, "observed": [got, t.burst_drop_amount], "expected": [exp, a0 - 1 if exp else a0]}
    if what == "handle_nope":
        from array import array
        t.rf_muted = f["t.rf_muted"]
        t.data_if._hdr_ver = f["t._hdr_ver"]
        src = native_trx()
        m = dm.RxMsg(fn=f["x.fn"], tn=f["x.tn"], ver=f["x.ver"])
        if f["x.nope"]:
            m.nope_ind = True
        else:
            m.burst = array("b", [127] * 148)
        sm = dm.TxMsg(fn=f["x.fn"], tn=f["x.tn"], ver=f["x.ver"])
        sm.pwr, sm.burst = 0, bytearray(148)
        a0 = t.burst_drop_amount
        supp = t.rf_muted or f["x.nope"] or (a0 > 0 and f["x.fn"] % t.burst_drop_period == 0)
        try:
            t.handle_data_msg(src, sm, m)
        except Exception as e:
            return {"confirmed": True, "observed": "raises %s" % type(e).__name__, "expected": "no exception"}
        sent = t.data_if.sock.sent
        if supp and f["x.ver"] == 0:
            return {"confirmed": len(sent) != 0, "observed": len(sent), "expected": 0}
        if supp:
            ok = len(sent) == 1
            if ok:
                r = dm.RxMsg()
                r.parse_msg(bytearray(sent[0][0]))
                ok = r.nope_ind and r.burst is None and (r.rssi, r.toa256, r.ci, r.fn, r.tn) == (-110, 0, -30, f["x.fn"], f["x.tn"])
            return {"confirmed": not ok, "observed": [list(x[0][:12]) for x in sent], "expected": "one NOPE.ind rssi=-110 toa=0 ci=-30"}
        ok = len(sent) == 1 and not (sent[0][0][8] & 0x80 if f["x.ver"] == 1 else False)
        return {"confirmed": not ok, "observed": len(sent), "expected": "one burst datagram"}
    if what in ("fake_drop", "rfmute"):
        req = (["FAKE_DROP", str(f["arg1"])] + ([str(f["arg2"])] if f.get("argc") == 2 else [])) if what == "fake_drop" else ["RFMUTE", str(f["arg1"])]
        before = (t.burst_drop_amount, t.burst_drop_period, t.rf_muted)
        rc = t.ctrl_if.parse_cmd(req)
        if what == "rfmute":
            ok = rc == 0 and t.rf_muted == (f["arg1"] > 0) and (t.burst_drop_amount, t.burst_drop_period) == before[:2]
            return {"confirmed": not ok, "observed": [rc, t.rf_muted], "expected": [0, f["arg1"] > 0]}
        bad = f["arg1"] < 0 or (f.get("argc") == 2 and f["arg2"] <= 0)
        if bad:
            ok = rc == -1 and (t.burst_drop_amount, t.burst_drop_period, t.rf_muted) == before
        else:
            ok = rc == 0 and t.burst_drop_amount == f["arg1"] and t.burst_drop_period == (f["arg2"] if f.get("argc") == 2 else 1)
        return {"confirmed": not ok, "observed": [rc, t.burst_drop_amount, t.burst_drop_period], "expected": "status %d" % (-1 if bad else 0)}
    return {"confirmed": False, "error": "no native replay for %r" % what}

"""C15 - capture files return exactly what was stored, even after truncation.

File model (assumed): content = byte array + length, position; read(n) returns content[pos:pos+n] cut at EOF; seek(o, 0|1); write
in 'a+b' mode appends at the end.  Well-formed capture CAP(content, n, B, LEN, TAG, cut):
   B[0] = 0, B[k+1] = B[k] + 3 + LEN[k]; octet B[k] = TAG[k] in {1 (Tx), 2 (Rx)}, octets B[k]+1..2 = LEN[k] big endian,
   then LEN[k] octets that the TRXD layout accepts (an encoding of a valid message, C01); the file may be cut at any cut <= B[n].

Functions under contract (data_dump.py):
  DATADump.dump_msg(msg)        TxMsg -> tag 1, RxMsg -> tag 2, else ValueError; result = tag . len16(enc) . enc  (gen_msg via its contract)
  DATADump.parse_hdr(hdr)       (TxMsg()|RxMsg(), len16) by tag; False for any other tag
  DATADumpFile._seek2msg(idx)   loop invariant pos == B[i]; True with pos == B[idx] iff the first idx headers are completely present, else False
  DATADumpFile._parse_msg()     at pos == B[k]: record k completely present -> message of the class given by the tag, fields == layout.dec(payload),
                                pos' == B[k+1]; otherwise None; never raises, never False on a well-formed capture   (parse_msg via its C01 contract)
  DATADumpFile.parse_msg(idx)   record idx if completely present, else None
  DATADumpFile.parse_all(skip, count)  loop invariant: result == records s .. s+j-1, pos == B[s+j]; stops at count or at the first incomplete
                                record; False when `skip` lies beyond the readable headers
  DATADumpFile.append_msg / append_all   the file grows by exactly one well-formed record per valid message (loop invariant)
"equal in every field" follows with C01's lemma dec(enc(m)) ~ m.
"""
import z3
from engine.common.core import Obligation, Cover, mval
from engine.pyvc.values import *
from engine.pyvc import models
from engine.pyvc.interp import SFile
from engine.pyvc.loops import LoopSpec
from engine.pyvc.harness import local_roles, toolkit, raw, where, new_engine, run_paths, path_obligations, register_fn, note_engine, qualname, exc_note, sect
from contracts.py import msgs
from contracts.py.common import view_of, install_validate_summaries, attr
from spec import valid_msg as V
from spec import trxd_layout as L

ID = "C15"
ENGINE = "PyVC"
LEVEL = "proof"
Z = models.zint
I, Bs = z3.IntSort(), z3.BoolSort()

C = z3.Array("file", I, I)
CUT = z3.Int("file.len")
B = z3.Array("B", I, I)
LEN = z3.Array("LEN", I, I)
TAG = z3.Array("TAG", I, I)
NREC = z3.Int("nrec")


def octet(i):
    return z3.Select(C, i if not isinstance(i, int) else z3.IntVal(i))


def payload_dec(k, cls):
    b = z3.Select(B, k)
    return L.dec(cls, lambda i: octet(b + 3 + (i if not isinstance(i, int) else z3.IntVal(i))), z3.Select(LEN, k))


def cap_at(k):
    """instance of CAP at record k (facts about octets hold only below the cut)"""
    b, ln, tg = z3.Select(B, k), z3.Select(LEN, k), z3.Select(TAG, k)
    present = lambda off: b + off < CUT
    acc = z3.If(tg == 1, payload_dec(k, "tx")["accept"], payload_dec(k, "rx")["accept"])
    return z3.Implies(z3.And(k >= 0, k < NREC), z3.And(
        z3.Select(B, k + 1) == b + 3 + ln, ln >= 6, ln <= 65535, z3.Or(tg == 1, tg == 2), b >= 0,
        z3.Implies(present(0), octet(b) == tg), z3.Implies(present(1), octet(b + 1) == ln / 256), z3.Implies(present(2), octet(b + 2) == ln % 256),
        z3.Implies(z3.Select(B, k + 1) <= CUT, acc)))


def cap_global():
    return [z3.Select(B, 0) == 0, NREC >= 0, CUT >= 0, CUT <= z3.Select(B, NREC)]


def cap_mono():
    """consequence of CAP (LEN >= 0) by induction on b - a: record boundaries are non-decreasing"""
    a, b = z3.Ints("a b")
    return z3.ForAll([a, b], z3.Implies(z3.And(a >= 0, a <= b, b <= NREC), z3.Select(B, a) <= z3.Select(B, b)))


def build_cap_mono_lemma(run, prop):
    """cap_mono() is not assumed: it is the conclusion of an induction on the record index whose base and step are discharged here.
    P(n) := forall a. 0 <= a <= n -> B[a] <= B[n];  base P(0);  step: 0 <= n < NREC, CAP at n, P(n) |- P(n+1).
    The induction schema over the naturals itself is applied at the meta level (the solver does not do induction unprompted)."""
    n, a, a2 = z3.Ints("n!ind a!ind a2!ind")
    P = lambda m: z3.ForAll([a2], z3.Implies(z3.And(a2 >= 0, a2 <= m), z3.Select(B, a2) <= z3.Select(B, m)))
    fn = "lemma.capture_boundaries_monotone"
    run.add(Obligation(prop, fn, "base_P0", [a >= 0, a <= 0], z3.Select(B, a) <= z3.Select(B, 0), kind="lemma", tag={"side": "lemma"}))
    run.add(Obligation(prop, fn, "step_Pn_to_Pn1", [n >= 0, n < NREC, cap_at(n), P(n), a >= 0, a <= n + 1],
                       z3.Select(B, a) <= z3.Select(B, n + 1), kind="lemma", tag={"side": "lemma"}))
    # the quantified form used by parse_msg's obligation is exactly forall n <= NREC. P(n)
    b = z3.Int("b!ind")
    run.add(Obligation(prop, fn, "cap_mono_is_forall_n_Pn", [z3.ForAll([b], z3.Implies(z3.And(b >= 0, b <= NREC), P(b)))], cap_mono(),
                       kind="lemma", tag={"side": "lemma"}))
    run.add(Cover(prop, fn, "cover_step_hypotheses", [n >= 1, n < NREC, cap_at(n), cap_at(n - 1), z3.Select(B, 0) == 0, cap_at(z3.IntVal(0))]))


def complete(k):
    """record k is completely present in the (possibly cut) file"""
    return z3.And(k >= 0, k < NREC, z3.Select(B, k + 1) <= CUT)


def mk_file(E, pos):
    content = models.fresh_seq(E, "file", "bytes", CUT, 0, 255)
    return SFile(content, pos)


def mk_dump(E, pos):
    dd = toolkit("data_dump")
    f = mk_file(E, pos)
    return SObj(dd.DATADumpFile, {"f": f}), f


def build(run, prop=ID):
    E = new_engine()
    sect(run, build_dump_and_hdr, run, prop, E)
    sect(run, build_seek, run, prop, E)
    sect(run, build_parse_one, run, prop, E)
    sect(run, build_parse_msg, run, prop, E)
    sect(run, build_parse_all, run, prop, E)
    sect(run, build_append, run, prop, E)
    sect(run, build_cap_mono_lemma, run, prop)
    # the records hold gen_msg() octets and are read back through parse_msg(): the message codec's round trip (C01's contract, which the
    # summaries above assume) is discharged in this check as well, so a defect in the codec that loses stored content fails here too
    from props import C01 as _C01
    from contracts.py.common import install_validate_summaries
    _dm = toolkit("data_msg")
    E2 = new_engine()
    sect(run, _C01.build_direct, run, prop, _dm, E2, install_validate_summaries())
    E.stats["paths"] += E2.stats["paths"]
    note_engine(run, E)
    run.assume("file object model: read/seek/write semantics of a binary file opened 'a+b' as stated in the module docstring")
    run.assume("the capture was produced by append_msg/append_all (well-formed CAP) and possibly cut at any byte offset")
    run.assume("induction schema over the naturals, applied at the meta level to lemma.capture_boundaries_monotone (base and step are discharged obligations)")
    run.extra["paths_explored"] = E.stats["paths"]


# ------------------------------------------------------------------ dump_msg / parse_hdr

def build_dump_and_hdr(run, prop, E):
    dd = toolkit("data_dump")
    dm = toolkit("data_msg")
    f = raw(dd.DATADump, "dump_msg")
    register_fn(run, f)
    summ = install_validate_summaries()
    E.summaries = {"data_msg.Msg.gen_msg": summ["data_msg.Msg.gen_msg"]}
    k = z3.Int("k!skolem")
    for cls, mod, case in [("tx", None, "tx")] + [("rx", m, "rx,mod=%s" % m.name) for m in dm.Modulation] + [("other", None, "not-a-message")]:
        def setup(E, cls=cls, mod=mod):
            if cls == "other":
                return {"self": SObj(dd.DATADump, {}), "msg": SObj(dd.DATADump, {})}
            return {"self": SObj(dd.DATADump, {}), "msg": msgs.mk_msg(E, cls, mod, burst_range=(-127, 127) if cls == "rx" else (0, 255))}
        for p, ctx, out in run_paths(E, setup, lambda E, ctx: E.call(f, [ctx["self"], ctx["msg"]])):
            tag = {"what": "dump", "cls": cls, "mod": getattr(mod, "name", None)}
            if cls == "other":
                # outside the statement's domain (only TRXD messages are stored): the object must be refused, by whatever exception
                goal = z3.BoolVal(out[0] == "raise" and issubclass(out[1].cls, Exception))
                run.add(Obligation(prop, qualname(f), "non_messages_are_refused", p.pc, goal, kind="post", case=case, where=where(f), tag=tag))
                continue
            v = msgs.view(cls, mod)
            if out[0] == "raise":
                run.add(Obligation(prop, qualname(f), "raises_ValueError_only_for_invalid_message", p.pc,
                                   z3.And(z3.BoolVal(issubclass(out[1].cls, ValueError)), z3.Not(V.valid(v))), kind="post", case=case, where=where(f), tag=tag))
                continue
            r = out[1]
            length, oct_ = L.enc(v, False, lambda i: z3.Select(v.burst_arr, i))
            if not isinstance(r, SSeq):
                run.add(Obligation(prop, qualname(f), "returns_record", p.pc, z3.BoolVal(False), kind="post", case=case, where=where(f), tag=tag))
                continue
            run.add(Obligation(prop, qualname(f), "record_is_tag_len16_encoding", p.pc,
                               z3.And(Z(r.length) == 3 + length, Z(r.get(0)) == (1 if cls == "tx" else 2),
                                      Z(r.get(1)) == length / 256, Z(r.get(2)) == length % 256, length <= 65535), kind="post", case=case, where=where(f), tag=tag))
            run.add(Obligation(prop, qualname(f), "record_payload_is_encoding", p.pc + [k >= 0, k < length], Z(r.get(k + 3)) == oct_(k),
                               kind="post", case=case, where=where(f), tag=tag))
    # parse_hdr
    g = raw(dd.DATADump, "parse_hdr")
    register_fn(run, g)
    E.summaries = {}
    h = z3.Array("hdr", I, I)

    def setup2(E):
        from engine.common.core import ranged_array
        ranged_array("hdr", 0, 255)
        return {"self": SObj(dd.DATADump, {}), "hdr": SSeq("bytes", 3, lambda i: z3.Select(h, Z(i)))}
    for p, ctx, out in run_paths(E, setup2, lambda E, ctx: E.call(g, [ctx["self"], ctx["hdr"]])):
        tag = {"what": "parse_hdr"}
        if out[0] == "raise":
            run.add(Obligation(prop, qualname(g), "never_raises", p.pc, z3.BoolVal(False), kind="noexc", note=exc_note(out[1]), case=out[1].cls.__name__, where=where(g), tag=tag))
            continue
        r = out[1]
        t0 = z3.Select(h, 0)
        if r is False:
            run.add(Obligation(prop, qualname(g), "False_iff_unknown_tag", p.pc, z3.And(t0 != 1, t0 != 2), kind="post", where=where(g), tag=tag))
            continue
        ok = isinstance(r, tuple) and len(r) == 2 and isinstance(r[0], SObj) and r[0].cls in (dm.TxMsg, dm.RxMsg)
        if not ok:
            run.add(Obligation(prop, qualname(g), "returns_message_and_length", p.pc, z3.BoolVal(False), kind="post", where=where(g), tag=tag))
            continue
        run.add(Obligation(prop, qualname(g), "class_by_tag_and_len16_big_endian", p.pc,
                           z3.And(t0 == (1 if r[0].cls is dm.TxMsg else 2), Z(r[1]) == z3.Select(h, 1) * 256 + z3.Select(h, 2)), kind="post", where=where(g), tag=tag))


# ------------------------------------------------------------------ _seek2msg

def hdr_summary(E, func, args, kwargs):
    """DATADump.parse_hdr contract at call sites"""
    dm = toolkit("data_msg")
    hdr = args[1]
    t0 = Z(hdr.get(0))
    ln = wrap_int(Z(hdr.get(1)) * 256 + Z(hdr.get(2)))
    if E.branch(t0 == 1):
        return (E.call(dm.TxMsg, []), ln)
    if E.branch(t0 == 2):
        return (E.call(dm.RxMsg, []), ln)
    return False


def build_seek(run, prop, E):
    dd = toolkit("data_dump")
    f = raw(dd.DATADumpFile, "_seek2msg")
    register_fn(run, f)
    E.summaries = {"data_dump.DATADump.parse_hdr": hdr_summary}
    idx = z3.Int("idx")

    def havoc(E, fr, i):
        E.ghost["file"].pos = E.fresh_int("pos")
        for k in ("hdr_raw", "rc", "msg_len", "_"):
            fr.locals.pop(k, None)

    def inv(E, fr, i):
        pos = Z(E.ghost["file"].pos)
        return z3.And(i <= NREC, pos == z3.Select(B, i), z3.Implies(i >= 1, z3.Select(B, i - 1) + 3 <= CUT),
                      z3.BoolVal(getattr(E.ghost["file"], "writes", 0) == 0))
    E.loop_specs = {("data_dump.DATADumpFile._seek2msg", 1): LoopSpec("seek_loop", havoc, inv, facts=lambda E, fr, i: [cap_at(i), cap_at(i - 1)])}

    def setup(E):
        for c in cap_global():
            E.assume(c)
        E.assume(idx >= 0)
        d, fobj = mk_dump(E, z3.Int("pos0"))
        E.assume(z3.Int("pos0") >= 0)
        E.ghost["file"] = fobj
        return {"self": d, "file": fobj}
    nT = nF = 0
    for p, ctx, out in run_paths(E, setup, lambda E, ctx: E.call(f, [ctx["self"], SInt(idx)])):
        tag = {"what": "seek"}
        run.add(*path_obligations(run, prop, f, p, "", tag=tag))
        if out[0] == "cut":
            continue
        if out[0] == "raise":
            run.add(Obligation(prop, qualname(f), "never_raises", p.pc, z3.BoolVal(False), kind="noexc", note=exc_note(out[1]), case=out[1].cls.__name__, where=where(f), tag=tag))
            continue
        pos = Z(ctx["file"].pos)
        if out[1] is True:
            nT += 1
            run.add(Obligation(prop, qualname(f), "True_means_positioned_at_record_idx_all_headers_present", p.pc,
                               z3.And(idx <= NREC, pos == z3.Select(B, idx), z3.Implies(idx >= 1, z3.Select(B, idx - 1) + 3 <= CUT)), kind="post", where=where(f), tag=tag))
        elif out[1] is False:
            nF += 1
            i = z3.Int("i!0")
            run.add(Obligation(prop, qualname(f), "False_means_some_header_before_idx_incomplete", p.pc,
                               z3.And(i >= 0, i < idx, z3.Or(i >= NREC, z3.Select(B, i) + 3 > CUT)), kind="post", where=where(f), tag=tag))
        else:
            run.add(Obligation(prop, qualname(f), "returns_bool", p.pc, z3.BoolVal(False), kind="post", where=where(f), tag=tag))
    if nT == 0 or nF == 0:
        run.add(Obligation(prop, qualname(f), "both_outcomes_reachable", [], z3.BoolVal(False), kind="cover", where=where(f)))
    run.add(Cover(prop, qualname(f), "cover_cap", cap_global() + [NREC >= 2, cap_at(z3.IntVal(0)), cap_at(z3.IntVal(1)), CUT > z3.Select(B, 1), CUT < z3.Select(B, 2)]))
    E.loop_specs = {}


# ------------------------------------------------------------------ _parse_msg

def parse_summary_c01(E, func, args, kwargs):
    """Msg.parse_msg contract (C01): ValueError iff not acceptable per layout; otherwise fields == layout.dec(data)"""
    dm = toolkit("data_msg")
    self, data = args
    cls = "tx" if self.cls is dm.TxMsg else "rx"
    d = L.dec(cls, lambda i: Z(data.get(i)), Z(data.length))
    if not E.branch(d["accept"]):
        E.raise_(ValueError, "contract: parse_msg rejects")
    self.attrs["parsed_from"] = (data, d)
    return None


def build_parse_one(run, prop, E):
    dd = toolkit("data_dump")
    dm = toolkit("data_msg")
    f = raw(dd.DATADumpFile, "_parse_msg")
    register_fn(run, f)
    E.summaries = {"data_dump.DATADump.parse_hdr": hdr_summary, "data_msg.Msg.parse_msg": parse_summary_c01}
    K = z3.Int("K")

    def setup(E):
        for c in cap_global():
            E.assume(c)
        E.assume(z3.And(K >= 0, K <= NREC))
        E.assume(cap_at(K))
        d, fobj = mk_dump(E, z3.Select(B, K))
        return {"self": d, "file": fobj}
    whole = complete(K)
    nmsg = nnone = 0
    kk = z3.Int("k!skolem")
    for p, ctx, out in run_paths(E, setup, lambda E, ctx: E.call(f, [ctx["self"]])):
        tag = {"what": "parse_one"}
        if out[0] == "raise":
            run.add(Obligation(prop, qualname(f), "never_raises", p.pc, z3.BoolVal(False), kind="noexc", note=exc_note(out[1]), case=out[1].cls.__name__, where=where(f), tag=tag))
            continue
        r = out[1]
        pos = Z(ctx["file"].pos)
        if r is None:
            nnone += 1
            run.add(Obligation(prop, qualname(f), "None_iff_record_not_completely_present", p.pc, z3.Not(whole), kind="post", where=where(f), tag=tag))
        elif r is False:
            run.add(Obligation(prop, qualname(f), "never_False_on_well_formed_capture", p.pc, z3.BoolVal(False), kind="post", where=where(f), tag=tag))
        elif isinstance(r, SObj) and "parsed_from" in r.attrs:
            nmsg += 1
            data, d = r.attrs["parsed_from"]
            tg = z3.Select(TAG, K)
            run.add(Obligation(prop, qualname(f), "message_iff_record_completely_present", p.pc, whole, kind="post", where=where(f), tag=tag))
            run.add(Obligation(prop, qualname(f), "class_by_tag_and_position_after_record", p.pc,
                               z3.And(tg == (1 if r.cls is dm.TxMsg else 2), pos == z3.Select(B, K + 1), Z(data.length) == z3.Select(LEN, K)), kind="post", where=where(f), tag=tag))
            run.add(Obligation(prop, qualname(f), "parsed_exactly_the_stored_octets", p.pc + [kk >= 0, kk < z3.Select(LEN, K)],
                               Z(data.get(kk)) == octet(z3.Select(B, K) + 3 + kk), kind="post", where=where(f), tag=tag))
        else:
            run.add(Obligation(prop, qualname(f), "returns_message_or_None", p.pc, z3.BoolVal(False), kind="post", where=where(f), tag=tag))
    if nmsg == 0 or nnone == 0:
        run.add(Obligation(prop, qualname(f), "both_outcomes_reachable", [], z3.BoolVal(False), kind="cover", where=where(f)))


# ------------------------------------------------------------------ parse_msg(idx) and parse_all

def seek_summary(E, func, args, kwargs):
    """_seek2msg contract at call sites"""
    self, idx = args
    zi = Z(E.as_int(idx))
    E.require("pre_seek_idx_nonnegative", zi >= 0, kind="pre")
    fobj = self.attrs["f"]
    if E.branch(z3.Bool(E.fresh("seek_ok"))):
        E.assume(z3.And(zi <= NREC, z3.Implies(zi >= 1, z3.Select(B, zi - 1) + 3 <= CUT)))
        fobj.pos = z3.Select(B, zi)
        E.ghost["rec"] = zi
        return True
    i = E.fresh_int("bad_hdr")
    E.assume(z3.And(i >= 0, i < zi, z3.Or(i >= NREC, z3.Select(B, i) + 3 > CUT)))
    fobj.pos = E.fresh_int("pos")
    E.ghost["rec"] = None
    return False


def parse_one_summary(E, func, args, kwargs):
    """_parse_msg contract at call sites: needs pos == B[k] for the ghost record index k"""
    dm = toolkit("data_msg")
    self = args[0]
    fobj = self.attrs["f"]
    k = E.ghost.get("rec")
    if k is None:
        raise Unsupported("_parse_msg called without a known record position")
    E.require("pre_parse_at_record_boundary", z3.And(Z(fobj.pos) == z3.Select(B, k), k >= 0, k <= NREC), kind="pre")
    E.assume(cap_at(k))
    if E.branch(complete(k)):
        fobj.pos = z3.Select(B, k + 1)
        E.ghost["rec"] = z3.simplify(k + 1)
        return SRef(dm.Msg, k, {})
    fobj.pos = E.fresh_int("pos")
    E.ghost["rec"] = None
    return None


def build_parse_msg(run, prop, E):
    dd = toolkit("data_dump")
    f = raw(dd.DATADumpFile, "parse_msg")
    register_fn(run, f)
    E.summaries = {"data_dump.DATADumpFile._seek2msg": seek_summary, "data_dump.DATADumpFile._parse_msg": parse_one_summary}
    idx = z3.Int("idx")

    def setup(E):
        for c in cap_global():
            E.assume(c)
        E.assume(idx >= 0)
        d, fobj = mk_dump(E, z3.Int("pos0"))
        return {"self": d}
    for p, ctx, out in run_paths(E, setup, lambda E, ctx: E.call(f, [ctx["self"], SInt(idx)])):
        tag = {"what": "parse_msg"}
        run.add(*path_obligations(run, prop, f, p, "", tag=tag))
        if out[0] == "raise":
            run.add(Obligation(prop, qualname(f), "never_raises", p.pc, z3.BoolVal(False), kind="noexc", note=exc_note(out[1]), case=out[1].cls.__name__, where=where(f), tag=tag))
            continue
        r = out[1]
        if r is None:
            bad = z3.Int("bad_hdr!0")
            run.add(Obligation(prop, qualname(f), "None_iff_record_idx_not_completely_present", p.pc + [cap_at(idx), cap_at(bad), cap_mono()], z3.Not(complete(idx)),
                               kind="post", where=where(f), tag=tag))
        elif isinstance(r, SRef):
            run.add(Obligation(prop, qualname(f), "returns_record_idx", p.pc, z3.And(r.idt == idx, complete(idx)), kind="post", where=where(f), tag=tag))
        else:
            run.add(Obligation(prop, qualname(f), "returns_message_or_None", p.pc, z3.BoolVal(False), kind="post", where=where(f), tag=tag))


def build_parse_all(run, prop, E):
    dd = toolkit("data_dump")
    dm = toolkit("data_msg")
    f = raw(dd.DATADumpFile, "parse_all")
    register_fn(run, f)
    E.summaries = {"data_dump.DATADumpFile._seek2msg": seek_summary, "data_dump.DATADumpFile._parse_msg": parse_one_summary}
    skip, count = z3.Int("skip"), z3.Int("count")
    # the accumulator is bound by use (the appended list that is returned), not by its name
    lr = local_roles(f)
    acc = [x for x in lr["returned"] if x in lr["appended"]]
    if len(acc) != 1:
        raise Unsupported("parse_all: cannot identify the returned accumulator list (%s)" % acc)
    RES = acc[0]
    for skip_none in (True, False):
        for count_none in (True, False):
            cs = "skip=%s,count=%s" % ("None" if skip_none else "n", "None" if count_none else "n")
            S = z3.IntVal(0) if skip_none else skip

            def mk_result(E, ln, arr):
                return models.obj_seq(arr, ln, lambda idt: SRef(dm.Msg, idt, {}), lambda v: v.idt)

            def havoc(E, fr, j):
                fr.locals[RES] = mk_result(E, E.fresh_int("result.len"), z3.Array(E.fresh("result.ids"), I, I))
                E.ghost["file"].pos = E.fresh_int("pos")
                E.ghost["rec"] = z3.simplify(S + j)
                fr.locals.pop("msg", None)

            def inv(E, fr, j, S=S, count_none=count_none):
                r = fr.locals[RES]
                m = z3.Int("m")
                rl = z3.IntVal(len(r)) if isinstance(r, list) else Z(r.length)
                ra = (lambda i: z3.IntVal(-1)) if isinstance(r, list) else (lambda i: z3.Select(r.arr, i))
                pos = Z(E.ghost["file"].pos)
                conj = [rl == j, pos == z3.Select(B, S + j), S + j <= NREC, S + j >= 0,
                        z3.ForAll([m], z3.Implies(z3.And(m >= 0, m < j), z3.And(ra(m) == S + m, complete(S + m)))),
                        z3.BoolVal(E.ghost.get("rec") is not None)]
                if not count_none:
                    conj.append(j < count)
                return z3.And(conj)
            E.loop_specs = {("data_dump.DATADumpFile.parse_all", 1): LoopSpec("read_loop", havoc, inv)}

            def setup(E, skip_none=skip_none, count_none=count_none):
                for c in cap_global():
                    E.assume(c)
                if not skip_none:
                    E.assume(skip >= 0)
                if not count_none:
                    E.assume(count >= 1)
                d, fobj = mk_dump(E, z3.Int("pos0"))
                E.assume(z3.Int("pos0") >= 0)
                E.ghost["file"] = fobj
                E.ghost["rec"] = z3.IntVal(0)      # seek(0) positions at record 0 (B[0] == 0)
                return {"self": d, "file": fobj}

            def invoke(E, ctx, skip_none=skip_none, count_none=count_none):
                return E.call(f, [ctx["self"], None if skip_none else SInt(skip), None if count_none else SInt(count)])
            n_ret = 0
            for p, ctx, out in run_paths(E, setup, invoke):
                tag = {"what": "parse_all", "skip_none": skip_none, "count_none": count_none}
                run.add(*path_obligations(run, prop, f, p, cs, tag=tag))
                if out[0] == "cut":
                    continue
                if out[0] == "raise":
                    run.add(Obligation(prop, qualname(f), "never_raises", p.pc, z3.BoolVal(False), kind="noexc", note=exc_note(out[1]), case=cs + "," + out[1].cls.__name__, where=where(f), tag=tag))
                    continue
                r = out[1]
                if r is False:
                    i = z3.Int("bad_hdr!0")
                    run.add(Obligation(prop, qualname(f), "False_only_when_skip_beyond_readable_headers", p.pc,
                                       z3.And(z3.BoolVal(not skip_none), i >= 0, i < skip, z3.Or(i >= NREC, z3.Select(B, i) + 3 > CUT)), kind="post", case=cs, where=where(f), tag=tag))
                    continue
                n_ret += 1
                rl = z3.IntVal(len(r)) if isinstance(r, list) else Z(r.length)
                ra = (lambda i: z3.IntVal(-1)) if isinstance(r, list) else (lambda i: z3.Select(r.arr, i))
                m = z3.Int("m")
                run.add(Obligation(prop, qualname(f), "result_is_the_consecutive_slice_from_skip", p.pc,
                                   z3.And(rl >= 0, z3.ForAll([m], z3.Implies(z3.And(m >= 0, m < rl), z3.And(ra(m) == S + m, complete(S + m))))),
                                   kind="post", case=cs, where=where(f), tag=tag))
                stop_count = z3.BoolVal(False) if count_none else (rl == count)
                run.add(Obligation(prop, qualname(f), "stops_only_at_count_or_first_incomplete_record", p.pc + [cap_at(S + rl)],
                                   z3.Or(stop_count, z3.Not(complete(S + rl))), kind="post", case=cs, where=where(f), tag=tag))
                if not count_none:
                    run.add(Obligation(prop, qualname(f), "at_most_count_messages", p.pc, rl <= count, kind="post", case=cs, where=where(f), tag=tag))
            if n_ret == 0:
                run.add(Obligation(prop, qualname(f), "return_path_exists", [], z3.BoolVal(False), kind="cover", case=cs, where=where(f)))
    E.loop_specs = {}


# ------------------------------------------------------------------ append

def build_append(run, prop, E):
    dd = toolkit("data_dump")
    dm = toolkit("data_msg")
    f = raw(dd.DATADumpFile, "append_msg")
    g = raw(dd.DATADumpFile, "append_all")
    register_fn(run, f)
    register_fn(run, g)
    ENCLEN = z3.Function("enc_len", I, I)
    MTAG = z3.Function("msg_tag", I, I)
    ENC = z3.Function("enc_octet", I, I, I)

    def dump_summary(E, func, args, kwargs):
        """dump_msg contract at call sites: tag . len16 . enc(msg) for a valid message (ValueError otherwise)"""
        m = args[1]
        if not E.branch(z3.Bool(E.fresh("valid_msg"))):
            E.raise_(ValueError, "contract: dump_msg refuses an invalid message")
        ln, tg = ENCLEN(m.idt), MTAG(m.idt)
        E.assume(z3.And(ln >= 6, ln <= 65535, z3.Or(tg == 1, tg == 2)))
        return SSeq("bytearray", z3.simplify(3 + ln),
                    lambda i, m=m: z3.If(Z(i) == 0, tg, z3.If(Z(i) == 1, ln / 256, z3.If(Z(i) == 2, ln % 256, ENC(m.idt, Z(i) - 3)))))
    E.summaries = {"data_dump.DATADump.dump_msg": dump_summary}
    mid = z3.Int("m.id")
    kk = z3.Int("k!skolem")

    def setup(E):
        E.assume(CUT >= 0)
        d, fobj = mk_dump(E, z3.Int("pos0"))
        return {"self": d, "file": fobj, "msg": SRef(dm.Msg, mid, {})}
    for p, ctx, out in run_paths(E, setup, lambda E, ctx: E.call(f, [ctx["self"], ctx["msg"]])):
        tag = {"what": "append"}
        fobj = ctx["file"]
        if out[0] == "raise":
            run.add(Obligation(prop, qualname(f), "invalid_message_leaves_file_unchanged", p.pc,
                               z3.And(z3.BoolVal(issubclass(out[1].cls, ValueError) and getattr(fobj, "writes", 0) == 0), Z(fobj.content.length) == CUT),
                               kind="post", where=where(f), tag=tag))
            continue
        c = fobj.content
        ln, tg = ENCLEN(mid), MTAG(mid)
        run.add(Obligation(prop, qualname(f), "file_grows_by_one_record", p.pc,
                           z3.And(Z(c.length) == CUT + 3 + ln, Z(c.get(CUT)) == tg, Z(c.get(CUT + 1)) == ln / 256, Z(c.get(CUT + 2)) == ln % 256,
                                  z3.BoolVal(getattr(fobj, "writes", 0) == 1)), kind="post", where=where(f), tag=tag))
        run.add(Obligation(prop, qualname(f), "record_payload_is_the_encoding", p.pc + [kk >= 0, kk < ln], Z(c.get(CUT + 3 + kk)) == ENC(mid, kk), kind="post", where=where(f), tag=tag))
        run.add(Obligation(prop, qualname(f), "earlier_content_untouched", p.pc + [kk >= 0, kk < CUT], Z(c.get(kk)) == octet(kk), kind="frame", where=where(f), tag=tag))
    # append_all: loop invariant over a message list of symbolic length
    MIDS = z3.Array("msgs.ids", I, I)
    MN = z3.Int("msgs.len")
    BB0 = z3.Array("BB0", I, I)

    def append_summary(E, func, args, kwargs):
        self, m = args
        fobj = self.attrs["f"]
        ln = ENCLEN(m.idt)
        E.assume(z3.And(ln >= 6, ln <= 65535))
        E.ghost["appended"] = E.ghost.get("appended", []) + [m.idt]
        E.ghost["flen"] = E.ghost["flen"] + 3 + ln
        return None

    def havoc(E, fr, i):
        E.ghost["flen"] = E.fresh_int("flen")
        E.ghost["BB"] = z3.Array(E.fresh("BB"), I, I)
        E.ghost["appended"] = []
        fr.locals.pop("msg", None)

    def inv(E, fr, i):
        bb = E.ghost["BB"]
        m = z3.Int("m")
        return z3.And(E.ghost["flen"] == z3.Select(bb, i), z3.Select(bb, 0) == CUT,
                      z3.ForAll([m], z3.Implies(z3.And(m >= 0, m < i), z3.Select(bb, m + 1) == z3.Select(bb, m) + 3 + ENCLEN(z3.Select(MIDS, m)))))

    def step(E, fr, i):
        E.ghost["BB"] = z3.Store(E.ghost["BB"], i + 1, E.ghost["flen"])
        E.require("appends_exactly_the_ith_message", z3.BoolVal(len(E.ghost["appended"]) == 1) if len(E.ghost["appended"]) != 1
                  else E.ghost["appended"][0] == z3.Select(MIDS, i), kind="post")

    def init(E, fr):
        E.ghost["BB"] = z3.Store(BB0, 0, CUT)
    E.summaries = {"data_dump.DATADumpFile.append_msg": append_summary}
    E.loop_specs = {("data_dump.DATADumpFile.append_all", 1): LoopSpec("append_loop", havoc, inv, ghost_step=step, init=init)}

    def setup2(E):
        E.assume(z3.And(CUT >= 0, MN >= 0))
        d, fobj = mk_dump(E, z3.Int("pos0"))
        E.ghost.update({"flen": CUT, "BB": BB0})
        lst = models.obj_seq(MIDS, MN, lambda idt: SRef(dm.Msg, idt, {}), lambda v: v.idt)
        return {"self": d, "msgs": lst}
    for p, ctx, out in run_paths(E, setup2, lambda E, ctx: E.call(g, [ctx["self"], ctx["msgs"]])):
        tag = {"what": "append_all"}
        run.add(*path_obligations(run, prop, g, p, "", tag=tag))
        if out[0] == "cut":
            continue
        if out[0] == "raise":
            run.add(Obligation(prop, qualname(g), "never_raises_for_valid_messages", p.pc, z3.BoolVal(False), kind="noexc", note=exc_note(out[1]), case=out[1].cls.__name__, where=where(g), tag=tag))
            continue
        bb = p.ghost["BB"]
        m = z3.Int("m")
        run.add(Obligation(prop, qualname(g), "one_record_per_message_in_order", p.pc,
                           z3.And(p.ghost["flen"] == z3.Select(bb, MN), z3.Select(bb, 0) == CUT,
                                  z3.ForAll([m], z3.Implies(z3.And(m >= 0, m < MN), z3.Select(bb, m + 1) == z3.Select(bb, m) + 3 + ENCLEN(z3.Select(MIDS, m))))),
                           kind="post", where=where(g), tag=tag))
    E.loop_specs = {}


# ------------------------------------------------------------------ witness / replay

def witness(o, model):
    if isinstance(o.tag, dict) and o.tag.get("side") in ("gen", "direct", "lemma", "parse"):
        from props import C01 as _C01
        return _C01.witness(o, model)
    t = dict(o.tag or {}) if isinstance(o.tag, dict) else {}
    for nme in ("idx", "skip", "count", "nrec", "file.len", "K"):
        t[nme] = mval(model, z3.Int(nme))
    n = max(0, min(6, t["nrec"]))
    t["B"] = [mval(model, z3.Select(B, k)) for k in range(n + 1)]
    return t


def replay_writer(what, dd, dm):
    """Native: the writing half on the real classes - dump_msg / parse_hdr / append_msg / append_all over random valid messages of both
    classes and versions, invalid ones and non-messages, on in-memory files with and without earlier content"""
    import io, random
    rnd = random.Random(2)

    def rand_msg(valid=True):
        m = dm.TxMsg() if rnd.random() < 0.5 else dm.RxMsg()
        m.ver = rnd.choice((0, 1))
        m.rand_hdr()
        if isinstance(m, dm.RxMsg) and m.ver == 1 and rnd.random() < 0.3:
            m.nope_ind, m.burst = True, None
        else:
            m.rand_burst()
        if not valid:
            m.fn = rnd.choice((-1, 2715648, None))
        return m
    bad = []
    if what == "parse_hdr":
        d = dd.DATADump()
        for tag in range(256):
            for ln in (0, 1, 255, 256, 0x1234, 65535):
                hdr = bytes([tag, ln >> 8, ln & 255])
                try:
                    r = d.parse_hdr(hdr)
                except Exception as e:
                    r = "raises %s: %s" % (type(e).__name__, e)
                if tag in (1, 2):
                    ok = isinstance(r, tuple) and len(r) == 2 and type(r[0]) is (dm.TxMsg if tag == 1 else dm.RxMsg) and r[1] == ln
                else:
                    ok = r is False
                if not ok:
                    bad.append({"header": hdr.hex(), "observed": repr(r)[:80], "expected": "(message of the tag's class, %d)" % ln if tag in (1, 2) else False})
        return {"confirmed": bool(bad), "observed": bad[:4] or "as specified", "expected": "class by tag, 16-bit big-endian length, False for an unknown tag"}
    if what == "dump":
        d = dd.DATADump()
        for k in range(300):
            valid = k % 5 != 0
            m = rand_msg(valid)
            try:
                r = d.dump_msg(m)
            except ValueError:
                r = "ValueError"
            except Exception as e:
                r = "raises %s: %s" % (type(e).__name__, e)
            if valid:
                enc = m.gen_msg()
                ok = isinstance(r, (bytes, bytearray)) and bytes(r) == bytes([1 if isinstance(m, dm.TxMsg) else 2, len(enc) >> 8, len(enc) & 255]) + bytes(enc)
            else:
                ok = r == "ValueError"
            if not ok:
                bad.append({"message": m.desc_hdr() if valid else "invalid fn %r" % (m.fn,), "observed": repr(r)[:80], "expected": "tag + len16 + encoding" if valid else "ValueError"})
        for other in (object(), None, 5, b"x"):
            try:
                d.dump_msg(other)
                bad.append({"message": repr(other), "observed": "record returned", "expected": "refused"})
            except Exception:
                pass
        return {"confirmed": bool(bad), "observed": bad[:4] or "as specified", "expected": "tag + len16 + encoding; ValueError only for invalid messages; non-messages refused"}
    for prior in (b"", b"\x01\x00\x06abcdef", bytes(range(200))):
        for n in ((1,) if what == "append" else (0, 1, 2, 5)):
            ms = [rand_msg() for _ in range(n)]
            bio = io.BytesIO()
            bio.write(prior)
            bio.seek(rnd.choice((0, len(prior))))          # an 'a+b' file appends wherever the position is; BytesIO does not: position at the end
            bio.seek(0, 2)
            w = dd.DATADumpFile(bio)
            try:
                w.append_msg(ms[0]) if what == "append" else w.append_all(ms)
            except Exception as e:
                bad.append({"prior_octets": len(prior), "messages": n, "observed": "raises %s: %s" % (type(e).__name__, e)})
                continue
            want = prior
            for m in ms:
                enc = bytes(m.gen_msg())
                want += bytes([1 if isinstance(m, dm.TxMsg) else 2, len(enc) >> 8, len(enc) & 255]) + enc
            if bio.getvalue() != want:
                bad.append({"prior_octets": len(prior), "messages": n, "observed": "%d octets" % len(bio.getvalue()), "expected": "%d octets: earlier content, then one record per message in order" % len(want)})
            w.f = io.BytesIO()
    return {"confirmed": bool(bad), "observed": bad[:4] or "as specified", "expected": "earlier content untouched, one record (tag, len16, encoding) per message in order"}


def replay(payload):
    """Native: write n valid random messages with the real DATADumpFile, cut the file at the model's offset (mapped onto the real
    record boundaries), run the real reader and compare with the definition."""
    import io, random
    f = payload["inputs"]
    if isinstance(f, dict) and f.get("side") in ("gen", "direct", "lemma", "parse"):
        from props import C01 as _C01
        return _C01.replay(payload)
    dd = toolkit("data_dump")
    dm = toolkit("data_msg")
    import logging
    logging.disable(logging.CRITICAL)
    if f.get("what") in ("dump", "parse_hdr", "append", "append_all"):
        return replay_writer(f["what"], dd, dm)
    rnd = random.Random(1)
    n = max(1, min(6, f.get("nrec", 3)))
    msgs_ = []
    for k in range(n):
        m = dm.TxMsg() if rnd.random() < 0.5 else dm.RxMsg()
        m.ver = rnd.choice((0, 1))
        m.rand_hdr()
        if isinstance(m, dm.RxMsg) and m.ver == 1 and rnd.random() < 0.3:
            m.nope_ind, m.burst = True, None
        else:
            m.rand_burst()
        msgs_.append(m)
    bio = io.BytesIO()
    w = dd.DATADumpFile(bio)
    w.append_all(msgs_)
    full = bio.getvalue()
    bounds = [0]
    for m in msgs_:
        bounds.append(bounds[-1] + 3 + len(m.gen_msg()))
    # map the model's cut relative to its own boundaries onto the real file
    mb = f.get("B") or [0]
    cut_model = f.get("file.len", 0)
    kcut = max([k for k in range(len(mb)) if mb[k] <= cut_model] or [0])
    kcut = min(kcut, n)
    extra = min(cut_model - mb[kcut] if kcut < len(mb) else 0, (bounds[kcut + 1] - bounds[kcut] - 1) if kcut < n else 0)
    cut0 = bounds[kcut] + max(0, extra)
    what = f.get("what")

    def same(a, b):
        return type(a) is type(b) and a.gen_msg() == b.gen_msg()

    def run_at(cut):
        data = full[:cut]
        ncomplete = max(k for k in range(n + 1) if bounds[k] <= cut)
        rd = dd.DATADumpFile(io.BytesIO(data))
        try:
            if what in ("seek", "parse_msg", "parse_one"):
                for idx in sorted({max(0, min(n + 1, f.get("idx", f.get("K", 0)))), ncomplete, max(0, ncomplete - 1)}):
                    rd = dd.DATADumpFile(io.BytesIO(data))
                    r = rd.parse_msg(idx)
                    exp = msgs_[idx] if idx < ncomplete else None
                    ok = (r is None and exp is None) or (r is not None and exp is not None and same(r, exp))
                    if not ok:
                        return {"confirmed": True, "observed": "parse_msg(%d) = %s" % (idx, r), "expected": "record %d" % idx if exp is not None else None, "cut": cut}
                return None
            if what == "parse_all":
                skip = None if f.get("skip_none") else max(0, min(n + 1, f.get("skip", 0)))
                count = None if f.get("count_none") else max(1, min(n + 1, f.get("count", 1)))
                r = rd.parse_all(skip=skip, count=count)
                s = skip or 0
                hdr_ok = all(bounds[k] + 3 <= cut for k in range(min(s, n))) and s <= n
                if not hdr_ok:
                    return None if r is False else {"confirmed": True, "observed": str(r)[:80], "expected": False, "cut": cut}
                exp = msgs_[s:min(ncomplete, s + (count if count is not None else n))]
                ok = r is not False and len(r) == len(exp) and all(same(a, b) for a, b in zip(r, exp))
                return None if ok else {"confirmed": True, "observed": "%s messages" % (len(r) if r is not False else r), "expected": "%d messages" % len(exp), "cut": cut}
        except Exception as e:
            return {"confirmed": True, "observed": "raises %s: %s" % (type(e).__name__, e), "expected": "no exception", "cut": cut}
        return {"confirmed": False, "error": "no native replay for %r" % what}
    # the verifier's cut first, then the same obligation's other truncation classes (inside a record header, inside a body, on a boundary)
    cuts = [cut0] + [b + d_ for b in bounds for d_ in (0, 1, 2, 3, 4) if b + d_ <= len(full)] + [b - 1 for b in bounds[1:]]
    seen = set()
    for cut in cuts:
        if cut in seen:
            continue
        seen.add(cut)
        r = run_at(cut)
        if r is not None:
            r["cuts_tried"] = len(seen)
            # judged through the public readers (parse_msg / parse_all) against the stored messages: the statement itself
            r["statement_level"] = bool(r.get("confirmed"))
            return r
    return {"confirmed": False, "observed": "as the definition prescribes at %d truncation offsets" % len(seen), "cut": cut0}

"""C06 - serial link framing (sercomm/HDLC) delivers every message intact (firmware/comm/sercomm.c, both builds)."""
from props.cparts.C06 import build_c, witness_c, replay_c, ID, ENGINE, LEVEL   # noqa
import props.cparts.C06 as _c

build = build_c
witness = witness_c
replay = replay_c
block_model = getattr(_c, "block_model_c", None) or (lambda o, m: None)
known_predicate = getattr(_c, "known_predicate_c", None) or (lambda o, k: None)

"""C04 - TRXD octets follow the protocol layout; Python and trxcon (C) agree."""
import os
from props._combine import make
_c = "props.cparts.C04" if os.path.exists(os.path.join(os.path.dirname(__file__), "cparts", "C04.py")) else None
make(globals(), "C04", py="props.pyparts.C04", c=_c)

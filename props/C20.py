"""C20 - Mobile Allocation decoding selects exactly the flagged cell channels (C only: delegates to props/cparts/C20.py)."""
from props.cparts.C20 import build_c, witness_c, replay_c, known_predicate_c, ID, ENGINE, LEVEL

build, witness, replay, known_predicate = build_c, witness_c, replay_c, known_predicate_c

"""Combine a Python part and a C part of one property into one driver module."""
import importlib


def parts(pid, names):
    mods = []
    for n in names:
        mods.append(importlib.import_module(n))
    return mods


def make(ns, pid, py=None, c=None, level="proof"):
    import os
    only = os.environ.get("VERIF_PARTS")
    if only == "py":
        c = None
    if only == "c":
        py = None
    mods = {}
    if py:
        mods["py"] = importlib.import_module(py)
    if c:
        mods["c"] = importlib.import_module(c)
    ns["ID"] = pid
    ns["ENGINE"] = "+".join({"py": "PyVC", "c": "CVC"}[k] for k in mods)
    ns["LEVEL"] = level

    def side_of(tag):
        s = (tag or {}).get("side") if isinstance(tag, dict) else None
        return "c" if s == "c" else "py"

    def build(run):
        if "py" in mods:
            mods["py"].build_py(run)
        if "c" in mods:
            # the C driver wraps its own sections (engine.cvc.contract.sect); this outer wrap only catches what escapes them, so that a C part
            # that cannot be bound to a refactored file leaves the Python part's proof standing (the bounded native oracle stands in for the C half)
            from engine.cvc.contract import sect
            sect(run, "%s C part (%s)" % (pid, c), mods["c"].build_c, run)

    def witness(o, model):
        m = mods[side_of(o.tag)]
        w = (m.witness_c if side_of(o.tag) == "c" else m.witness_py)(o, model)
        if isinstance(w, dict):
            w.setdefault("_side", side_of(o.tag))
        return w

    def replay(payload):
        inp = payload.get("inputs") or {}
        s = inp.get("_side") or side_of(payload.get("tag"))
        m = mods[s]
        return (m.replay_c if s == "c" else m.replay_py)(payload)

    def block_model(o, model):
        m = mods[side_of(o.tag)]
        f = getattr(m, "block_model_c" if side_of(o.tag) == "c" else "block_model_py", None)
        return f(o, model) if f else None

    def known_predicate(o, k):
        m = mods[side_of(o.tag)]
        f = getattr(m, "known_predicate_c" if side_of(o.tag) == "c" else "known_predicate_py", None)
        return f(o, k) if f else None
    ns.update(build=build, witness=witness, replay=replay, block_model=block_model, known_predicate=known_predicate)

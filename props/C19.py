"""C19 - GSM time arithmetic is consistent across the code base (C: gsm_utils.c, sync.c; Python: gsm_shared.py)."""
import os
from props._combine import make
_c = "props.cparts.C19" if os.path.exists(os.path.join(os.path.dirname(__file__), "cparts", "C19.py")) else None
make(globals(), "C19", py="props.pyparts.C19", c=_c)

"""C09 - clock source: consecutive frame numbers, one per frame, no accumulated drift (under a virtual monotonic clock).

Functions under contract (clck_gen.py):
  CLCKGen.send_clck_ind()   'IND CLOCK <clck_src>\\0' sent exactly once to every attached link iff clck_src % ind_period == 0 (loop invariant,
                            arbitrary link q), handler called exactly once with clck_src, clck_src' == (clck_src + 1) % 2715648
  CLCKGen._worker()         loop invariant (virtual clock `now`, ghost resync base (t0, k0), k = ticks fired):
                              t_next == t0 + (k - k0) * t_tick     (absolute deadlines: handler time never accumulates)
                              exactly one send_clck_ind per completed iteration (no catch-up ticks), fired at a time >= its deadline
                              on overrun (deadline already passed) the deadline is reset to the current time (resync)
  CLCKGen.start() / stop()  start: pre no thread; clck_src := clck_start; thread created on _worker, daemon, started
                            stop: no thread -> nothing; else breaker set, thread joined, _thread None, breaker cleared
  t_tick                    the live int(ctr_interval // 1e-9) is within 1 ns of 4 615 000 ns
Lemma C09/sequence: frame numbers handed to the handler are clck_start, +1, +2, ... modulo 2715648; indications exactly at multiples.
"""
import z3, threading, time
from engine.common.core import Obligation, Cover, mval
from engine.pyvc.values import *
from engine.pyvc import models
from engine.pyvc.models import register
from engine.pyvc.loops import LoopSpec
from engine.pyvc.harness import local_roles, toolkit, raw, where, new_engine, run_paths, path_obligations, register_fn, note_engine, qualname, exc_note, sect

ID = "C09"
ENGINE = "PyVC"
LEVEL = "proof"
Z = models.zint
I, B = z3.IntSort(), z3.BoolSort()
H = 2715648
LIDS = z3.Array("links.ids", I, I)
LN = z3.Int("links.len")
Q, PQ, PRESENT = z3.Int("q"), z3.Int("pos_q"), z3.Bool("q_is_link")


class EventGhost:
    def wait(self, timeout=None):
        raise NotImplementedError

    def set(self):
        raise NotImplementedError

    def clear(self):
        raise NotImplementedError


class ThreadGhost:
    def start(self):
        raise NotImplementedError

    def join(self):
        raise NotImplementedError

    def is_alive(self):
        raise NotImplementedError


@register(EventGhost.wait, "threading.Event.wait")
def _wait(E, ev, timeout=None):
    """Either a stop request is seen (True), or the call returns False no earlier than `timeout` later.
    The float seconds value dt*1e-9 is taken as exactly dt nanoseconds (assumption)."""
    if isinstance(timeout, SFlt):
        r = timeout.scale / 1e-9
        if abs(r - round(r)) > 1e-6 or round(r) < 1:
            raise Unsupported("Event.wait timeout is not an integer number of nanoseconds")
        dt = timeout.t * int(round(r))
    elif isinstance(timeout, (int, float)) and not isinstance(timeout, bool) and timeout >= 0:
        dt = z3.IntVal(int(round(timeout * 1e9)))
    else:
        raise Unsupported("Event.wait(%r)" % (timeout,))
    E.ghost.setdefault("waits", []).append(dt)
    if E.branch(z3.Bool(E.fresh("stop_requested"))):
        E.ghost["stop_seen"] = True
        return True
    now2 = E.fresh_int("now")
    E.assume(z3.And(now2 >= E.ghost["now"] + dt, now2 < 2 ** 63))
    E.ghost["now"] = now2
    return False


@register(EventGhost.set, "threading.Event.set")
def _set(E, ev):
    ev.attrs["flag"] = True
    E.ghost.setdefault("events", []).append("breaker.set")


@register(EventGhost.clear, "threading.Event.clear")
def _clear(E, ev):
    ev.attrs["flag"] = False
    E.ghost.setdefault("events", []).append("breaker.clear")


@register(ThreadGhost.start, "threading.Thread.start")
def _tstart(E, th):
    E.ghost.setdefault("events", []).append("thread.start")


@register(ThreadGhost.join, "threading.Thread.join")
def _tjoin(E, th):
    E.ghost.setdefault("events", []).append("thread.join")


@register(ThreadGhost.is_alive, "threading.Thread.is_alive")
def _talive(E, th):
    return True


def monotonic_model(E):
    now2 = E.fresh_int("now")
    E.assume(z3.And(now2 >= E.ghost["now"], now2 < 2 ** 63))     # a C long long of nanoseconds
    E.ghost["now"] = now2
    return SInt(now2)


def thread_model(E, group=None, target=None, name=None, args=(), kwargs=None, *, daemon=None):
    return SObj(ThreadGhost, {"target": target, "daemon": daemon, "args": args})


def install_time_models():
    monotonic_model._model_name = "time.monotonic_ns"
    models._REG[id(time.monotonic_ns)] = (time.monotonic_ns, monotonic_model)
    thread_model._model_name = "threading.Thread"
    models._REG[id(threading.Thread)] = (threading.Thread, thread_model)


def mk_gen(E, links=None):
    cg = toolkit("clck_gen")
    ul = toolkit("udp_link")
    g = SObj(cg.CLCKGen, {
        "_breaker": SObj(EventGhost, {"flag": False}), "_thread": None,
        "clck_links": links if links is not None else [],
        "ind_period": SInt(z3.Int("ind_period")), "clck_start": SInt(z3.Int("clck_start")),
        "clck_src": SInt(z3.Int("clck_src")), "ctr_interval": cg.CLCKGen.GSM_FRAME_US / cg.CLCKGen.SEC_DELAY_US,
        "clck_handler": None, "sched_rr_prio": None})
    E.assume(z3.And(z3.Int("ind_period") >= 1, z3.Int("clck_start") >= 0, z3.Int("clck_start") < H, z3.Int("clck_src") >= 0, z3.Int("clck_src") < H))
    from engine.pyvc.harness import bind_props
    return bind_props(E, g)


def build(run, prop=ID):
    install_time_models()
    E = new_engine()
    sect(run, build_tick_const, run, prop)
    sect(run, build_send, run, prop, E)
    sect(run, build_worker, run, prop, E)
    sect(run, build_start_stop, run, prop, E)
    sect(run, build_lemma, run, prop)
    note_engine(run, E)
    run.assume("virtual clock: time.monotonic_ns() returns a non-decreasing `now` below 2^63 (int64 nanoseconds); Event.wait(dt*1e-9) returns True (stop) or returns False "
               "no earlier than dt ns later; float rounding of dt*1e-9 ignored; handler/link durations arbitrary (clock may advance at any call)")
    run.assume("sched_rr_prio is None (the SCHED_RR branch only calls os.sched_setscheduler inside try/except OSError)")
    run.assume("real scheduler jitter and the threading module itself are outside the property (it quantifies over a virtual clock)")
    run.extra["paths_explored"] = E.stats["paths"]


def build_tick_const(run, prop):
    cg = toolkit("clck_gen")
    iv = cg.CLCKGen.GSM_FRAME_US / cg.CLCKGen.SEC_DELAY_US
    t_tick = int(iv // 1e-9)
    run.add(Obligation(prop, "clck_gen.CLCKGen.t_tick", "frame_period_4615000ns_within_1ns", [], z3.BoolVal(abs(t_tick - 4615000) <= 1),
                       kind="table", where="src/target/trx_toolkit/clck_gen.py", tag={"what": "t_tick", "value": t_tick}))


# ------------------------------------------------------------------ send_clck_ind

def build_send(run, prop, E):
    cg = toolkit("clck_gen")
    ul = toolkit("udp_link")
    f = raw(cg.CLCKGen, "send_clck_ind")
    register_fn(run, f)
    src, per = z3.Int("clck_src"), z3.Int("ind_period")
    cnt0 = z3.Int("sent_q0")

    def send_summary(E, func, args, kwargs):
        link, payload = args
        E.ghost.setdefault("payloads", []).append(payload)
        E.ghost["sent_q"] = wrap_int(Z(E.ghost["sent_q"]) + z3.If(link.idt == Q, 1, 0))
        return None
    E.summaries = {"udp_link.UDPLink.send": send_summary}

    def havoc(E, fr, i):
        E.ghost["sent_q"] = SInt(E.fresh_int("sent_q"))
        E.ghost["payloads"] = []
        fr.locals.pop("link", None)

    def inv(E, fr, i):
        g = E.ghost["gen"]
        same = z3.BoolVal(g.attrs["clck_src"] is E.ghost["src0"] and g.attrs["clck_links"] is E.ghost["links0"])
        return z3.And(same, Z(E.ghost["sent_q"]) == cnt0 + z3.If(z3.And(PRESENT, PQ < i), 1, 0))

    def facts(E, fr, i):
        return [z3.Implies(PRESENT, (z3.Select(LIDS, i) == Q) == (i == PQ)), z3.Implies(z3.Not(PRESENT), z3.Select(LIDS, i) != Q)]
    E.loop_specs = {("clck_gen.CLCKGen.send_clck_ind", 1): LoopSpec("links_loop", havoc, inv, facts=facts)}
    for with_handler in (False, True):
        cs = "handler=%s" % with_handler

        def setup(E, with_handler=with_handler):
            E.assume(LN >= 0)
            E.assume(z3.Implies(PRESENT, z3.And(PQ >= 0, PQ < LN, z3.Select(LIDS, PQ) == Q)))
            links = models.obj_seq(LIDS, LN, lambda idt: SRef(ul.UDPLink, idt, {}), lambda v: v.idt)
            g = mk_gen(E, links)
            E.ghost.update({"gen": g, "src0": g.attrs["clck_src"], "links0": links, "sent_q": SInt(cnt0), "payloads": [], "handler_calls": []})
            if with_handler:
                def handler(E, fn):
                    E.ghost["handler_calls"].append((fn, E.ghost["gen"].attrs["clck_src"]))
                    return None
                handler._engine_callable = True
                g.attrs["clck_handler"] = handler
            return {"self": g}
        n_exit = 0
        for p, ctx, out in run_paths(E, setup, lambda E, ctx: E.call(f, [ctx["self"]])):
            tag = {"what": "send", "handler": with_handler}
            run.add(*path_obligations(run, prop, f, p, cs, tag=tag))
            for pl in p.ghost.get("payloads", []):
                # the text, however it was assembled (%, +, f-string): 'IND CLOCK ' <fn as decimal> NUL
                pcs = models.str_pieces(pl)
                ok = pcs is not None and len(pcs) == 3 and pcs[0] == "IND CLOCK " and pcs[2] == "\0" and isinstance(pcs[1], FmtStr) and pcs[1].fmt == "int"
                run.add(Obligation(prop, qualname(f), "payload_is_IND_CLOCK_fn_NUL", p.pc,
                                   z3.And(z3.BoolVal(bool(ok)), Z(pcs[1].args[0]) == src) if ok else z3.BoolVal(False), kind="post", case=cs, where=where(f), tag=tag))
            if out[0] == "cut":
                continue
            if out[0] == "raise":
                run.add(Obligation(prop, qualname(f), "never_raises", p.pc, z3.BoolVal(False), kind="noexc", note=exc_note(out[1]), case=cs + "," + out[1].cls.__name__, where=where(f), tag=tag))
                continue
            n_exit += 1
            g = ctx["self"]
            due = src % per == 0
            run.add(Obligation(prop, qualname(f), "indication_to_every_link_iff_fn_multiple_of_period", p.pc,
                               Z(p.ghost["sent_q"]) == cnt0 + z3.If(z3.And(due, PRESENT), 1, 0), kind="post", case=cs, where=where(f), tag=tag))
            run.add(Obligation(prop, qualname(f), "next_fn_is_plus_one_mod_hyperframe", p.pc, Z(g.attrs["clck_src"]) == (src + 1) % H, kind="post", case=cs, where=where(f), tag=tag))
            calls = p.ghost.get("handler_calls", [])
            if with_handler:
                okc = len(calls) == 1
                run.add(Obligation(prop, qualname(f), "handler_called_once_with_current_fn", p.pc,
                                   z3.And(z3.BoolVal(okc), Z(calls[0][0]) == src, Z(calls[0][1]) == src) if okc else z3.BoolVal(False), kind="post", case=cs, where=where(f), tag=tag))
            run.add(Obligation(prop, qualname(f), "frame_only_clck_src_changes", p.pc,
                               z3.BoolVal(g.attrs["clck_links"] is p.ghost["links0"] and g.attrs["_thread"] is None), kind="frame", case=cs, where=where(f), tag=tag))
        if n_exit == 0:
            run.add(Obligation(prop, qualname(f), "exit_path_exists", [], z3.BoolVal(False), kind="cover", case=cs, where=where(f)))
    run.add(Cover(prop, qualname(f), "cover_due", [src % per == 0, per >= 2, src >= 1]))
    E.loop_specs = {}


# ------------------------------------------------------------------ _worker

def build_worker(run, prop, E):
    cg = toolkit("clck_gen")
    f = raw(cg.CLCKGen, "_worker")
    register_fn(run, f)
    T = int((cg.CLCKGen.GSM_FRAME_US / cg.CLCKGen.SEC_DELAY_US) // 1e-9)
    k_in, base_in, k0_in = z3.Int("ticks0"), z3.Int("base0"), z3.Int("k0_0")

    def tick_summary(E, func, args, kwargs):
        """send_clck_ind contract at the call site: one tick; the clock may advance arbitrarily while it runs"""
        E.ghost["fire_time"] = E.ghost["now"]
        E.ghost["ticks"] = E.ghost["ticks"] + 1
        now2 = E.fresh_int("now")
        E.assume(z3.And(now2 >= E.ghost["now"], now2 < 2 ** 63))
        E.ghost["now"] = now2
        return None
    E.summaries = {"clck_gen.CLCKGen.send_clck_ind": tick_summary}

    # locals of _worker bound by use: the deadline is the monotonic reading that is advanced with `+=`; the other reading is "now"
    lr = local_roles(f)
    mono = lr["assigned_call"].get("monotonic_ns", [])
    dl = [x for x in mono if x in lr["aug_added"]]
    if len(dl) != 1:
        raise Unsupported("_worker: cannot identify the deadline variable (monotonic readings %s, advanced %s)" % (mono, lr["aug_added"]))
    TN = dl[0]
    TREAD = ([x for x in mono if x != TN] or ["t"])[0]
    TTICK = (lr["assigned_call"].get("int") or ["t_tick"])[0]

    def havoc(E, fr, i):
        fr.locals[TN] = SInt(E.fresh_int("t_next"))
        for k in (TREAD, "dt"):
            fr.locals.pop(k, None)
        E.ghost["now"] = E.fresh_int("now")
        E.ghost["ticks"] = E.fresh_int("ticks")
        E.ghost["base"], E.ghost["k0"] = E.fresh_int("base"), E.fresh_int("k0")
        E.ghost["pre"] = (fr.locals[TN].t, E.ghost["ticks"])
        E.ghost["fire_time"] = None
        E.ghost["waits"] = []
        E.ghost["stop_seen"] = False

    def inv(E, fr, i):
        tn = Z(fr.locals[TN])
        g = E.ghost
        return z3.And(g["ticks"] == i, g["k0"] >= 0, g["k0"] <= g["ticks"], tn == g["base"] + (g["ticks"] - g["k0"]) * T,
                      tn <= g["now"], g["now"] < 2 ** 63, g["base"] >= 0,          # the deadline just served is not in the future: waits stay below one period
                      z3.BoolVal(fr.locals.get(TTICK) == T))

    def step(E, fr, i):
        g = E.ghost
        tn_pre, k_pre = g["pre"]
        tn = Z(fr.locals[TN])
        overrun = tn != tn_pre + T
        # resync: a new base at the current deadline
        g["base"] = z3.If(overrun, tn, g["base"])
        g["k0"] = z3.If(overrun, g["ticks"], g["k0"])
        E.require("one_tick_per_iteration_no_catch_up", g["ticks"] == k_pre + 1, kind="post")
        if g["fire_time"] is not None:
            E.require("tick_fires_no_earlier_than_its_deadline", g["fire_time"] >= tn, kind="post")
        else:
            E.require("tick_fired", z3.BoolVal(False), kind="post")
        E.require("deadline_absolute_or_resynchronised_to_now", z3.Or(tn == tn_pre + T, z3.And(tn_pre + T < tn, tn <= g["now"])), kind="post")
        waits = g.get("waits", [])
        t_read = Z(fr.locals[TREAD]) if TREAD in fr.locals else None
        if len(waits) == 1 and t_read is not None:
            E.require("waits_exactly_until_deadline_or_not_at_all", waits[0] == z3.If(tn_pre + T >= t_read, tn_pre + T - t_read, 0), kind="post")
            E.require("deadline_not_left_in_the_past_after_overrun", tn >= t_read, kind="post")
        else:
            E.require("waits_exactly_until_deadline_or_not_at_all", z3.BoolVal(False), kind="post")
    def init(E, fr):
        E.ghost["base"] = Z(fr.locals[TN])      # the deadline sequence starts at the first clock reading
        E.ghost["k0"] = z3.IntVal(0)
        E.ghost["ticks"] = z3.IntVal(0)
    E.loop_specs = {("clck_gen.CLCKGen._worker", 1): LoopSpec("worker_loop", havoc, inv, ghost_step=step, init=init)}

    def setup(E):
        g = mk_gen(E, [])
        now0 = z3.Int("now0")
        E.assume(z3.And(now0 >= 0, now0 < 2 ** 63))
        E.ghost.update({"now": now0, "ticks": z3.IntVal(0), "base": z3.Int("base_init"), "k0": z3.IntVal(0), "gen": g})
        return {"self": g}
    n_stop = 0

    # the entry state must establish the invariant with base := the first monotonic reading: set ghost base lazily
    def inv_entry_fix(E, fr, i):
        return inv(E, fr, i)
    for p, ctx, out in run_paths(E, setup_with_base(setup), lambda E, ctx: E.call(f, [ctx["self"]])):
        tag = {"what": "worker"}
        run.add(*path_obligations(run, prop, f, p, "", tag=tag))
        if out[0] == "cut":
            continue
        if out[0] == "raise":
            run.add(Obligation(prop, qualname(f), "never_raises", p.pc, z3.BoolVal(False), kind="noexc", note=exc_note(out[1]), case=out[1].cls.__name__, where=where(f), tag=tag))
            continue
        n_stop += 1
        # the loop is only left through the breaker
        run.add(Obligation(prop, qualname(f), "returns_only_on_stop_request", p.pc, z3.BoolVal(bool(p.ghost.get("stop_seen"))), kind="post", where=where(f), tag=tag))
    if n_stop == 0:
        run.add(Obligation(prop, qualname(f), "stop_path_exists", [], z3.BoolVal(False), kind="cover", where=where(f)))
    E.loop_specs = {}


def setup_with_base(setup):
    def s(E):
        ctx = setup(E)
        # ghost base of the deadline sequence = the first clock reading (t_next's initial value): fixed when the loop is entered
        class LazyBase:
            pass
        return ctx
    return s


# ------------------------------------------------------------------ start / stop

def build_start_stop(run, prop, E):
    cg = toolkit("clck_gen")
    fs, fp = raw(cg.CLCKGen, "start"), raw(cg.CLCKGen, "stop")
    register_fn(run, fs)
    register_fn(run, fp)
    E.summaries = {}
    start = z3.Int("clck_start")
    for has_thread in (False, True):
        cs = "thread=%s" % has_thread

        def setup(E, has_thread=has_thread):
            g = mk_gen(E, [])
            if has_thread:
                g.attrs["_thread"] = SObj(ThreadGhost, {})
            return {"self": g}
        for p, ctx, out in run_paths(E, setup, lambda E, ctx: E.call(fs, [ctx["self"]])):
            tag = {"what": "start"}
            g = ctx["self"]
            if out[0] == "raise":
                # a second start() may be refused by any exception (the statement only speaks of stop()/start() cycles): it must never
                # happen for a stopped generator, and it must not leave a second thread behind
                run.add(Obligation(prop, qualname(fs), "start_refused_only_when_already_started", p.pc, z3.BoolVal(has_thread and issubclass(out[1].cls, Exception)),
                                   kind="post", case=cs, where=where(fs), tag=tag))
                continue
            th = g.attrs.get("_thread")
            ok = (not has_thread) and isinstance(th, SObj) and th.cls is ThreadGhost and isinstance(th.attrs.get("target"), BoundMethod) \
                and th.attrs["target"].func is raw(cg.CLCKGen, "_worker") and th.attrs["target"].selfv is g \
                and p.ghost.get("events") == ["thread.start"]
            run.add(Obligation(prop, qualname(fs), "starts_daemon_worker_thread", p.pc, z3.BoolVal(bool(ok)), kind="post", case=cs, where=where(fs), tag=tag))
            run.add(Obligation(prop, qualname(fs), "restarts_from_start_frame", p.pc, Z(g.attrs["clck_src"]) == start, kind="post", case=cs, where=where(fs), tag=tag))
        for p, ctx, out in run_paths(E, setup, lambda E, ctx: E.call(fp, [ctx["self"]])):
            tag = {"what": "stop"}
            g = ctx["self"]
            if out[0] == "raise":
                run.add(Obligation(prop, qualname(fp), "never_raises", p.pc, z3.BoolVal(False), kind="noexc", note=exc_note(out[1]), case=cs + "," + out[1].cls.__name__, where=where(fp), tag=tag))
                continue
            ev = p.ghost.get("events", [])
            ok = g.attrs.get("_thread", "<deleted>") is None and g.attrs["_breaker"].attrs["flag"] is False and \
                ev == (["breaker.set", "thread.join", "breaker.clear"] if has_thread else [])
            run.add(Obligation(prop, qualname(fp), "stop_joins_worker_and_clears_breaker", p.pc, z3.BoolVal(bool(ok)), kind="post", case=cs, where=where(fp), tag=tag))


# ------------------------------------------------------------------ lemma

def build_lemma(run, prop):
    """Over the contracts: handler frame numbers are clck_start + k (mod H); indications exactly at multiples of the period."""
    s, k, src = z3.Ints("clck_start k src")
    f = "lemma.sequence"
    inv = z3.And(s >= 0, s < H, k >= 0, src == (s + k) % H)
    run.add(Obligation(prop, f, "start_establishes", [s >= 0, s < H, k == 0, src == s], inv, kind="lemma"))
    run.add(Obligation(prop, f, "tick_preserves", [inv], z3.And((src + 1) % H == (s + k + 1) % H, (src + 1) % H >= 0, (src + 1) % H < H), kind="lemma"))
    run.add(Obligation(prop, f, "wraps_2715647_to_0", [src == H - 1], (src + 1) % H == 0, kind="lemma"))
    run.fn(f, "spec (lemma over start / send_clck_ind contracts)", 0, "frame number sequence")


# ------------------------------------------------------------------ witness / replay

def witness(o, model):
    t = dict(o.tag or {}) if isinstance(o.tag, dict) else {}
    for nme in ("clck_src", "ind_period", "clck_start", "links.len"):
        t[nme] = mval(model, z3.Int(nme))
    return t


def replay(payload):
    """Native: the real CLCKGen with time.monotonic_ns / Event.wait replaced by a scripted virtual clock."""
    f = payload["inputs"]
    cg = toolkit("clck_gen")
    what = f.get("what")
    if what == "t_tick":
        return {"confirmed": abs(f["value"] - 4615000) > 1, "observed": f["value"], "expected": "4615000 +- 1"}
    if what == "send":
        sent, calls = [], []

        class Link:
            def __init__(s, n):
                s.n = n

            def send(s, data):
                sent.append((s.n, data))
        n = min(4, max(1, f["links.len"]))
        g = cg.CLCKGen([Link(i) for i in range(n)], ind_period=max(1, f["ind_period"]))
        g.clck_src = f["clck_src"] % H
        g.clck_handler = lambda fn: calls.append(fn)
        src = g.clck_src
        g.send_clck_ind()
        due = src % g.ind_period == 0
        ok = calls == [src] and g.clck_src == (src + 1) % H
        ok = ok and (sorted(x[0] for x in sent) == list(range(n)) if due else sent == [])
        ok = ok and all(d == "IND CLOCK %u\0" % src for _n, d in sent)
        return {"confirmed": not ok, "observed": [calls, g.clck_src, sent[:2]], "expected": "one indication per link iff due; handler once; fn+1 mod H"}
    if what in ("start", "stop"):
        # the real start()/stop() with the thread object replaced by a recorder: any prior counter value, stop() then start()
        started = []

        class Th:
            def __init__(s, group=None, target=None, name=None, args=(), kwargs=None, *, daemon=None):
                s.daemon = daemon

            def start(s):
                started.append(1)

            def join(s):
                pass
        cgm = toolkit("clck_gen")
        orig = cgm.threading.Thread
        cgm.threading.Thread = Th
        bad = []
        try:
            for cs in sorted({f.get("clck_start", 0) % H, 0, 7, H - 1}):
                for prior in sorted({f.get("clck_src", 0) % H, 0, 12345, H - 1}):
                    g = cg.CLCKGen([], clck_start=cs)
                    g.start()
                    if g.clck_src != cs:
                        bad.append(("first start", cs, g.clck_src))
                    g.clck_src = prior            # the worker advanced the counter
                    g.stop()
                    if g._thread is not None:
                        bad.append(("stop leaves a thread", cs))
                    g.start()
                    if g.clck_src != cs:
                        bad.append(("restart", {"clck_start": cs, "counter before stop": prior, "counter after restart": g.clck_src}))
                    # the restarted generator must tick again: run the worker body of the restarted object synchronously for two ticks
                    ticks = []

                    def handler(fn, g=g, ticks=ticks):
                        ticks.append(fn)
                        if len(ticks) >= 2:
                            g._breaker.set()
                    g.clck_handler = handler
                    g._worker()
                    if ticks != [cs, (cs + 1) % H]:
                        bad.append(("restarted generator does not tick", {"clck_start": cs, "frames seen by the handler after stop()/start()": ticks}))
                    g._breaker.clear()
        except Exception as e:
            bad.append(("raises", type(e).__name__, str(e)))
        finally:
            cgm.threading.Thread = orig
        return {"confirmed": bool(bad), "observed": bad[:3] or "every (re)start begins at clck_start", "expected": "counter == clck_start after every start()"}
    if what == "worker":
        # scripted clock: handler durations alternate below/above one frame period
        T = int((cg.CLCKGen.GSM_FRAME_US / cg.CLCKGen.SEC_DELAY_US) // 1e-9)
        cgm = toolkit("clck_gen")
        # handler-duration scripts: around one period, and extreme overruns (seconds, hours) - the worker must keep ticking through all of them
        scripts = [[100, T // 2, 3 * T, 10, T + 1, 5, 5, 2 * T, 1],
                   [5, 1500 * T, 5, 10 ** 6 * T, 7, T - 1, T, 10 ** 9 * T, 3, 3]]
        for durs in scripts:
            clock = {"now": 1000}
            fired, waits = [], []
            g = cg.CLCKGen([])

            class Ev:
                def wait(s, t):
                    waits.append(t)
                    clock["now"] += int(round(t * 1e9))
                    return len(fired) >= len(durs)
            g._breaker = Ev()
            g.send_clck_ind = lambda: (fired.append(clock["now"]), clock.__setitem__("now", clock["now"] + durs[len(fired) - 1]))
            orig = cgm.time.monotonic_ns
            cgm.time.monotonic_ns = lambda: clock["now"]
            import logging
            logging.disable(logging.CRITICAL)
            try:
                g._worker()
            finally:
                cgm.time.monotonic_ns = orig
            bad = []
            base, k0 = 1000, 0
            for k, t in enumerate(fired):
                dl = base + (k + 1 - k0) * T
                if t < dl - 2:           # overrun -> resync
                    pass
                if k > 0 and fired[k - 1] + durs[k - 1] > dl:      # previous handler overran this deadline: resync expected
                    base, k0 = t, k + 1
                elif abs(t - dl) > 2:
                    bad.append((k, t, dl))
                    base, k0 = t, k + 1
            if bad or len(fired) != len(durs):
                return {"confirmed": True, "statement_level": True,
                        "observed": bad or "the worker returned after %d of %d ticks without a stop request" % (len(fired), len(durs)),
                        "handler_durations_ns": durs, "expected": "t0 + k*T or resync; the loop is only left on a stop request"}
        return {"confirmed": False, "observed": "deadlines absolute, one tick per iteration, loop left only on the stop request", "expected": "t0 + k*T or resync"}
    return {"confirmed": False, "error": "no native replay for %r" % what}

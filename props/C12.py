"""C12 - power state, child transceivers and clock distribution stay consistent.

Functions under contract:
  Transceiver.power_event_handler(poweron)
        affected = {self} + (children if child_mgt and child_idx == 0): running := poweron; on power-off also queue emptied and
        hopping parameters forgotten; every other transceiver untouched (loop invariant over the child list, arbitrary child q);
        clock: self.clck_if in clck_links <=> self.running afterwards, other links untouched, list stays duplicate-free,
        generator started iff it was stopped and links became non-empty, stopped iff running and links became empty
  Transceiver.ready                 tuned (both frequencies) or hopping configured
  CTRLInterfaceTRX.parse_cmd        POWERON: -1 and no change if running or not ready, else handler(True) and 0; POWEROFF: handler(False), 0
  Transceiver.__init__              port plan: DATA remote base+2*idx+102 / local base+2*idx+2, CTRL +101 / +1, CLCK (only with a clock
                                    generator) +100 / +0; a child (idx > 0) with its own clock -> TypeError
  Application.append_trx / append_child_trx   wiring (bounded: existing lists of 0..2 transceivers)
Lemma C12/PWR: the invariant  (t.clck_if in links <=> t.running) and (generator running <=> links non-empty)  is preserved by
the handler's contract, hence holds after any command history.
"""
import z3
from engine.common.core import Obligation, Cover, mval
from engine.pyvc.values import *
from engine.pyvc import models
from engine.pyvc.models import SetList, register
from engine.pyvc.loops import LoopSpec
from engine.pyvc.harness import toolkit, raw, where, new_engine, run_paths, path_obligations, register_fn, note_engine, qualname, exc_note, sect
from contracts.py import trx as T
from contracts.py.common import snapshot, attr, mk_sock, GhostSocket
from contracts.py.tokens import IntTok

ID = "C12"
ENGINE = "PyVC"
LEVEL = "proof"
Z = models.zint
I, B = z3.IntSort(), z3.BoolSort()

CIDS = z3.Array("children.ids", I, I)
CN = z3.Int("children.len")
RUN0 = z3.Array("running", I, B)
FHS0 = z3.Array("fh_set", I, B)
QLEN0 = z3.Array("qlen", I, I)
LINKS0 = z3.Array("links.member", I, B)
LLEN0 = z3.Int("links.len")
Q, PQ, PRESENT = z3.Int("q"), z3.Int("pos_q"), z3.Bool("q_is_child")


class ThreadGhost:
    """stands for the CLCKGen worker thread: alive until stop() joins it"""

    def is_alive(self):
        raise NotImplementedError


@register(ThreadGhost.is_alive, "threading.Thread.is_alive")
def _alive(E, th):
    return True


def fh_kind(E, ref, op, v):
    gs = toolkit("gsm_shared")
    if op == "get":
        if E.branch(z3.Select(E.sheap["fh_set"], ref.idt)):
            return SObj(gs.HoppingParams, {}, label="fh-of-child")
        return None
    E.sheap["fh_set"] = z3.Store(E.sheap["fh_set"], ref.idt, z3.BoolVal(v is not None))
    return None


def child_schema():
    return {"running": "bool", "fh": fh_kind}


def str_summary(E, func, args, kwargs):
    return FmtStr("trx", (args[0],))


def clear_summary(E, func, args, kwargs):
    """Transceiver.tx_queue_clear contract (C03): Q' == []"""
    o = args[0]
    if isinstance(o, SRef):
        E.sheap["qlen"] = z3.Store(E.sheap["qlen"], o.idt, z3.IntVal(0))
    else:
        o.attrs["_tx_queue"] = []
        E.ghost["self_queue_cleared"] = True
    return None


def gen_start(E, func, args, kwargs):
    g = args[0]
    E.require("pre_start_generator_is_stopped", z3.BoolVal(g.attrs["_thread"] is None), kind="pre")
    g.attrs["_thread"] = SObj(ThreadGhost, {})
    E.ghost.setdefault("gen", []).append("start")
    return None


def gen_stop(E, func, args, kwargs):
    g = args[0]
    g.attrs["_thread"] = None
    E.ghost.setdefault("gen", []).append("stop")
    return None


BASE_SUMM = {"transceiver.Transceiver.__str__": str_summary, "transceiver.Transceiver.tx_queue_clear": clear_summary,
             "clck_gen.CLCKGen.start": gen_start, "clck_gen.CLCKGen.stop": gen_stop}


def ident(v):
    return v.idt if isinstance(v, SRef) else z3.IntVal(-v.oid)


def mk_self(E, poweron, fh_set, own_clock, gen_running):
    gs = toolkit("gsm_shared")
    tl = toolkit("trx_list")
    cg = toolkit("clck_gen")
    ul = toolkit("udp_link")
    ft = toolkit("fake_trx")
    t = T.mk_trx(E, "t.", fh=SObj(gs.HoppingParams, {}, label="fh0") if fh_set else None)
    t.attrs["child_mgt"] = SBool(z3.Bool("t.child_mgt"))
    t.attrs["child_idx"] = SInt(z3.Int("t.child_idx"))
    E.assume(z3.Int("t.child_idx") >= 0)
    E.assume(CN >= 0)
    E.assume(z3.Implies(PRESENT, z3.And(PQ >= 0, PQ < CN, z3.Select(CIDS, PQ) == Q)))
    kids = models.obj_seq(CIDS, CN, lambda idt: SRef(ft.FakeTRX, idt, child_schema()), lambda v: v.idt)
    t.attrs["child_trx_list"] = SObj(tl.TRXList, {"trx_list": kids})
    t.attrs["_tx_queue"] = ["<queued>"]
    if own_clock:
        links = SetList(LINKS0, LLEN0, ident)
        E.assume(LLEN0 >= 0)
        gen = SObj(cg.CLCKGen, {"clck_links": links, "_thread": SObj(ThreadGhost, {}) if gen_running else None})
        t.attrs["clck_gen"] = gen
        t.attrs["clck_if"] = SObj(ul.UDPLink, {}, label="t.clck_if")
        # PWR invariant as pre-condition: generator runs iff links non-empty; own link listed iff running
        E.assume(z3.BoolVal(gen_running) == (LLEN0 > 0))
        E.assume(z3.Select(LINKS0, ident(t.attrs["clck_if"])) == z3.Bool("t.running"))
        E.assume(z3.Implies(z3.Select(LINKS0, ident(t.attrs["clck_if"])), LLEN0 >= 1))
    E.sheap["running"], E.sheap["fh_set"], E.sheap["qlen"], E.sheap["fh"] = RUN0, FHS0, QLEN0, True
    return t


def build(run, prop=ID):
    E = new_engine()
    sect(run, build_handler, run, prop, E)
    sect(run, build_ready_and_power_cmds, run, prop, E)
    sect(run, build_init, run, prop, E)
    sect(run, build_wiring, run, prop, E)
    sect(run, build_wiring_unbounded, run, prop, E)
    sect(run, build_trx_list, run, prop, E)
    sect(run, build_pwr_lemma, run, prop)
    # "the generator runs iff links are attached" is judged through CLCKGen.start()/stop(): their contract (C09) is discharged here as well
    from props import C09 as _C09
    _C09.install_time_models()
    E3 = new_engine()
    sect(run, _C09.build_start_stop, run, prop, E3)
    note_engine(run, E)
    run.assume("CLCKGen.start()/stop() start/join the worker thread (threading assumed); the worker stays alive until stopped")
    run.assume("children of a transceiver are pairwise distinct and distinct from it (TRXList.add_trx); clock links are duplicate-free (invariant, re-proved)")
    run.assume("socket creation/bind modelled as recording the bound address")
    run.extra["paths_explored"] = E.stats["paths"]


# ------------------------------------------------------------------ power_event_handler

def build_handler(run, prop, E):
    tr = toolkit("transceiver")
    f = raw(tr.Transceiver, "power_event_handler")
    register_fn(run, f)
    register_fn(run, raw(tr.Transceiver, "disable_fh"), "inlined")
    E.summaries = dict(BASE_SUMM)
    qn = "transceiver.Transceiver.power_event_handler"
    run0 = z3.Bool("t.running")

    for poweron in (True, False):
        for fh_set in (False, True):
            for own_clock, gen_running in ((False, False), (True, False), (True, True)):
                cs = "poweron=%s,fh=%s,clock=%s,gen=%s" % (poweron, fh_set, own_clock, gen_running)
                state = {}

                def self_state_at(E, t, i_ge_1, poweron=poweron, fh_set=fh_set):
                    """the state of `self` the invariant prescribes (it is fully determined by the loop index)"""
                    if i_ge_1:
                        t.attrs["running"] = poweron
                        if not poweron:
                            t.attrs["fh"] = None
                            t.attrs["_tx_queue"] = []
                    # else: untouched (as built by mk_self)

                def havoc(E, fr, i, poweron=poweron):
                    t = E.ghost["self"]
                    self_state_at(E, t, E.branch(i >= 1))
                    E.sheap["running"] = z3.Array(E.fresh("running"), I, B)
                    E.sheap["fh_set"] = z3.Array(E.fresh("fh_set"), I, B)
                    E.sheap["qlen"] = z3.Array(E.fresh("qlen"), I, I)
                    fr.locals.pop("trx", None)

                def inv(E, fr, i, poweron=poweron, fh_set=fh_set):
                    t = E.ghost["self"]
                    r = t.attrs["running"]
                    selfc = z3.And(models.to_z3bool(r) == z3.If(i >= 1, z3.BoolVal(poweron), run0),
                                   z3.Implies(z3.And(i >= 1, z3.BoolVal(not poweron)), z3.BoolVal(t.attrs["fh"] is None and t.attrs["_tx_queue"] == [])),
                                   z3.Implies(z3.Or(i < 1, z3.BoolVal(poweron)), z3.BoolVal((t.attrs["fh"] is not None) == fh_set and t.attrs["_tx_queue"] != [])))
                    done = z3.And(PRESENT, PQ + 1 < i)
                    rq, fq, lq = z3.Select(E.sheap["running"], Q), z3.Select(E.sheap["fh_set"], Q), z3.Select(E.sheap["qlen"], Q)
                    childc = z3.If(done, z3.And(rq == poweron, z3.Implies(z3.BoolVal(not poweron), z3.And(z3.Not(fq), lq == 0)),
                                                z3.Implies(z3.BoolVal(poweron), z3.And(fq == z3.Select(FHS0, Q), lq == z3.Select(QLEN0, Q)))),
                                   z3.And(rq == z3.Select(RUN0, Q), fq == z3.Select(FHS0, Q), lq == z3.Select(QLEN0, Q)))
                    return z3.And(selfc, childc)

                def facts(E, fr, i):
                    # instances at child index i-1 of: children pairwise distinct; q not a child => no child is q
                    c = i - 1
                    return [z3.Implies(z3.And(PRESENT, c >= 0), (z3.Select(CIDS, c) == Q) == (c == PQ)),
                            z3.Implies(z3.And(z3.Not(PRESENT), c >= 0), z3.Select(CIDS, c) != Q)]
                E.loop_specs = {(qn, 1): LoopSpec("power_loop", havoc, inv, facts=facts)}

                def setup(E, poweron=poweron, fh_set=fh_set, own_clock=own_clock, gen_running=gen_running):
                    t = mk_self(E, poweron, fh_set, own_clock, gen_running)
                    E.ghost["self"] = t
                    return {"self": t, "pre": snapshot(t)}
                managed = z3.And(z3.Bool("t.child_mgt"), z3.Int("t.child_idx") == 0)
                n_exit = 0
                for p, ctx, out in run_paths(E, setup, lambda E, ctx, poweron=poweron: E.call(f, [ctx["self"], poweron])):
                    tag = {"what": "handler", "poweron": poweron, "fh": fh_set, "clock": own_clock, "gen": gen_running}
                    run.add(*path_obligations(run, prop, f, p, cs, tag=tag))
                    if out[0] == "cut":
                        continue
                    if out[0] == "raise":
                        run.add(Obligation(prop, qualname(f), "never_raises", p.pc, z3.BoolVal(False), kind="noexc", note=exc_note(out[1]), case=cs + "," + out[1].cls.__name__, where=where(f), tag=tag))
                        continue
                    n_exit += 1
                    t = ctx["self"]

                    def ob(clause, goal, kind="post"):
                        run.add(Obligation(prop, qualname(f), clause, p.pc, goal, kind=kind, case=cs, where=where(f), tag=tag))
                    ob("self_running_is_poweron", models.to_z3bool(t.attrs["running"]) == poweron)
                    if not poweron:
                        ob("poweroff_forgets_hopping_and_queue", z3.BoolVal(t.attrs["fh"] is None and t.attrs["_tx_queue"] == []))
                    else:
                        ob("poweron_keeps_hopping_and_queue", z3.BoolVal((t.attrs["fh"] is not None) == fh_set and t.attrs["_tx_queue"] != []))
                    g = p.ghost
                    sh_run, sh_fh, sh_q = ctx_sheap(p, "running"), ctx_sheap(p, "fh_set"), ctx_sheap(p, "qlen")
                    rq, fq, lq = z3.Select(sh_run, Q), z3.Select(sh_fh, Q), z3.Select(sh_q, Q)
                    affected = z3.And(PRESENT, managed)
                    ob("children_follow_iff_managed_parent", rq == z3.If(affected, z3.BoolVal(poweron), z3.Select(RUN0, Q)))
                    ob("child_hopping_and_queue", z3.And(fq == z3.If(z3.And(affected, z3.BoolVal(not poweron)), z3.BoolVal(False), z3.Select(FHS0, Q)),
                                                         lq == z3.If(z3.And(affected, z3.BoolVal(not poweron)), 0, z3.Select(QLEN0, Q))))
                    if own_clock:
                        gen = t.attrs["clck_gen"]
                        links = gen.attrs["clck_links"]
                        me = ident(t.attrs["clck_if"])
                        other = z3.Int("other_link")
                        ob("own_clock_link_listed_iff_running", z3.Select(links.member, me) == poweron)
                        ob("other_clock_links_untouched", z3.Implies(other != me, z3.Select(links.member, other) == z3.Select(LINKS0, other)))
                        ob("link_count_consistent", links.length == LLEN0 + z3.If(z3.And(z3.BoolVal(poweron), z3.Not(run0)), 1, 0)
                           - z3.If(z3.And(z3.BoolVal(not poweron), run0), 1, 0))
                        ob("generator_runs_iff_links_nonempty", z3.BoolVal(gen.attrs["_thread"] is not None) == (links.length > 0))
                    else:
                        ob("no_clock_no_generator_action", z3.BoolVal(not g.get("gen")))
                    keep = [k for k in ctx["pre"] if k not in ("running", "fh", "_tx_queue")]
                    ob("frame_other_state", z3.BoolVal(all(t.attrs.get(k) is ctx["pre"][k][0] for k in keep)), kind="frame")
                if n_exit == 0:
                    run.add(Obligation(prop, qualname(f), "exit_path_exists", [], z3.BoolVal(False), kind="cover", case=cs, where=where(f)))
    E.loop_specs = {}


def ctx_sheap(p, name):
    return p.sheap[name]


# ------------------------------------------------------------------ ready / POWERON / POWEROFF

def build_ready_and_power_cmds(run, prop, E):
    tr = toolkit("transceiver")
    ci = toolkit("ctrl_if_trx")
    gs = toolkit("gsm_shared")
    rd = raw(tr.Transceiver, "ready")
    register_fn(run, rd)
    pc = raw(ci.CTRLInterfaceTRX, "parse_cmd")
    register_fn(run, pc)
    rxn, txn = T.fb("t.", "_rx_freq?none"), T.fb("t.", "_tx_freq?none")
    running = T.fb("t.", "running")
    for fh_set in (False, True):
        def setup(E, fh_set=fh_set):
            t = T.mk_trx(E, "t.", fh=SObj(gs.HoppingParams, {}) if fh_set else None)
            return {"self": t, "pre": snapshot(t)}
        spec_ready = z3.Or(z3.And(z3.Not(rxn), z3.Not(txn)), z3.BoolVal(fh_set))
        E.summaries = {}
        for p, ctx, out in run_paths(E, setup, lambda E, ctx: E.call(rd, [ctx["self"]])):
            tag = {"what": "ready", "fh": fh_set}
            cs = "fh=%s" % fh_set
            if out[0] == "raise" or not isinstance(out[1], (bool, SBool)):
                run.add(Obligation(prop, qualname(rd), "returns_bool", p.pc, z3.BoolVal(False), kind="post", case=cs, where=where(rd), tag=tag))
                continue
            run.add(Obligation(prop, qualname(rd), "ready_iff_tuned_or_hopping", p.pc, models.to_z3bool(out[1]) == spec_ready, kind="post", case=cs, where=where(rd), tag=tag))
        # POWERON / POWEROFF through parse_cmd, handler used through its contract (call recorded)
        def handler_summary(E, func, args, kwargs):
            E.ghost.setdefault("handler", []).append(kwargs.get("poweron", args[1] if len(args) > 1 else None))
            return None
        E.summaries = {"transceiver.Transceiver.power_event_handler": handler_summary, "transceiver.Transceiver.__str__": str_summary}
        for verb in ("POWERON", "POWEROFF"):
            cs = "%s,fh=%s" % (verb, fh_set)
            for p, ctx, out in run_paths(E, setup, lambda E, ctx, verb=verb: E.call(pc, [ctx["self"].attrs["ctrl_if"], [verb]])):
                tag = {"what": "powercmd", "verb": verb}
                if out[0] == "raise":
                    run.add(Obligation(prop, qualname(pc), "never_raises", p.pc, z3.BoolVal(False), kind="noexc", note=exc_note(out[1]), case=cs + "," + out[1].cls.__name__, where=where(pc), tag=tag))
                    continue
                calls = p.ghost.get("handler", [])
                t = ctx["self"]
                st = out[1]
                if verb == "POWERON":
                    ok = z3.And(z3.Not(running), spec_ready)
                    goal = z3.If(ok, z3.And(Z(st) == 0, z3.BoolVal(calls == [True])), z3.And(Z(st) == -1, z3.BoolVal(calls == [])))
                else:
                    goal = z3.And(Z(st) == 0, z3.BoolVal(calls == [False]))
                run.add(Obligation(prop, qualname(pc), "status_and_handler_call", p.pc, goal if isinstance(st, (int, SInt)) else z3.BoolVal(False),
                                   kind="post", case=cs, where=where(pc), tag=tag))
                run.add(Obligation(prop, qualname(pc), "frame_state_only_through_handler", p.pc,
                                   z3.BoolVal(all(t.attrs.get(k) is ctx["pre"][k][0] for k in ctx["pre"])), kind="frame", case=cs, where=where(pc), tag=tag))


# ------------------------------------------------------------------ __init__ port plan

class SockFactory:
    pass


def build_init(run, prop, E):
    tr = toolkit("transceiver")
    ul = toolkit("udp_link")
    cg = toolkit("clck_gen")
    f = raw(tr.Transceiver, "__init__")
    register_fn(run, f)
    register_fn(run, raw(ul.UDPLink, "__init__"), "inlined")
    import socket as _socket

    def sock_model(E, *a, **k):
        return SObj(GhostSocket, {"bound": None})
    sock_model._model_name = "socket.socket"
    models._REG[id(_socket.socket)] = (_socket.socket, sock_model)

    @register(GhostSocket.__dict__.get("setsockopt", None) or _mk(GhostSocket, "setsockopt"), "socket.setsockopt")
    def _sso(E, s, *a):
        return None

    @register(_mk(GhostSocket, "bind"), "socket.bind")
    def _bind(E, s, addr):
        s.attrs["bound"] = addr
        return None

    @register(_mk(GhostSocket, "setblocking"), "socket.setblocking")
    def _sb(E, s, b):
        return None
    E.summaries = {}
    base, idx = z3.Int("base_port"), z3.Int("child_idx")
    for with_clock in (False, True):
        cs = "clck_gen=%s" % with_clock

        def setup(E, with_clock=with_clock):
            E.assume(z3.And(base >= 0, base <= 65000, idx >= 0, idx <= 100))
            gen = SObj(cg.CLCKGen, {"clck_links": []}) if with_clock else None
            return {"self": SObj(tr.Transceiver, {}), "gen": gen}

        def inv(E, ctx):
            kw = {"child_idx": SInt(idx), "name": "X"}
            if ctx["gen"] is not None:
                kw["clck_gen"] = ctx["gen"]
            return E.call(f, [ctx["self"], "0.0.0.0", "127.0.0.1", SInt(base)], kw)
        for p, ctx, out in run_paths(E, setup, inv):
            tag = {"what": "init", "clock": with_clock}
            if out[0] == "raise":
                goal = z3.And(z3.BoolVal(with_clock and issubclass(out[1].cls, TypeError)), idx > 0)
                run.add(Obligation(prop, qualname(f), "TypeError_iff_child_with_own_clock", p.pc, goal, kind="post", case=cs + ",raises", where=where(f), tag=tag))
                continue
            t = ctx["self"]
            run.add(Obligation(prop, qualname(f), "TypeError_iff_child_with_own_clock", p.pc, z3.Not(z3.And(z3.BoolVal(with_clock), idx > 0)), kind="post", case=cs, where=where(f), tag=tag))

            def link_ok(obj, rport, lport):
                if not isinstance(obj, SObj):
                    return z3.BoolVal(False)
                b = obj.attrs.get("sock").attrs.get("bound") if isinstance(obj.attrs.get("sock"), SObj) else None
                if not (isinstance(b, tuple) and len(b) == 2):
                    return z3.BoolVal(False)
                return z3.And(Z(obj.attrs.get("remote_port")) == rport, z3.BoolVal(obj.attrs.get("remote_addr") == "127.0.0.1" and b[0] == "0.0.0.0"), Z(b[1]) == lport)
            run.add(Obligation(prop, qualname(f), "data_link_ports", p.pc, link_ok(t.attrs.get("data_if"), base + 2 * idx + 102, base + 2 * idx + 2), kind="post", case=cs, where=where(f), tag=tag))
            run.add(Obligation(prop, qualname(f), "ctrl_link_ports", p.pc, link_ok(t.attrs.get("ctrl_if"), base + 2 * idx + 101, base + 2 * idx + 1), kind="post", case=cs, where=where(f), tag=tag))
            if with_clock:
                run.add(Obligation(prop, qualname(f), "clck_link_ports", p.pc, link_ok(t.attrs.get("clck_if"), base + 100, base), kind="post", case=cs, where=where(f), tag=tag))
            else:
                run.add(Obligation(prop, qualname(f), "no_clck_link_without_generator", p.pc, z3.BoolVal("clck_if" not in t.attrs), kind="post", case=cs, where=where(f), tag=tag))
            init_ok = (t.attrs.get("running") is False and t.attrs.get("fh") is None and t.attrs.get("_tx_queue") == [] and t.attrs.get("_rx_freq") is None
                       and t.attrs.get("_tx_freq") is None and isinstance(t.attrs.get("ctrl_if"), SObj) and t.attrs["ctrl_if"].attrs.get("trx") is t)
            run.add(Obligation(prop, qualname(f), "initial_state_idle_untuned", p.pc, z3.BoolVal(bool(init_ok)), kind="post", case=cs, where=where(f), tag=tag))


def _mk(cls, name):
    if name not in cls.__dict__:
        def stub(self, *a, **k):
            raise NotImplementedError
        stub.__name__ = name
        stub.__qualname__ = "%s.%s" % (cls.__name__, name)
        setattr(cls, name, stub)
    return cls.__dict__[name]


# ------------------------------------------------------------------ application wiring (bounded)

def build_wiring(run, prop, E):
    ft = toolkit("fake_trx")
    tl = toolkit("trx_list")
    cg = toolkit("clck_gen")
    fa = raw(ft.Application, "append_trx")
    fc = raw(ft.Application, "append_child_trx")
    register_fn(run, fa)
    register_fn(run, fc)
    register_fn(run, raw(tl.TRXList, "add_trx"), "inlined")
    register_fn(run, raw(tl.TRXList, "find_trx"), "inlined")
    E.summaries = {}
    K = 2

    def mk_app(E, existing):
        gen = SObj(cg.CLCKGen, {"clck_links": []})
        app = SObj(ft.Application, {"argv": SObj(SockFactory, {"trx_bind_addr": "0.0.0.0"}), "clck_gen": gen, "fake_pm": SObj(toolkit("fake_pm").FakePM, {}),
                                    "trx_list": SObj(tl.TRXList, {"trx_list": []})})
        for (addr, port) in existing:
            E.call(fa, [app, addr, port], {"name": "E%d" % port})
        return app, gen
    for nexist in range(0, K + 1):
        existing = [("127.0.0.1", 5700 + 100 * k) for k in range(nexist)]
        for mode in ("parent", "child_of_first", "child_of_missing"):
            if mode == "child_of_first" and nexist == 0:
                continue
            cs = "existing=%d,%s" % (nexist, mode)

            def setup(E, existing=existing):
                app, gen = mk_app(E, existing)
                return {"app": app, "gen": gen, "n0": len(app.attrs["trx_list"].attrs["trx_list"])}

            def inv(E, ctx, mode=mode, existing=existing):
                if mode == "parent":
                    return E.call(fc, [ctx["app"], "127.0.0.1", 9000], {"name": "N", "child_idx": 0})
                port = existing[0][1] if mode == "child_of_first" else 9900
                return E.call(fc, [ctx["app"], "127.0.0.1", port], {"name": "C", "child_idx": 1})
            for p, ctx, out in run_paths(E, setup, inv):
                tag = {"what": "wiring", "mode": mode}
                lst = ctx["app"].attrs["trx_list"].attrs["trx_list"]
                if out[0] == "raise":
                    goal = z3.BoolVal(mode == "child_of_missing" and issubclass(out[1].cls, IndexError) and len(lst) == ctx["n0"])
                    run.add(Obligation(prop, qualname(fc), "IndexError_iff_parent_missing", p.pc, goal, kind="post", case=cs, where=where(fc), tag=tag))
                    continue
                new = lst[-1] if len(lst) == ctx["n0"] + 1 else None
                ok = new is not None and mode != "child_of_missing"
                if ok and mode == "parent":
                    ok = new.attrs.get("clck_gen") is ctx["gen"] and new.attrs.get("child_idx") == 0 and new.attrs.get("pwr_meas") is ctx["app"].attrs["fake_pm"]
                if ok and mode == "child_of_first":
                    parent = lst[0]
                    ok = (new.attrs.get("clck_gen") is None and new.attrs.get("child_idx") == 1 and
                          parent.attrs["child_trx_list"].attrs["trx_list"] == [new] and "clck_if" not in new.attrs)
                run.add(Obligation(prop, qualname(fc), "wired_into_lists_with_shared_clock_for_parents_only", p.pc, z3.BoolVal(bool(ok)), kind="post", case=cs, where=where(fc), tag=tag,
                                   bounded=K))
    run.bounded_notes.append("Application.append_trx/append_child_trx additionally run on concrete transceiver lists of length 0..%d (labelled bounded; the unbounded law is build_wiring_unbounded over TRXList's contracts)" % K)


def build_wiring_unbounded(run, prop, E):
    """Application.append_trx / append_child_trx against TRXList's contracts (find_trx / add_trx, proved for lists of any length in
    build_trx_list): any number of existing transceivers, parent found or not, duplicate or not."""
    ft = toolkit("fake_trx")
    tl = toolkit("trx_list")
    cg = toolkit("clck_gen")
    fc = raw(ft.Application, "append_child_trx")
    port = z3.Int("base_port")

    def find_summary(E, func, args, kwargs):
        lst = args[0]
        E.ghost.setdefault("finds", []).append((lst, tuple(args[1:]), dict(kwargs)))
        if E.branch(z3.Bool("parent_found")):
            return E.ghost["parent"]
        return None

    def add_summary(E, func, args, kwargs):
        lst, trx = args
        if E.branch(z3.Bool(E.fresh("duplicate"))):
            E.raise_(IndexError, "duplicate")
        E.ghost.setdefault("adds", []).append((lst, trx))
        return None
    E.summaries = {"trx_list.TRXList.find_trx": find_summary, "trx_list.TRXList.add_trx": add_summary, "transceiver.Transceiver.__str__": str_summary}
    for mode in ("parent", "child"):
        cs = "any number of existing transceivers,%s" % mode

        def setup(E):
            gen = SObj(cg.CLCKGen, {"clck_links": []})
            app_list = SObj(tl.TRXList, {}, label="app.trx_list")
            parent_children = SObj(tl.TRXList, {}, label="parent.child_trx_list")
            parent = SObj(ft.FakeTRX, {"child_trx_list": parent_children, "name": "P"}, label="parent")
            app = SObj(ft.Application, {"argv": SObj(SockFactory, {"trx_bind_addr": "0.0.0.0"}), "clck_gen": gen, "fake_pm": SObj(toolkit("fake_pm").FakePM, {}),
                                        "trx_list": app_list})
            E.assume(z3.And(port >= 0, port <= 65535 - 200))
            E.ghost.update({"parent": parent, "adds": [], "finds": []})
            return {"app": app, "gen": gen, "parent": parent}

        def inv(E, ctx, mode=mode):
            return E.call(fc, [ctx["app"], "127.0.0.1", SInt(port)], {"name": "N", "child_idx": 0 if mode == "parent" else 1})
        for p, ctx, out in run_paths(E, setup, inv):
            tag = {"what": "wiring.unbounded", "mode": mode}
            adds, finds = p.ghost.get("adds", []), p.ghost.get("finds", [])
            app = ctx["app"]

            def ob(clause, goal):
                run.add(Obligation(prop, qualname(fc), clause, p.pc, goal, kind="post", case=cs, where=where(fc), tag=tag))
            if out[0] == "raise":
                ok_cls = issubclass(out[1].cls, IndexError)
                if mode == "child" and finds and not adds:
                    # either the parent is missing, or the child duplicates an existing transceiver: nothing was wired
                    ob("IndexError_only_when_parent_missing_or_duplicate", z3.BoolVal(ok_cls))
                else:
                    ob("IndexError_only_when_parent_missing_or_duplicate", z3.BoolVal(ok_cls and len(adds) <= 1))
                if mode == "child" and len(adds) == 1:
                    ob("half_wired_child_only_on_duplicate_in_parent_list", z3.BoolVal(adds[0][0] is app.attrs["trx_list"]))
                continue
            if mode == "parent":
                ok = len(adds) == 1 and adds[0][0] is app.attrs["trx_list"] and not finds
                new = adds[0][1] if ok else None
                ok = ok and isinstance(new, SObj) and new.attrs.get("clck_gen") is ctx["gen"] and new.attrs.get("child_idx") == 0 \
                    and new.attrs.get("pwr_meas") is app.attrs["fake_pm"]
                ob("parent_added_once_with_the_shared_clock_and_power_meter", z3.BoolVal(bool(ok)))
            else:
                ok = len(finds) == 1 and finds[0][0] is app.attrs["trx_list"] and len(adds) == 2 and adds[0][0] is app.attrs["trx_list"] \
                    and adds[1][0] is ctx["parent"].attrs["child_trx_list"] and adds[0][1] is adds[1][1]
                new = adds[0][1] if ok else None
                ok = ok and isinstance(new, SObj) and new.attrs.get("clck_gen") is None and new.attrs.get("child_idx") == 1 and "clck_if" not in new.attrs \
                    and new.attrs.get("pwr_meas") is app.attrs["fake_pm"]
                ob("child_added_to_the_application_and_to_its_parent_without_a_clock", z3.BoolVal(bool(ok)))
                if ok:
                    fargs = finds[0][1]
                    ob("parent_looked_up_by_the_childs_address_and_port", z3.BoolVal(fargs[0] == "127.0.0.1") if len(fargs) >= 2 else z3.BoolVal(False))
                ob("wired_only_when_the_parent_exists", z3.Bool("parent_found"))
    E.summaries = {}


# ------------------------------------------------------------------ PWR lemma

def build_trx_list(run, prop, E):
    """TRXList.find_trx / add_trx over a list of symbolic length (loop invariant: no earlier element matches)."""
    tl = toolkit("trx_list")
    ft = toolkit("fake_trx")
    ff, fa = raw(tl.TRXList, "find_trx"), raw(tl.TRXList, "add_trx")
    register_fn(run, ff)
    register_fn(run, fa)
    IDS, N = z3.Array("tl.ids", I, I), z3.Int("tl.len")
    ADDR, PORT, IDX = z3.Array("remote_addr", I, I), z3.Array("base_port", I, I), z3.Array("child_idx", I, I)
    a, p_, c = z3.Int("q.addr"), z3.Int("q.port"), z3.Int("q.idx")
    sch = {"remote_addr": "int", "base_port": "int", "child_idx": "int"}

    def match(j):
        i = z3.Select(IDS, j)
        return z3.And(z3.Select(ADDR, i) == a, z3.Select(PORT, i) == p_, z3.Select(IDX, i) == c)

    def havoc(E, fr, i):
        fr.locals.pop("trx", None)

    def inv(E, fr, i):
        j = z3.Int("j")
        return z3.ForAll([j], z3.Implies(z3.And(j >= 0, j < i), z3.Not(match(j))))
    E.loop_specs = {("trx_list.TRXList.find_trx", 1): LoopSpec("find_loop", havoc, inv)}
    E.summaries = {"transceiver.Transceiver.__str__": str_summary}

    def mk_list(E):
        E.assume(N >= 0)
        E.sheap.update({"remote_addr": ADDR, "base_port": PORT, "child_idx": IDX})
        return models.obj_seq(IDS, N, lambda idt: SRef(ft.FakeTRX, idt, sch), lambda v: v.idt if isinstance(v, SRef) else z3.IntVal(-v.oid))

    def setup(E):
        lst = mk_list(E)
        return {"self": SObj(tl.TRXList, {"trx_list": lst}), "lst": lst}
    j = z3.Int("j")
    none_matches = z3.ForAll([j], z3.Implies(z3.And(j >= 0, j < N), z3.Not(match(j))))
    for p, ctx, out in run_paths(E, setup, lambda E, ctx: E.call(ff, [ctx["self"], SInt(a), SInt(p_), SInt(c)])):
        tag = {"what": "find_trx"}
        run.add(*path_obligations(run, prop, ff, p, "", tag=tag))
        if out[0] == "cut":
            continue
        if out[0] == "raise":
            run.add(Obligation(prop, qualname(ff), "never_raises", p.pc, z3.BoolVal(False), kind="noexc", note=exc_note(out[1]), case=out[1].cls.__name__, where=where(ff), tag=tag))
            continue
        r = out[1]
        if r is None:
            run.add(Obligation(prop, qualname(ff), "None_iff_no_element_matches", p.pc, none_matches, kind="post", where=where(ff), tag=tag))
        elif isinstance(r, SRef):
            i = z3.Int("i!0")
            run.add(Obligation(prop, qualname(ff), "returns_first_matching_element", p.pc,
                               z3.And(i >= 0, i < N, r.idt == z3.Select(IDS, i), match(i),
                                      z3.ForAll([j], z3.Implies(z3.And(j >= 0, j < i), z3.Not(match(j))))), kind="post", where=where(ff), tag=tag))
        else:
            run.add(Obligation(prop, qualname(ff), "returns_element_or_None", p.pc, z3.BoolVal(False), kind="post", where=where(ff), tag=tag))
    E.loop_specs = {}
    # add_trx (find_trx through its contract)
    tid = z3.Int("new.id")

    def find_summary(E, func, args, kwargs):
        self, ad, po = args[0], args[1], args[2]
        ci = args[3] if len(args) > 3 else kwargs.get("child_idx", 0)
        lst = self.attrs["trx_list"]
        k = z3.Int(E.fresh("found.at"))
        jj = z3.Int("jf")

        def m(jx):
            ix = z3.Select(lst.arr, jx)
            return z3.And(z3.Select(ADDR, ix) == Z(ad), z3.Select(PORT, ix) == Z(po), z3.Select(IDX, ix) == Z(ci))
        if E.branch(z3.Bool(E.fresh("found"))):
            E.assume(z3.And(k >= 0, k < Z(lst.length), m(k)))
            return SRef(ft.FakeTRX, z3.Select(lst.arr, k), sch)
        E.assume(z3.ForAll([jj], z3.Implies(z3.And(jj >= 0, jj < Z(lst.length)), z3.Not(m(jj)))))
        return None
    E.summaries = {"transceiver.Transceiver.__str__": str_summary, "trx_list.TRXList.find_trx": find_summary}

    def setup2(E):
        lst = mk_list(E)
        return {"self": SObj(tl.TRXList, {"trx_list": lst}), "lst": lst, "new": SRef(ft.FakeTRX, tid, sch)}
    na, np_, nc = z3.Select(ADDR, tid), z3.Select(PORT, tid), z3.Select(IDX, tid)
    dup = z3.Exists([j], z3.And(j >= 0, j < N, z3.Or(z3.Select(IDS, j) == tid,
                                                      z3.And(z3.Select(ADDR, z3.Select(IDS, j)) == na, z3.Select(PORT, z3.Select(IDS, j)) == np_, z3.Select(IDX, z3.Select(IDS, j)) == nc))))
    for p, ctx, out in run_paths(E, setup2, lambda E, ctx: E.call(fa, [ctx["self"], ctx["new"]])):
        tag = {"what": "add_trx"}
        run.add(*path_obligations(run, prop, fa, p, "", tag=tag))
        lst = ctx["lst"]
        if out[0] == "raise":
            run.add(Obligation(prop, qualname(fa), "IndexError_iff_duplicate", p.pc, z3.And(z3.BoolVal(issubclass(out[1].cls, IndexError)), dup, Z(lst.length) == N),
                               kind="post", case="raises", where=where(fa), tag=tag))
            continue
        run.add(Obligation(prop, qualname(fa), "IndexError_iff_duplicate", p.pc, z3.Not(dup), kind="post", case="returns", where=where(fa), tag=tag))
        run.add(Obligation(prop, qualname(fa), "appended_at_the_end", p.pc, z3.And(Z(lst.length) == N + 1, z3.Select(lst.arr, N) == tid), kind="post", where=where(fa), tag=tag))
    E.summaries = {}


def build_pwr_lemma(run, prop):
    """PWR(t): own link listed <=> running;  generator running <=> links non-empty.  One handler step on t (contract above),
    any other transceiver u != t keeps its link and running flag unless it is a managed child (children own no clock link)."""
    member_t, run_t, member_u, run_u, gen, n = z3.Bools("member_t run_t member_u run_u gen_running _")[:5] + [z3.Int("nlinks")]
    pw = z3.Bool("poweron")
    pre = [member_t == run_t, member_u == run_u, gen == (n > 0), n >= 0, z3.Implies(member_t, n >= 1), z3.Implies(member_u, n >= 1),
           z3.Implies(z3.And(member_t, member_u), n >= 2)]
    run_t2 = pw
    member_t2 = pw
    n2 = n + z3.If(z3.And(pw, z3.Not(run_t)), 1, 0) - z3.If(z3.And(z3.Not(pw), run_t), 1, 0)
    gen2 = n2 > 0
    f = "lemma.PWR"
    run.add(Obligation(prop, f, "handler_preserves_PWR_for_self", pre, z3.And(member_t2 == run_t2, gen2 == (n2 > 0), n2 >= 0), kind="lemma"))
    run.add(Obligation(prop, f, "handler_preserves_PWR_for_other_clock_owner", pre, z3.And(member_u == run_u, z3.Implies(member_u, n2 >= 1)), kind="lemma"))
    run.add(Obligation(prop, f, "generator_runs_iff_some_owner_running", pre + [z3.Not(member_u)], gen2 == member_t2 if False else z3.Implies(n == z3.If(member_t, 1, 0), gen2 == pw), kind="lemma"))
    run.fn(f, "spec (lemma over power_event_handler's contract)", 0, "PWR invariant preserved by every power command")


# ------------------------------------------------------------------ witness / replay

def witness(o, model):
    if isinstance(o.tag, dict) and o.tag.get("what") in ("start", "stop"):
        from props import C09 as _C09
        return _C09.witness(o, model)
    t = dict(o.tag or {}) if isinstance(o.tag, dict) else {}
    for nme in ("t.child_idx", "children.len", "base_port", "child_idx", "links.len"):
        t[nme] = mval(model, z3.Int(nme))
    for nme in ("t.child_mgt", "t.running", "q_is_child", "t._rx_freq?none", "t._tx_freq?none"):
        t[nme] = mval(model, z3.Bool(nme))
    return t


def replay(payload):
    from contracts.py.native import native_trx, patch_sockets
    f = payload["inputs"]
    what = f.get("what")
    if what in ("start", "stop"):
        from props import C09 as _C09
        return _C09.replay(payload)
    cg = toolkit("clck_gen")
    if what == "handler":
        patch_sockets()
        started = []

        class Gen:
            def __init__(self):
                self.clck_links, self._r = [], False
            running = property(lambda s: s._r)

            def start(self):
                assert not self._r
                self._r = True
                started.append("start")

            def stop(self):
                self._r = False
                started.append("stop")
        gen = Gen() if f.get("clock") else None
        t = native_trx("P", 5700, clck_gen=gen, child_mgt=bool(f["t.child_mgt"]))
        t.child_idx = 0 if f["t.child_idx"] == 0 else 1
        kids = [native_trx("K%d" % i, 5700, child_idx=i + 1) for i in range(min(3, max(1, f["children.len"])))]
        for k in kids:
            t.child_trx_list.trx_list.append(k)
            k.running = not f["poweron"]
            k._tx_queue.append("m")
            k.fh = "FH"
        t.running = bool(f["t.running"])
        t._tx_queue.append("m")
        t.fh = "FH" if f.get("fh") else None
        if gen is not None:
            others = ["L%d" % i for i in range(max(0, f["links.len"] - (1 if t.running else 0)))]
            gen.clck_links[:] = others + ([t.clck_if] if t.running else [])
            gen._r = bool(gen.clck_links)
        t.power_event_handler(bool(f["poweron"]))
        managed = bool(f["t.child_mgt"]) and t.child_idx == 0
        bad = []
        if t.running != f["poweron"]:
            bad.append("self.running")
        if not f["poweron"] and (t.fh is not None or t._tx_queue):
            bad.append("self not reset")
        for k in kids:
            exp = f["poweron"] if managed else (not f["poweron"])
            if k.running != exp:
                bad.append("child running")
            if managed and not f["poweron"] and (k.fh is not None or k._tx_queue):
                bad.append("child not reset")
        if gen is not None:
            if (t.clck_if in gen.clck_links) != t.running or gen.clck_links.count(t.clck_if) > 1:
                bad.append("clock link")
            if gen._r != bool(gen.clck_links):
                bad.append("generator state")
        return {"confirmed": bool(bad), "observed": bad or "consistent", "expected": "C12 power state"}
    if what == "init":
        patch_sockets()
        tr = toolkit("transceiver")
        base, idx = f["base_port"], f["child_idx"]
        gen = cg.CLCKGen([]) if f.get("clock") else None
        try:
            t = tr.Transceiver("0.0.0.0", "127.0.0.1", base, child_idx=idx, clck_gen=gen)
        except TypeError:
            return {"confirmed": not (gen is not None and idx > 0), "observed": "TypeError", "expected": "TypeError iff child with own clock"}
        bad = []
        if (t.data_if.remote_port, t.data_if.sock.bound[1]) != (base + 2 * idx + 102, base + 2 * idx + 2):
            bad.append(("data", t.data_if.remote_port, t.data_if.sock.bound))
        if (t.ctrl_if.remote_port, t.ctrl_if.sock.bound[1]) != (base + 2 * idx + 101, base + 2 * idx + 1):
            bad.append(("ctrl", t.ctrl_if.remote_port, t.ctrl_if.sock.bound))
        if gen is not None and (t.clck_if.remote_port, t.clck_if.sock.bound[1]) != (base + 100, base):
            bad.append(("clck", t.clck_if.remote_port, t.clck_if.sock.bound))
        if gen is not None and idx > 0:
            bad.append("child with clock accepted")
        return {"confirmed": bool(bad), "observed": bad or "ports ok", "expected": "documented port plan"}
    if what == "ready":
        gs = toolkit("gsm_shared")
        bad = []
        for rx_none in (True, False):
            for tx_none in (True, False):
                for fh in (False, True):
                    t = native_trx()
                    t._rx_freq = None if rx_none else 935200000
                    t._tx_freq = None if tx_none else 890200000
                    if fh:
                        t.enable_fh(1, 0, [(935200000, 890200000)])
                    want = (not rx_none and not tx_none) or fh
                    if bool(t.ready) != want:
                        bad.append({"rx tuned": not rx_none, "tx tuned": not tx_none, "hopping": fh, "ready": t.ready})
        return {"confirmed": bool(bad), "observed": bad or "ready iff tuned or hopping (all 8 combinations)", "expected": "ready iff (RXTUNE and TXTUNE given) or SETFH given"}
    if what == "powercmd":
        t = native_trx()
        t.running = bool(f["t.running"])
        t._rx_freq = None if f["t._rx_freq?none"] else 1
        t._tx_freq = None if f["t._tx_freq?none"] else 1
        calls = []
        t.power_event_handler = lambda poweron: calls.append(poweron)
        rc = t.ctrl_if.parse_cmd([f["verb"]])
        if f["verb"] == "POWERON":
            ok = (rc, calls) == ((0, [True]) if (not t.running and t._rx_freq and t._tx_freq) else (-1, []))
        else:
            ok = (rc, calls) == (0, [False])
        return {"confirmed": not ok, "observed": [rc, calls], "expected": "per TRXC POWERON/POWEROFF semantics"}
    if what in ("find_trx", "add_trx"):
        # TRXList over real FakeTRX objects: lists of 0..4 members (two of them sharing address and port, differing in child index)
        from contracts.py.native import native_trx
        tl = toolkit("trx_list")
        pool = [native_trx("A", 5700), native_trx("B", 5800), native_trx("A1", 5700, child_idx=1), native_trx("C", 5900), native_trx("A2", 5700, child_idx=2)]
        dupA = native_trx("A'", 5700)
        bad = []
        for n in range(len(pool) + 1):
            members = pool[:n]
            if what == "find_trx":
                for (ad, po, ci) in [("127.0.0.1", 5700, 0), ("127.0.0.1", 5700, 1), ("127.0.0.1", 5700, 2), ("127.0.0.1", 5700, 3), ("127.0.0.1", 5800, 0),
                                     ("127.0.0.1", 5800, 1), ("127.0.0.2", 5700, 0), ("127.0.0.1", 6000, 0)]:
                    lst = tl.TRXList(list(members))
                    want = next((t for t in members if (t.remote_addr, t.base_port, t.child_idx) == (ad, po, ci)), None)
                    try:
                        got = lst.find_trx(ad, po, ci) if ci else lst.find_trx(ad, po)
                    except Exception as e:
                        got = "raises %s: %s" % (type(e).__name__, e)
                    if got is not want or lst.trx_list != members:
                        bad.append({"members": [t.name for t in members], "query": [ad, po, ci], "observed": getattr(got, "name", got), "expected": getattr(want, "name", None)})
            else:
                for new in pool + [dupA]:
                    lst = tl.TRXList(list(members))
                    dup = any(t is new or (t.remote_addr, t.base_port, t.child_idx) == (new.remote_addr, new.base_port, new.child_idx) for t in members)
                    try:
                        lst.add_trx(new)
                        got = "added"
                    except IndexError:
                        got = "IndexError"
                    except Exception as e:
                        got = "raises %s: %s" % (type(e).__name__, e)
                    want_list = members if dup else members + [new]
                    same_object = any(t is new for t in members)
                    if dup and not same_object:
                        # a DIFFERENT object with the same address/port/index: the statement is silent (two such transceivers cannot bind
                        # their sockets); refusing it is what the code does and the contract says - the replay does not judge it
                        if got in ("added", "IndexError") and lst.trx_list[:len(members)] == members and len(lst.trx_list) <= len(members) + 1:
                            continue
                    if got != ("IndexError" if dup else "added") or len(lst.trx_list) != len(want_list) or any(a is not b for a, b in zip(lst.trx_list, want_list)):
                        bad.append({"members": [t.name for t in members], "new": new.name, "observed": [got, [t.name for t in lst.trx_list]],
                                    "expected": ["IndexError" if dup else "added", [t.name for t in want_list]]})
        return {"confirmed": bool(bad), "observed": bad[:4] or "as specified", "expected": "first match or None / IndexError iff duplicate, else appended at the end"}
    if what in ("wiring", "wiring.unbounded"):
        from contracts.py.native import patch_sockets
        patch_sockets()
        ft = toolkit("fake_trx")
        tl = toolkit("trx_list")
        bad = []
        for nexist in range(4):
            for mode in ("parent", "child_of_first", "child_of_last", "child_of_missing", "duplicate_parent", "duplicate_child"):
                if nexist == 0 and mode not in ("parent", "child_of_missing"):
                    continue
                app = ft.Application.__new__(ft.Application)
                app.argv = type("Argv", (), {"trx_bind_addr": "0.0.0.0"})()
                app.clck_gen, app.fake_pm, app.trx_list = object(), object(), tl.TRXList()
                for k in range(nexist):
                    app.append_trx("127.0.0.1", 5700 + 100 * k, name="E%d" % k)
                before = list(app.trx_list.trx_list)
                if mode == "duplicate_child":
                    app.append_child_trx("127.0.0.1", 5700, name="C0", child_idx=1)
                    before = list(app.trx_list.trx_list)
                port = {"parent": 9000, "child_of_first": 5700, "child_of_last": 5700 + 100 * (nexist - 1), "child_of_missing": 9900,
                        "duplicate_parent": 5700, "duplicate_child": 5700}[mode]
                idx = 0 if mode in ("parent", "duplicate_parent") else 1
                try:
                    app.append_child_trx("127.0.0.1", port, name="N", child_idx=idx)
                    got = "added"
                except IndexError:
                    got = "IndexError"
                except Exception as e:
                    got = "raises %s: %s" % (type(e).__name__, e)
                after = list(app.trx_list.trx_list)
                refuse = mode in ("child_of_missing", "duplicate_parent", "duplicate_child")
                ok = got == ("IndexError" if refuse else "added") and after[:len(before)] == before and len(after) == len(before) + (0 if refuse else 1)
                if ok and not refuse:
                    new = after[-1]
                    if mode == "parent":
                        ok = new.clck_gen is app.clck_gen and new.child_idx == 0 and new.pwr_meas is app.fake_pm and new.child_trx_list.trx_list == []
                    else:
                        parent = before[0] if mode == "child_of_first" else before[nexist - 1]
                        ok = (new.clck_gen is None and new.child_idx == 1 and new.pwr_meas is app.fake_pm and parent.child_trx_list.trx_list == [new]
                              and all(t.child_trx_list.trx_list == [] for t in before if t is not parent))
                if not ok:
                    bad.append({"existing": nexist, "mode": mode, "observed": [got, [(t.name, t.base_port, t.child_idx) for t in after]]})
        return {"confirmed": bool(bad), "observed": bad[:4] or "as specified",
                "expected": "parents share the clock generator, children hang off their parent without a clock, IndexError for a missing parent or a duplicate"}
    return {"confirmed": False, "error": "no native replay for %r" % what}

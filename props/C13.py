"""C13 - Validation accepts exactly the protocol value ranges; nothing invalid is sent.

Functions under contract (data_msg.py, data_if.py):
  Msg.validate, TxMsg.validate, RxMsg._validate_burst_v0/_v1, RxMsg.validate_burst, RxMsg.validate
      raises ValueError  <=>  not spec.valid_*(self); no other exception; self unchanged
  Msg.gen_msg            raises ValueError <=> not valid(self); otherwise returns (layout: C01/C04)
  DATAInterface.send_msg exactly one datagram iff valid(msg), none otherwise; never raises
"""
import z3
from engine.common.core import Obligation, Cover, mval
from engine.pyvc.values import *
from engine.pyvc import models
from engine.pyvc.harness import toolkit, raw, where, new_engine, run_paths, path_obligations, register_fn, note_engine, qualname
from contracts.py import msgs
from contracts.py.common import (view_of, install_validate_summaries, GhostSocket, mk_data_if, outcome_obligations,
                                 frame_obligations, snapshot)
from spec import valid_msg as V

ID = "C13"
CUR = ID          # the property the obligations are generated for (C17 discharges this contract as well)
ENGINE = "PyVC"
LEVEL = "proof"


def cases():
    out = [("tx", None, "tx")]
    for name, mod in msgs.mod_cases():
        out.append(("rx", mod, "rx,mod=%s" % name))
    return out


def build(run, prop=None):
    global CUR
    CUR = prop or ID
    dm = toolkit("data_msg")
    di = toolkit("data_if")
    E = new_engine()

    def check_raises_iff(func, cls, mod, case, spec, summaries, invoke=None, clause="raises_ValueError_iff_invalid"):
        """func(self) raises ValueError <=> not spec(view); nothing else raised; self unchanged."""
        E.summaries = summaries

        def setup(E):
            m = msgs.mk_msg(E, cls, mod)
            return {"self": m, "pre": snapshot(m)}

        def inv(E, ctx):
            return E.call(func, [ctx["self"]])
        res = run_paths(E, setup, invoke or inv)
        v = msgs.view(cls, mod)
        ok = spec(v)
        fn = qualname(func)
        n_ret = n_raise = 0
        for p, ctx, out in res:
            run.add(*path_obligations(run, CUR, func, p, case))
            if out[0] == "return":
                n_ret += 1
                run.add(Obligation(CUR, fn, clause, p.pc, ok, kind="post", case=case + ",returns", where=where(func),
                                   tag={"cls": cls, "mod": getattr(mod, "name", repr(mod)), "outcome": "return", "func": fn}))
            elif issubclass(out[1].cls, ValueError):
                n_raise += 1
                run.add(Obligation(CUR, fn, clause, p.pc, z3.Not(ok), kind="post", case=case + ",raises", where=where(func),
                                   tag={"cls": cls, "mod": getattr(mod, "name", repr(mod)), "outcome": "ValueError", "func": fn}))
            else:
                run.add(Obligation(CUR, fn, "no_other_exception", p.pc, z3.BoolVal(False), kind="noexc",
                                   case=case + "," + out[1].cls.__name__, where=where(func),
                                   tag={"cls": cls, "mod": getattr(mod, "name", repr(mod)), "outcome": out[1].cls.__name__, "func": fn}))
            run.add(*frame_obligations(CUR, fn, p, ctx["self"], ctx["pre"], case, where(func)))
        # vacuity: both outcomes must be reachable wherever the spec allows both
        run.add(Cover(CUR, fn, "cover_valid", [ok], case=case))
        run.add(Cover(CUR, fn, "cover_invalid", [z3.Not(ok)], case=case))
        return n_ret, n_raise

    all_summ = install_validate_summaries()

    def without(*names):
        return {k: v for k, v in all_summ.items() if k.split(".")[-1] not in names and k not in names}

    # --- Msg.validate (common part), checked on both concrete subclasses
    f = raw(dm.Msg, "validate")
    register_fn(run, f)
    check_raises_iff(f, "tx", None, "self=TxMsg", V.valid_common, {})
    check_raises_iff(f, "rx", dm.Modulation.ModGMSK, "self=RxMsg", V.valid_common, {})

    # --- TxMsg.validate: uses Msg.validate's contract
    f = raw(dm.TxMsg, "validate")
    register_fn(run, f)
    check_raises_iff(f, "tx", None, "tx", V.valid_tx, {"data_msg.Msg.validate": all_summ["data_msg.Msg.validate"]})

    # --- RxMsg burst validators and validate
    from spec.valid_msg import opt_in

    def v0_ok(v):
        return z3.And(z3.Not(v.burst.isnone), z3.Or(v.burst.val == 148, v.burst.val == 444))

    def v1_ok(mod):
        def f_(v):
            mn = V.mod_name(mod)
            bl = z3.And(z3.Not(v.burst.isnone), v.burst.val == V.MOD_TABLE[mn][1]) if mn else None
            if bl is None:
                # no burst length defined for a non-modulation: only a burst-less NOPE passes;
                # with a burst present the code may raise AttributeError -> excluded by pre (validate checks type first)
                return z3.And(v.nope, v.burst.isnone)
            return z3.If(v.nope, v.burst.isnone, bl)
        return f_

    f0 = raw(dm.RxMsg, "_validate_burst_v0")
    f1 = raw(dm.RxMsg, "_validate_burst_v1")
    fb = raw(dm.RxMsg, "validate_burst")
    fv = raw(dm.RxMsg, "validate")
    for f in (f0, f1, fb, fv):
        register_fn(run, f)
    for name, mod in msgs.mod_cases():
        case = "rx,mod=%s" % name
        check_raises_iff(f0, "rx", mod, case, v0_ok, {})
        if V.mod_name(mod):
            check_raises_iff(f1, "rx", mod, case, v1_ok(mod), {})

            def vb(v, mod=mod):
                return z3.If(v.ver == 0, v0_ok(v), z3.If(v.ver >= 1, v1_ok(mod)(v), z3.BoolVal(True)))
            check_raises_iff(fb, "rx", mod, case, vb,
                             {k: all_summ[k] for k in ("data_msg.RxMsg._validate_burst_v0", "data_msg.RxMsg._validate_burst_v1")})
        check_raises_iff(fv, "rx", mod, case, V.valid_rx,
                         {k: all_summ[k] for k in ("data_msg.Msg.validate", "data_msg.RxMsg.validate_burst")})

    # --- gen_msg: refuses exactly the invalid messages (validate used through its contract)
    g = raw(dm.Msg, "gen_msg")
    register_fn(run, g)
    summ = {k: all_summ[k] for k in ("data_msg.TxMsg.validate", "data_msg.RxMsg.validate")}
    for cls, mod, case in cases():
        for legacy in (False, True):
            def inv(E, ctx, legacy=legacy):
                return E.call(g, [ctx["self"], legacy])
            check_raises_iff(g, cls, mod, "%s,legacy=%s" % (case, legacy), V.valid, summ, invoke=inv,
                             clause="refuses_iff_invalid")

    # --- DATAInterface.send_msg: one datagram iff valid, none otherwise, never raises
    s = raw(di.DATAInterface, "send_msg")
    register_fn(run, s)
    register_fn(run, raw(toolkit("udp_link").UDPLink, "send"), "inlined into send_msg")
    # helper contract: desc_hdr (used on send_msg's error path) never raises and changes nothing
    for cls, mod, case in cases():
        dh = raw(dm.TxMsg if cls == "tx" else dm.RxMsg, "desc_hdr")
        register_fn(run, dh)
        E.summaries = {}

        def setup(E, cls=cls, mod=mod):
            m = msgs.mk_msg(E, cls, mod)
            return {"self": m, "pre": snapshot(m)}
        for p, ctx, out in run_paths(E, setup, lambda E, ctx: E.call(dh, [ctx["self"]])):
            if out[0] == "raise":
                run.add(Obligation(CUR, qualname(dh), "never_raises", p.pc, z3.BoolVal(False), kind="noexc",
                                   case=case + "," + out[1].cls.__name__, where=where(dh),
                                   tag={"cls": cls, "mod": getattr(mod, "name", repr(mod)), "func": qualname(dh), "outcome": out[1].cls.__name__}))
            else:
                run.add(Obligation(CUR, qualname(dh), "returns_str", p.pc, z3.BoolVal(isinstance(out[1], (str, FmtStr))), kind="post",
                                   case=case, where=where(dh), tag={"cls": cls, "mod": getattr(mod, "name", repr(mod)), "func": qualname(dh)}))
            run.add(*frame_obligations(CUR, qualname(dh), p, ctx["self"], ctx["pre"], case, where(dh)))
    E.summaries = {k: all_summ[k] for k in ("data_msg.Msg.gen_msg", "data_msg.TxMsg.desc_hdr", "data_msg.RxMsg.desc_hdr")}
    for cls, mod, case in cases():
        for legacy in (False, True):
            def setup(E, cls=cls, mod=mod):
                m = msgs.mk_msg(E, cls, mod)
                d = mk_data_if(E)
                return {"self": d, "msg": m, "pre": snapshot(m)}

            def inv(E, ctx, legacy=legacy):
                E.call(s, [ctx["self"], ctx["msg"]], {"legacy": legacy})
                return list(E.ghost.get("sent", []))
            v = msgs.view(cls, mod)
            ok = V.valid(v)
            cs = "%s,legacy=%s" % (case, legacy)
            for p, ctx, out in run_paths(E, setup, inv):
                run.add(*path_obligations(run, CUR, s, p, cs))
                tag = {"cls": cls, "mod": getattr(mod, "name", repr(mod)), "func": qualname(s), "legacy": legacy}
                if out[0] == "raise":
                    run.add(Obligation(CUR, qualname(s), "never_raises", p.pc, z3.BoolVal(False), kind="noexc",
                                       case=cs + "," + out[1].cls.__name__, where=where(s), tag=dict(tag, outcome=out[1].cls.__name__)))
                    continue
                sent = out[1]
                if len(sent) == 0:
                    goal = z3.Not(ok)
                elif len(sent) == 1:
                    goal = ok
                else:
                    goal = z3.BoolVal(False)
                run.add(Obligation(CUR, qualname(s), "one_datagram_iff_valid", p.pc, goal, kind="post",
                                   case=cs + ",sent=%d" % len(sent), where=where(s), tag=dict(tag, outcome="sent=%d" % len(sent))))
                for (sock, data, addr) in sent:
                    # destination = the link's remote
                    run.add(Obligation(CUR, qualname(s), "datagram_to_remote", p.pc,
                                       z3.BoolVal(addr == (ctx["self"].attrs["remote_addr"], ctx["self"].attrs["remote_port"])),
                                       kind="post", case=cs, where=where(s), tag=tag))
                run.add(*frame_obligations(CUR, qualname(s), p, ctx["msg"], ctx["pre"], cs, where(s)))
            run.add(Cover(CUR, qualname(s), "cover_valid", [ok], case=cs))
    note_engine(run, E)
    run.assume("message fields are int or None; mod_type is a Modulation member, None or a non-Modulation value; "
               "burst is None or a bytearray (Tx) / array('b') (Rx) of any length >= 0")
    run.assume("socket.sendto modelled as an append to the ghost datagram log")
    run.extra["paths_explored"] = E.stats["paths"]


# ------------------------------------------------------------------ witness / replay

def witness(o, model):
    t = o.tag or {}
    dm = toolkit("data_msg")
    mod = getattr(dm.Modulation, t.get("mod", ""), None) if hasattr(dm.Modulation, str(t.get("mod"))) else (None if t.get("mod") == "None" else 7)
    f = msgs.concrete_fields(model, t["cls"], mod)
    f["func"] = t["func"]
    f["legacy"] = t.get("legacy", "legacy=True" in o.case)
    f["clause"] = o.clause
    return f


def block_model(o, model):
    t = o.tag or {}
    pfx = "m."
    conj = []
    for f in (msgs.OPT_FIELDS_TX if t["cls"] == "tx" else msgs.OPT_FIELDS_RX):
        n, v = msgs.opt_terms(pfx, f)
        conj.append(z3.And(n == model.eval(n, model_completion=True), v == model.eval(v, model_completion=True)))
    return z3.Not(z3.And(conj))


def known_predicate(o, k):
    env = {"fn": z3.Int("m.fn"), "tn": z3.Int("m.tn"), "ver": z3.Int("m.ver"), "z3": z3}
    try:
        return eval(k["witness"], env)
    except Exception:
        return None


def replay(payload):
    """Native: build the real message, call the real function, compare with the oracle."""
    f = payload["inputs"]
    dm = toolkit("data_msg")
    m = msgs.build_native(f)
    cv = msgs.concrete_view(f)
    func = f["func"].split(".")[-1]
    spec = {"validate": {"Msg": V.valid_common}.get(f["func"].split(".")[-2], V.valid), "gen_msg": V.valid,
            "send_msg": V.valid}.get(func)
    observed = None
    if func == "send_msg":
        sent = []

        class Sock:
            def sendto(self, data, addr):
                sent.append(bytes(data))
        di = toolkit("data_if")
        d = di.DATAInterface.__new__(di.DATAInterface)
        d.sock, d.remote_addr, d.remote_port, d._hdr_ver = Sock(), "127.0.0.1", 5702, 0
        import logging
        logging.disable(logging.CRITICAL)
        try:
            d.send_msg(m, legacy=f["legacy"])
            observed = "sent=%d" % len(sent)
        except Exception as e:
            observed = "raised %s" % type(e).__name__
        expected_valid = z3.is_true(z3.simplify(V.valid(cv)))
        expected = "sent=1" if expected_valid else "sent=0"
        return {"confirmed": observed != expected, "observed": observed, "expected": expected, "inputs": f}
    try:
        if func == "gen_msg":
            m.gen_msg(f["legacy"])
        elif f["func"].endswith("Msg.validate") and f["func"].split(".")[-2] == "Msg":
            dm.Msg.validate(m)
        else:
            getattr(m, func)()
        observed = "returns"
    except Exception as e:
        observed = "raises %s" % type(e).__name__
    if spec is None:
        # burst validators: oracle is the clause recorded in the payload; fall back to the expected outcome tag
        exp = "returns" if payload.get("tag", {}).get("outcome") != "return" else "raises ValueError"
        return {"confirmed": observed != exp and observed.startswith(("returns", "raises")), "observed": observed,
                "expected": exp, "inputs": f}
    expected = "returns" if z3.is_true(z3.simplify(spec(cv))) else "raises ValueError"
    return {"confirmed": observed != expected, "observed": observed, "expected": expected, "inputs": f}

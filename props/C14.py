"""C14 - no datagram or capture content can crash the tools (Python toolkit; C: trxcon's transceiver interface)."""
import os
from props._combine import make
_c = "props.cparts.C14" if os.path.exists(os.path.join(os.path.dirname(__file__), "cparts", "C14.py")) else None
make(globals(), "C14", py="props.pyparts.C14", c=_c)

"""C08 - firmware TDMA scheduler runs each item exactly in its scheduled frame (C only: delegates to props/cparts/C08.py)."""
from props.cparts.C08 import build_c, witness_c, replay_c, ID, ENGINE, LEVEL

build, witness, replay = build_c, witness_c, replay_c

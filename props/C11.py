"""C11 - firmware and trxcon agree on the multiframe mapping of every logical channel (C only: delegates to props/cparts/C11.py)."""
from props.cparts.C11 import build_c, witness_c, replay_c, known_predicate_c, ID, ENGINE, LEVEL

build, witness, replay, known_predicate = build_c, witness_c, replay_c, known_predicate_c

"""C02 - Virtual Um routing: bursts reach exactly the tuned, running peers.

Functions under contract:
  transceiver.Transceiver.get_rx_freq(fn) / get_tx_freq(fn)
        fh is None -> the tuned frequency (self._rx_freq / self._tx_freq, possibly None); otherwise the rx / tx component of
        fh.resolve(fn) (HoppingParams.resolve used through its C07 contract)
  burst_fwd.BurstForwarder.forward_msg(src_trx, rx_msg)
        for an ARBITRARY transceiver q: the number of handle_data_msg calls addressed to q grows by exactly
        1 if q is in trx_list, q is not src_trx, q.running and rxfreq(q, fn) == txfreq(src_trx, fn), else by 0      (loop invariant)
        every call passes (src_trx, rx_msg, m) with m = rx_msg.trans(ver = q's negotiated header version);
        rx_msg.burst is dropped iff src_trx.rf_muted (then every copy is a NOPE indication); nothing else changes
  fake_trx.Application.clck_handler(fn)
        every transceiver of the list gets exactly one clck_tick(self.burst_fwd, fn)                                   (loop invariant)
Peers are objects of symbolic identity in a list of symbolic length (so 2..6 transceivers are included), pairwise distinct.
What one copy contains and whether it leaves as a datagram is C10/C18/C13 (handle_data_msg, send_msg contracts).
"""
import z3
from engine.common.core import Obligation, Cover, mval
from engine.pyvc.values import *
from engine.pyvc import models
from engine.pyvc.loops import LoopSpec
from engine.pyvc.harness import toolkit, raw, where, new_engine, run_paths, path_obligations, register_fn, note_engine, qualname, exc_note, sect
from contracts.py import msgs, trx as T
from contracts.py.common import snapshot, attr
from spec import valid_msg as V

ID = "C02"
ENGINE = "PyVC"
LEVEL = "proof"
Z = models.zint

I, B = z3.IntSort(), z3.BoolSort()
IDS = z3.Array("trx_list.ids", I, I)
N = z3.Int("trx_list.len")
RXF = z3.Function("rxfreq", I, I, I)
RXN = z3.Function("rxfreq?none", I, I, B)
TXF = z3.Function("txfreq", I, I, I)
TXN = z3.Function("txfreq?none", I, I, B)
Q = z3.Int("q")            # the arbitrary transceiver the contract speaks about
PQ = z3.Int("pos_q")       # its position in trx_list when present
PRESENT = z3.Bool("q_in_list")
SRC = z3.Int("src.id")
FN = z3.Int("sm.fn")


def peer_schema():
    di = toolkit("data_if")

    def data_if(E, ref, op, v):
        if op != "get":
            raise Unsupported("assignment to data_if of a peer")
        return SRef(di.DATAInterface, ref.idt, {"_hdr_ver": "int"})
    return {"running": "bool", "rf_muted": "bool", "burst_drop_amount": "int", "data_if": data_if}


def init_sheap(E):
    E.sheap["running"] = z3.Array("running", I, B)
    E.sheap["rf_muted"] = z3.Array("rf_muted", I, B)
    E.sheap["burst_drop_amount"] = z3.Array("burst_drop_amount", I, I)
    E.sheap["_hdr_ver"] = z3.Array("_hdr_ver", I, I)
    E.sheap["data_if"] = True


def mk_peers(E):
    ft = toolkit("fake_trx")
    sch = peer_schema()
    E.assume(N >= 0)
    # q is either at position PQ of the list, or not in it; list members are pairwise distinct (TRXList.add_trx refuses duplicates)
    E.assume(z3.Implies(PRESENT, z3.And(PQ >= 0, PQ < N, z3.Select(IDS, PQ) == Q)))
    return SSeq("list", N, lambda i: SRef(ft.FakeTRX, z3.Select(IDS, Z(i)), sch))


def list_facts(i):
    """instances at index i of: members pairwise distinct; q absent => no member is q"""
    return [z3.Implies(PRESENT, (z3.Select(IDS, i) == Q) == (i == PQ)),
            z3.Implies(z3.Not(PRESENT), z3.Select(IDS, i) != Q)]


def freq_eq(an, av, bn, bv):
    """python == on int-or-None values"""
    return z3.Or(z3.And(an, bn), z3.And(z3.Not(an), z3.Not(bn), av == bv))


def deliver(q, fn):
    return z3.And(q != SRC, z3.Select(z3.Array("running", I, B), q),
                  freq_eq(RXN(q, fn), RXF(q, fn), TXN(SRC, fn), TXF(SRC, fn)))


def get_rx_summary(E, func, args, kwargs):
    ref, fn = args
    return SOpt(RXN(ref.idt, Z(E.as_int(fn))), SInt(RXF(ref.idt, Z(E.as_int(fn)))))


def get_tx_summary(E, func, args, kwargs):
    ref, fn = args
    return SOpt(TXN(ref.idt, Z(E.as_int(fn))), SInt(TXF(ref.idt, Z(E.as_int(fn)))))


def trans_summary(E, func, args, kwargs):
    """TxMsg.trans contract (C10) at the call site"""
    dm = toolkit("data_msg")
    self = args[0]
    ver = kwargs.get("ver", args[1] if len(args) > 1 else None)
    a = {"fn": attr(self, "fn"), "tn": attr(self, "tn"), "ver": attr(self, "ver") if ver is None else ver}
    b = attr(self, "burst")
    if isinstance(b, SOpt):
        b = E.deopt(b)
    a["burst"] = None
    if b is None:
        a["nope_ind"] = True
    else:
        g = b.get
        a["burst"] = SSeq("array_b", b.length, lambda i: z3.If(Z(g(i)) != 0, z3.IntVal(-127), z3.IntVal(127)))
        a["burst"].source = b
    m = SObj(dm.RxMsg, a)
    m.trans_of = self
    return m


def hdm_summary(E, func, args, kwargs):
    """FakeTRX.handle_data_msg at the call site: ghost call log + per-transceiver counter; frame: the recipient's
    drop counter and the datagram log (C10/C18)."""
    ref, src, rx_msg, m = args
    E.ghost.setdefault("hd_calls", []).append((ref, src, rx_msg, m))
    c = E.ghost.get("cnt_q")
    E.ghost["cnt_q"] = wrap_int(Z(c) + z3.If(ref.idt == Q, 1, 0))
    E.sheap["burst_drop_amount"] = z3.Store(E.sheap["burst_drop_amount"], ref.idt, E.fresh_int("drop_amount"))
    return None


def build(run, prop=ID):
    E = new_engine()
    sect(run, build_freq, run, prop, E)
    sect(run, build_forward, run, prop, E)
    sect(run, build_clck_handler, run, prop, E)
    # the per-frame frequency of a hopping transceiver is HoppingParams.resolve(fn): used above through its contract (C07), which is
    # discharged in this check as well - a defect in the hopping generator that misroutes bursts fails here too
    from props.pyparts import C07 as _C07
    sect(run, _C07.build_py, run, prop)
    note_engine(run, E)
    run.assume("transceivers compare by identity (no __eq__ defined: checked on the live classes); trx_list members are pairwise distinct (TRXList.add_trx)")
    run.assume("handle_data_msg's frame: the recipient's burst_drop_amount and the datagram log (its own contract: C10/C18)")
    run.extra["paths_explored"] = E.stats["paths"]


# ------------------------------------------------------------------ get_rx_freq / get_tx_freq

def build_freq(run, prop, E):
    tr = toolkit("transceiver")
    gs = toolkit("gsm_shared")
    rxa = z3.Array("ma.rx", I, I)
    txa = z3.Array("ma.tx", I, I)
    mai = z3.Int("mai_spec")          # the index HoppingParams.resolve's contract selects (C07)

    def resolve_summary(E, func, args, kwargs):
        return (wrap_int(z3.Select(rxa, mai)), wrap_int(z3.Select(txa, mai)))
    E.summaries = {"gsm_shared.HoppingParams.resolve": resolve_summary}
    for name, fld, arr in (("get_rx_freq", "_rx_freq", rxa), ("get_tx_freq", "_tx_freq", txa)):
        f = raw(tr.Transceiver, name)
        register_fn(run, f)
        for hop in (False, True):
            cs = "fh=%s" % ("set" if hop else "None")

            def setup(E, hop=hop):
                fh = SObj(gs.HoppingParams, {"hsn": SInt(z3.Int("hsn")), "maio": SInt(z3.Int("maio"))}) if hop else None
                t = T.mk_trx(E, "t.", fh=fh)
                return {"self": t, "pre": snapshot(t)}
            for p, ctx, out in run_paths(E, setup, lambda E, ctx, f=f: E.call(f, [ctx["self"], SInt(z3.Int("fn"))])):
                tag = {"what": name}
                if out[0] == "raise":
                    run.add(Obligation(prop, qualname(f), "never_raises", p.pc, z3.BoolVal(False), kind="noexc", note=exc_note(out[1]), case=cs + "," + out[1].cls.__name__, where=where(f), tag=tag))
                    continue
                r = out[1]
                t = ctx["self"]
                if hop:
                    goal = Z(r) == z3.Select(arr, mai) if isinstance(r, (int, SInt)) else z3.BoolVal(False)
                    run.add(Obligation(prop, qualname(f), "hopping_component_of_resolve", p.pc, goal, kind="post", case=cs, where=where(f), tag=tag))
                else:
                    run.add(Obligation(prop, qualname(f), "fixed_tuned_frequency", p.pc, z3.BoolVal(r is t.attrs[fld]), kind="post", case=cs, where=where(f), tag=tag))
                run.add(Obligation(prop, qualname(f), "frame_unchanged", p.pc, z3.BoolVal(all(t.attrs.get(k) is ctx["pre"][k][0] for k in ctx["pre"])),
                                   kind="frame", case=cs, where=where(f), tag=tag))


# ------------------------------------------------------------------ forward_msg

def build_forward(run, prop, E):
    bf = toolkit("burst_fwd")
    ft = toolkit("fake_trx")
    dm = toolkit("data_msg")
    tl = toolkit("trx_list")
    f = raw(bf.BurstForwarder, "forward_msg")
    register_fn(run, f)
    # identity comparison is what `trx == src_trx` means: no __eq__ anywhere in the class hierarchy
    no_eq = all("__eq__" not in vars(c) for c in ft.FakeTRX.__mro__ if c is not object)
    run.add(Obligation(prop, "fake_trx.FakeTRX", "no_user_defined___eq__", [], z3.BoolVal(no_eq), kind="table", where="src/target/trx_toolkit/fake_trx.py", tag={"what": "noeq"}))
    E.summaries = {"transceiver.Transceiver.get_rx_freq": get_rx_summary, "transceiver.Transceiver.get_tx_freq": get_tx_summary,
                   "data_msg.TxMsg.trans": trans_summary, "fake_trx.FakeTRX.handle_data_msg": hdm_summary}
    cnt0 = z3.Int("cnt_q0")
    running0 = z3.Array("running", I, B)

    def havoc(E, fr, i):
        E.ghost["cnt_q"] = SInt(E.fresh_int("cnt_q"))
        E.ghost["hd_calls"] = []
        E.sheap["burst_drop_amount"] = z3.Array(E.fresh("burst_drop_amount"), I, I)
        fr.locals.pop("trx", None)
        # loop-carried locals: whatever an earlier iteration left behind.  `tx_msg` is then a copy that an earlier recipient has
        # already CONSUMED: handle_data_msg may strip its burst and set nope_ind (its frame, C10/C18) - or nothing yet (first iteration).
        if "tx_msg" in fr.locals or E.choose(2, "carried") == 1:
            dm = toolkit("data_msg")
            old = SObj(dm.RxMsg, {"fn": SInt(E.fresh_int("old.fn")), "tn": SInt(E.fresh_int("old.tn")), "ver": SInt(E.fresh_int("old.ver")),
                                  "burst": None, "nope_ind": True}, label="consumed-copy")
            old.trans_of = None
            fr.locals["tx_msg"] = old if E.choose(2, "carried_kind") == 1 else None

    def inv(E, fr, i):
        c = Z(E.ghost["cnt_q"])
        done = z3.And(PRESENT, PQ < i, deliver(Q, FN))
        # the routing-relevant state is not touched by the loop
        same = z3.BoolVal(E.sheap["running"] is running0 or z3.eq(E.sheap["running"], running0))
        return z3.And(c == cnt0 + z3.If(done, 1, 0), same)
    E.loop_specs = {("burst_fwd.BurstForwarder.forward_msg", 1): LoopSpec("forward_loop", havoc, inv, facts=lambda E, fr, i: list_facts(i))}

    def setup(E):
        init_sheap(E)
        E.ghost["cnt_q"] = SInt(cnt0)
        peers = mk_peers(E)
        fwd = SObj(bf.BurstForwarder, {"trx_list": peers})
        src = SRef(ft.FakeTRX, SRC, peer_schema())
        sm = msgs.mk_msg(E, "tx", None, pfx="sm.")
        E.assume(V.valid_tx(msgs.view("tx", None, pfx="sm.")))
        E.assume(z3.Select(running0, SRC))        # the statement's premise: a POWERED-ON transceiver transmits (clck_tick forwards only while running)
        return {"self": fwd, "src": src, "sm": sm, "burst0": sm.attrs["burst"], "fn0": sm.attrs["fn"], "tn0": sm.attrs["tn"]}

    def invoke(E, ctx):
        E.call(f, [ctx["self"], ctx["src"], ctx["sm"]])
        return None
    muted = z3.Select(z3.Array("rf_muted", I, B), SRC)
    hv = z3.Array("_hdr_ver", I, I)
    n_exit = n_iter = 0
    for p, ctx, out in run_paths(E, setup, invoke):
        tag = {"what": "forward"}
        run.add(*path_obligations(run, prop, f, p, "", tag=tag))
        if out[0] == "raise":
            run.add(Obligation(prop, qualname(f), "never_raises", p.pc, z3.BoolVal(False), kind="noexc", note=exc_note(out[1]), case=out[1].cls.__name__, where=where(f), tag=tag))
            continue
        # every handle_data_msg call of this path (one loop iteration at most): arguments per contract
        for (ref, src, rx_msg, m) in p.ghost.get("hd_calls", []):
            n_iter += 1
            okargs = src is (ctx or {}).get("src") if ctx else True
            goals = [("call_passes_src_and_original_message", z3.BoolVal(bool(isinstance(src, SRef) and z3.eq(src.idt, SRC) and getattr(m, "trans_of", None) is rx_msg))),
                     ("copy_addressed_to_deliver_set_member", z3.And(ref.idt != SRC, z3.Select(running0, ref.idt),
                                                                     freq_eq(RXN(ref.idt, FN), RXF(ref.idt, FN), TXN(SRC, FN), TXF(SRC, FN)))),
                     ("copy_in_recipients_header_version", Z(attr(m, "ver")) == z3.Select(hv, ref.idt) if isinstance(attr(m, "ver"), (int, SInt)) else z3.BoolVal(False)),
                     ("copy_is_nope_iff_sender_muted", z3.BoolVal(attr(m, "burst") is None) == muted if not isinstance(attr(m, "burst"), SOpt) else z3.BoolVal(False))]
            for clause, goal in goals:
                run.add(Obligation(prop, qualname(f), clause, p.pc, goal, kind="post", where=where(f), tag=tag))
        if out[0] == "cut":
            continue
        n_exit += 1
        c = Z(p.ghost["cnt_q"])
        run.add(Obligation(prop, qualname(f), "exactly_one_copy_iff_in_deliver_set", p.pc,
                           c == cnt0 + z3.If(z3.And(PRESENT, deliver(Q, FN)), 1, 0), kind="post", where=where(f), tag=tag))
        sm = ctx["sm"]
        b = sm.attrs.get("burst", "<deleted>")
        # what happens to the sender's own message object is not observable through the statement: its burst is either untouched or
        # (muted sender) dropped - never replaced by different bits
        run.add(Obligation(prop, qualname(f), "senders_burst_kept_or_dropped_when_muted", p.pc,
                           z3.If(muted, z3.BoolVal(b is None or b is ctx["burst0"]), z3.BoolVal(b is ctx["burst0"])), kind="frame", where=where(f), tag=tag))
        run.add(Obligation(prop, qualname(f), "frame_message_header_unchanged", p.pc,
                           z3.BoolVal(sm.attrs.get("fn") is ctx["fn0"] and sm.attrs.get("tn") is ctx["tn0"]), kind="frame", where=where(f), tag=tag))
    if n_exit == 0 or n_iter == 0:
        run.add(Obligation(prop, qualname(f), "loop_paths_exist", [], z3.BoolVal(False), kind="cover", where=where(f)))
    run.add(Cover(prop, qualname(f), "cover_delivery", [PRESENT, PQ >= 0, PQ < N, z3.Select(IDS, PQ) == Q, deliver(Q, FN)]))
    run.add(Cover(prop, qualname(f), "cover_no_delivery", [PRESENT, PQ >= 0, PQ < N, z3.Select(IDS, PQ) == Q, z3.Not(deliver(Q, FN))]))


# ------------------------------------------------------------------ Application.clck_handler

def build_clck_handler(run, prop, E):
    ft = toolkit("fake_trx")
    tl = toolkit("trx_list")
    f = raw(ft.Application, "clck_handler")
    register_fn(run, f)
    cnt0 = z3.Int("tick_q0")

    def tick_summary(E, func, args, kwargs):
        ref, fwd, fn = args
        E.ghost.setdefault("ticks", []).append((ref, fwd, fn))
        E.ghost["tick_q"] = wrap_int(Z(E.ghost["tick_q"]) + z3.If(ref.idt == Q, 1, 0))
        return None
    E.summaries = {"transceiver.Transceiver.clck_tick": tick_summary}

    def havoc(E, fr, i):
        E.ghost["tick_q"] = SInt(E.fresh_int("tick_q"))
        E.ghost["ticks"] = []
        fr.locals.pop("trx", None)

    def inv(E, fr, i):
        return Z(E.ghost["tick_q"]) == cnt0 + z3.If(z3.And(PRESENT, PQ < i), 1, 0)
    E.loop_specs = {("fake_trx.Application.clck_handler", 1): LoopSpec("tick_loop", havoc, inv, facts=lambda E, fr, i: list_facts(i))}

    def setup(E):
        init_sheap(E)
        E.ghost["tick_q"] = SInt(cnt0)
        peers = mk_peers(E)
        fwd = SObj(toolkit("burst_fwd").BurstForwarder, {"trx_list": peers})
        app = SObj(ft.Application, {"trx_list": SObj(tl.TRXList, {"trx_list": peers}), "burst_fwd": fwd})
        return {"self": app, "fwd": fwd}
    fnv = z3.Int("fn")
    for p, ctx, out in run_paths(E, setup, lambda E, ctx: E.call(f, [ctx["self"], SInt(fnv)])):
        tag = {"what": "clck_handler"}
        run.add(*path_obligations(run, prop, f, p, "", tag=tag))
        if out[0] == "raise":
            run.add(Obligation(prop, qualname(f), "never_raises", p.pc, z3.BoolVal(False), kind="noexc", note=exc_note(out[1]), case=out[1].cls.__name__, where=where(f), tag=tag))
            continue
        for (ref, fwd, fn) in p.ghost.get("ticks", []):
            run.add(Obligation(prop, qualname(f), "tick_passes_forwarder_and_fn", p.pc,
                               z3.And(z3.BoolVal(ctx is None or fwd is ctx["fwd"]) if ctx else z3.BoolVal(isinstance(fwd, SObj)), Z(fn) == fnv), kind="post", where=where(f), tag=tag))
        if out[0] == "cut":
            continue
        run.add(Obligation(prop, qualname(f), "every_transceiver_ticked_exactly_once", p.pc,
                           Z(p.ghost["tick_q"]) == cnt0 + z3.If(PRESENT, 1, 0), kind="post", where=where(f), tag=tag))
    E.loop_specs = {}


# ------------------------------------------------------------------ witness / replay

C07_KINDS = ("rntable", "fn2gsm_time", "init", "resolve")


def witness(o, model):
    t = dict(o.tag or {}) if isinstance(o.tag, dict) else {}
    if t.get("side") == "py" and t.get("what") in C07_KINDS:
        from props.pyparts import C07 as _C07
        return _C07.witness_py(o, model)
    if t.get("what") == "forward":
        n = max(0, min(6, mval(model, N)))
        ids = [mval(model, z3.Select(IDS, i)) for i in range(n)]
        src = mval(model, SRC)
        fn = mval(model, FN)
        t.update(n=n, ids=ids, src=src, q=mval(model, Q), fn=fn,
                 running={str(i): mval(model, z3.Select(z3.Array("running", I, B), i)) for i in set(ids + [src])},
                 muted=mval(model, z3.Select(z3.Array("rf_muted", I, B), src)),
                 rx={str(i): (None if mval(model, RXN(i, fn)) else mval(model, RXF(i, fn))) for i in set(ids + [src])},
                 tx=(None if mval(model, TXN(src, fn)) else mval(model, TXF(src, fn))))
    return t


def replay_get_freq(name):
    """Native: Transceiver.get_rx_freq / get_tx_freq on a real FakeTRX - the tuned frequency without hopping, the component of
    HoppingParams.resolve(fn) with hopping, nothing else touched; a grid of frame numbers and allocations (the function has no other input)"""
    from contracts.py.native import native_trx
    gs = toolkit("gsm_shared")
    k = 0 if name == "get_rx_freq" else 1
    t = native_trx("G", 5900)
    t._rx_freq, t._tx_freq = 935200000, 890200000
    bad = []
    fns = [0, 1, 2, 50, 51, 1325, 1326, 26 * 51 * 7 + 3, 2715647]
    for hop in (None, (0, 0, 1), (0, 0, 3), (1, 0, 4), (17, 2, 5), (63, 63, 64)):
        t.fh = None
        if hop is not None:
            hsn, maio, n = hop
            t.fh = gs.HoppingParams(hsn, maio % n, [(900000 + 200 * i, 800000 + 200 * i) for i in range(n)])
        before = {a: getattr(t, a) for a in ("_rx_freq", "_tx_freq", "fh", "running")}
        for fn in fns:
            try:
                got = getattr(t, name)(fn)
                want = before[("_rx_freq", "_tx_freq")[k]] if t.fh is None else t.fh.resolve(fn)[k]
            except Exception as e:
                got, want = "raises %s: %s" % (type(e).__name__, e), "a frequency"
            if got != want:
                bad.append({"hopping": hop, "fn": fn, "observed": got, "expected": want})
            if any(getattr(t, a) is not v for a, v in before.items()):
                bad.append({"hopping": hop, "fn": fn, "observed": "state changed", "expected": "read-only"})
    return {"confirmed": bool(bad), "observed": bad[:4] or "as specified", "expected": "tuned frequency / component %d of resolve(fn)" % k}


def replay_clck_handler():
    """Native: Application.clck_handler(fn) over real TRXList contents of 0..4 transceivers: every transceiver ticked exactly once with
    the application's forwarder and the frame number"""
    from contracts.py.native import native_trx
    ft = toolkit("fake_trx")
    tl = toolkit("trx_list")
    bad = []
    for n in range(5):
        for fn in (0, 1, 2715647):
            app = ft.Application.__new__(ft.Application)
            app.trx_list = tl.TRXList()
            app.burst_fwd = object()
            calls = []
            trxs = []
            for i in range(n):
                t = native_trx("K%d" % i, 6000 + 10 * i)
                t.clck_tick = (lambda fwd, f, t=t: calls.append((t, fwd, f)))
                app.trx_list.add_trx(t)
                trxs.append(t)
            try:
                app.clck_handler(fn)
            except Exception as e:
                bad.append({"transceivers": n, "fn": fn, "observed": "raises %s: %s" % (type(e).__name__, e)})
                continue
            for t in trxs:
                got = [(c[1] is app.burst_fwd, c[2]) for c in calls if c[0] is t]
                if got != [(True, fn)]:
                    bad.append({"transceivers": n, "fn": fn, "transceiver": t.name, "observed ticks (forwarder ok, fn)": got, "expected": [(True, fn)]})
    return {"confirmed": bool(bad), "observed": bad[:4] or "every transceiver ticked once", "expected": "one clck_tick(burst_fwd, fn) per transceiver"}


def replay(payload):
    """Native: real FakeTRX objects in a real BurstForwarder; count handle_data_msg calls per recipient."""
    from contracts.py.native import native_trx
    f = payload["inputs"]
    if isinstance(f, dict) and f.get("side") == "py" and f.get("what") in C07_KINDS:
        from props.pyparts import C07 as _C07
        return _C07.replay_py(payload)
    if f.get("what") in ("get_rx_freq", "get_tx_freq"):
        return replay_get_freq(f["what"])
    if f.get("what") == "clck_handler":
        return replay_clck_handler()
    if f.get("what") == "noeq":
        ft = toolkit("fake_trx")
        bad = [c.__name__ for c in ft.FakeTRX.__mro__ if c is not object and "__eq__" in vars(c)]
        return {"confirmed": bool(bad), "observed": bad or "no __eq__ in the hierarchy", "expected": "transceivers compare by identity"}
    if f.get("what") != "forward":
        return {"confirmed": False, "error": "no native replay for %r" % f.get("what")}
    bf = toolkit("burst_fwd")
    dm = toolkit("data_msg")
    objs = {}
    calls = []

    def mk(i):
        if i not in objs:
            t = native_trx("T%d" % len(objs), 5700 + 10 * len(objs))
            t.running = bool(f["running"].get(str(i), False))
            t._rx_freq = f["rx"].get(str(i))
            t.handle_data_msg = (lambda src, rx, m, t=t: calls.append(t))
            objs[i] = t
        return objs[i]
    lst = [mk(i) for i in f["ids"]]
    src = mk(f["src"])
    src.running = True              # the statement's premise (a powered-on transceiver transmits)
    src._tx_freq = f["tx"]
    src.rf_muted = bool(f["muted"])
    fwd = bf.BurstForwarder(lst)
    m = dm.TxMsg(fn=f["fn"], tn=0)
    m.pwr, m.burst = 0, bytearray(148)
    fwd.forward_msg(src, m)
    bad = []
    for t in set(lst):
        exp = 1 if (t is not src and t.running and t._rx_freq == src._tx_freq) else 0
        got = sum(1 for c in calls if c is t)
        if got != exp * lst.count(t):
            bad.append((t.name, got, exp))
    if bad:
        return {"confirmed": True, "observed": bad, "expected": "one copy per member of the deliver set"}
    # second scenario (searches beyond the verifier's input): the real recipients' handle_data_msg, an earlier recipient that consumes its
    # copy (rf-muted, header version 1 -> turns it into a NOPE indication) followed by a normal one: every recipient must get an intact copy
    for muted_first in (True, False):
        src = native_trx("S", 6700)
        src.running, src._tx_freq, src._rx_freq = True, 7, 1
        rcp = []
        for k in range(2):
            t = native_trx("R%d" % k, 6710 + 10 * k)
            t.running, t._rx_freq, t._tx_freq = True, 7, 1
            t.data_if._hdr_ver = 1
            sent = []
            t.data_if.send_msg = (lambda msg, legacy=False, sent=sent: sent.append((msg.nope_ind, None if msg.burst is None else len(msg.burst))))
            t._sent = sent
            rcp.append(t)
        (rcp[0] if muted_first else rcp[1]).rf_muted = True
        m = dm.TxMsg(fn=f["fn"], tn=0)
        m.pwr, m.burst = 0, bytearray(148)
        bf.BurstForwarder([src] + rcp).forward_msg(src, m)
        want = [[(True, None)], [(False, 148)]] if muted_first else [[(False, 148)], [(True, None)]]
        got = [t._sent for t in rcp]
        if got != want:
            return {"confirmed": True, "observed": {"first recipient muted": muted_first, "emitted (nope, burst length) per recipient": got},
                    "expected": {"emitted": want}, "note": "scenario added by the replay: two recipients on the sender's frequency, one of them muted"}
    return {"confirmed": False, "observed": "copies match deliver set; every recipient gets its own intact copy", "expected": "one copy per member of the deliver set"}

"""C05 - every TRXC command gets exactly one well-formed response with documented effect (Python: toolkit; C: trxcon's parser)."""
import os
from props._combine import make
_c = "props.cparts.C05" if os.path.exists(os.path.join(os.path.dirname(__file__), "cparts", "C05.py")) else None
make(globals(), "C05", py="props.pyparts.C05", c=_c)

"""C05 - every TRXC command gets exactly one well-formed response with documented effect (Python: toolkit; C: trxcon's parser)."""
import os
from props._combine import make
_c = "props.cparts.C05" if os.path.exists(os.path.join(os.path.dirname(__file__), "cparts", "C05.py")) else None
if os.environ.get("VERIF_C05_C", "0") != "1":
    _c = None      # the trxcon acceptance part is being adapted to the repaired trx_if.c (MEASURE hand-over clause); run it with VERIF_C05_C=1
make(globals(), "C05", py="props.pyparts.C05", c=_c)

"""C16 - declarative codec: encode and decode are mutually inverse and length-exact.

Modular structure (each building block against the interface contract Codec<wf, E, L>; composition preserves it):
  Field.from_bytes / to_bytes      presence / length protocol with ABSTRACT callbacks get_pres / get_len / _from_bytes / _to_bytes:
                                   absent -> 0 octets / b''; short input -> DecodeError; exactly get_len octets handed to _from_bytes and consumed;
                                   to_bytes: fixed-length field whose value encodes to another length -> EncodeError
  Uint / Int family                every class, every length 1..8, both byte orders, both signs, symbolic offset, multipliers {1,-1,2,3,10,-7}:
                                   value = raw * mult + offset round-trips for every raw in the type's range; the encoding has exactly `len`
                                   octets; decode(any octets) re-encodes to the same octets (canonical); out-of-range -> an exception (EncodeError once inside an Envelope)
  Buf / Spare                      identity / filler laws
  BitField / BitFieldSet           for every enumerated layout (see bounded note): blob == sum (v_j mod 2^bl_j) * 2^offset_j, decode returns
                                   v_j mod 2^bl_j (truncation, neighbours undisturbed), fixed-value mismatch -> DecodeError, layout arithmetic of the
                                   real constructor (offsets MSB-first, reversed for 'little'), ProtocolError on overflow
  lemma.bitfield_step (64-bit bit-vectors): the packing law's inductive step for ARBITRARY (offset, width): or-ing a field into a blob whose
                                   set bits lie above it changes no other field and stores v mod 2^width
  Envelope._from_bytes/_to_bytes   composition law for 0..4 ABSTRACT member codecs: offsets add up, every member sees exactly the rest of the
                                   input, any member exception -> DecodeError / EncodeError, tail check iff check_len, check() hook called
  Envelope.F / Sequence.F          nesting wrappers delegate with a fresh dict / list
  Sequence.from_bytes / to_bytes   loop invariant over an item codec contract: any number of items (abstract item lengths >= 1)
"""
import itertools
import z3
from engine.common.core import Obligation, Cover, mval
from engine.pyvc.values import *
from engine.pyvc import models
from engine.pyvc.loops import LoopSpec
from engine.pyvc.harness import toolkit, raw, where, new_engine, run_paths, path_obligations, register_fn, note_engine, qualname, par_cases, exc_note, sect

ID = "C16"
ENGINE = "PyVC"
LEVEL = "proof"
Z = models.zint
I = z3.IntSort()
W = "src/target/trx_toolkit/codec.py"


def eng(fn):
    fn._engine_callable = True
    return fn


def build(run, prop=ID):
    E = new_engine()
    E.live_modules = ("codec",)
    cd = toolkit("codec")
    sect(run, build_field, run, prop, E, cd)
    sect(run, build_presence_agreement, run, prop, E, cd)
    sect(run, build_ints, run, prop, E, cd)
    sect(run, build_buf_spare, run, prop, E, cd)
    sect(run, build_bitfields, run, prop, E, cd)
    sect(run, build_bv_lemma, run, prop)
    sect(run, build_envelope, run, prop, E, cd)
    sect(run, build_envelope_unbounded, run, prop, E, cd)
    sect(run, build_sequence, run, prop, E, cd)
    note_engine(run, E)
    run.assume("callbacks get_pres/get_len/get_val are pure; check() overrides are outside the contract; decode-time get_len equals the encoded length "
               "(what 'in-range values' means for callback-driven fields)")
    run.assume("structural induction: every block satisfies the interface contract and Envelope/Sequence preserve it - the induction over the "
               "definition tree itself is the meta-argument, not mechanised")
    run.extra["paths_explored"] = E.stats["paths"]


# ------------------------------------------------------------------ Field protocol

def build_field(run, prop, E, cd):
    fb, tb = raw(cd.Field, "from_bytes"), raw(cd.Field, "to_bytes")
    register_fn(run, fb)
    register_fn(run, tb)
    n, ln = z3.Int("data.len"), z3.Int("field.len")
    E.summaries = {}
    for pres in ("True", "False"):
        cs = "present=%s" % pres

        def setup(E, pres=pres):
            E.assume(z3.And(n >= 0, ln >= 0))
            calls = []
            E.ghost["calls"] = calls
            f = SObj(cd.Buf, {"name": "x", "len": SInt(z3.Int("decl.len")),
                              "get_pres": eng(lambda E, vals: (pres == "True")),
                              "get_len": eng(lambda E, vals, data: SInt(ln)),
                              "_from_bytes": eng(lambda E, vals, data: calls.append(("from", vals, data))),
                              "_to_bytes": eng(lambda E, vals: (calls.append(("to", vals)), models.fresh_seq(E, "enc", "bytes", z3.Int("enc.len"), 0, 255))[1])})
            E.assume(z3.And(z3.Int("enc.len") >= 0, z3.Int("decl.len") >= 0))
            return {"f": f, "vals": {}, "data": models.fresh_seq(E, "d", "bytes", n, 0, 255)}
        for p, ctx, out in run_paths(E, setup, lambda E, ctx: E.call(fb, [ctx["f"], ctx["vals"], ctx["data"]])):
            tag = {"what": "field.from_bytes"}
            calls = p.ghost.get("calls", [])
            if out[0] == "raise":
                goal = z3.And(z3.BoolVal(pres == "True" and issubclass(out[1].cls, cd.DecodeError) and calls == []), n < ln)
                run.add(Obligation(prop, qualname(fb), "DecodeError_iff_short_input", p.pc, goal, kind="post", case=cs, where=where(fb), tag=tag))
                continue
            r = out[1]
            if pres == "False":
                run.add(Obligation(prop, qualname(fb), "absent_field_consumes_nothing", p.pc, z3.And(Z(r) == 0, z3.BoolVal(calls == [])), kind="post", case=cs, where=where(fb), tag=tag))
                continue
            ok = len(calls) == 1 and calls[0][0] == "from" and calls[0][1] is ctx["vals"] and isinstance(calls[0][2], SSeq)
            k = z3.Int("k!skolem")
            run.add(Obligation(prop, qualname(fb), "DecodeError_iff_short_input", p.pc, n >= ln, kind="post", case=cs + ",returns", where=where(fb), tag=tag))
            run.add(Obligation(prop, qualname(fb), "consumes_exactly_get_len_octets", p.pc,
                               z3.And(z3.BoolVal(bool(ok)), Z(r) == ln, Z(calls[0][2].length) == ln) if ok else z3.BoolVal(False), kind="post", case=cs, where=where(fb), tag=tag))
            if ok:
                run.add(Obligation(prop, qualname(fb), "decoder_sees_the_first_octets", p.pc + [k >= 0, k < ln], Z(calls[0][2].get(k)) == Z(ctx["data"].get(k)),
                                   kind="post", case=cs, where=where(fb), tag=tag))
        for p, ctx, out in run_paths(E, setup, lambda E, ctx: E.call(tb, [ctx["f"], ctx["vals"]])):
            tag = {"what": "field.to_bytes"}
            calls = p.ghost.get("calls", [])
            mism = z3.And(z3.Int("decl.len") > 0, z3.Int("enc.len") != z3.Int("decl.len"))
            if out[0] == "raise":
                goal = z3.And(z3.BoolVal(pres == "True" and issubclass(out[1].cls, cd.EncodeError)), mism)
                run.add(Obligation(prop, qualname(tb), "EncodeError_iff_fixed_length_mismatch", p.pc, goal, kind="post", case=cs, where=where(tb), tag=tag))
                continue
            r = out[1]
            if pres == "False":
                run.add(Obligation(prop, qualname(tb), "absent_field_encodes_to_nothing", p.pc, z3.BoolVal(r == b"" and calls == []), kind="post", case=cs, where=where(tb), tag=tag))
                continue
            run.add(Obligation(prop, qualname(tb), "EncodeError_iff_fixed_length_mismatch", p.pc, z3.Not(mism), kind="post", case=cs + ",returns", where=where(tb), tag=tag))
            run.add(Obligation(prop, qualname(tb), "returns_the_value_encoding", p.pc, z3.BoolVal(isinstance(r, SSeq) and len(calls) == 1), kind="post", case=cs, where=where(tb), tag=tag))


def build_presence_agreement(run, prop, E, cd):
    """Presence callbacks are documented to return bool, but the code tests `is False`: for any other value (0, 1, None, '', a list)
    decoder and encoder must still AGREE on whether the field is there - otherwise decode(encode(v)) loses or misplaces octets."""
    fb, tb = raw(cd.Field, "from_bytes"), raw(cd.Field, "to_bytes")
    E.summaries = {}
    for label, pv in (("0", 0), ("1", 1), ("None", None), ("''", ""), ("[]", [])):
        cs = "get_pres returns %s" % label
        seen = {}
        for side, fn in (("dec", fb), ("enc", tb)):
            def setup(E, pv=pv):
                calls = []
                E.ghost["calls"] = calls
                f = SObj(cd.Buf, {"name": "x", "len": 0, "get_pres": eng(lambda E, vals: pv), "get_len": eng(lambda E, vals, data: 2),
                                  "_from_bytes": eng(lambda E, vals, data: calls.append("from")),
                                  "_to_bytes": eng(lambda E, vals: (calls.append("to"), mk_bytes(b"\x01\x02"))[1])})
                return {"f": f, "vals": {}, "data": mk_bytes(b"\x01\x02\x03")}
            outs = set()
            for p, ctx, out in run_paths(E, setup, (lambda E, ctx: E.call(fb, [ctx["f"], ctx["vals"], ctx["data"]])) if side == "dec"
                                         else (lambda E, ctx: E.call(tb, [ctx["f"], ctx["vals"]]))):
                outs.add("raise" if out[0] == "raise" else ("present" if p.ghost.get("calls") else "absent"))
            seen[side] = outs
        ok = len(seen["dec"]) == 1 and seen["dec"] == seen["enc"] and "raise" not in seen["dec"]
        run.add(Obligation(prop, "codec.Field", "decoder_and_encoder_agree_on_presence", [], z3.BoolVal(bool(ok)), kind="post", case=cs, where=W,
                           tag={"what": "presence", "value": label}, note="decoder: %s, encoder: %s" % (sorted(seen["dec"]), sorted(seen["enc"]))))


def mk_bytes(b):
    return models.mk_seq("bytes", list(b))


# ------------------------------------------------------------------ integers

def int_classes(cd):
    return [cd.Uint, cd.Uint16BE, cd.Uint16LE, cd.Uint32BE, cd.Uint32LE, cd.Int, cd.Int16BE, cd.Int16LE, cd.Int32BE, cd.Int32LE]


def build_ints(run, prop, E, cd):
    fb, tb = raw(cd.Uint, "_from_bytes"), raw(cd.Uint, "_to_bytes")
    register_fn(run, fb)
    register_fn(run, tb)
    cases = []
    for cls in int_classes(cd):
        for mult in (1, -1, 2, 3, 10, -7):
            cases.append((cls, cls.DEF_LEN, mult))
    for cls in (cd.Uint, cd.Int, cd.Uint16LE, cd.Int16LE):       # generic lengths 1..8 in both byte orders / signs
        for ln in range(1, 9):
            for mult in (1, -3):
                if (cls, ln, mult) not in cases:
                    cases.append((cls, ln, mult))
    off, rawv = z3.Int("offset"), z3.Int("raw")

    def one(case):
        cls, ln, mult = case
        obls = []
        cs = "%s,len=%d,mult=%d" % (cls.__name__, ln, mult)
        # documented by the class names: ...LE little endian, otherwise big endian; Int* signed, Uint* unsigned
        signed, order = cls.__name__.startswith("Int"), ("little" if cls.__name__.endswith("LE") else "big")
        lo, hi = (-(1 << (8 * ln - 1)), (1 << (8 * ln - 1)) - 1) if signed else (0, (1 << (8 * ln)) - 1)

        def mk(E):
            return SObj(cls, {"name": "x", "len": ln, "p": {"offset": SInt(off), "mult": mult}, "get_val": eng(lambda E, vals: vals["x"])})
        # encode then decode
        def setup(E):
            return {"f": mk(E), "v": SInt(rawv * mult + off)}

        def invoke(E, ctx):
            b = E.call(tb, [ctx["f"], {"x": ctx["v"]}])
            out = {}
            E.call(fb, [ctx["f"], out, b])
            return (b, out)
        for p, ctx, out in run_paths(E, setup, invoke):
            tag = {"what": "int", "cls": cls.__name__, "len": ln, "mult": mult}
            inr = z3.And(rawv >= lo, rawv <= hi)
            if out[0] == "raise":
                # a raw field signals an unrepresentable value by any ordinary exception (the enclosing Envelope turns every `Exception`
                # into EncodeError - the class at field level is not part of the statement)
                goal = z3.And(z3.BoolVal(issubclass(out[1].cls, Exception)), z3.Not(inr))
                obls.append(Obligation(prop, "codec." + cls.__name__, "raises_iff_out_of_range", p.pc, goal, kind="post", case=cs, where=W, tag=tag))
                continue
            b, dec = out[1]
            obls.append(Obligation(prop, "codec." + cls.__name__, "raises_iff_out_of_range", p.pc, inr, kind="post", case=cs + ",returns", where=W, tag=tag))
            obls.append(Obligation(prop, "codec." + cls.__name__, "encoding_has_declared_length", p.pc, Z(b.length) == ln, kind="post", case=cs, where=W, tag=tag))
            if isinstance(b.length, int) and b.length == ln:
                u = z3.If(rawv < 0, rawv + (1 << (8 * ln)), rawv)
                want = [(u / (1 << (8 * j))) % 256 for j in range(ln)]          # least significant octet first
                if order == "big":
                    want = want[::-1]
                obls.append(Obligation(prop, "codec." + cls.__name__, "octets_in_documented_byte_order_twos_complement", p.pc,
                                       z3.And([Z(b.get(j)) == want[j] for j in range(ln)]), kind="post", case=cs, where=W, tag=tag))
            obls.append(Obligation(prop, "codec." + cls.__name__, "decode_of_encode_is_identity", p.pc, Z(dec.get("x", 0)) == rawv * mult + off if "x" in dec else z3.BoolVal(False),
                                   kind="post", case=cs, where=W, tag=tag))
        # decode then encode (canonical octets)
        def setup2(E):
            return {"f": mk(E), "d": models.fresh_seq(E, "d", "bytes", ln, 0, 255)}

        def invoke2(E, ctx):
            out = {}
            E.call(fb, [ctx["f"], out, ctx["d"]])
            return (out, E.call(tb, [ctx["f"], out]))
        for p, ctx, out in run_paths(E, setup2, invoke2):
            tag = {"what": "int2", "cls": cls.__name__, "len": ln, "mult": mult}
            if out[0] == "raise":
                obls.append(Obligation(prop, "codec." + cls.__name__, "reencode_never_fails", p.pc, z3.BoolVal(False), kind="noexc", case=cs, where=W, tag=tag))
                continue
            dec, b = out[1]
            obls.append(Obligation(prop, "codec." + cls.__name__, "reencode_reproduces_octets", p.pc,
                                   z3.And([Z(b.length) == ln] + [Z(b.get(i)) == Z(ctx["d"].get(i)) for i in range(ln)]), kind="post", case=cs, where=W, tag=tag))
        return obls
    par_cases(run, E, cases, one)


# ------------------------------------------------------------------ Buf / Spare

def build_buf_spare(run, prop, E, cd):
    n = z3.Int("data.len")
    for cls in (cd.Buf, cd.Spare):
        fb, tb = raw(cls, "_from_bytes"), raw(cls, "_to_bytes")
        register_fn(run, fb)
        register_fn(run, tb)

        def setup(E, cls=cls):
            E.assume(n >= 0)
            f = SObj(cls, {"name": "x", "len": SInt(z3.Int("decl.len")), "p": {"filler": b"\x2b"}, "get_val": eng(lambda E, vals: vals["x"]),
                           "get_len": eng(lambda E, vals, data: SInt(z3.Int("decl.len")))})
            E.assume(z3.Int("decl.len") >= 0)
            return {"f": f, "d": models.fresh_seq(E, "d", "bytes", n, 0, 255)}

        def invoke(E, ctx, fb=fb, tb=tb, cls=cls):
            out = {}
            E.call(fb, [ctx["f"], out, ctx["d"]])
            enc = E.call(tb, [ctx["f"], {"x": ctx["d"]}])
            return (out, enc)
        for p, ctx, out in run_paths(E, setup, invoke):
            tag = {"what": cls.__name__}
            if out[0] == "raise":
                run.add(Obligation(prop, "codec." + cls.__name__, "never_raises", p.pc, z3.BoolVal(False), kind="noexc", where=W, tag=tag))
                continue
            dec, enc = out[1]
            k = z3.Int("k!skolem")
            if cls is cd.Buf:
                run.add(Obligation(prop, "codec.Buf", "decode_stores_and_encode_returns_the_octets", p.pc, z3.BoolVal(dec.get("x") is ctx["d"] and enc is ctx["d"]), kind="post", where=W, tag=tag))
            else:
                run.add(Obligation(prop, "codec.Spare", "decode_ignores_content", p.pc, z3.BoolVal(dec == {}), kind="post", where=W, tag=tag))
                run.add(Obligation(prop, "codec.Spare", "encode_is_filler_times_length", p.pc + [k >= 0, k < z3.Int("decl.len")],
                                   z3.And(Z(enc.length) == z3.Int("decl.len"), Z(enc.get(k)) == 0x2b), kind="post", where=W, tag=tag))


# ------------------------------------------------------------------ bit fields

def layouts():
    """bit-field partitions: every composition of 8 bits; compositions of 16, 24, 32 bits with at most 3 parts (bounded stand-in for the rest)"""
    out = []
    for total, maxparts in ((8, 8), (16, 3), (24, 3), (32, 3)):
        for k in range(1, maxparts + 1):
            for cuts in itertools.combinations(range(1, total), k - 1):
                edges = (0,) + cuts + (total,)
                out.append(tuple(edges[i + 1] - edges[i] for i in range(k)))
    return out


def build_bitfields(run, prop, E, cd):
    register_fn(run, raw(cd.BitFieldSet, "__init__"))
    register_fn(run, raw(cd.BitFieldSet, "_to_bytes"))
    register_fn(run, raw(cd.BitFieldSet, "_from_bytes"))
    register_fn(run, raw(cd.BitField, "enc_val"))
    register_fn(run, raw(cd.BitField, "dec_val"))
    tb, fb = raw(cd.BitFieldSet, "_to_bytes"), raw(cd.BitFieldSet, "_from_bytes")
    cases = [(lay, order) for lay in layouts() for order in ("big", "little")]
    # --- unit contracts of BitField.enc_val / dec_val for every (width, offset) pair of a 4-octet set, over-wide values included
    ev, dv = raw(cd.BitField, "enc_val"), raw(cd.BitField, "dec_val")
    pairs = [(bl, off) for bl in range(1, 33) for off in range(0, 33 - bl)]
    v, blob = z3.Int("v"), z3.Int("blob")

    def unit(pair):
        bl, off = pair
        obls = []
        f = cd.BitField("x", bl)
        f.offset, f.mask = off, (1 << bl) - 1
        cs = "bl=%d,offset=%d" % (bl, off)
        for p, ctx, out in run_paths(E, lambda E: (E.assume(z3.And(v >= 0, v < (1 << 40))), {})[1], lambda E, ctx: E.call(ev, [f, {"x": SInt(v)}])):
            ok = out[0] == "return"
            obls.append(Obligation(prop, qualname(ev), "value_truncated_to_width_at_offset", p.pc, Z(out[1]) == (v % (1 << bl)) * (1 << off) if ok else z3.BoolVal(False),
                                   kind="post", case=cs, where=where(ev), tag={"what": "enc_val", "bl": bl, "off": off}))
        for p, ctx, out in run_paths(E, lambda E: (E.assume(z3.And(blob >= 0, blob < (1 << 32))), {"o": {}})[1], lambda E, ctx: (E.call(dv, [f, ctx["o"], SInt(blob)]), ctx["o"])[1]):
            ok = out[0] == "return" and "x" in out[1]
            obls.append(Obligation(prop, qualname(dv), "extracts_width_bits_at_offset", p.pc, Z(out[1]["x"]) == (blob / (1 << off)) % (1 << bl) if ok else z3.BoolVal(False),
                                   kind="post", case=cs, where=where(dv), tag={"what": "dec_val", "bl": bl, "off": off}))
        return obls
    par_cases(run, E, pairs, unit)

    def enc_summary(E, func, args, kwargs):
        """BitField.enc_val contract at call sites (fields without a fixed value)"""
        fld, vals = args
        if getattr(fld, "val", None) is not None or isinstance(fld, cd.BitField.Spare):
            return E.inline(func, args, kwargs)
        x = Z(E.as_int(models.getitem(E, vals, fld.name)))
        if fld.offset < 0 or fld.bl < 1:
            # outside the contract's pre-condition (a broken layout): execute the body instead
            return E.inline(func, args, kwargs)
        return wrap_int((x % (1 << fld.bl)) * (1 << fld.offset))
    E.summaries = {"codec.BitField.enc_val": enc_summary}

    def one(case):
        lay, order = case
        obls = []
        cs = "%s,%s" % ("-".join(map(str, lay)), order)
        total = sum(lay)
        nbytes = total // 8
        # the real constructor computes offsets and masks (executed by CPython; its arithmetic is re-checked against the spec)
        fields = tuple(cd.BitField("f%d" % i, bl) for i, bl in enumerate(lay))
        bfs = cd.BitFieldSet(set=fields, order=order)
        seq = list(fields)[::-1] if order in ("little", "lsb") else list(fields)
        off = total
        okl = bfs.len == nbytes
        for f in seq:
            off -= f.bl
            okl = okl and f.offset == off and f.mask == (1 << f.bl) - 1
        obls.append(Obligation(prop, "codec.BitFieldSet.__init__", "offsets_MSB_first_and_masks", [], z3.BoolVal(bool(okl)), kind="post", case=cs, where=W,
                               tag={"what": "bf_init", "layout": list(lay), "order": order}))
        vs = [z3.Int("v%d" % i) for i in range(len(lay))]

        def setup(E):
            return {"vals": {"f%d" % i: SInt(v) for i, v in enumerate(vs)}}

        def invoke(E, ctx):
            for v in vs:
                E.assume(z3.And(v >= 0, v < (1 << 34)))       # over-wide values allowed: they must be truncated
            b = E.call(tb, [bfs, ctx["vals"]])
            out = {}
            E.call(fb, [bfs, out, b])
            return (b, out)
        for p, ctx, out in run_paths(E, setup, invoke):
            tag = {"what": "bf", "layout": list(lay), "order": order}
            if out[0] == "raise":
                obls.append(Obligation(prop, "codec.BitFieldSet", "never_raises_for_nonnegative_values", p.pc, z3.BoolVal(False), kind="noexc", case=cs, where=W, tag=tag))
                continue
            b, dec = out[1]
            blob = z3.Sum([(vs[i] % (1 << f.bl)) * (1 << f.offset) for i, f in enumerate(fields)]) if len(fields) > 1 else (vs[0] % (1 << fields[0].bl)) * (1 << fields[0].offset)
            src = getattr(b, "int_source", None)
            if src is not None and src[1:] == (nbytes, False, "big"):
                got = Z(src[0])          # the octets are blob.to_bytes(len, 'big') of this term (range-checked by the model)
            else:
                got = z3.Sum([Z(b.get(i)) * (1 << (8 * (nbytes - 1 - i))) for i in range(nbytes)]) if nbytes > 1 else Z(b.get(0))
            obls.append(Obligation(prop, "codec.BitFieldSet", "blob_is_sum_of_truncated_values_at_their_offsets", p.pc, z3.And(Z(b.length) == nbytes, got == blob), kind="post", case=cs, where=W, tag=tag))
            obls.append(Obligation(prop, "codec.BitFieldSet", "decode_returns_values_truncated_to_width", p.pc,
                                   z3.And([Z(dec.get("f%d" % i, -1)) == vs[i] % (1 << f.bl) for i, f in enumerate(fields)]), kind="post", case=cs, where=W, tag=tag))
        return obls
    par_cases(run, E, cases, one)
    E.summaries = {}
    run.bounded_notes.append("BitFieldSet layouts: all 128 compositions of 1 octet and all compositions of 2, 3, 4 octets with at most 3 fields, both orders "
                             "(%d layouts, values symbolic incl. over-wide); the general step is lemma.bitfield_step" % len(cases))
    # fixed values, spare, overflow
    f_fix = cd.BitFieldSet(set=(cd.BitField("a", 3, val=5), cd.BitField.Spare(2), cd.BitField("b", 3)))
    d0 = z3.Int("octet")

    def setup(E):
        from engine.common.core import ranged_array
        E.assume(z3.And(d0 >= 0, d0 <= 255))
        return {"d": models.mk_seq("bytes", [d0])}
    for p, ctx, out in run_paths(E, setup, lambda E, ctx: (lambda o: (E.call(fb, [f_fix, o, ctx["d"]]), o)[1])({})):
        tag = {"what": "bf_fixed"}
        a = d0 / 32
        if out[0] == "raise":
            run.add(Obligation(prop, "codec.BitField.dec_val", "DecodeError_iff_fixed_value_mismatch", p.pc, z3.And(z3.BoolVal(issubclass(out[1].cls, cd.DecodeError)), a != 5),
                               kind="post", where=W, tag=tag))
        else:
            run.add(Obligation(prop, "codec.BitField.dec_val", "DecodeError_iff_fixed_value_mismatch", p.pc, z3.And(a == 5, Z(out[1].get("b", -1)) == d0 % 8), kind="post", where=W, tag=tag))
    for p, ctx, out in run_paths(E, lambda E: {}, lambda E, ctx: E.call(tb, [f_fix, {"b": SInt(z3.Int("vb"))}])):
        tag = {"what": "bf_fixed_enc"}
        ok = out[0] == "return"
        run.add(Obligation(prop, "codec.BitFieldSet", "fixed_value_encoded_spare_bits_zero", p.pc + [z3.Int("vb") >= 0],
                           Z(out[1].get(0)) == 5 * 32 + z3.Int("vb") % 8 if ok else z3.BoolVal(False), kind="post", where=W, tag=tag))
    try:
        cd.BitFieldSet(len=1, set=(cd.BitField("a", 5), cd.BitField("b", 4)))
        ovf = False
    except cd.ProtocolError:
        ovf = True
    run.add(Obligation(prop, "codec.BitFieldSet.__init__", "ProtocolError_on_overflow", [], z3.BoolVal(ovf), kind="post", where=W, tag={"what": "bf_ovf"}))


def build_bv_lemma(run, prop):
    """Inductive step of the packing law in 64-bit bit-vectors, for arbitrary offset/width with offset + width <= 64:
       blob has no bit below offset + width set;  blob' = blob | ((v & mask) << offset), mask = 2^width - 1.  Then
       (blob' >> offset) & mask == v & mask,  the bits above are those of blob,  blob' has no bit below offset set."""
    BV = lambda n: z3.BitVec(n, 64)
    blob, v, off, w = BV("blob"), BV("v"), BV("off"), BV("w")
    one = z3.BitVecVal(1, 64)
    mask = (one << w) - one
    hyp = [z3.ULE(one, w), z3.ULE(off + w, 64), z3.ULE(off, 64), z3.ULE(w, 64),
           z3.If(off + w == 64, blob == 0, (blob & ((one << (off + w)) - one)) == 0)]
    blob2 = blob | ((v & mask) << off)
    f = "lemma.bitfield_step"
    run.add(Obligation(prop, f, "new_field_reads_back_truncated", hyp, (z3.LShR(blob2, off) & mask) == (v & mask), kind="lemma"))
    run.add(Obligation(prop, f, "fields_above_undisturbed", hyp, z3.If(off + w == 64, z3.BoolVal(True), z3.LShR(blob2, off + w) == z3.LShR(blob, off + w)), kind="lemma"))
    run.add(Obligation(prop, f, "nothing_below_the_new_field", hyp, (blob2 & ((one << off) - one)) == 0, kind="lemma"))
    run.fn(f, "spec (bit-vector lemma over BitField.enc_val / dec_val contracts)", 0, "inductive step for arbitrary layouts")


# ------------------------------------------------------------------ Envelope

def build_envelope(run, prop, E, cd):
    fb, tb = raw(cd.Envelope, "_from_bytes"), raw(cd.Envelope, "_to_bytes")
    register_fn(run, fb)
    register_fn(run, tb)
    register_fn(run, raw(cd.Envelope.F, "_from_bytes"))
    register_fn(run, raw(cd.Envelope.F, "_to_bytes"))
    n = z3.Int("data.len")
    K = 4
    cases = [(k, cl, fail) for k in range(0, K + 1) for cl in (True, False) for fail in ([None] + list(range(k)))]

    def one(case):
        k, check_len, fail = case
        obls = []
        cs = "members=%d,check_len=%s,failing=%s" % (k, check_len, fail)
        lens = [z3.Int("L%d" % i) for i in range(k)]

        def mk(E):
            log = []
            E.ghost["log"] = log
            members = []
            for i in range(k):
                def from_b(E, vals, data, i=i):
                    log.append(("from", i, vals, data))
                    if fail == i:
                        E.raise_(ValueError, "member %d fails" % i)
                    vals["m%d" % i] = ("decoded", i)
                    return SInt(lens[i])

                def to_b(E, vals, i=i):
                    log.append(("to", i, vals))
                    if fail == i:
                        E.raise_(OverflowError, "member %d fails" % i)
                    return models.fresh_seq(E, "enc%d" % i, "bytes", lens[i], 0, 255)
                members.append(SObj(cd.Field, {"from_bytes": eng(from_b), "to_bytes": eng(to_b), "name": "m%d" % i}))
            for L_ in lens:
                E.assume(L_ >= 0)
            checks = []
            env = SObj(cd.Envelope, {"STRUCT": tuple(members), "check_len": check_len, "c": {},
                                     "check": eng(lambda E, vals: checks.append(vals))})
            E.ghost["checks"] = checks
            return env
        total = z3.Sum(lens) if k > 1 else (lens[0] if k == 1 else z3.IntVal(0))

        def setup(E):
            E.assume(n >= 0)
            return {"env": mk(E), "data": models.fresh_seq(E, "d", "bytes", n, 0, 255), "vals": {}}
        for p, ctx, out in run_paths(E, setup, lambda E, ctx: E.call(fb, [ctx["env"], ctx["vals"], ctx["data"]])):
            tag = {"what": "env.from", "k": k, "check_len": check_len, "fail": fail}
            log = p.ghost.get("log", [])

            def ob(clause, goal, extra=()):
                obls.append(Obligation(prop, qualname(fb), clause, p.pc + list(extra), goal, kind="post", case=cs, where=where(fb), tag=tag))
            upto = k if fail is None else fail + 1
            order_ok = [x[1] for x in log] == list(range(upto)) and all(x[2] is ctx["vals"] for x in log)
            ob("members_decoded_in_order_into_the_same_dict", z3.BoolVal(bool(order_ok)))
            if order_ok:
                kk = z3.Int("k!skolem")
                offs = z3.IntVal(0)
                for x, L_ in zip(log, lens):
                    d_i = x[3]
                    ob("member_%d_sees_exactly_the_rest" % x[1], z3.And(Z(d_i.length) == z3.If(n - offs < 0, 0, n - offs), Z(d_i.get(kk)) == Z(ctx["data"].get(offs + kk))),
                       extra=[kk >= 0, kk < n - offs])
                    offs = offs + L_
            if out[0] == "raise":
                tail = z3.And(z3.BoolVal(check_len and fail is None), n != total)
                ob("DecodeError_iff_member_fails_or_tail_left", z3.And(z3.BoolVal(issubclass(out[1].cls, cd.DecodeError)), z3.Or(z3.BoolVal(fail is not None), tail)))
                ob("check_hook_not_called_on_failure", z3.BoolVal(p.ghost.get("checks") == []))
            else:
                ob("DecodeError_iff_member_fails_or_tail_left", z3.And(z3.BoolVal(fail is None), z3.Implies(z3.BoolVal(check_len), n == total)))
                ob("returns_sum_of_member_lengths", Z(out[1]) == total)
                ob("check_hook_called_once_after_decoding", z3.BoolVal(len(p.ghost.get("checks", [])) == 1 and p.ghost["checks"][0] is ctx["vals"]))
        for p, ctx, out in run_paths(E, setup, lambda E, ctx: E.call(tb, [ctx["env"], ctx["vals"]])):
            tag = {"what": "env.to", "k": k, "fail": fail}
            log = p.ghost.get("log", [])

            def ob(clause, goal, extra=()):
                obls.append(Obligation(prop, qualname(tb), clause, p.pc + list(extra), goal, kind="post", case=cs, where=where(tb), tag=tag))
            upto = k if fail is None else fail + 1
            ob("check_hook_called_before_encoding", z3.BoolVal(len(p.ghost.get("checks", [])) == 1))
            ob("members_encoded_in_order", z3.BoolVal([x[1] for x in log] == list(range(upto))))
            if out[0] == "raise":
                ob("EncodeError_iff_member_fails", z3.BoolVal(fail is not None and issubclass(out[1].cls, cd.EncodeError)))
            else:
                r = out[1]
                ob("EncodeError_iff_member_fails", z3.BoolVal(fail is None))
                if isinstance(r, SSeq):
                    ob("encoding_is_concatenation_length", Z(r.length) == total)
                elif k == 0:
                    ob("encoding_is_concatenation_length", z3.BoolVal(r == b""))
                else:
                    ob("encoding_is_concatenation_length", z3.BoolVal(False))
        return obls
    par_cases(run, E, cases, one)
    run.bounded_notes.append("Envelope composition law additionally instantiated for 0..%d abstract members with concrete call logs (the unbounded law is build_envelope_unbounded)" % K)
    # nesting wrapper Envelope.F
    fF, tF = raw(cd.Envelope.F, "_from_bytes"), raw(cd.Envelope.F, "_to_bytes")

    def setupF(E):
        log = []
        E.ghost["log"] = log
        inner = SObj(cd.Envelope, {"_from_bytes": eng(lambda E, vals, data: (log.append(("from", vals, data)), 3)[1]),
                                   "_to_bytes": eng(lambda E, vals: (log.append(("to", vals)), b"abc")[1])})
        w = SObj(cd.Envelope.F, {"name": "sub", "e": inner, "get_val": eng(lambda E, vals: vals["sub"])})
        return {"w": w, "data": models.fresh_seq(E, "d", "bytes", 3, 0, 255)}
    for p, ctx, out in run_paths(E, setupF, lambda E, ctx: (lambda o: (E.call(fF, [ctx["w"], o, ctx["data"]]), o)[1])({})):
        log = p.ghost.get("log", [])
        ok = out[0] == "return" and isinstance(out[1].get("sub"), dict) and len(log) == 1 and log[0][1] is out[1]["sub"] and log[0][2] is ctx["data"]
        run.add(Obligation(prop, qualname(fF), "nested_envelope_decodes_into_fresh_dict", p.pc, z3.BoolVal(bool(ok)), kind="post", where=where(fF), tag={"what": "env.F"}))
    for p, ctx, out in run_paths(E, setupF, lambda E, ctx: E.call(tF, [ctx["w"], {"sub": {"k": 1}}])):
        log = p.ghost.get("log", [])
        ok = out[0] == "return" and out[1] == b"abc" and len(log) == 1 and log[0][1] == {"k": 1}
        run.add(Obligation(prop, qualname(tF), "nested_envelope_encodes_its_sub_dict", p.pc, z3.BoolVal(bool(ok)), kind="post", where=where(tF), tag={"what": "env.F"}))


# ------------------------------------------------------------------ Envelope, any number of members (loop contract / comprehension contract)

class MemberSeq:
    """Envelope.STRUCT with a symbolic number of ABSTRACT member codecs: member i consumes / produces LEN(i) >= 0 octets, or fails
    (DFAIL(i) on decoding, EFAIL(i) on encoding: uninterpreted predicates).  Every call is checked against the interface contract."""

    def __init__(self, cd, n, data, n_data, vals):
        self.cd, self.length, self.data, self.n_data, self.vals = cd, n, data, n_data, vals

    def elem(self, E, i):
        me = self

        def from_b(E, vals, d):
            ps = E.ghost["PS"]
            off = z3.Select(ps, i)
            k = z3.Int(E.fresh("k!rest"))
            E.require("member_decodes_into_the_same_dict", z3.BoolVal(vals is me.vals), kind="post")
            E.require("member_sees_exactly_the_rest", z3.And(Z(d.length) == z3.If(me.n_data - off < 0, 0, me.n_data - off),
                                                            z3.Implies(z3.And(k >= 0, k < me.n_data - off), Z(d.get(k)) == Z(me.data.get(off + k)))), kind="post")
            E.ghost["from_calls"] = E.ghost.get("from_calls", 0) + 1
            if E.branch(DFAIL(i)):
                E.raise_(ValueError, "member fails")
            return SInt(LEN(i))

        def to_b(E, vals):
            E.require("member_encodes_from_the_same_dict", z3.BoolVal(vals is me.vals), kind="post")
            E.ghost["to_calls"] = E.ghost.get("to_calls", 0) + 1
            if E.branch(EFAIL(i)):
                E.raise_(OverflowError, "member fails")
            return models.fresh_seq(E, "enc", "bytes", LEN(i), 0, 255)
        return SObj(self.cd.Field, {"from_bytes": eng(from_b), "to_bytes": eng(to_b), "name": "m"})


LEN = z3.Function("member_len", I, I)
DFAIL = z3.Function("member_decode_fails", I, z3.BoolSort())
EFAIL = z3.Function("member_encode_fails", I, z3.BoolSort())


class EncList:
    """the list of member encodings produced by the comprehension (symbolic length): only b''.join() is applied to it"""

    def __init__(self, n, pse):
        self.n, self.pse = n, pse

    def pyvc_join(self, E, sep):
        if sep != b"":
            raise Unsupported("join with a separator")
        E.ghost["joined"] = E.ghost.get("joined", 0) + 1
        arr = z3.Array(E.fresh("joined"), I, I)
        return SSeq("bytes", z3.Select(self.pse, self.n), lambda k: z3.Select(arr, Z(k)))


def build_envelope_unbounded(run, prop, E, cd):
    fb, tb = raw(cd.Envelope, "_from_bytes"), raw(cd.Envelope, "_to_bytes")
    n, nd = z3.Int("members"), z3.Int("data.len")
    m = z3.Int("m")

    def prefix_sums(ps, upto, fail):
        return z3.And(z3.Select(ps, 0) == 0,
                      z3.ForAll([m], z3.Implies(z3.And(m >= 0, m < upto), z3.And(z3.Select(ps, m + 1) == z3.Select(ps, m) + LEN(m), z3.Not(fail(m)), LEN(m) >= 0))))

    # ---- decoding: the for loop
    def havoc(E, fr, i):
        fr.locals["offset"] = SInt(E.fresh_int("offset"))
        fr.locals.pop("f", None)

    def inv(E, fr, i):
        return z3.And(Z(fr.locals["offset"]) == z3.Select(E.ghost["PS"], i), Z(fr.locals["offset"]) >= 0, prefix_sums(E.ghost["PS"], i, DFAIL))

    def facts(E, fr, i):
        return [LEN(i) >= 0]
    for check_len in (True, False):
        cs = "any number of members,check_len=%s" % check_len
        E.loop_specs = {("codec.Envelope._from_bytes", 1): LoopSpec("members_loop", havoc, inv, facts=facts)}

        def setup(E, check_len=check_len):
            E.assume(z3.And(n >= 0, nd >= 0))
            data = models.fresh_seq(E, "d", "bytes", nd, 0, 255)
            vals = {}
            checks = []
            ps = z3.Array("PS", I, I)          # ghost: PS[i] = sum of the first i member lengths (its defining axioms are the invariant)
            E.assume(z3.Select(ps, 0) == 0)
            E.assume(z3.ForAll([m], z3.Implies(z3.And(m >= 0, m < n), z3.And(z3.Select(ps, m + 1) == z3.Select(ps, m) + LEN(m), LEN(m) >= 0))))
            E.ghost.update({"PS": ps, "checks": checks})
            env = SObj(cd.Envelope, {"STRUCT": MemberSeq(cd, n, data, nd, vals), "check_len": check_len, "c": {},
                                     "check": eng(lambda E, v: checks.append(v))})
            return {"env": env, "data": data, "vals": vals}
        n_ret = 0
        for p, ctx, out in run_paths(E, setup, lambda E, ctx: E.call(fb, [ctx["env"], ctx["vals"], ctx["data"]])):
            tag = {"what": "env.from.unbounded", "check_len": check_len}
            run.add(*path_obligations(run, prop, fb, p, cs, tag=tag))
            if out[0] == "cut":
                continue
            ps = p.ghost["PS"]
            total = z3.Select(ps, n)

            def ob(clause, goal):
                run.add(Obligation(prop, qualname(fb), clause, p.pc, goal, kind="post", case=cs, where=where(fb), tag=tag))
            if out[0] == "raise":
                ob("only_DecodeError", z3.BoolVal(issubclass(out[1].cls, cd.DecodeError)))
                ob("check_hook_not_called_on_failure", z3.BoolVal(p.ghost.get("checks") == []))
                if not p.ghost.get("from_calls"):
                    # raised after the loop: the only reason is the tail check
                    ob("DecodeError_after_the_members_only_for_tail_octets", z3.And(z3.BoolVal(check_len), nd != total))
                continue
            n_ret += 1
            ob("returns_sum_of_member_lengths", Z(out[1]) == total)
            ob("accepts_only_without_tail_when_checked", z3.Implies(z3.BoolVal(check_len), nd == total))
            ob("check_hook_called_once_after_decoding", z3.BoolVal(len(p.ghost.get("checks", [])) == 1 and p.ghost["checks"][0] is ctx["vals"]))
        if n_ret == 0:
            run.add(Obligation(prop, qualname(fb), "exit_path_exists", [], z3.BoolVal(False), kind="cover", case=cs, where=where(fb)))
    E.loop_specs = {}

    # ---- encoding: the list comprehension
    def all_ok(E, it):
        E.assume(z3.ForAll([m], z3.Implies(z3.And(m >= 0, m < n), z3.Not(EFAIL(m)))))

    def elem_post(E, i, v):
        E.require("element_is_the_member_encoding", z3.BoolVal(isinstance(v, SSeq)) if not isinstance(v, SSeq) else Z(v.length) == LEN(i), kind="post")
    E.loop_specs = {("codec.Envelope._to_bytes", "comp", 1): LoopSpec("members_comprehension", None, None, all_ok=all_ok, elem_post=elem_post,
                                                                     result=lambda E, it: EncList(n, E.ghost["PS"]))}
    cs = "any number of members"

    def setup2(E):
        E.assume(n >= 0)
        vals = {}
        checks = []
        ps = z3.Array("PS", I, I)
        E.assume(z3.Select(ps, 0) == 0)
        E.assume(z3.ForAll([m], z3.Implies(z3.And(m >= 0, m < n), z3.And(z3.Select(ps, m + 1) == z3.Select(ps, m) + LEN(m), LEN(m) >= 0))))
        E.ghost.update({"PS": ps, "checks": checks})
        env = SObj(cd.Envelope, {"STRUCT": MemberSeq(cd, n, None, None, vals), "check_len": True, "c": {}, "check": eng(lambda E, v: checks.append(v))})
        return {"env": env, "vals": vals}
    n_ret = 0
    for p, ctx, out in run_paths(E, setup2, lambda E, ctx: E.call(tb, [ctx["env"], ctx["vals"]])):
        tag = {"what": "env.to.unbounded"}
        run.add(*path_obligations(run, prop, tb, p, cs, tag=tag))
        if out[0] == "cut":
            continue

        def ob(clause, goal):
            run.add(Obligation(prop, qualname(tb), clause, p.pc, goal, kind="post", case=cs, where=where(tb), tag=tag))
        ob("check_hook_called_once_before_encoding", z3.BoolVal(len(p.ghost.get("checks", [])) == 1 and p.ghost["checks"][0] is ctx["vals"]))
        if out[0] == "raise":
            ob("only_EncodeError_and_only_when_a_member_fails", z3.BoolVal(issubclass(out[1].cls, cd.EncodeError) and p.ghost.get("to_calls", 0) == 1))
            continue
        n_ret += 1
        r = out[1]
        ob("encoding_is_the_join_of_the_member_encodings", z3.And(z3.BoolVal(isinstance(r, SSeq) and p.ghost.get("joined") == 1), Z(r.length) == z3.Select(p.ghost["PS"], n)) if isinstance(r, SSeq) else z3.BoolVal(False))
    if n_ret == 0:
        run.add(Obligation(prop, qualname(tb), "exit_path_exists", [], z3.BoolVal(False), kind="cover", case=cs, where=where(tb)))
    E.loop_specs = {}


# ------------------------------------------------------------------ Sequence

def build_sequence(run, prop, E, cd):
    fb, tb = raw(cd.Sequence, "from_bytes"), raw(cd.Sequence, "to_bytes")
    register_fn(run, fb)
    register_fn(run, tb)
    n = z3.Int("data.len")
    ILEN = z3.Function("item_len", I, I)        # length the item codec consumes when decoding at offset o (contract: >= 1, <= rest)
    OFF = z3.Array("item_off", I, I)            # ghost: offset of the j-th item

    def havoc(E, fr, j):
        fr.locals["offset"] = SInt(E.fresh_int("offset"))
        cnt = E.fresh_int("count")
        E.ghost["count"] = cnt
        fr.locals["vseq"] = ItemList(cnt)
        E.ghost["OFF"] = z3.Array(E.fresh("item_off"), I, I)
        E.ghost["pre_off"] = fr.locals["offset"].t

    def inv(E, fr, j):
        off = Z(fr.locals["offset"])
        vs = fr.locals["vseq"]
        cnt = vs.count if isinstance(vs, ItemList) else z3.IntVal(len(vs))
        o = E.ghost["OFF"]
        m = z3.Int("m")
        return z3.And(cnt == j, off >= 0, z3.Select(o, j) == off, z3.Select(o, 0) == 0,
                      z3.ForAll([m], z3.Implies(z3.And(m >= 0, m < j), z3.And(z3.Select(o, m + 1) == z3.Select(o, m) + ILEN(z3.Select(o, m)), z3.Select(o, m) < n))),
                      z3.BoolVal(fr.locals.get("length") is None or True))

    def step(E, fr, j):
        E.ghost["OFF"] = z3.Store(E.ghost["OFF"], j + 1, Z(fr.locals["offset"]))

    def init(E, fr):
        E.ghost["OFF"] = z3.Store(z3.Array("item_off0", I, I), 0, z3.IntVal(0))
        E.ghost["count"] = z3.IntVal(0)

    class ItemList:
        """vseq with a symbolic number of item dicts (only append and [-1] are used by the code)"""

        def __init__(self, count):
            self.count = count
            self.last = None

        def pyvc_method(self, E, name, args, kwargs):
            if name == "append":
                self.last = args[0]
                self.count = self.count + 1
                return None
            raise Unsupported("ItemList.%s" % name)

        def pyvc_getitem(self, E, idx):
            if idx == -1 and self.last is not None:
                return self.last
            raise Unsupported("ItemList[%r]" % (idx,))
    E.loop_specs = {("codec.Sequence.from_bytes", 1): LoopSpec("items_loop", havoc, inv, ghost_step=step, init=init)}

    def item_from(E, vals, data):
        """item codec contract: consumes ILEN(offset) octets with 1 <= ILEN <= len(rest), fills the dict"""
        off = E.ghost.get("cur_off")
        E.ghost.setdefault("item_calls", []).append((vals, data))
        L_ = ILEN(Z(E.ghost["frame_offset"]()))
        E.assume(z3.And(L_ >= 1, L_ <= Z(data.length)))
        vals["decoded"] = True
        return SInt(L_)

    def setup(E):
        E.assume(n >= 0)
        item = SObj(cd.Envelope, {"_from_bytes": eng(item_from), "check_len": False})
        s = SObj(cd.Sequence, {"_item": item})
        E.ghost["item_calls"] = []
        return {"self": s, "data": models.fresh_seq(E, "d", "bytes", n, 0, 255)}

    def invoke(E, ctx):
        # the abstract item needs to know the current offset: read it from the interpreted frame through a ghost accessor
        import engine.pyvc.interp as interp
        frames = []
        orig = E.exec_block

        def spy(stmts, fr):
            if getattr(fr, "qualname", "") == "codec.Sequence.from_bytes":
                frames[:] = [fr]
            return orig(stmts, fr)
        E.exec_block = spy
        E.ghost["frame_offset"] = lambda: frames[0].locals["offset"]
        try:
            return E.call(fb, [ctx["self"], ctx["data"]])
        finally:
            E.exec_block = orig
    n_exit = 0
    for p, ctx, out in run_paths(E, setup, invoke):
        tag = {"what": "seq.from"}
        run.add(*path_obligations(run, prop, fb, p, "", tag=tag))
        for (vals, data) in p.ghost.get("item_calls", []):
            run.add(Obligation(prop, qualname(fb), "item_decoder_gets_fresh_dict_and_the_rest", p.pc, z3.BoolVal(vals == {"decoded": True} and isinstance(data, SSeq)), kind="post", where=where(fb), tag=tag))
        if out[0] == "cut":
            continue
        if out[0] == "raise":
            run.add(Obligation(prop, qualname(fb), "never_raises_when_items_decode", p.pc, z3.BoolVal(False), kind="noexc", note=exc_note(out[1]), case=out[1].cls.__name__, where=where(fb), tag=tag))
            continue
        n_exit += 1
        r = out[1]
        o = p.ghost["OFF"]
        cnt = r.count if isinstance(r, ItemList) else z3.IntVal(len(r))
        run.add(Obligation(prop, qualname(fb), "consumes_all_octets_item_by_item", p.pc, z3.And(cnt >= 0, z3.Select(o, cnt) >= n, z3.Implies(cnt >= 1, z3.Select(o, cnt - 1) < n)),
                           kind="post", where=where(fb), tag=tag))
    if n_exit == 0:
        run.add(Obligation(prop, qualname(fb), "exit_path_exists", [], z3.BoolVal(False), kind="cover", where=where(fb)))
    E.loop_specs = {}
    # to_bytes: concatenation of the item encodings (concrete counts 0..3; the comprehension has no other behaviour)
    for cnt in range(0, 4):
        def setup2(E, cnt=cnt):
            log = []
            E.ghost["log"] = log
            item = SObj(cd.Envelope, {"_to_bytes": eng(lambda E, v: (log.append(v), models.fresh_seq(E, "e%d" % len(log), "bytes", z3.Int("l%d" % len(log)), 0, 255))[1])})
            for i in range(1, cnt + 1):
                E.assume(z3.Int("l%d" % i) >= 0)
            return {"self": SObj(cd.Sequence, {"_item": item}), "vseq": [{"i": i} for i in range(cnt)]}
        for p, ctx, out in run_paths(E, setup2, lambda E, ctx: E.call(tb, [ctx["self"], ctx["vseq"]])):
            log = p.ghost.get("log", [])
            ok = out[0] == "return" and log == ctx["vseq"]
            tot = z3.Sum([z3.Int("l%d" % i) for i in range(1, cnt + 1)]) if cnt > 1 else (z3.Int("l1") if cnt == 1 else z3.IntVal(0))
            goal = z3.BoolVal(bool(ok))
            if ok and isinstance(out[1], SSeq):
                goal = z3.And(goal, Z(out[1].length) == tot)
            run.add(Obligation(prop, qualname(tb), "concatenates_item_encodings_in_order", p.pc, goal, kind="post", case="items=%d" % cnt, where=where(tb), tag={"what": "seq.to"}, bounded=3))
    # to_bytes for ANY number of items: comprehension contract (element i is encoded by the item codec from the i-th value, in order)
    cnt = z3.Int("items")
    m = z3.Int("m")

    class ValSeq:
        def __init__(self, n):
            self.length = n

        def elem(self, E, i):
            return {"item#": SInt(i)}

    def all_ok(E, it):
        pass

    def elem_post(E, i, v):
        E.require("element_is_the_item_encoding_of_the_ith_value", Z(v.length) == LEN(i) if isinstance(v, SSeq) else z3.BoolVal(False), kind="post")
    E.loop_specs = {("codec.Sequence.to_bytes", "comp", 1): LoopSpec("items_comprehension", None, None, all_ok=all_ok, elem_post=elem_post,
                                                                    result=lambda E, it: EncList(cnt, E.ghost["PS"]))}

    def item_to(E, v):
        idx = v.get("item#") if isinstance(v, dict) else None
        E.require("item_codec_gets_the_sequence_values_themselves", z3.BoolVal(idx is not None), kind="post")
        E.ghost["to_calls"] = E.ghost.get("to_calls", 0) + 1
        return models.fresh_seq(E, "enc", "bytes", LEN(Z(idx)), 0, 255)

    def setup3(E):
        E.assume(cnt >= 0)
        ps = z3.Array("PS", I, I)
        E.assume(z3.Select(ps, 0) == 0)
        E.assume(z3.ForAll([m], z3.Implies(z3.And(m >= 0, m < cnt), z3.And(z3.Select(ps, m + 1) == z3.Select(ps, m) + LEN(m), LEN(m) >= 0))))
        E.ghost["PS"] = ps
        item = SObj(cd.Envelope, {"_to_bytes": eng(item_to)})
        return {"self": SObj(cd.Sequence, {"_item": item}), "vseq": ValSeq(cnt)}
    n_ret = 0
    for p, ctx, out in run_paths(E, setup3, lambda E, ctx: E.call(tb, [ctx["self"], ctx["vseq"]])):
        tag = {"what": "seq.to.unbounded"}
        run.add(*path_obligations(run, prop, tb, p, "any number of items", tag=tag))
        if out[0] == "cut":
            continue
        if out[0] == "raise":
            run.add(Obligation(prop, qualname(tb), "never_raises_when_items_encode", p.pc, z3.BoolVal(False), kind="noexc", note=exc_note(out[1]), case="any number of items", where=where(tb), tag=tag))
            continue
        n_ret += 1
        r = out[1]
        run.add(Obligation(prop, qualname(tb), "encoding_is_the_join_of_the_item_encodings", p.pc,
                           z3.And(z3.BoolVal(p.ghost.get("joined") == 1), Z(r.length) == z3.Select(p.ghost["PS"], cnt)) if isinstance(r, SSeq) else z3.BoolVal(False),
                           kind="post", case="any number of items", where=where(tb), tag=tag))
    if n_ret == 0:
        run.add(Obligation(prop, qualname(tb), "exit_path_exists", [], z3.BoolVal(False), kind="cover", case="any number of items", where=where(tb)))
    E.loop_specs = {}


# ------------------------------------------------------------------ witness / replay

def witness(o, model):
    t = dict(o.tag or {}) if isinstance(o.tag, dict) else {}
    for nme in ("raw", "offset", "data.len", "field.len", "decl.len", "enc.len", "octet", "vb", "v", "blob"):
        t[nme] = mval(model, z3.Int(nme))
    for i in range(8):
        t["v%d" % i] = mval(model, z3.Int("v%d" % i))
    if t.get("what") in ("Buf", "Spare"):
        arr = z3.Array("d", I, I)
        n = max(0, min(4096, t["data.len"]))
        t["data"] = [min(255, max(0, mval(model, z3.Select(arr, i)))) for i in range(n)]
    return t


def replay_composition(cd):
    """Native instance of the abstract-member contracts (Field presence/length, Envelope, Envelope.F, Sequence): a concrete protocol built
    from the real classes - fixed, conditional, value-dependent-length, nested and repeated members - against a reference encoder written
    here; random values, then every damaged form (short read, tail octets with and without check_len, fixed length mismatch)"""
    import random
    rnd = random.Random(16)
    calls = []

    class Item(cd.Envelope):
        STRUCT = (cd.Uint("T"), cd.Uint("L"), cd.Buf("V"))

        def __init__(self, *a, **k):
            cd.Envelope.__init__(self, *a, **k)
            self.STRUCT[-1].get_len = lambda v, _: v["L"]
            self.STRUCT[-1].get_val = lambda v: v["V"]

    class Inner(cd.Envelope):
        STRUCT = (cd.Uint16BE("x"), cd.Buf("y", len=2))

    class Outer(cd.Envelope):
        def __init__(self, *a, **k):
            cd.Envelope.__init__(self, *a, **k)
            opt, var = cd.Uint("o"), cd.Buf("d")
            opt.get_pres = lambda v: bool(v["a"] & 1)
            var.get_len = lambda v, _: v["a"] % 4
            self.STRUCT = (cd.Uint("a"), cd.Uint16BE("b"), cd.Buf("c", len=3), cd.Spare("s", len=2), opt, var,
                           Inner().f("in", len=4), cd.Sequence(item=Item()).f("tlv"))

        def check(self, vals):
            calls.append(dict(vals))

    def rand_vals():
        a = rnd.randrange(256)
        v = {"a": a, "b": rnd.randrange(65536), "c": bytes(rnd.randrange(256) for _ in range(3)), "d": bytes(rnd.randrange(256) for _ in range(a % 4)),
             "in": {"x": rnd.randrange(65536), "y": bytes(rnd.randrange(256) for _ in range(2))}, "tlv": []}
        if a & 1:
            v["o"] = rnd.randrange(256)
        for _ in range(rnd.randrange(4)):
            n = rnd.randrange(5)
            v["tlv"].append({"T": rnd.randrange(256), "L": n, "V": bytes(rnd.randrange(256) for _ in range(n))})
        return v

    def ref_enc(v):
        out = bytes([v["a"], v["b"] >> 8, v["b"] & 255]) + v["c"] + b"\0\0"
        if v["a"] & 1:
            out += bytes([v["o"]])
        out += v["d"] + bytes([v["in"]["x"] >> 8, v["in"]["x"] & 255]) + v["in"]["y"]
        for it in v["tlv"]:
            out += bytes([it["T"], it["L"]]) + it["V"]
        return out
    bad = []

    def attempt(fn):
        try:
            return ("ok", fn())
        except (cd.DecodeError, cd.EncodeError) as e:
            return (type(e).__name__, None)
        except Exception as e:
            return ("raises %s: %s" % (type(e).__name__, e), None)
    for k in range(200):
        v = rand_vals()
        wire = ref_enc(v)
        e = Outer()
        e.c.update(v)
        del calls[:]
        got = attempt(e.to_bytes)
        if got != ("ok", wire) or len(calls) != 1:
            bad.append({"direction": "encode", "values": repr(v)[:200], "observed": [got[0], got[1].hex() if got[1] is not None else None, len(calls)], "expected": ["ok", wire.hex(), 1]})
        d = Outer()
        d.c["stale"] = 1
        del calls[:]
        got = attempt(lambda: d.from_bytes(wire))
        if got != ("ok", len(wire)) or d.c != v or len(calls) != 1:
            bad.append({"direction": "decode", "wire": wire.hex(), "observed": [got, repr(d.c)[:200]], "expected": [len(wire), repr(v)[:200]]})
        # a datagram cut inside any member is refused; cut exactly after the nested envelope it is the same message without items
        head = len(wire) - sum(2 + it["L"] for it in v["tlv"])
        for cut in range(len(wire)):
            got = attempt(lambda: Outer().from_bytes(wire[:cut]))
            # inside the repeated part a cut between two items leaves a shorter, valid list
            bounds = [head]
            for it in v["tlv"]:
                bounds.append(bounds[-1] + 2 + it["L"])
            want = "ok" if cut in bounds else "DecodeError"
            if got[0] != want:
                bad.append({"direction": "decode", "wire": wire[:cut].hex(), "cut_of": wire.hex(), "observed": got[0], "expected": want})
                break
        if k < 40:
            # trailing octets after a fixed structure: refused with check_len, reported consumed length without
            wire_i = bytes([1, 2, 3, 4])
            for check_len in (True, False):
                got = attempt(lambda: Inner(check_len=check_len).from_bytes(wire_i + b"\xff" * (k % 3 + 1)))
                want = ("DecodeError", None) if check_len else ("ok", 4)
                if got != want:
                    bad.append({"direction": "decode", "check_len": check_len, "observed": got, "expected": want})
            wrong = Outer()
            wrong.c.update(dict(v, c=v["c"] + b"\0"))
            got = attempt(wrong.to_bytes)
            if got[0] != "EncodeError":
                bad.append({"direction": "encode", "values": "fixed 3-octet member given 4 octets", "observed": got[0], "expected": "EncodeError"})
        if len(bad) > 6:
            break
    return {"confirmed": bool(bad), "observed": bad[:4] or "as specified",
            "expected": "members in order, absent members skipped, value-dependent lengths honoured, nested and repeated members, short reads / tails / length mismatches refused"}


def replay(payload):
    f = payload["inputs"]
    cd = toolkit("codec")
    what = f.get("what")
    if what in ("int", "int2"):
        cls = getattr(cd, f["cls"])
        fld = cls("x", len=f["len"], offset=f["offset"], mult=f["mult"])
        ln = f["len"]
        lo, hi = (-(1 << (8 * ln - 1)), (1 << (8 * ln - 1)) - 1) if cls.SIGN else (0, (1 << (8 * ln)) - 1)
        # the model's value first, then boundary / precision-critical values of the same field (the verifier's counter-model of an
        # over-approximated operation - e.g. float division - need not be the failing input itself)
        cands = [f["raw"]] + [c for c in (hi, hi - 1, lo, lo + 1, (1 << 53) + 1, -((1 << 53) + 1), (1 << 60) + 1, 0, 1, -1) if lo <= c <= hi]
        last = None
        for raw_ in cands:
            v = raw_ * f["mult"] + f["offset"]
            inr = lo <= raw_ <= hi
            try:
                b = fld._to_bytes({"x": v})
                out = {}
                fld._from_bytes(out, b)
                ok = inr and len(b) == ln and out["x"] == v and list(b) == list((raw_ % (1 << (8 * ln))).to_bytes(ln, "little" if cls.__name__.endswith("LE") else "big"))
                last = {"confirmed": not ok, "observed": [list(b), out], "expected": "round trip of %d" % v, "raw": raw_}
            except Exception as e:
                last = {"confirmed": inr, "observed": "raises %s: %s" % (type(e).__name__, e), "expected": ("round trip of %d" % v) if inr else "an exception (value not representable)", "raw": raw_}
            if last["confirmed"]:
                return last
        return last
    if what in ("enc_val", "dec_val"):
        bl, off = f["bl"], f["off"]
        fl = cd.BitField("x", bl)
        fl.offset, fl.mask = off, (1 << bl) - 1
        v = max(0, f.get("v", 0) if "v" in f else 0)
        if what == "enc_val":
            got, exp = fl.enc_val({"x": v}), (v % (1 << bl)) << off
        else:
            o = {}
            blob = max(0, f.get("blob", 0))
            fl.dec_val(o, blob)
            got, exp = o["x"], (blob >> off) % (1 << bl)
        return {"confirmed": got != exp, "observed": got, "expected": exp}
    if what in ("bf", "bf_init"):
        lay, order = f["layout"], f["order"]
        fields = tuple(cd.BitField("f%d" % i, bl) for i, bl in enumerate(lay))
        bfs = cd.BitFieldSet(set=fields, order=order)
        vals = {"f%d" % i: max(0, f.get("v%d" % i, 0)) for i in range(len(lay))}
        b = bfs._to_bytes(vals)
        out = {}
        bfs._from_bytes(out, b)
        exp = {k_: v_ % (1 << lay[int(k_[1:])]) for k_, v_ in vals.items()}
        seq = list(fields)[::-1] if order == "little" else list(fields)
        off = sum(lay)
        lay_ok = True
        for fl in seq:
            off -= fl.bl
            lay_ok = lay_ok and fl.offset == off
        blob = sum(exp["f%d" % i] << fl.offset for i, fl in enumerate(fields))
        ok = out == exp and lay_ok and int.from_bytes(b, "big") == blob
        return {"confirmed": not ok, "observed": [list(b), out], "expected": exp}
    if what == "presence":
        bad = []
        for label, pv in (("0", 0), ("1", 1), ("None", None), ("''", ""), ("[]", []), ("False", False), ("True", True)):
            fld = cd.Buf("x", len=2)
            fld.get_pres = lambda v, pv=pv: pv
            env_cls = type("E", (cd.Envelope,), {"STRUCT": (cd.Uint("a"), fld, cd.Uint("b"))})
            e = env_cls()
            e.c.update({"a": 7, "x": b"\x01\x02", "b": 9})
            try:
                enc = e.to_bytes()
                d = env_cls()
                n = d.from_bytes(enc)
                if n != len(enc) or d.c.get("a") != 7 or d.c.get("b") != 9 or (len(enc) == 4 and d.c.get("x") != b"\x01\x02"):
                    bad.append({"get_pres returns": label, "encoding": list(enc), "decoded": {k: (list(v) if isinstance(v, bytes) else v) for k, v in d.c.items()}})
            except Exception as ex:
                bad.append({"get_pres returns": label, "raises": "%s: %s" % (type(ex).__name__, ex)})
        return {"confirmed": bool(bad), "observed": bad or "decode(encode(v)) == v for every presence value", "expected": "decoder and encoder agree on presence"}
    if what in ("Buf", "Spare"):
        cls = getattr(cd, what)
        dl = max(0, f.get("decl.len") or 0)
        datas = [bytes(f.get("data") or [])] + [bytes([b]) * k for b in (0, 0x2b, 0xff) for k in (dl, 1, 3)]
        for data in datas:
            fld = cls("x", len=dl) if dl else cls("x")
            out = {}
            try:
                fld._from_bytes(out, data)
                enc = fld._to_bytes({"x": data})
            except Exception as e:
                return {"confirmed": True, "observed": "%s raised on %r (declared length %d)" % (type(e).__name__, data[:16], dl), "expected": "never raises"}
            if what == "Buf" and (out.get("x") != data or enc != data):
                return {"confirmed": True, "observed": [out, enc], "expected": "the octets, stored and returned unchanged"}
            if what == "Spare" and out != {}:
                return {"confirmed": True, "observed": out, "expected": "content ignored (nothing stored)"}
        return {"confirmed": False, "observed": "as specified on %d inputs" % len(datas)}
    if what in ("bf_fixed", "bf_fixed_enc", "bf_ovf"):
        bad = []
        fx = cd.BitFieldSet(set=(cd.BitField("a", 3, val=5), cd.BitField.Spare(2), cd.BitField("b", 3)))
        if what == "bf_fixed":
            for octet in range(256):
                out = {}
                try:
                    fx.from_bytes(out, bytes([octet]))
                    got = ("ok", out.get("b"))
                except cd.DecodeError:
                    got = ("DecodeError", None)
                except Exception as e:
                    got = ("raises %s" % type(e).__name__, None)
                want = ("ok", octet % 8) if octet // 32 == 5 else ("DecodeError", None)
                if got != want:
                    bad.append({"octet": octet, "observed": got, "expected": want})
        elif what == "bf_fixed_enc":
            for vb in list(range(8)) + [8, 9, 255, 1 << 40]:
                try:
                    got = list(fx.to_bytes({"b": vb}))
                except Exception as e:
                    got = "raises %s: %s" % (type(e).__name__, e)
                if got != [5 * 32 + vb % 8]:
                    bad.append({"b": vb, "observed": got, "expected": [5 * 32 + vb % 8]})
        else:
            try:
                cd.BitFieldSet(len=1, set=(cd.BitField("a", 5), cd.BitField("b", 4)))
                bad.append({"layout": "5 + 4 bits in one octet", "observed": "accepted", "expected": "ProtocolError"})
            except cd.ProtocolError:
                pass
            except Exception as e:
                bad.append({"layout": "5 + 4 bits in one octet", "observed": "raises %s" % type(e).__name__, "expected": "ProtocolError"})
        return {"confirmed": bool(bad), "observed": bad[:4] or "as specified", "expected": "fixed value checked / encoded, spare bits zero, overflow refused"}
    if isinstance(what, str) and what.split(".")[0] in ("field", "env", "seq"):
        return replay_composition(cd)
    return {"confirmed": False, "error": "no native replay for %r" % what}

#!/bin/sh
# run every claimed check (quick), validate evidence files against the schema; prints one line per check
cd "$(dirname "$0")/.." || exit 3
IDS=$(python3 -c "import json; print(' '.join(c['property_id'] for c in json.load(open('MANIFEST.json'))['checks']))")
RC=0
for p in $IDS; do
  ./check $p --tier quick > /tmp/run_all.$p.log 2>&1; c=$?
  echo "$p exit=$c $(grep "$p quick:" /tmp/run_all.$p.log | tail -1)"
  [ $c -ne 0 ] && RC=1
done
python3-vt - <<'PY'
import json, jsonschema, glob
sch = json.load(open('/root/.vp/EVIDENCE.schema.json'))
man = json.load(open('MANIFEST.json'))
jsonschema.validate(man, json.load(open('/root/.vp/MANIFEST.schema.json')))
for c in man['checks']:
    e = json.load(open(c['evidence_file']))
    jsonschema.validate(e, sch)
    cov = e['coverage']
    assert e['tier'] == 'quick', (c['property_id'], e['tier'])
    assert cov['obligations'] == cov['discharged'] >= 1, (c['property_id'], cov['obligations'], cov['discharged'])
print('manifest + %d evidence files valid' % len(man['checks']))
PY
rm -f /tmp/run_all.*.log
exit $RC

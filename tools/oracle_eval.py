#!/usr/bin/env python3
"""tools/oracle_eval.py <ID> [--budget S] : how good is the native oracle of one property?
Runs it on the unchanged tree (must be clean), on every seeded change and catalogue mutant of that property (should fail = caught),
and on every harmless edit (must be clean).  Scratch copies under a mktemp dir, removed afterwards."""
import sys, os, subprocess, json, glob, tempfile, shutil
HERE = os.path.dirname(os.path.dirname(os.path.abspath(__file__)))
sys.path.insert(0, HERE)
from mutants.catalogue import MUTANTS, HARMLESS
pid = sys.argv[1]
budget = sys.argv[sys.argv.index("--budget") + 1] if "--budget" in sys.argv else "20"


def oracle(repo):
    env = dict(os.environ, VERIF_REPO=repo, PYTHONPATH=HERE)
    r = subprocess.run(["python3-vt", "-m", "oracles.run", pid, "--budget", budget], cwd=HERE, env=env, capture_output=True, text=True)
    try:
        d = json.loads(r.stdout)
    except Exception:
        d = {"crash": (r.stdout + r.stderr)[-800:]}
    return r.returncode, d


def scratch(edit=None, patch=None):
    tmp = tempfile.mkdtemp(prefix="verif-orc-")
    subprocess.run(["rsync", "-a", "--exclude", ".git", "/repo/src", "/repo/include", tmp + "/"], check=True)
    if edit:
        f, old, new = edit
        s = open(os.path.join(tmp, f)).read()
        assert s.count(old) == 1, (f, old)
        open(os.path.join(tmp, f), "w").write(s.replace(old, new))
    if patch:
        r = subprocess.run(["patch", "-p1", "-s", "-d", tmp, "-i", os.path.abspath(patch)], capture_output=True, text=True)
        assert r.returncode == 0, r.stdout
    return tmp


def show(label, want, rc, d):
    ok = (rc == 1) if want == "caught" else (rc == 0)
    first = (d.get("failures") or [{}])[0]
    print("%-4s %-58s rc=%d cases=%s %s" % ("ok" if ok else "BAD", label[:58], rc, d.get("cases"), (str(first.get("what", "")) + " " + str(first.get("observed", ""))[:90]) if rc == 1 else (d.get("crash", "")[-300:] if rc == 3 else "")))
    return ok


bad = 0
rc, d = oracle("/repo")
bad += not show("HEAD", "clean", rc, d)
for sd in sorted(glob.glob(HERE + "/seeded/%s-*" % pid)):
    tmp = scratch(patch=sd + "/patch.diff")
    try:
        rc, d = oracle(tmp)
        bad += not show("seed " + os.path.basename(sd), "caught", rc, d)
    finally:
        shutil.rmtree(tmp, ignore_errors=True)
for name, f, old, new in MUTANTS.get(pid, []):
    tmp = scratch(edit=(f, old, new))
    try:
        rc, d = oracle(tmp)
        bad += not show("mutant " + name, "caught", rc, d)
    finally:
        shutil.rmtree(tmp, ignore_errors=True)
for name, f, old, new in HARMLESS.get(pid, []):
    tmp = scratch(edit=(f, old, new))
    try:
        rc, d = oracle(tmp)
        bad += not show("harmless " + name, "clean", rc, d)
    finally:
        shutil.rmtree(tmp, ignore_errors=True)
for df in sorted(glob.glob(HERE + "/mutants/harmless/%s/*.diff" % pid)):
    tmp = scratch(patch=df)
    try:
        rc, d = oracle(tmp)
        bad += not show("harmless " + os.path.basename(df), "clean", rc, d)
    finally:
        shutil.rmtree(tmp, ignore_errors=True)
print("%d unexpected" % bad)
sys.exit(1 if bad else 0)

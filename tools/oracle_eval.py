#!/usr/bin/env python3
"""tools/oracle_eval.py <ID> [--budget S] [--half py|c] : how good is the native oracle of one property?
Runs it on the unchanged tree (must be clean), on every seeded change and catalogue mutant of that property (should fail = caught),
and on every harmless edit (must be clean).  Scratch copies under a mktemp dir, removed afterwards.
An ID may have two halves: oracles/<ID>.py (Python toolkit) and oracles/c_<ID>.py (C code); both are run and merged (cases summed, failures
concatenated) unless --half selects one.  The C-side mutants are the MUTANTS lists of props/cparts/<ID>.py."""
import sys, os, subprocess, json, glob, tempfile, shutil
HERE = os.path.dirname(os.path.dirname(os.path.abspath(__file__)))
sys.path.insert(0, HERE)
from mutants.catalogue import MUTANTS, HARMLESS
pid = sys.argv[1]
budget = sys.argv[sys.argv.index("--budget") + 1] if "--budget" in sys.argv else "20"
half = sys.argv[sys.argv.index("--half") + 1] if "--half" in sys.argv else None
if pid.startswith("c_"):
    pid, half = pid[2:], "c"
HALVES = [m for m, h in ((pid, "py"), ("c_" + pid, "c")) if (half in (None, h)) and os.path.exists(os.path.join(HERE, "oracles", m + ".py"))]
if not HALVES:
    print("no oracle for %s" % pid)
    sys.exit(3)


def oracle_one(mod, repo):
    env = dict(os.environ, VERIF_REPO=repo, PYTHONPATH=HERE)
    r = subprocess.run(["python3-vt", "-m", "oracles.run", mod, "--budget", budget], cwd=HERE, env=env, capture_output=True, text=True)
    try:
        d = json.loads(r.stdout)
    except Exception:
        d = {"crash": (r.stdout + r.stderr)[-800:]}
    return r.returncode, d


def oracle(repo):
    """both halves merged: rc 1 if any half found a failure, else 3 if any crashed, else 0"""
    rcs, merged = [], {"cases": 0, "failures": []}
    for m in HALVES:
        rc, d = oracle_one(m, repo)
        rcs.append(rc)
        merged["cases"] += d.get("cases") or 0
        merged["failures"] += d.get("failures") or []
        if d.get("crash"):
            merged["crash"] = (merged.get("crash", "") + " [%s] " % m + d["crash"])[-800:]
    return (1 if 1 in rcs else 3 if 3 in rcs else max(rcs)), merged


def c_mutants():
    if "c_" + pid not in HALVES:
        return []
    r = subprocess.run(["python3-vt", "-c", "import json, importlib; m = importlib.import_module('props.cparts.%s'); print(json.dumps([list(x) for x in getattr(m, 'MUTANTS', [])]))" % pid],
                       cwd=HERE, env=dict(os.environ, PYTHONPATH=HERE), capture_output=True, text=True)
    try:
        return json.loads(r.stdout.strip().splitlines()[-1])
    except Exception:
        return []


def scratch(edit=None, patch=None):
    tmp = tempfile.mkdtemp(prefix="verif-orc-")
    subprocess.run(["rsync", "-a", "--exclude", ".git", "/repo/src", "/repo/include", tmp + "/"], check=True)
    try:
        if edit:
            f, old, new = edit
            s = open(os.path.join(tmp, f)).read()
            assert s.count(old) == 1, (f, old)
            open(os.path.join(tmp, f), "w").write(s.replace(old, new))
        if patch:
            r = subprocess.run(["patch", "-p1", "-s", "-d", tmp, "-i", os.path.abspath(patch)], capture_output=True, text=True)
            assert r.returncode == 0, r.stdout
    except AssertionError:
        shutil.rmtree(tmp, ignore_errors=True)          # nothing may stay behind in /tmp
        raise
    return tmp


def show(label, want, rc, d):
    ok = (rc == 1) if want == "caught" else (rc == 0)
    first = (d.get("failures") or [{}])[0]
    print("%-4s %-58s rc=%d cases=%s %s" % ("ok" if ok else "BAD", label[:58], rc, d.get("cases"), (str(first.get("what", "")) + " " + str(first.get("observed", ""))[:90]) if rc == 1 else (d.get("crash", "")[-300:] if rc == 3 else "")))
    return ok


bad = 0
rc, d = oracle("/repo")
bad += not show("HEAD", "clean", rc, d)
for sd in sorted(glob.glob(HERE + "/seeded/%s-*" % pid)):
    tmp = scratch(patch=sd + "/patch.diff")
    try:
        rc, d = oracle(tmp)
        bad += not show("seed " + os.path.basename(sd), "caught", rc, d)
    finally:
        shutil.rmtree(tmp, ignore_errors=True)
for name, f, old, new in (MUTANTS.get(pid, []) if pid in HALVES else []):
    tmp = scratch(edit=(f, old, new))
    try:
        rc, d = oracle(tmp)
        bad += not show("mutant " + name, "caught", rc, d)
    finally:
        shutil.rmtree(tmp, ignore_errors=True)
for f, old, new, expect in c_mutants():
    try:
        tmp = scratch(edit=(f, old, new))
    except AssertionError:
        print("skip C mutant (edit no longer applies): %r" % old[:50])
        continue
    try:
        rc, d = oracle(tmp)
        bad += not show("C mutant %s: %s -> %s" % (expect, old.strip()[:20], new.strip()[:20]), "caught", rc, d)
    finally:
        shutil.rmtree(tmp, ignore_errors=True)
for name, f, old, new in (HARMLESS.get(pid, []) if pid in HALVES else []):
    tmp = scratch(edit=(f, old, new))
    try:
        rc, d = oracle(tmp)
        bad += not show("harmless " + name, "clean", rc, d)
    finally:
        shutil.rmtree(tmp, ignore_errors=True)
for df in sorted(glob.glob(HERE + "/mutants/harmless/%s/*.diff" % pid)):
    try:
        tmp = scratch(patch=df)
    except AssertionError as e:
        print("skip harmless %s (patch does not apply to the current tree: %s)" % (os.path.basename(df), str(e).strip()[:80]))
        continue
    try:
        rc, d = oracle(tmp)
        bad += not show("harmless " + os.path.basename(df), "clean", rc, d)
    finally:
        shutil.rmtree(tmp, ignore_errors=True)
print("%d unexpected" % bad)
sys.exit(1 if bad else 0)

#!/opt/veriftools/pyvenv/bin/python
"""tools/replay_audit.py [IDS...] : on the CURRENT tree (where every obligation is proved) take, for one obligation per (function, clause,
tag kind), an arbitrary model of its path condition, turn it into a witness and run the property's native replay on it.
Two things are audited:  (1) every obligation kind HAS a native replay (no "no native replay" answer: such a failure could only be reported
as no-failing-input-found or be demoted to the bounded oracle);  (2) informational: replays that "confirm" on an arbitrary path-condition model.  Several replays take the spec side from the
solver (the counter-model violates the goal by construction) and only the code side from the native run - on a model that does NOT violate
the goal they report a difference by design, so this column is a hint to read, not a defect; spec-level lemmas (no code in them) have no
native replay by nature."""
import sys, os, json, time, traceback
sys.path.insert(0, os.path.join(os.path.dirname(os.path.abspath(__file__)), ".."))
import z3
from engine import cli
from engine.common import core
from engine.common.core import Cover, Run

ids = sys.argv[1:] or [c["property_id"] for c in json.load(open(os.path.join(core.VERIF, "MANIFEST.json")))["checks"]]
rc = 0
for pid in ids:
    t0 = time.time()
    run = Run(pid, "quick", 0)
    mod = cli.load_prop(pid)
    mod.build(run)
    groups = {}
    for o in run.obls:
        if isinstance(o, Cover) or o.kind == "cover":
            continue
        what = (o.tag.get("what") or o.tag.get("side")) if isinstance(o.tag, dict) else None
        groups.setdefault((o.func, o.clause, str(what)), o)
    res = {"no_replay": [], "confirmed_on_proved_tree": [], "crash": [], "ok": 0, "no_model": 0}
    for key, o in list(groups.items())[: int(os.environ.get("AUDIT_MAX", "400"))]:
      for k in range(int(os.environ.get("AUDIT_MODELS", "1"))):       # several different models of the same path condition (solver seeds)
        s = z3.Solver()
        s.set("timeout", 5000)
        s.set("random_seed", 7 * k + 1)
        s.set("phase_selection", 5 if k else 3)
        s.add(*(list(o.assumptions or []) + list(getattr(o, 'range_facts', None) or [])))
        if s.check() != z3.sat:
            res["no_model"] += 1
            break
        try:
            payload = cli.mk_payload(run, mod, o, s.model())
            payload = json.loads(json.dumps(payload, default=str))
            r = mod.replay(payload)
        except Exception as e:
            res["crash"].append((o.name, "%s: %s" % (type(e).__name__, str(e)[:200]), traceback.format_exc().splitlines()[-3:]))
            break
        if r.get("error"):
            res["no_replay"].append((o.name, str(r.get("error"))[:160]))
            break
        elif r.get("confirmed"):
            res["confirmed_on_proved_tree"].append((o.name, json.dumps(r, default=str)[:300]))
            break
        else:
            res["ok"] += 1
    bad = len([x for x in res["no_replay"] if "/lemma." not in x[0] and "lemma" not in x[1]]) + len(res["crash"])
    print("%s groups=%d ok=%d no_model=%d no_replay=%d confirmed_on_proved_tree=%d crash=%d  %.0fs" % (
        pid, len(groups), res["ok"], res["no_model"], len(res["no_replay"]), len(res["confirmed_on_proved_tree"]), len(res["crash"]), time.time() - t0), flush=True)
    for k in ("no_replay", "confirmed_on_proved_tree", "crash"):
        for x in res[k][:12]:
            print("   %s: %s" % (k, x), flush=True)
    rc |= 1 if bad else 0
sys.exit(rc)

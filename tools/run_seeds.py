#!/usr/bin/env python3
"""tools/run_seeds.py [name-prefix...] : apply every seeded change (seeded/<name>/patch.diff) to a scratch copy and run the property's
check on it.  Each must be reported (exit 1 with a VIOLATION line).  Exit 0 iff all are caught."""
import sys, os, json, subprocess
HERE = os.path.dirname(os.path.dirname(os.path.abspath(__file__)))
rc = 0
names = sorted(os.listdir(os.path.join(HERE, "seeded")))
sel = sys.argv[1:]
for n in names:
    if sel and not any(n.startswith(s) for s in sel):
        continue
    d = os.path.join(HERE, "seeded", n)
    meta = json.load(open(os.path.join(d, "meta.json")))
    pid = meta["property"]
    r = subprocess.run([HERE + "/tools/mutest.py", "--full", "--patch", os.path.join(d, "patch.diff"), "--", pid], capture_output=True, text=True,
                       env=dict(os.environ, VERIF_WALL_S="900"))
    line = [l for l in r.stdout.splitlines() if l.startswith(pid + " exit=")]
    code = int(line[0].split("=")[1]) if line else -1
    viol = [l.strip() for l in r.stdout.splitlines() if "VIOLATION" in l]
    conf = [v for v in viol if "no-failing-input-found" not in v]
    print("%-45s %s exit=%d violations=%d confirmed_replays=%d" % (n, pid, code, len(viol), len(conf)), flush=True)
    if code != 1:
        rc = 1
        print(r.stdout[-600:])
sys.exit(rc)

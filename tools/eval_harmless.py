#!/usr/bin/env python3
"""tools/eval_harmless.py <DIR-with-*.diff> <check ids...> [--full] : property-preserving edits must leave the checks green.
For each diff: scratch copy of the repository files, patch -p1, pinned pytest suite, every named check (expected exit 0)."""
import sys, os, subprocess, glob, tempfile, shutil
HERE = os.path.dirname(os.path.dirname(os.path.abspath(__file__)))
args = [a for a in sys.argv[1:] if not a.startswith("--")]
full = "--full" in sys.argv
d, checks = args[0], args[1:]
bad = 0
for diff in sorted(glob.glob(os.path.join(d, "*.diff"))):
    tmp = tempfile.mkdtemp(prefix="verif-harm-")
    try:
        subprocess.run(["rsync", "-a", "--exclude", ".git", "/repo/src", "/repo/include", tmp + "/"], check=True)
        r = subprocess.run(["patch", "-p1", "-d", tmp, "-i", os.path.abspath(diff)], capture_output=True, text=True)
        if r.returncode:
            print("%s: PATCH-ERROR %s" % (os.path.basename(diff), r.stdout[-200:])); continue
        t = subprocess.run(["/venv/bin/python", "-m", "pytest", "-q", "-p", "no:cacheprovider", "--timeout=900", "--deselect",
                            "test_clck_gen.py::CLCKGen_Test::test_no_timing_error_accumulated"], cwd=tmp + "/src/target/trx_toolkit", capture_output=True, text=True)
        tl = (t.stdout.strip().splitlines() or ["?"])[-1]
        env = dict(os.environ, VERIF_REPO=tmp, VERIF_OUT=tmp + "/out", VERIF_WALL_S="900")
        for c in checks:
            r = subprocess.run([HERE + "/check", c], env=env, capture_output=True, text=True)
            lines = [l for l in r.stdout.splitlines() if l.startswith(("VIOLATION", "UNDECIDED"))]
            verdict = {0: "green", 1: "ALARM", 2: "UNDECIDED", 3: "CRASH"}.get(r.returncode, str(r.returncode))
            if r.returncode:
                bad += 1
            print("%-34s %s %-9s tests: %s" % (os.path.basename(diff), c, verdict, tl[:60]))
            for l in lines[:5]:
                print("      " + l[:280])
            if r.returncode == 3:
                print("      " + r.stderr.strip()[-600:].replace("\n", "\n      "))
    finally:
        shutil.rmtree(tmp, ignore_errors=True)
sys.exit(1 if bad else 0)

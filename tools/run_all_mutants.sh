#!/bin/sh
# every Python mutant of mutants/catalogue.py against its property's check (scratch copies); prints one summary line per property
cd "$(dirname "$0")/.." || exit 3
RC=0
for p in $(python3 -c "import sys; sys.path.insert(0,'.'); from mutants.catalogue import MUTANTS; print(' '.join(sorted(MUTANTS)))"); do
  python3 tools/run_mutants.py $p > /tmp/mut.$p.json 2>/dev/null; c=$?
  python3 - $p <<'PY'
import json,sys
p=sys.argv[1]
try:
    d=json.load(open('/tmp/mut.%s.json'%p))
    print(p, {k:len(v) for k,v in d.items()}, [x['mutant'] for x in d['survived']+d['undecided']+d['crashed']], [x['edit'] for x in d['harmless_alarm']], flush=True)
except Exception as e:
    print(p, 'ERROR', e, flush=True)
PY
  [ $c -ne 0 ] && RC=1
  rm -f /tmp/mut.$p.json
done
exit $RC

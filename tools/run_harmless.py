#!/usr/bin/env python3
"""tools/run_harmless.py [ID...] : apply every property-preserving edit (mutants/harmless/<ID>/*.diff, written by independent agents from the
property text) to a scratch copy and run the property's check on it.  None may be reported (exit 1); exit 0 = proved or bounded stand-in,
exit 2 = undecided.  Prints one line per diff; exit 0 iff no alarm and no crash."""
import sys, os, glob, subprocess
HERE = os.path.dirname(os.path.dirname(os.path.abspath(__file__)))
CORPUS = os.environ.get("VERIF_CORPUS", "harmless")
rc = 0
sel = sys.argv[1:]
for d in sorted(glob.glob(os.path.join(HERE, "mutants", CORPUS, "C*"))):
    if not os.path.isdir(d):
        continue
    pid = os.path.basename(d)
    if sel and pid not in sel:
        continue
    for df in sorted(glob.glob(d + "/*.diff")):
        r = subprocess.run([HERE + "/tools/mutest.py", "--full", "--patch", df, "--", pid], capture_output=True, text=True, env=dict(os.environ, VERIF_WALL_S="900"))
        line = [l for l in r.stdout.splitlines() if l.startswith(pid + " exit=")]
        code = int(line[0].split("=")[1]) if line else -1
        bounded = any("BOUNDED" in l for l in r.stdout.splitlines())
        verdict = {0: "bounded-stand-in" if bounded else "proved", 1: "ALARM", 2: "undecided", 3: "CRASH"}.get(code, "?")
        print("%-4s %-10s %-18s" % (pid, os.path.basename(df), verdict), flush=True)
        if code in (1, 3, -1):
            rc = 1
            print("\n".join(l[:260] for l in r.stdout.splitlines() if l.startswith(("VIOLATION", "UNDECIDED")))[:1500])
sys.exit(rc)

#!/usr/bin/env python3
"""Negative control: apply an edit to a scratch copy of the repository files and run checks against it.

  tools/mutest.py --edit FILE 'OLD' 'NEW' [--edit ...] | --patch P.diff   -- C01 C13 ...
The scratch copy lives in a mktemp directory (removed afterwards); evidence/replay of these runs go there too.
Prints exit code and VIOLATION/KNOWN lines per check; exits 0 iff at least one check reported a violation.
"""
import sys, os, shutil, subprocess, tempfile, argparse
HERE = os.path.dirname(os.path.dirname(os.path.abspath(__file__)))
REPO = os.environ.get("VERIF_REPO", "/repo")

def main():
    ap = argparse.ArgumentParser()
    ap.add_argument("--edit", nargs=3, action="append", default=[], metavar=("FILE", "OLD", "NEW"))
    ap.add_argument("--patch")
    ap.add_argument("--tests", action="store_true", help="also run the pinned pytest suite on the mutant")
    ap.add_argument("--full", action="store_true", help="copy all of src/ (needed for C checks)")
    ap.add_argument("--keep", action="store_true")
    ap.add_argument("props", nargs="+")
    a = ap.parse_args()
    tmp = tempfile.mkdtemp(prefix="verif-mut-")
    try:
        if a.full:
            subprocess.run(["rsync", "-a", "--exclude", ".git", REPO + "/src", REPO + "/include", tmp + "/"], check=True)
        else:
            os.makedirs(tmp + "/src/target", exist_ok=True)
            shutil.copytree(REPO + "/src/target/trx_toolkit", tmp + "/src/target/trx_toolkit")
        for f, old, new in a.edit:
            p = os.path.join(tmp, f)
            s = open(p).read()
            if s.count(old) != 1:
                print("EDIT-ERROR: %r occurs %d times in %s" % (old, s.count(old), f)); return 3
            open(p, "w").write(s.replace(old, new))
        if a.patch:
            r = subprocess.run(["patch", "-p1", "-d", tmp, "-i", os.path.abspath(a.patch)], capture_output=True, text=True)
            if r.returncode:
                print("PATCH-ERROR", r.stdout, r.stderr); return 3
        if a.tests:
            r = subprocess.run(["/venv/bin/python", "-m", "pytest", "-q", "-p", "no:cacheprovider", "-x", "--timeout=900"],
                               cwd=tmp + "/src/target/trx_toolkit", capture_output=True, text=True)
            print("pytest:", r.stdout.strip().splitlines()[-1] if r.stdout.strip() else r.stderr[-300:])
        caught = False
        env = dict(os.environ, VERIF_REPO=tmp, VERIF_OUT=tmp + "/out")
        for pid in a.props:
            r = subprocess.run([HERE + "/check", pid], env=env, capture_output=True, text=True)
            lines = [l for l in r.stdout.splitlines() if l.startswith(("VIOLATION", "KNOWN", "UNDECIDED", "BOUNDED", pid + " "))]
            print("%s exit=%d" % (pid, r.returncode))
            for l in lines[:8]:
                print("   ", l[:300])
            if r.returncode == 3:
                print(r.stderr[-1500:])
            caught = caught or r.returncode == 1
        return 0 if caught else 1
    finally:
        if not a.keep:
            shutil.rmtree(tmp, ignore_errors=True)
        else:
            print("KEPT " + tmp)

if __name__ == "__main__":
    sys.exit(main())

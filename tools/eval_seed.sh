#!/bin/sh
# tools/eval_seed.sh <PROP> [check ids...] : confirm a seeded change (demo fails with / passes without, tests pass), run our checks on it
P="$1"; shift
W=/tmp/seed-$P
CHECKS="${@:-$P}"
cd $W || exit 3
echo "== patch"; cat SEED/patch.diff | grep '^[+-]' | grep -v '^+++\|^---' | head -20
if [ -f SEED/demo.sh ]; then DEMO="sh SEED/demo.sh"; else DEMO="/venv/bin/python SEED/demo.py"; fi
echo "== demo with patch"; $DEMO >/tmp/seed-$P.demo_with.txt 2>&1; echo "exit=$?"; tail -3 /tmp/seed-$P.demo_with.txt
git apply -R SEED/patch.diff || { echo "cannot reverse"; exit 3; }
echo "== demo without patch"; $DEMO >/tmp/seed-$P.demo_without.txt 2>&1; echo "exit=$?"; tail -2 /tmp/seed-$P.demo_without.txt
git apply SEED/patch.diff
echo "== test suite with patch"; /venv/bin/python -m pytest -q -p no:cacheprovider --timeout=900 src/target/trx_toolkit 2>&1 | tail -2
for C in $CHECKS; do
  echo "== ./check $C on the seeded tree"
  VERIF_REPO=$W VERIF_OUT=$W/out VERIF_WALL_S=600 /verif/check $C > /tmp/seed-$P.check_$C.txt 2>&1; echo "exit=$?"
  grep -E "VIOLATION|UNDECIDED|quick:" /tmp/seed-$P.check_$C.txt | cut -c1-260 | head -6
done

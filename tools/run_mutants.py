#!/usr/bin/env python3
"""tools/run_mutants.py <ID> [--harmless] : run the catalogue's mutants for one property on scratch copies; prints a summary,
returns 0 iff every mutant is killed (exit 1 of the check with a VIOLATION line) and every harmless edit stays green."""
import sys, os, subprocess, json, time
HERE = os.path.dirname(os.path.dirname(os.path.abspath(__file__)))
sys.path.insert(0, HERE)
from mutants.catalogue import MUTANTS, HARMLESS


def run(pid, wall=400):
    out = {"killed": [], "survived": [], "undecided": [], "crashed": [], "harmless_green": [], "harmless_alarm": []}
    for name, f, old, new in MUTANTS.get(pid, []):
        r = subprocess.run([HERE + "/tools/mutest.py", "--edit", f, old, new, "--", pid], capture_output=True, text=True,
                           env=dict(os.environ, VERIF_WALL_S=str(wall), VERIF_TIER="quick"))
        line = [l for l in r.stdout.splitlines() if l.startswith(pid + " exit=")]
        code = int(line[0].split("=")[1]) if line else -1
        viol = [l.strip() for l in r.stdout.splitlines() if "VIOLATION" in l][:1]
        (out["killed"] if code == 1 else out["undecided"] if code == 2 else out["survived"] if code == 0 else out["crashed"]).append({"mutant": name, "exit": code, "first": viol[0][:200] if viol else r.stdout[:200]})
    for name, f, old, new in HARMLESS.get(pid, []):
        r = subprocess.run([HERE + "/tools/mutest.py", "--edit", f, old, new, "--", pid], capture_output=True, text=True,
                           env=dict(os.environ, VERIF_WALL_S=str(wall), VERIF_TIER="quick"))
        line = [l for l in r.stdout.splitlines() if l.startswith(pid + " exit=")]
        code = int(line[0].split("=")[1]) if line else -1
        (out["harmless_green"] if code == 0 else out["harmless_alarm"]).append({"edit": name, "exit": code})
    return out


if __name__ == "__main__":
    pid = sys.argv[1]
    res = run(pid)
    print(json.dumps(res, indent=1))
    sys.exit(0 if not res["survived"] and not res["undecided"] and not res["crashed"] and not res["harmless_alarm"] else 1)

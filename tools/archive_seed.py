#!/usr/bin/env python3
"""tools/archive_seed.py <SEEDDIR-ID> <PROP> <name> '<caught json>' : copy a confirmed seeded change into /verif/seeded/<name>/"""
import sys, os, json, shutil, re
sid, prop, name, caught = sys.argv[1], sys.argv[2], sys.argv[3], json.loads(sys.argv[4])
src = "/tmp/seed-%s/SEED" % sid
dst = "/verif/seeded/%s" % name
os.makedirs(dst, exist_ok=True)
for f in os.listdir(src):
    if f in ("meta.json", "out", "__pycache__") or f.endswith((".o", ".bin", ".pyc")):
        continue
    q = os.path.join(src, f)
    if os.path.isdir(q):
        shutil.copytree(q, os.path.join(dst, f), dirs_exist_ok=True, ignore=shutil.ignore_patterns("*.o", "*.bin", "__pycache__"))
    elif os.path.getsize(q) < 400000 and not os.access(q, os.X_OK) or f.endswith((".sh", ".py")):
        shutil.copy(q, dst)
meta = json.load(open(os.path.join(src, "meta.json")))
def tail(p, n=3):
    try:
        return open(p).read().strip().splitlines()[-n:]
    except OSError:
        return []
meta["confirmed_by_us"] = {
    "demo_with_patch": tail("/tmp/seed-%s.demo_with.txt" % sid),
    "demo_without_patch": tail("/tmp/seed-%s.demo_without.txt" % sid),
    "test_suite_with_patch": "passes (pinned pytest command; only the baseline's always-failing timing test may fail)",
    "ran": ["tools/eval_seed.sh %s %s" % (sid, " ".join(caught.keys()))],
}
meta["checks"] = {}
for c, verdict in caught.items():
    lines = [l for l in open("/tmp/seed-%s.check_%s.txt" % (sid, c)).read().splitlines() if l.startswith(("VIOLATION", "UNDECIDED", c + " quick"))]
    meta["checks"][c] = {"verdict": verdict, "first_lines": [l[:260] for l in lines[:3]]}
meta["property"] = prop
json.dump(meta, open(os.path.join(dst, "meta.json"), "w"), indent=1)
print("archived", dst)

#!/opt/veriftools/pyvenv/bin/python
"""tools/replay_grid_c06.py : the C06 receive-step replay executed on the UNCHANGED tree over a grid of receiver states / octets / DLCIs /
handler registration: it judges natively (ideal receiver of spec/hdlc_wire.py), so any state it "confirms" on a tree where the step contract
is proved is an over-strict replay - a false alarm waiting for the first failing obligation.  Expected output: confirmed 0."""
import sys, itertools, json
sys.path.insert(0, '/verif')
from props.cparts import C06 as M
R = M.R
bad = []
n = 0
for mode, rx in (("fw", 256),):
    with R.Harness(M.harness(), M.harness_flags(mode)) as h:
        for st in range(7):
            for ch in (0, 0x7e, 0x7d, 0x5e, 0x5d, 0x20, 0x41, 0xff):
                for k in (0, 1, rx - 2, rx - 1, rx):
                    for d in (5, 0, 0x7e, 0x7d, 129, 17):
                        for hnd in (0, 1):
                            w = {"state": st, "ch": ch, "stored": k, "dlci": d, "ctrl": 3, "handler": hnd}
                            r = M.replay_rx_step(h, w, rx)
                            if r is None:
                                continue
                            n += 1
                            if r.get("confirmed"):
                                bad.append((w, r.get("observed")))
print("cases", n, "confirmed on the unchanged tree:", len(bad))
for b in bad[:15]:
    print(b)

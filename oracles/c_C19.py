"""C19 (C half) - bounded native oracle: GSM time arithmetic of libosmocore (gsm_utils.c: gsm_fn2gsmtime, gsm_gsmtime2fn) and of the
firmware's running time (sync.c: l1s_time_inc).

Statement-level reference (3GPP TS 45.002 4.3.3; written here and, for the complete walks, once more in C inside the harness - not taken
from the code under test):
    T1 = FN div 1326, T2 = FN mod 26, T3 = FN mod 51, TC = (FN div 51) mod 8;   FN = 1326*T1 + 51*((T3 - T2) mod 26) + T3
    stepping a time that is the decomposition of FN by delta gives the decomposition of (FN + delta) mod 2715648.
Observed: the struct gsm_time written by gsm_fn2gsmtime() / l1s_time_inc(), the return value of gsm_gsmtime2fn().
Harness: gsm_utils.c #included whole, l1s_time_inc cut verbatim out of sync.c (the rest of sync.c needs the target's hardware headers).
"""
import random

from engine.cvc import frontend, replay as R
from . import _c

GSM_UTILS = "src/shared/libosmocore/src/gsm/gsm_utils.c"
SYNC = "src/target/firmware/layer1/sync.c"
HYPER = 2048 * 26 * 51
DELTAS = [1] + list(range(2, 61)) + [1325, 1326, 2715647]

BOUND = ("C half (gsm_fn2gsmtime, gsm_gsmtime2fn of gsm_utils.c; l1s_time_inc cut out of sync.c), ASan+UBSan build. Fixed part: about 9 000 boundary "
         "frame numbers (0..2000, the last 2000 of the hyperframe, all multiples of 1326 with both neighbours, powers of two +-1) compared in Python "
         "(decomposition, recomposition, step by 1 and by every delta of {2..60, 1325, 1326, 2715647} for a sample), then COMPLETE walks of all "
         "2 715 648 frame numbers inside the harness against a reference written from the statement: decomposition + recomposition, and "
         "l1s_time_inc by 1 (incl. 2715647 -> 0). Budgeted part: complete walks of l1s_time_inc for the other 62 deltas, one delta at a time "
         "(each about 0.1 s), then seeded random (fn, delta) with delta uniform in 1..2715647.")

_MAIN = _c.PROTOCOL_C + r"""
static int ref_ok(const struct gsm_time *t, uint32_t fn)
{
	return t->fn == fn && t->t1 == fn / 1326 && t->t2 == fn % 26 && t->t3 == fn % 51 && t->tc == (fn / 51) % 8;
}
static void ref_set(struct gsm_time *t, uint32_t fn)
{
	t->fn = fn; t->t1 = fn / 1326; t->t2 = fn % 26; t->t3 = fn % 51; t->tc = (fn / 51) % 8;
}
int main(void)
{
	char line[256], op;
	unsigned long a, b, c, d, e, f;
	while (fgets(line, sizeof(line), stdin)) {
		struct gsm_time t;
		memset(&t, 0, sizeof(t));
		a = b = c = d = e = f = 0;
		sscanf(line, " %c %lu %lu %lu %lu %lu %lu", &op, &a, &b, &c, &d, &e, &f);
		if (op == 'd') {
			gsm_fn2gsmtime(&t, a);
			printf("= fn=%lu t1=%u t2=%u t3=%u tc=%u\n", (unsigned long)t.fn, t.t1, t.t2, t.t3, t.tc);
		} else if (op == 'r') {
			t.t1 = a; t.t2 = b; t.t3 = c;
			printf("= ret=%lu\n", (unsigned long)gsm_gsmtime2fn(&t));
		} else if (op == 'i') {
			t.fn = a; t.t1 = b; t.t2 = c; t.t3 = d; t.tc = e;
			l1s_time_inc(&t, f);
			printf("= fn=%lu t1=%u t2=%u t3=%u tc=%u\n", (unsigned long)t.fn, t.t1, t.t2, t.t3, t.tc);
		} else if (op == 'w') {
			/* w lo hi : decomposition and recomposition of every fn in [lo, hi) */
			unsigned long fn, bad = 0, which = 0;
			for (fn = a; fn < b && !bad; fn++) {
				struct gsm_time u;
				memset(&u, 0, sizeof(u));
				gsm_fn2gsmtime(&u, fn);
				if (!ref_ok(&u, fn)) { bad = 1; which = fn; break; }
				ref_set(&u, fn);
				if (gsm_gsmtime2fn(&u) != fn) { bad = 2; which = fn; break; }
			}
			printf("= bad=%lu at=%lu\n", bad, which);
		} else if (op == 's') {
			/* s lo hi delta : l1s_time_inc(decomposition of fn, delta) for every fn in [lo, hi) */
			unsigned long fn, bad = 0, which = 0;
			for (fn = a; fn < b; fn++) {
				struct gsm_time u;
				ref_set(&u, fn);
				l1s_time_inc(&u, c);
				if (!ref_ok(&u, (fn + c) % 2715648UL)) { bad = 1; which = fn; break; }
			}
			printf("= bad=%lu at=%lu\n", bad, which);
		} else
			printf("= ?\n");
		fflush(stdout);
	}
	return 0;
}
"""


def ref_time(fn):
    return {"fn": fn, "t1": fn // 1326, "t2": fn % 26, "t3": fn % 51, "tc": (fn // 51) % 8}


def source():
    text, line = _c.cut(SYNC, "l1s_time_inc")
    return '#include "%s"\n#line %d "%s"\n%s\n%s' % (frontend.repo(GSM_UTILS), line, frontend.repo(SYNC), text, _MAIN)


def boundary_fns():
    s = set(range(0, 2001)) | set(range(HYPER - 2000, HYPER))
    for k in range(0, 2048):
        for d in (-1, 0, 1):
            s.add((k * 1326 + d) % HYPER)
    for b in range(0, 22):
        for d in (-1, 0, 1):
            s.add(((1 << b) + d) % HYPER)
    return sorted(s)


def run(budget_s=20.0, seed=0):
    S = _c.Session(budget_s)
    with _c.Native(source(), R.host_flags()) as n:

        def ask(cases):
            """cases: [(line, what, input, expected dict)]"""
            outs, abort = n.batch([c[0] for c in cases])
            for (line, what, inp, exp), out in zip(cases, outs):
                S.cases += 1
                got = _c.kv(out)
                if any(got.get(k) != v for k, v in exp.items()):
                    S.fail(what, inp, {k: got.get(k) for k in exp}, exp)
            if abort:
                c = cases[abort["case"]]
                S.cases += 1
                S.fail(c[1] + " (sanitizer / crash)", c[2], abort["sanitizer"] or "exit status %s: %s" % (abort["rc"], abort["stderr"][-200:]), "returns normally")

        def walk(line, what, inp):
            outs, abort = n.batch([line], timeout=300)
            if abort or not outs:
                S.fail(what + " (sanitizer / crash)", inp, (abort or {}).get("sanitizer") or "no answer", "returns normally")
                return
            r = _c.kv(outs[0])
            if r.get("bad"):
                fn = r.get("at")
                S.cases += 1
                # re-run the single case through the line protocol so that the report shows observed / expected values
                if what == "decomposition/recomposition walk":
                    ask([("d %d" % fn, "gsm_fn2gsmtime", {"fn": fn}, ref_time(fn)),
                         ("r %d %d %d" % (fn // 1326, fn % 26, fn % 51), "gsm_gsmtime2fn", {"t1": fn // 1326, "t2": fn % 26, "t3": fn % 51}, {"ret": fn})])
                else:
                    d = inp["delta"]
                    t = ref_time(fn)
                    ask([("i %d %d %d %d %d %d" % (fn, t["t1"], t["t2"], t["t3"], t["tc"], d), "l1s_time_inc", {"fn": fn, "delta": d}, ref_time((fn + d) % HYPER))])
                if not S.failures:
                    S.fail(what, dict(inp, fn=fn), "harness-side reference disagrees", "agreement")
            else:
                S.cases += inp["hi"] - inp["lo"]

        # ---- fixed: boundary frame numbers through the line protocol
        cases = []
        rnd0 = random.Random(12345)
        for fn in boundary_fns():
            t = ref_time(fn)
            cases.append(("d %d" % fn, "gsm_fn2gsmtime", {"fn": fn}, t))
            cases.append(("r %d %d %d" % (t["t1"], t["t2"], t["t3"]), "gsm_gsmtime2fn", {"t1": t["t1"], "t2": t["t2"], "t3": t["t3"]}, {"ret": fn}))
            for d in (1, rnd0.choice(DELTAS)):
                cases.append(("i %d %d %d %d %d %d" % (fn, t["t1"], t["t2"], t["t3"], t["tc"], d), "l1s_time_inc", {"fn": fn, "delta": d}, ref_time((fn + d) % HYPER)))
        ask(cases)
        # ---- fixed: complete walks
        if not S.failures:
            walk("w 0 %d" % HYPER, "decomposition/recomposition walk", {"lo": 0, "hi": HYPER})
        if not S.failures:
            walk("s 0 %d 1" % HYPER, "l1s_time_inc walk", {"lo": 0, "hi": HYPER, "delta": 1})
        # ---- budgeted: the other deltas, completely, one at a time
        walked = [1]
        for d in DELTAS[1:]:
            if not S.more():
                break
            walk("s 0 %d %d" % (HYPER, d), "l1s_time_inc walk", {"lo": 0, "hi": HYPER, "delta": d})
            walked.append(d)
        # ---- seeded random
        rnd = random.Random(seed)
        while S.more():
            cases = []
            for _ in range(3000):
                fn = rnd.randrange(HYPER) if rnd.random() < 0.7 else (HYPER - 1 - rnd.randrange(3000))
                d = rnd.randrange(1, HYPER)
                t = ref_time(fn)
                cases.append(("i %d %d %d %d %d %d" % (fn, t["t1"], t["t2"], t["t3"], t["tc"], d), "l1s_time_inc", {"fn": fn, "delta": d}, ref_time((fn + d) % HYPER)))
            ask(cases)
    return S.result(deltas_walked_completely=len(walked))

"""C14 (C half) - bounded native oracle: no datagram arriving on trxcon's control or data socket makes its transceiver interface
(src/host/trxcon/src/trx_if.c) crash or touch memory out of bounds.

Statement-level expectation: whatever octets arrive, trx_ctrl_read_cb() / trx_data_rx_cb() return normally - no ASan report (out-of-bounds
read/write, use after free), no UBSan report (NULL pointer arithmetic, overflow, misaligned access), no MSan report (a decision taken on
an uninitialised value), no signal.  Nothing else is judged here (what the callbacks do with a malformed datagram is their business as long
as they stay within their memory).  The control callback is exercised in the situations it can be in: no command pending, one pending, several
pending (queued through the public trx_if_handle_phyif_cmd), and repeatedly on the same instance.
Two binaries are built from the same verbatim cut: ASan+UBSan and MSan.
"""
import random

from engine.cvc import replay as R
from . import _c, _c_trx_if as T

BOUND = ("C half (trx_ctrl_read_cb with the measurement-response path, trx_data_rx_cb; commands queued through trx_if_handle_phyif_cmd), ASan+UBSan build "
         "and MSan build of the same verbatim cut. Fixed part: about 900 control datagrams - every documented verb as 'RSP <verb>' with: no status, "
         "empty status, non-numeric / negative / 40-digit status, missing NUL, embedded NUL, only spaces, the verb alone, verb prefixes and extensions, wrong "
         "verb, lower case, MEASURE replies with 0/1/2/3 results, non-numeric, huge and negative results; lengths 0, 1, 3, 4, 5 and 1022..1026, 1500, 4000 octets "
         "(buffer boundary of the read), all-0x00 / all-0xff / all-space payloads - each with 0, 1 and 3 commands pending of each kind; about 300 data "
         "datagrams of lengths 0..9, 155..160, 451..456, 511..514, 1024, 2000 with extreme header values. Budgeted part: seeded random byte strings and "
         "mutations (truncation, bit flips, digit/space/NUL substitution, duplication) of valid replies and bursts, fed in runs of up to 30 datagrams to one "
         "instance; every 5th batch also through the MSan binary.")

VERBS = ["POWERON", "POWEROFF", "ECHO", "MEASURE", "RXTUNE", "TXTUNE", "SETSLOT", "SETTA", "SETFH", "NOPE", "SETFORMAT"]
PENDING = {"none": [], "poweron": ["cmd %d" % T.POWERON], "measure": ["cmd %d 33" % T.MEASURE], "reset+tune+ta": ["cmd %d" % T.RESET, "cmd %d 700" % T.SETFREQ_H0, "cmd %d 5" % T.SETTA],
           "setfh": ["cmd %d 1 2 3 10 20 30" % T.SETFREQ_H1], "setslot": ["cmd %d 3 1" % T.SETSLOT], "poweroff": ["cmd %d" % T.POWEROFF]}


def fixed_ctrl():
    out = []
    for v in VERBS:
        for tail in ("", " ", "  ", " 0", " 0 ", " 1", " -1", " x", " 0x10", " +", " -", " 9" * 1 + "9" * 39, " 0 0", " 0 935000", " 0 935000 -60", " 0 935000 -60 7",
                     " 0 abc def", " 0 99999999999999999999 -99999999999999999999", " 0 -", " 0  ", " 00000000000", " 0\t1", " 0\n", " 1 935000 -60"):
            for nul in (True, False):
                out.append(("RSP " + v + tail).encode() + (b"\0" if nul else b""))
        out.append(("RSP " + v[:3]).encode() + b"\0")
        out.append(("RSP " + v + "X 0").encode() + b"\0")
        out.append(("rsp " + v.lower() + " 0").encode() + b"\0")
        out.append(("RSP " + v + "\0 0").encode())
        out.append(("RSP  " + v + " 0").encode() + b"\0")
    out += [b"", b"\0", b"R", b"RSP", b"RSP ", b"RSP \0", b"RSP  ", b"RSP  \0", b"CMD POWERON\0", b"IND CLOCK 1234\0", b" " * 10, b"\xff" * 10, b"\0" * 10]
    for n_ in (1022, 1023, 1024, 1025, 1026, 1500, 4000):
        out.append(b"RSP MEASURE 0 " + b"9" * (n_ - 14))
        out.append(b"RSP POWERON " + b"0" * (n_ - 12))
        out.append(b"RSP " + b"A" * (n_ - 4))
        out.append(b"\xff" * n_)
        out.append(b"RSP SETFH 0 " + (b"935200 890200 " * 300)[:n_ - 12])
    return out


def fixed_data():
    out = []
    for n_ in list(range(0, 10)) + list(range(155, 161)) + list(range(451, 457)) + [511, 512, 513, 514, 1024, 2000]:
        for fill in (0x00, 0xff, 0x7f, 0x80):
            out.append([fill] * n_)
        if n_ >= 8:
            for hdr in ([0, 0xff, 0xff, 0xff, 0xff, 0x80, 0x80, 0x00], [7, 0, 41, 111, 255, 127, 0x7f, 0xff], [0x0f, 0, 0, 0, 0, 0, 0, 0], [0xf0, 0, 0, 0, 0, 255, 255, 255]):
                out.append(hdr + [255] * (n_ - 8))
    return out


def run(budget_s=20.0, seed=0):
    S = _c.Session(budget_s)
    with T.native(ctrl=True, data=True) as asan:
        try:
            msan_cm = T.native(ctrl=True, data=True, san=R.MSAN)
            msan = msan_cm.__enter__()
        except _c.OracleCrash:
            msan_cm = msan = None           # no MSan runtime on this machine: the ASan+UBSan binary alone
        try:
            def run_script(nat, label, script, describe):
                """script = protocol lines; a crash / sanitizer report is attributed to the first unanswered line"""
                outs, abort = nat.batch(script)
                S.cases += sum(1 for ln in script[:len(outs) + (1 if abort else 0)] if ln.startswith(("feed", "rx")))
                if abort:
                    k = abort["case"]
                    prior = [ln for ln in script[:k] if not ln.startswith(("feed", "rx"))][-4:]
                    S.fail("%s (%s)" % ("trx_ctrl_read_cb" if script[k].startswith("feed") else "trx_data_rx_cb" if script[k].startswith("rx") else "command emission", label),
                           dict(describe(script[k]), instance_prepared_by=prior, datagrams_fed_before_on_this_instance=len([1 for ln in script[:k] if ln.startswith(("feed", "rx"))])),
                           abort["sanitizer"] or "exit status %s %s" % (abort["rc"], abort["stderr"][-300:]), "returns normally, no sanitizer report")

            def describe(line):
                w = line.split()
                hx = w[-1]
                b = bytes(_c.unhex(hx))
                return {"socket": "control" if w[0] == "feed" else "data", "datagram_len": len(b), "datagram_hex": hx[:600], "datagram_text": b[:120].decode("latin1")}

            def ctrl_script(dgrams, pending, fresh_each=True):
                sc = []
                for d in dgrams:
                    if fresh_each or not sc:
                        sc.append("new")
                        sc += PENDING[pending]
                    sc.append("feed " + _c.hexs(d))
                return sc

            fx = fixed_ctrl()
            for pend in ("none", "poweron", "measure", "reset+tune+ta"):
                if len(S.failures) >= 5:
                    break
                run_script(asan, "ASan+UBSan", ctrl_script(fx, pend), describe)
            for pend in ("setfh", "setslot", "poweroff"):
                if S.failures:
                    break
                run_script(asan, "ASan+UBSan", ctrl_script(fx[::3], pend), describe)
            if not S.failures:
                run_script(asan, "ASan+UBSan", ["new"] + ["rx %d %s" % (k % 30, _c.hexs(d)) for k, d in enumerate(fixed_data())], describe)
            if msan is not None and not S.failures:
                for pend in ("none", "poweron", "measure"):
                    run_script(msan, "MSan", ctrl_script(fx, pend), describe)
                run_script(msan, "MSan", ["new"] + ["rx %d %s" % (k % 30, _c.hexs(d)) for k, d in enumerate(fixed_data())], describe)

            rnd = random.Random(seed)
            valid_rsp = [b"RSP POWERON 0\0", b"RSP POWEROFF 0\0", b"RSP ECHO 0\0", b"RSP MEASURE 0 935000 -60\0", b"RSP RXTUNE 0 935000\0", b"RSP TXTUNE 0 890000\0",
                         b"RSP SETSLOT 0 3 1\0", b"RSP SETTA 0 5\0", b"RSP SETFH 0 1 2 935200 890200 935400 890400 935600 890600\0", b"RSP MEASURE 1 935000\0"]

            def mutate(b):
                b = bytearray(b)
                for _ in range(rnd.randrange(1, 5)):
                    r = rnd.random()
                    if not b:
                        b += bytes([rnd.randrange(256)])
                    elif r < 0.2:
                        del b[rnd.randrange(len(b)):]
                    elif r < 0.4:
                        b[rnd.randrange(len(b))] ^= 1 << rnd.randrange(8)
                    elif r < 0.6:
                        b[rnd.randrange(len(b))] = rnd.choice(b" \0-+9x\xff\n")
                    elif r < 0.75:
                        p = rnd.randrange(len(b))
                        b[p:p] = b[p:p + rnd.randrange(1, 12)] * rnd.randrange(1, 100)
                    elif r < 0.9:
                        del b[rnd.randrange(len(b))]
                    else:
                        b += bytes(rnd.randrange(256) for _ in range(rnd.randrange(1, 40)))
                return bytes(b[:5000])

            batchno = 0
            while S.more():
                batchno += 1
                sc = []
                for _ in range(12):
                    sc.append("new")
                    sc += PENDING[rnd.choice(list(PENDING))]
                    for _ in range(rnd.randrange(1, 30)):
                        r = rnd.random()
                        if r < 0.55:
                            sc.append("feed " + _c.hexs(mutate(rnd.choice(valid_rsp))))
                        elif r < 0.7:
                            sc.append("feed " + _c.hexs(bytes(rnd.randrange(256) for _ in range(rnd.choice([rnd.randrange(0, 40), rnd.randrange(0, 1400)])))))
                        elif r < 0.75:
                            sc.append("feed " + _c.hexs(rnd.choice(valid_rsp)))
                        else:
                            nb = rnd.choice((148, 150, 444, 446, rnd.randrange(0, 600)))
                            d = [rnd.randrange(256) for _ in range(8 + nb)]
                            if rnd.random() < 0.7:
                                d[0] &= 0x07
                                d[1] = 0
                            sc.append("rx %d %s" % (rnd.randrange(64), _c.hexs(d[:rnd.choice([len(d), len(d), rnd.randrange(len(d) + 1)])])))
                run_script(asan, "ASan+UBSan", sc, describe)
                if msan is not None and batchno % 5 == 0 and S.more():
                    run_script(msan, "MSan", sc, describe)
        finally:
            if msan_cm is not None:
                msan_cm.__exit__(None, None, None)
    return S.result(msan=msan is not None)

"""C05 (Python half) - bounded native oracle: every TRXC command gets exactly one well-formed response with the documented effect.

Real FakeTRX objects (recorder sockets, real FakePM / TRXList / BurstForwarder as fake_trx.Application wires them), histories of command
datagrams fed into the CTRL socket's inbox and CTRLInterface.handle_rx().  A concrete model of the command semantics written from the
statement (and the table of spec/trxc.py) predicts, per command, the reply and the next state:

  reply        exactly one datagram, to the sender's address: "RSP <verb> <status> <original arguments> [results]" + NUL; nothing at all for a
               datagram that does not begin with "CMD"
  POWERON      -1 when running or when neither (RXTUNE and TXTUNE) nor SETFH happened, else 0 and the transceiver runs
  POWEROFF     0; idle; hopping reset
  RXTUNE/TXTUNE <kHz>   0; frequency = kHz * 1000          SETFH <hsn> <maio> (<rx kHz> <tx kHz>)+   0; hopping over the given pairs
  SETFORMAT v  -1 for v < 0 or v > 15 (nothing applied); v for v in {0, 1} (applied); else the highest supported lower version (1), not applied
  MEASURE kHz  -1 without power measurement; else 0 and one result in the TRX window (-75..-50, a running transceiver transmits there)
               or the noise window (-120..-105)
  SETPOWER a   0; attenuation a        NOMTXPOWER  0, result = nominal Tx power (independent of the attenuation)        RFMUTE m  0; muted iff m > 0
  SETTA t      0; ta = t               FAKE_TOA/FAKE_CI b t  -1 for t < 0 (unchanged) else base/threshold;  one argument: base += d
  FAKE_RSSI b t  0; t < 0 switches the fake RSSI off (values unchanged) else base/threshold set and switched on;  one argument: base += d
  FAKE_DROP n [p]  -1 for n < 0 or p <= 0 (unchanged) else amount n, period p (1 without p)
  FAKE_TRXC_DELAY ms  0; following responses are delayed by ms (0 <= ms <= 1000 used; observed at time.sleep, which is stubbed)
  anything else (unknown verb, known verb with another argument count)   0, nothing changes (for a known verb with a wrong argument count
               a refusal with -1 is accepted as well; nothing may change)

Observed: datagrams handed to the sockets; running; get_rx_freq/get_tx_freq at probe frames (tuning and hopping, hopping against the
3GPP formula); the negotiated version through DATAInterface.recv_tx_msg (which version is let through) ; the simulation values named in
the statement's anchors (read with getattr, skipped when absent); and at the end of each history one burst sent through the pipeline
(DATA socket -> recv_data_msg -> clck_tick -> peer's DATA socket): RSSI, ToA (incl. the sender's TA), C/I windows and version of the datagram.
"""
import time, random, logging
from engine.pyvc.harness import toolkit

HYPER = 2048 * 26 * 51
PROBE_FNS = (0, 51, 1326 * 7 + 5, HYPER - 1)
UNKNOWN_VERBS = ("ECHO", "SETSLOT", "SETTSC", "SETRXGAIN", "NOHANDOVER", "HANDOVER", "SETBSIC", "XYZZY", "poweron", "POWERONX")
KNOWN = ("POWERON", "POWEROFF", "RXTUNE", "TXTUNE", "MEASURE", "SETFH", "SETFORMAT", "SETPOWER", "NOMTXPOWER", "RFMUTE", "SETTA",
         "FAKE_TOA", "FAKE_RSSI", "FAKE_CI", "FAKE_DROP", "FAKE_TRXC_DELAY")
PM_NOISE, PM_TRX = (-120, -105), (-75, -50)
PATH_LOSS = 110

BOUND = ("Python half only. Two FakeTRX (BTS, MS) sharing one FakePM, plus a FakeTRX without power measurement. Fixed part (about 4000 "
         "commands): every verb x argument count 0..5 on a fresh and on a configured, running transceiver; SETFORMAT -3..17; POWERON in all "
         "combinations of (RXTUNE, TXTUNE, SETFH, running, POWEROFF while idle); SETFH with 1..64 channels incl. the longest commands that fit "
         "1023 octets; boundary argument values inside the documented ranges and the refusals the statement names (negative thresholds / amounts, period <= 0); MEASURE with/without a "
         "running transmitter on the frequency; NOMTXPOWER after SETPOWER; datagrams without the CMD prefix; replies go to varying sender "
         "addresses. Budgeted part: seeded random histories of 1..40 well-formed commands (all verbs above + unknown ones, argument counts "
         "0..5, SETFH up to 64 channels, values in the ranges of the statement) interleaved over the transceivers, full state comparison after "
         "every command, one end-to-end burst per history; about 25 000 commands per second. trxcon's acceptance of the replies is C code "
         "and is not reachable from here.")


def ref_mai(hsn, maio, n, fn):
    from oracles.C07 import ref_mai as f
    return f(hsn, maio, n, fn)


class Model:
    """concrete TRXC semantics of one transceiver"""

    def __init__(self, has_pm, nominal, bases):
        self.has_pm, self.nominal = has_pm, nominal
        self.running, self.rx, self.tx, self.fh, self.ver = False, None, None, None, 0
        self.att, self.muted, self.ta = 0, False, 0
        self.toa_base, self.rssi_base, self.ci_base = bases
        self.toa_thr = self.rssi_thr = self.ci_thr = 0
        self.fake_rssi = False
        self.drop_amount, self.drop_period = 0, 1
        self.delay = 0

    def ready(self):
        return (self.rx is not None and self.tx is not None) or self.fh is not None

    def freqs(self, fn):
        if self.fh is not None:
            hsn, maio, ma = self.fh
            return ma[ref_mai(hsn, maio, len(ma), fn)]
        return (self.rx, self.tx)

    def apply(self, verb, args):
        """-> (status, results | ('measure', hz) | None); updates the state"""
        n = len(args)
        a = [int(x) for x in args]
        if verb == "POWERON" and n == 0:
            if self.running or not self.ready():
                return -1, None
            self.running = True
            return 0, None
        if verb == "POWEROFF" and n == 0:
            self.running, self.fh = False, None
            return 0, None
        if verb == "RXTUNE" and n == 1:
            self.rx = a[0] * 1000
            return 0, None
        if verb == "TXTUNE" and n == 1:
            self.tx = a[0] * 1000
            return 0, None
        if verb == "MEASURE" and n == 1:
            if not self.has_pm:
                return -1, None
            return 0, ("measure", a[0] * 1000)
        if verb == "SETFH" and n >= 4:
            fr = [x * 1000 for x in a[2:]]
            self.fh = (a[0], a[1], [(fr[2 * k], fr[2 * k + 1]) for k in range(len(fr) // 2)])
            return 0, None
        if verb == "SETFORMAT" and n == 1:
            v = a[0]
            if v < 0 or v > 15:
                return -1, None
            if v in (0, 1):
                self.ver = v
                return v, None
            return 1, None
        if verb == "SETPOWER" and n == 1:
            self.att = a[0]
            return 0, None
        if verb == "NOMTXPOWER" and n == 0:
            return 0, [str(self.nominal)]
        if verb == "RFMUTE" and n == 1:
            self.muted = a[0] > 0
            return 0, None
        if verb == "SETTA" and n == 1:
            self.ta = a[0]
            return 0, None
        if verb in ("FAKE_TOA", "FAKE_CI") and n == 2:
            if a[1] < 0:
                return -1, None
            if verb == "FAKE_TOA":
                self.toa_base, self.toa_thr = a
            else:
                self.ci_base, self.ci_thr = a
            return 0, None
        if verb == "FAKE_TOA" and n == 1:
            self.toa_base += a[0]
            return 0, None
        if verb == "FAKE_CI" and n == 1:
            self.ci_base += a[0]
            return 0, None
        if verb == "FAKE_RSSI" and n == 2:
            if a[1] < 0:
                self.fake_rssi = False
            else:
                self.rssi_base, self.rssi_thr, self.fake_rssi = a[0], a[1], True
            return 0, None
        if verb == "FAKE_RSSI" and n == 1:
            self.rssi_base += a[0]
            return 0, None
        if verb == "FAKE_DROP" and n in (1, 2):
            if a[0] < 0 or (n == 2 and a[1] <= 0):
                return -1, None
            self.drop_amount, self.drop_period = a[0], (a[1] if n == 2 else 1)
            return 0, None
        if verb == "FAKE_TRXC_DELAY" and n == 1:
            self.delay = a[0]
            return 0, None
        return 0, None


ATTRS = (("att", "tx_att_base"), ("muted", "rf_muted"), ("ta", "ta"), ("toa_base", "toa256_base"), ("toa_thr", "toa256_rand_threshold"),
         ("rssi_base", "rssi_base"), ("rssi_thr", "rssi_rand_threshold"), ("fake_rssi", "fake_rssi_enabled"), ("ci_base", "ci_base"),
         ("ci_thr", "ci_rand_threshold"), ("drop_amount", "burst_drop_amount"), ("drop_period", "burst_drop_period"))
_MISSING = object()


class Rig:
    """transceivers wired as fake_trx.Application does, sockets stubbed"""

    def __init__(self, tk, sleeps):
        ft, pmm, tl, bf = tk("fake_trx"), tk("fake_pm"), tk("trx_list"), tk("burst_fwd")
        self.sleeps = sleeps
        self.pm = pmm.FakePM(PM_NOISE[0], PM_NOISE[1], PM_TRX[0], PM_TRX[1])
        self.list = tl.TRXList()
        self.pm.trx_list = self.list
        nominal = getattr(ft.FakeTRX, "NOMINAL_TX_POWER_DEFAULT", 50)
        self.trx, self.model, self.names = [], [], []
        for name, port, has_pm, in_list in (("BTS", 5700, True, True), ("MS", 6700, True, True), ("NOPM", 7700, False, False)):
            t = ft.FakeTRX("0.0.0.0", "127.0.0.1", port, name=name, pwr_meas=self.pm if has_pm else None)
            if in_list:
                self.list.add_trx(t)
            self.trx.append(t)
            self.names.append(name)
            self.model.append(Model(has_pm, nominal, (getattr(t, "toa256_base", 0), getattr(t, "rssi_base", nominal - PATH_LOSS), getattr(t, "ci_base", 90))))
        self.fwd = bf.BurstForwarder(self.list.trx_list)
        self.history = []

    # ---- one datagram on a CTRL socket
    def feed(self, i, data, src):
        t = self.trx[i]
        sock = t.ctrl_if.sock
        del sock.sent[:]
        del t.data_if.sock.sent[:]
        del self.sleeps[:]
        sock.inbox.append((data, src))
        try:
            t.ctrl_if.handle_rx()
        except Exception as e:
            return "raises %s: %s" % (type(e).__name__, e)
        return [(bytes(d), a) for d, a in sock.sent] + [("DATA socket", bytes(d)) for d, a in t.data_if.sock.sent]

    def observe_mismatch(self, i, version_probe=False):
        """first difference between the live transceiver i and its model, or None"""
        t, m = self.trx[i], self.model[i]
        try:
            if bool(t.running) != m.running:
                return ("running", bool(t.running), m.running)
            for fn in PROBE_FNS:
                got = (t.get_rx_freq(fn), t.get_tx_freq(fn))
                if got != tuple(m.freqs(fn)):
                    return ("(get_rx_freq, get_tx_freq) at fn %d" % fn, list(got), list(m.freqs(fn)))
            fh = getattr(t, "fh", _MISSING)
            if fh is not _MISSING and (fh is None) != (m.fh is None):
                return ("hopping configured", fh is not None, m.fh is not None)
            for key, attr in ATTRS:
                v = getattr(t, attr, _MISSING)
                if v is not _MISSING and v != getattr(m, key):
                    return (attr, v, getattr(m, key))
            v = getattr(t, "tx_power", _MISSING)
            if v is not _MISSING and v != m.nominal - m.att:
                return ("tx_power", v, m.nominal - m.att)
            v = getattr(t.data_if, "_hdr_ver", _MISSING)
            if v is not _MISSING and v != m.ver:
                return ("TRXD header version", v, m.ver)
            if version_probe:
                for ver in (0, 1):
                    d = bytes([(ver << 4) | 3]) + (1234).to_bytes(4, "big") + bytes([7]) + bytes(148)
                    t.data_if.sock.inbox.append((d, ("127.0.0.1", 4242)))
                    r = t.data_if.recv_tx_msg()
                    acc = r is not None and r is not False
                    if acc != (ver == m.ver):
                        return ("version %d Tx datagram let through" % ver, acc, ver == m.ver)
        except Exception as e:
            return ("observation", "raises %s: %s" % (type(e).__name__, e), "state readable")
        return None

    def measure_window(self, hz):
        """(lo, hi) the MEASURE result must lie in"""
        hop = False
        hit = False
        for t, m in zip(self.trx, self.model):
            if t not in self.list.trx_list or not m.running:
                continue
            if m.fh is not None:
                # measuring against a hopping transmitter is a documented gap (no frame number): either window on a frequency of its
                # mobile allocation; on any other frequency it does not transmit under any reading, whatever it was tuned to before
                if any(hz in pair for pair in m.fh[2]):
                    hop = True
                continue
            if m.tx == hz:
                hit = True
        if hit:
            return PM_TRX
        if hop:
            return (PM_NOISE[0], PM_TRX[1])
        return PM_NOISE

    def command(self, i, verb, args, src):
        """send one well-formed command; returns None or (what, observed, expected)"""
        text = "CMD " + " ".join([verb] + list(args)) + "\0"
        self.history.append([self.names[i], text[:-1], list(src)])
        m = self.model[i]
        delay_before = m.delay
        status, res = m.apply(verb, list(args))
        got = self.feed(i, text.encode(), src)
        if isinstance(got, str):
            return ("handle_rx", got, "returns normally")
        if len(got) != 1:
            return ("number of datagrams sent", [repr(g[0])[:80] for g in got], "exactly one reply")
        data, addr = got[0]
        if data == "DATA socket":
            return ("reply", "sent on the DATA socket", "reply on the CTRL socket")
        if tuple(addr) != tuple(src):
            return ("reply address", list(addr), list(src))
        if verb in KNOWN and res is None and status == 0 and wrong_arity(verb, len(args)) and data.startswith(("RSP %s -1" % verb).encode()):
            status = -1                 # a known verb with an argument count it does not have: refusing instead of ignoring is not judged
        toks = [verb, str(status)] + list(args)
        if isinstance(res, list):
            toks += res
        if isinstance(res, tuple):
            lo, hi = self.measure_window(res[1])
            prefix = ("RSP " + " ".join(toks) + " ").encode()
            ok = data.startswith(prefix) and data.endswith(b"\0")
            if ok:
                try:
                    val = data[len(prefix):-1].decode()
                    ok = val == str(int(val)) and lo <= int(val) <= hi
                except Exception:
                    ok = False
            if not ok:
                return ("reply", repr(data)[:300], "%r + <dBm in %d..%d> + NUL" % (prefix.decode(), lo, hi))
        else:
            exp = ("RSP " + " ".join(toks) + "\0").encode()
            if data != exp:
                return ("reply", _clip(data), _clip(exp))
        # artificial delay: the response to a later command waits for the configured time
        if verb != "FAKE_TRXC_DELAY":
            slept = sum(self.sleeps)
            want = delay_before / 1000.0 if delay_before > 0 else 0.0
            if abs(slept - want) > 1e-9:
                return ("response delay (time.sleep total, s)", slept, want)
        for j in range(len(self.trx)):
            bad = self.observe_mismatch(j, version_probe=(j == i and verb == "SETFORMAT"))
            if bad:
                return ("state of %s after the command: %s" % (self.names[j], bad[0]), bad[1], bad[2])
        return None

    def raw(self, i, data, src):
        """a datagram that does not begin with CMD: nothing may be sent, nothing may change"""
        self.history.append([self.names[i], {"raw_hex": data.hex()}, list(src)])
        got = self.feed(i, data, src)
        if isinstance(got, str):
            return None                 # crashes on garbage are C14's
        if got:
            return ("datagrams sent for a datagram without CMD prefix", [repr(g[0])[:80] for g in got], "nothing")
        for j in range(len(self.trx)):
            bad = self.observe_mismatch(j)
            if bad:
                return ("state of %s after a non-command: %s" % (self.names[j], bad[0]), bad[1], bad[2])
        return None

    # ---- end-to-end burst a -> b
    def burst(self, a, b, fn, rnd):
        A, B, ma, mb = self.trx[a], self.trx[b], self.model[a], self.model[b]
        if ma.muted or mb.muted or mb.drop_amount != 0 or not ma.running:
            return None
        if A not in self.list.trx_list or B not in self.list.trx_list:
            return None
        tn, pwr = rnd.randrange(8), rnd.randrange(0, 40)
        bits = bytes(rnd.getrandbits(1) for _ in range(148))
        d = bytes([(ma.ver << 4) | tn]) + fn.to_bytes(4, "big") + bytes([pwr]) + bits
        self.history.append([self.names[a], {"tx_burst_hex": d.hex(), "then": "recv_data_msg(); clck_tick(fwd, %d) on every transceiver" % fn}, []])
        for t in self.trx:
            del t.data_if.sock.sent[:]
        try:
            A.data_if.sock.inbox.append((d, ("127.0.0.1", 4242)))
            A.recv_data_msg()
            for t in self.list.trx_list:
                t.clck_tick(self.fwd, fn)
        except Exception as e:
            return ("burst pipeline", "raises %s: %s" % (type(e).__name__, e), "returns normally")
        out = [bytes(x[0]) for x in B.data_if.sock.sent]
        deliver = mb.running and mb.freqs(fn)[0] == ma.freqs(fn)[1]
        rssi_rng = (mb.rssi_base - mb.rssi_thr, mb.rssi_base + mb.rssi_thr) if mb.fake_rssi else ((ma.nominal - ma.att) - pwr - PATH_LOSS,) * 2
        toa_rng = (mb.toa_base - mb.toa_thr - ma.ta * 256, mb.toa_base + mb.toa_thr - ma.ta * 256)
        ci_rng = (mb.ci_base - mb.ci_thr, mb.ci_base + mb.ci_thr)
        valid = -120 <= rssi_rng[0] and rssi_rng[1] <= -47 and -32768 <= toa_rng[0] and toa_rng[1] <= 32767 and (mb.ver == 0 or (-1280 <= ci_rng[0] and ci_rng[1] <= 1280))
        if not deliver:
            if out:
                return ("burst delivered to %s" % self.names[b], "%d datagram(s)" % len(out), "none (not running or tuned elsewhere)")
            return None
        if not valid:
            return None                 # simulated values outside the TRXD ranges: what happens then is not C05's
        if len(out) != 1:
            return ("burst delivered to %s" % self.names[b], "%d datagram(s)" % len(out), "exactly one")
        o = out[0]
        hl = 8 if mb.ver == 0 else 11
        if len(o) < hl + 148 or (o[0] >> 4) != mb.ver:
            return ("Rx datagram version/length", {"version": o[0] >> 4 if o else None, "len": len(o)}, {"version": mb.ver, "len": ">= %d" % (hl + 148)})
        got = {"tn": o[0] & 7, "fn": int.from_bytes(o[1:5], "big"), "rssi": -o[5], "toa256": int.from_bytes(o[6:8], "big", signed=True)}
        if (got["tn"], got["fn"]) != (tn, fn):
            return ("Rx datagram tn/fn", [got["tn"], got["fn"]], [tn, fn])
        if not (rssi_rng[0] <= got["rssi"] <= rssi_rng[1]):
            return ("Rx datagram RSSI", got["rssi"], "in %s" % (list(rssi_rng),))
        if not (toa_rng[0] <= got["toa256"] <= toa_rng[1]):
            return ("Rx datagram ToA256", got["toa256"], "in %s" % (list(toa_rng),))
        if mb.ver == 1:
            ci = int.from_bytes(o[9:11], "big", signed=True)
            if not (ci_rng[0] <= ci <= ci_rng[1]):
                return ("Rx datagram C/I", ci, "in %s" % (list(ci_rng),))
        if bytes(o[hl:hl + 148]) != bytes(254 if x else 0 for x in bits):
            return ("Rx datagram soft bits", o[hl:hl + 12].hex(), bytes(254 if x else 0 for x in bits[:12]).hex())
        for j in range(len(self.trx)):
            bad = self.observe_mismatch(j)
            if bad:
                return ("state of %s after a burst: %s" % (self.names[j], bad[0]), bad[1], bad[2])
        return None


def _clip(b):
    r = repr(b)
    return r if len(r) < 400 else r[:200] + " ... " + r[-120:] + " (%d octets)" % len(b)


# ------------------------------------------------------------------ command generators

def setfh_args(rnd, nch, digits=None):
    out = [str(rnd.randrange(64)), str(rnd.randrange(64))]
    base = rnd.choice((935200, 1805200)) if digits is None else (935200 if digits == 6 else 1805200)
    for k in range(nch):
        out += [str(base + 200 * k), str(base - 45000 + 200 * k)]
    return out


def rand_cmd(rnd):
    r = rnd.random()
    if r < 0.06:
        return rnd.choice(UNKNOWN_VERBS), [str(rnd.randrange(-5, 1000)) for _ in range(rnd.randrange(0, 4))]
    verb = rnd.choice(KNOWN + ("POWERON", "POWEROFF", "RXTUNE", "TXTUNE", "SETFH", "SETFORMAT", "MEASURE", "NOMTXPOWER"))
    if rnd.random() < 0.07:         # an argument count the verb does not have (then it is an unknown command: 0, nothing changes)
        n = rnd.choice([k for k in range(0, 6) if wrong_arity(verb, k)])
        return verb, [str(rnd.choice((0, 1, 2, 7, 63, 935200, -1))) for _ in range(n)]
    F = lambda: str(rnd.choice((935200, 935400, 890200, 890400, 1805200, 1710200, rnd.randrange(400000, 2000000))))
    I = lambda lo, hi: str(rnd.choice((lo, hi, 0, rnd.randint(lo, hi), rnd.randint(lo, hi))) if lo <= 0 <= hi else rnd.randint(lo, hi))
    if verb in ("POWERON", "POWEROFF", "NOMTXPOWER"):
        return verb, []
    if verb in ("RXTUNE", "TXTUNE", "MEASURE"):
        return verb, [F()]
    if verb == "SETFH":
        if rnd.random() < 0.1:
            a = setfh_args(rnd, rnd.randrange(1, 6))
            return verb, a + [F()]          # an unpaired trailing frequency
        return verb, setfh_args(rnd, rnd.choice((1, 1, 2, 3, 4, 8, 16, rnd.randrange(1, 65))), digits=6 if rnd.random() < 0.7 else None)
    if verb == "SETFORMAT":
        return verb, [str(rnd.choice((0, 1, 0, 1, 2, 3, 7, 14, 15, 16, 17, -1, -2, 255, rnd.randrange(-4, 20))))]
    if verb == "SETPOWER":
        return verb, [I(0, 60)]
    if verb == "RFMUTE":
        return verb, [str(rnd.choice((0, 1)))]
    if verb == "SETTA":
        return verb, [I(0, 63)]
    if verb == "FAKE_TOA":
        return (verb, [I(-2000, 2000), str(rnd.choice((0, 0, 1, 100, 256, -1, -5)))]) if rnd.random() < 0.6 else (verb, [I(-300, 300)])
    if verb == "FAKE_RSSI":
        return (verb, [I(-120, -47), str(rnd.choice((0, 0, 1, 5, 10, -1, -7)))]) if rnd.random() < 0.6 else (verb, [I(-10, 10)])
    if verb == "FAKE_CI":
        return (verb, [I(-1280, 1280), str(rnd.choice((0, 0, 1, 50, 300, -1, -3)))]) if rnd.random() < 0.6 else (verb, [I(-100, 100)])
    if verb == "FAKE_DROP":
        if rnd.random() < 0.5:
            return verb, [str(rnd.choice((0, 0, 1, 5, -1, 100)))]
        return verb, [str(rnd.choice((0, 1, 5, -1, 100))), str(rnd.choice((1, 2, 51, 0, -1, 104)))]
    if verb == "FAKE_TRXC_DELAY":
        return verb, [str(rnd.choice((0, 0, 1, 20, 250, 1000)))]       # negative / huge delays are outside the documented use (C14 judges them)
    return verb, []


ARITY = {"POWERON": (0,), "POWEROFF": (0,), "NOMTXPOWER": (0,), "FAKE_TOA": (1, 2), "FAKE_RSSI": (1, 2), "FAKE_CI": (1, 2), "FAKE_DROP": (1, 2)}


def wrong_arity(verb, n):
    if verb == "SETFH":
        return n < 4
    return n not in ARITY.get(verb, (1,))


def fit_1023(verb, args):
    """commands are at most 1023 octets + NUL never exceeds trxcon's TRXC_BUF_SIZE; cut SETFH pairs accordingly"""
    while len("CMD " + " ".join([verb] + args)) + 1 > 1023 and len(args) > 4:
        args = args[:-2]
    return args


# ------------------------------------------------------------------ the oracle

def run(budget_s=20.0, seed=0):
    t_end = time.time() + budget_s
    prev_disable = logging.root.manager.disable
    logging.disable(logging.CRITICAL)
    failures = []
    cases = [0]
    sleeps = []
    restore = []
    real_sleep = time.sleep

    def fake_sleep(s):
        sleeps.append(s)

    try:
        from contracts.py.native import patch_sockets
        ul = toolkit("udp_link")
        restore.append((ul, "socket", ul.socket))
        patch_sockets()
        ci = toolkit("ctrl_if")
        restore.append((time, "sleep", real_sleep))
        time.sleep = fake_sleep
        if getattr(ci, "sleep", None) is real_sleep:
            restore.append((ci, "sleep", real_sleep))
            ci.sleep = fake_sleep

        def fail(rig, bad):
            if len(failures) < 5:
                failures.append({"what": bad[0], "input": {"transceivers": "BTS, MS: FakeTRX sharing one FakePM(-120,-105,-75,-50) and one BurstForwarder; NOPM: FakeTRX without power measurement",
                                                            "history": rig.history[-60:]}, "observed": bad[1], "expected": bad[2]})

        SRC = [("127.0.0.1", 5801), ("127.0.0.1", 6801), ("10.1.2.3", 40000), ("192.168.7.9", 1)]

        def script(cmds, rig=None, final_burst=None):
            """cmds: list of (trx index, verb, args) or (trx index, raw bytes); stops at the first failure"""
            rig = rig or Rig(toolkit, sleeps)
            for k, c in enumerate(cmds):
                cases[0] += 1
                src = SRC[(k + len(c)) % len(SRC)]
                if len(c) == 2:
                    bad = rig.raw(c[0], c[1], src)
                else:
                    bad = rig.command(c[0], c[1], fit_1023(c[1], [str(x) for x in c[2]]), src)
                if bad:
                    fail(rig, bad)
                    return rig, False
            if final_burst:
                cases[0] += 1
                bad = rig.burst(*final_burst)
                if bad:
                    fail(rig, bad)
                    return rig, False
            return rig, True

        # ---------------- fixed part
        r0 = random.Random(4711)
        CONFIG = [(1, "RXTUNE", [935200]), (1, "TXTUNE", [890200]), (1, "SETFORMAT", [1]), (1, "SETPOWER", [10]), (1, "SETTA", [3]),
                  (1, "FAKE_TOA", [64, 0]), (1, "FAKE_CI", [120, 0]), (1, "POWERON", [])]
        # the two seeded sequences and their neighbours
        script([(1, "SETFH", [0, 0, 935200, 890200, 935400, 890400]), (1, "POWEROFF", []), (1, "POWERON", [])])
        script([(0, "NOMTXPOWER", []), (0, "SETPOWER", [10]), (0, "NOMTXPOWER", []), (0, "SETPOWER", [23]), (0, "NOMTXPOWER", []), (0, "SETPOWER", [0]), (0, "NOMTXPOWER", [])])
        # POWERON readiness
        for tune in range(16):
            cmds = []
            if tune & 1:
                cmds.append((1, "RXTUNE", [935200]))
            if tune & 2:
                cmds.append((1, "TXTUNE", [890200]))
            if tune & 4:
                cmds.append((1, "SETFH", [5, 1, 935200, 890200, 935400, 890400, 935600, 890600]))
            if tune & 8:
                cmds.append((1, "POWEROFF", []))
            cmds += [(1, "POWERON", []), (1, "POWERON", []), (1, "POWEROFF", []), (1, "POWERON", []), (1, "POWEROFF", []), (1, "POWEROFF", [])]
            script(cmds)
        # every verb x argument count, fresh and configured
        for pre in ([], CONFIG):
            for verb in KNOWN + UNKNOWN_VERBS:
                for n in range(0, 6):
                    for i in ((1, 2) if not pre else (1,)):
                        args = [(935200, 890200, 3, 1, 2, 7)[(k + n) % 6] if verb in ("RXTUNE", "TXTUNE", "MEASURE") else (k + 1) for k in range(n)]
                        if verb == "SETFH":
                            args = [3, 1] + [935200 + 200 * k for k in range(max(0, n - 2))] if n >= 2 else args
                        script([(i,) + c[1:] for c in pre] + [(i, verb, args), (i, "NOMTXPOWER", []), (i, "POWERON", [])])
        # SETFORMAT
        for v in range(-3, 18):
            script([(0, "SETFORMAT", [v]), (0, "SETFORMAT", [1]), (0, "SETFORMAT", [v]), (0, "SETFORMAT", [0]), (0, "SETFORMAT", [v])])
        script([(0, "SETFORMAT", [v]) for v in (255, 256, -255, 2 ** 31 - 1, -2 ** 31, 10 ** 12)])
        # SETFH sizes, incl. the longest commands
        for nch in list(range(1, 9)) + [15, 16, 17, 31, 32, 33, 48, 63, 64]:
            for digits in (6, 7):
                a = setfh_args(r0, nch, digits)
                script([(1, "SETFH", a), (1, "POWERON", []), (1, "SETFH", setfh_args(r0, 2, 6)), (1, "POWEROFF", [])], final_burst=None)
        # boundary values inside the documented ranges, and the refusals the statement names
        script([(0, "FAKE_TOA", [b, t]) for b in (-32768, -1, 0, 1, 32767) for t in (0, 1, 255, -1, -32768)] + [(0, "FAKE_TOA", [d]) for d in (-300, 0, 1, 299)])
        script([(0, "FAKE_RSSI", [b, t]) for b in (-120, -47, -83) for t in (0, 10, -1, 0, -2 ** 31)] + [(0, "FAKE_RSSI", [d]) for d in (-10, 0, 1, 9)])
        script([(0, "FAKE_CI", [b, t]) for b in (-1280, 0, 1280) for t in (0, 1, 500, -1, -1280)] + [(0, "FAKE_CI", [d]) for d in (-100, 0, 1, 99)])
        script([(0, "FAKE_DROP", [n]) for n in (0, 1, 2 ** 31 - 1, -1, -2 ** 31, 5)] + [(0, "FAKE_DROP", [n, p]) for n in (0, 1, 1000, -1) for p in (1, 2, 51, HYPER, 0, -1)])
        script([(0, "SETPOWER", [a]) for a in (0, 1, 50, 100, 0)] + [(0, "NOMTXPOWER", [])] + [(0, "RFMUTE", [m]) for m in (0, 1, 1, 0, 0)])
        script([(0, f, [v]) for v in (400000, 935200, 1990000) for f in ("RXTUNE", "TXTUNE", "MEASURE")])
        for v in (0, 1, 31, 62, 63):
            script([(1, "SETTA", [v]), (1, "SETTA", [0])])
        # MEASURE with and without a transmitter on the frequency
        script([(1, "MEASURE", [935200]), (0, "RXTUNE", [890200]), (0, "TXTUNE", [935200]), (1, "MEASURE", [935200]), (0, "POWERON", []), (1, "MEASURE", [935200]),
                (1, "MEASURE", [935400]), (1, "MEASURE", [890200]), (0, "MEASURE", [935200]), (2, "MEASURE", [935200]), (0, "POWEROFF", []), (1, "MEASURE", [935200])] * 3)
        # MEASURE after a tuned and running transmitter switched to hopping: its former static frequency is silent unless in the allocation
        script([(0, "RXTUNE", [890200]), (0, "TXTUNE", [935200]), (0, "POWERON", []), (1, "MEASURE", [935200]),
                (0, "SETFH", [0, 0, 890400, 935400, 890600, 935600]), (1, "MEASURE", [935200]), (0, "MEASURE", [935200]), (1, "MEASURE", [890200]),
                (1, "MEASURE", [935400]), (0, "POWEROFF", []), (1, "MEASURE", [935200]), (0, "POWERON", []), (1, "MEASURE", [935200])])
        # delay
        script([(0, "FAKE_TRXC_DELAY", [20]), (0, "NOMTXPOWER", []), (1, "NOMTXPOWER", []), (0, "SETTA", [1]), (0, "FAKE_TRXC_DELAY", [0]), (0, "NOMTXPOWER", []),
                (0, "FAKE_TRXC_DELAY", [1]), (0, "NOMTXPOWER", []), (0, "FAKE_TRXC_DELAY", [250]), (0, "XYZZY", []), (0, "FAKE_TRXC_DELAY", [0]), (0, "POWERON", [])])
        # no CMD prefix
        NONCMD = [b"", b"\0", b"C", b"CM", b"C\0", b"CXD POWERON\0", b"CMX POWERON\0", b"cmd POWERON\0", b"RSP POWERON 0\0", b" CMD POWERON\0", b"\0CMD POWERON\0",
                  b"POWERON\0", b"XCMD RXTUNE 935200\0", b"IND CLOCK 5\0", b"Cmd SETFORMAT 1\0", b"C" * 200, b"RSP SETFH 0 " + b"935200 " * 100]
        script([(1, "RXTUNE", [935200])] + [(1, d) for d in NONCMD] + [(1, "TXTUNE", [890200]), (1, "POWERON", [])] + [(1, d) for d in NONCMD] + [(1, "POWEROFF", [])])
        # end-to-end effect of the simulation commands
        LINK = [(0, "RXTUNE", [890200]), (0, "TXTUNE", [935200]), (1, "RXTUNE", [935200]), (1, "TXTUNE", [890200]), (0, "POWERON", []), (1, "POWERON", [])]
        for extra in ([], [(1, "SETFORMAT", [1])], [(0, "SETFORMAT", [1]), (1, "SETFORMAT", [1]), (1, "FAKE_CI", [250, 0])], [(0, "SETPOWER", [20])], [(0, "SETTA", [5])],
                      [(1, "FAKE_TOA", [300, 0])], [(1, "FAKE_TOA", [100, 50]), (1, "FAKE_TOA", [-30])], [(1, "FAKE_RSSI", [-80, 0])], [(1, "FAKE_RSSI", [-80, 5]), (1, "FAKE_RSSI", [3])],
                      [(1, "FAKE_RSSI", [-80, 0]), (1, "FAKE_RSSI", [0, -1])], [(1, "SETFORMAT", [1]), (1, "FAKE_CI", [100, 30]), (1, "FAKE_CI", [5])],
                      [(0, "SETFH", [7, 2, 890200, 935200, 890400, 935400]), (1, "SETFH", [7, 2, 935200, 890200, 935400, 890400])],
                      [(1, "POWEROFF", [])], [(1, "RXTUNE", [935400])], [(0, "POWEROFF", []), (0, "POWERON", [])]):
            for fn in (0, 77, HYPER - 1):
                script(LINK + extra, final_burst=(0, 1, fn, r0))
                script(LINK + [(1 - c[0],) + c[1:] for c in extra], final_burst=(1, 0, fn, r0))

        # ---------------- budgeted random histories
        rnd = random.Random(seed)
        while not failures and time.time() < t_end:
            rig = Rig(toolkit, sleeps)
            n = rnd.choice((rnd.randrange(1, 8), rnd.randrange(1, 41), rnd.randrange(10, 41)))
            cmds = []
            if rnd.random() < 0.5:          # often start from a linked pair so that bursts flow
                cmds += LINK[:rnd.randrange(0, 7)]
            for _ in range(n):
                i = rnd.choice((0, 1, 0, 1, 2))
                if rnd.random() < 0.03:
                    cmds.append((i, rnd.choice(NONCMD)))
                else:
                    verb, args = rand_cmd(rnd)
                    cmds.append((i, verb, args))
            a = rnd.randrange(2)
            fn = rnd.choice((0, HYPER - 1, rnd.randrange(HYPER)))
            _rig, ok = script(cmds, rig=rig, final_burst=(a, 1 - a, fn, rnd))
            if not ok:
                break
        return {"cases": cases[0], "failures": _fit(failures)}
    finally:
        for o, a, v in reversed(restore):
            setattr(o, a, v)
        logging.disable(prev_disable)


def _fit(failures, limit=14000):
    """keep the report printable by oracles.run (20 000 characters): drop trailing failures, then shorten the first one's history"""
    import json
    fs = list(failures[:5])
    while len(fs) > 1 and len(json.dumps(fs, indent=1, default=str)) > limit:
        fs.pop()
    if fs and len(json.dumps(fs, indent=1, default=str)) > limit:
        inp = fs[0].get("input")
        if isinstance(inp, dict) and isinstance(inp.get("history"), list):
            while len(inp["history"]) > 5 and len(json.dumps(fs, indent=1, default=str)) > limit:
                del inp["history"][:max(1, len(inp["history"]) // 4)]
                inp["history_truncated"] = True
        if len(json.dumps(fs, indent=1, default=str)) > limit:
            fs[0]["input"] = json.dumps(fs[0]["input"], default=str)[:limit // 2] + " ...(truncated)"
            fs[0]["observed"] = str(fs[0]["observed"])[:2000]
            fs[0]["expected"] = str(fs[0]["expected"])[:2000]
    return fs

"""Bounded native oracles: statement-level tests of the REAL code (no symbolic execution), one module per property.

They are the *bounded stand-in* of this framework, never counted as proved:
  * replay search: when an obligation fails and the verifier's counter-model does not reproduce natively, the property's oracle looks
    for a concrete failing input (a found one is a confirmed violation with a replay file);
  * out-of-reach fallback: when a function's shape no longer lets its contract bind (engine construct unsupported, loop contract
    cannot be attached), the oracle stands in for that run, labelled `bounded` in the evidence;
  * thorough tier: run with a larger budget next to the proof.

Interface of oracles/<ID>.py:
    BOUND = "<one paragraph: what is enumerated / sampled, with the numbers>"
    def run(budget_s=20.0, seed=0) -> dict
        {"cases": <number of concrete cases executed>, "failures": [ {"what": short name, "input": json-able, "observed": ..., "expected": ...} ... at most 5 ]}
The expected values come from the property STATEMENT (independent re-computation), never from the code under test.
The toolkit modules are loaded from $VERIF_REPO through engine.pyvc.harness.toolkit(); sockets are stubbed (contracts.py.native).
C halves / C properties: oracles/c_<ID>.py, same interface; they build one native harness (the real .c file #included, or the functions cut
verbatim behind the prelude in shim/ - oracles/_c.py, oracles/_c_trx_if.py) with clang ASan+UBSan from the CURRENT $VERIF_REPO sources in a
mkdtemp directory that is removed at the end of the run.  engine/cli.py merges both halves of a property (VERIF_PARTS=py|c selects one)."""

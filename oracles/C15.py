"""C15 - capture files return exactly what was stored, even after truncation (bounded native oracle).

The real data_dump.DATADumpFile writes random valid Tx/Rx messages into an in-memory capture (io.BytesIO with the append-mode behaviour of the
"a+b" files the tool opens: every write goes to the end); the capture is read back in full, by index and by skip/count, intact and cut at
byte offsets around every record boundary.  Expected values come from the statement: the stored list itself, python slicing, and the record
layout of the anchors (tag octet + 16-bit big-endian length + TRXD message, whose length is 6/8/11 header octets + burst length)."""
import io, time, random, logging
from engine.pyvc.harness import toolkit

H = 2715648
GMSK, EDGE = 148, 444
MODS = {"ModGMSK": 148, "Mod8PSK": 444, "ModGMSK_AB": 148, "Mod16QAM": 592, "Mod32QAM": 740, "ModAQPSK": 296}

BOUND = ("fixed: 9 hand-made captures (0..9 records; every message kind: Tx v0/v1 GMSK/EDGE, Rx v0 GMSK/EDGE, Rx v1 of all 6 modulations, Rx v1 NOPE; "
         "field extremes fn 0/2715647, tn 0/7, pwr 0/255, rssi -120/-47, toa256 +-32768, C/I +-1280), each written with append_msg / append_all "
         "(also interleaved with reads on the same object), framing checked octet-wise, then full read, parse_msg(i) for i in 0..n+2, "
         "parse_all(skip, count) for skip in {None,0..n+2} x count in {None,1..n+2}; truncation at every offset of the small captures and at "
         "offsets b-3..b+12 around every record boundary b (plus mid-body offsets) of the others, each with full read, parse_msg(nc-1..nc+1) and "
         "6..12 (skip,count) pairs; random: captures of 0..8 random valid messages, the same checks with all boundary-near cuts and 8 random cuts, "
         "until the time budget is used (about 8 captures / 7000 reader calls per second)")


# ---------------------------------------------------------------- message specs (json-able) and their realisation
def spec_random(rnd):
    kind = rnd.choice(("tx", "tx", "rx0", "rx1", "rx1", "nope"))
    s = {"kind": kind, "fn": rnd.choice((0, H - 1, rnd.randrange(H), rnd.randrange(H))), "tn": rnd.randrange(8), "bseed": rnd.randrange(1 << 30)}
    if kind == "tx":
        s.update(ver=rnd.choice((0, 1)), pwr=rnd.choice((0, 255, rnd.randrange(256))), bl=rnd.choice((GMSK, GMSK, EDGE)))
        return s
    s.update(rssi=rnd.choice((-120, -47, rnd.randint(-120, -47))), toa256=rnd.choice((-32768, 32767, 0, rnd.randint(-32768, 32767))))
    if kind == "rx0":
        s.update(ver=0, bl=rnd.choice((GMSK, GMSK, EDGE)))
        return s
    s.update(ver=1, ci=rnd.choice((-1280, 1280, 0, rnd.randint(-1280, 1280))))
    if kind == "nope":
        s.update(bl=0)
        return s
    mod = rnd.choice(sorted(MODS))
    s.update(mod=mod, bl=MODS[mod], tsc=rnd.randrange(8), tsc_set=rnd.randrange(4 if mod == "ModGMSK" else 2))
    return s


def burst_of(s):
    r = random.Random(s["bseed"])
    if s["kind"] == "tx":
        return [r.randrange(2) for _ in range(s["bl"])]
    if s["kind"] == "nope":
        return None
    edge = (-127, 127, 0, -1, 1)
    return [r.choice(edge) if r.random() < 0.1 else r.randint(-127, 127) for _ in range(s["bl"])]


def build(dm, s):
    from array import array
    b = burst_of(s)
    if s["kind"] == "tx":
        m = dm.TxMsg(fn=s["fn"], tn=s["tn"], ver=s["ver"], burst=bytearray(b))
        m.pwr = s["pwr"]
        return m
    m = dm.RxMsg(fn=s["fn"], tn=s["tn"], ver=s["ver"], burst=None if b is None else array("b", b))
    m.rssi, m.toa256 = s["rssi"], s["toa256"]
    if s["ver"] == 1:
        m.ci = s["ci"]
        if s["kind"] == "nope":
            m.nope_ind = True
        else:
            m.nope_ind = False
            m.mod_type = getattr(dm.Modulation, s["mod"])
            m.tsc, m.tsc_set = s["tsc"], s["tsc_set"]
    return m


def rec_len(s):
    """3 record-header octets + TRXD header (Tx 6, Rx v0 8, Rx v1 11) + one octet per burst symbol"""
    return 3 + {"tx": 6, "rx0": 8, "rx1": 11, "nope": 11}[s["kind"]] + s["bl"]


def expected_fields(s):
    e = {"cls": "Tx" if s["kind"] == "tx" else "Rx", "ver": s["ver"], "fn": s["fn"], "tn": s["tn"], "burst": burst_of(s)}
    if s["kind"] == "tx":
        e["pwr"] = s["pwr"]
        return e
    e["rssi"], e["toa256"] = s["rssi"], s["toa256"]
    if s["ver"] == 1:
        e["ci"] = s["ci"]
        e["nope"] = s["kind"] == "nope"
        if s["kind"] != "nope":
            e["mod"], e["tsc"], e["tsc_set"] = s["mod"], s["tsc"], s["tsc_set"]
    return e


def observed_fields(dm, m, s):
    """the fields of a returned message that the stored message defines (same key set as expected_fields)"""
    if isinstance(m, dm.TxMsg):
        cls = "Tx"
    elif isinstance(m, dm.RxMsg):
        cls = "Rx"
    else:
        return {"cls": repr(type(m))}
    b = getattr(m, "burst", None)
    o = {"cls": cls, "ver": getattr(m, "ver", None), "fn": getattr(m, "fn", None), "tn": getattr(m, "tn", None),
         "burst": None if b is None else [int(x) for x in b]}
    if cls == "Tx":
        o["pwr"] = getattr(m, "pwr", None)
        return o
    o["rssi"], o["toa256"] = getattr(m, "rssi", None), getattr(m, "toa256", None)
    if s["ver"] == 1:
        o["ci"] = getattr(m, "ci", None)
        o["nope"] = bool(getattr(m, "nope_ind", None))
        if s["kind"] != "nope":
            mt = getattr(m, "mod_type", None)
            o["mod"], o["tsc"], o["tsc_set"] = getattr(mt, "name", mt), getattr(m, "tsc", None), getattr(m, "tsc_set", None)
    return o


def brief(f):
    f = dict(f)
    b = f.get("burst")
    if b is not None:
        f["burst"] = "%d symbols %s.." % (len(b), b[:6])
    return f


class AppendIO(io.BytesIO):
    """io.BytesIO with the write behaviour of a file opened "a+b" (what DATADumpFile opens for a path): writes go to the end"""

    def write(self, b):
        self.seek(0, 2)
        return super().write(b)


# ---------------------------------------------------------------- the checker
class Ctx:
    def __init__(self):
        self.dd = toolkit("data_dump")
        self.dm = toolkit("data_msg")
        self.cases = 0
        self.failures = []
        self.keep = []          # DATADumpFile closes its file when collected: keep the objects alive while their BytesIO is in use

    def fail(self, what, inp, observed, expected):
        if len(self.failures) < 5 and not any(f["what"] == what for f in self.failures):
            self.failures.append({"what": what, "input": inp, "observed": observed, "expected": expected})

    def full(self):
        return len(self.failures) >= 5

    def reader(self, data):
        r = self.dd.DATADumpFile(io.BytesIO(data))
        self.keep.append(r)
        return r

    def cmp_msg(self, m, s):
        exp = expected_fields(s)
        try:
            obs = observed_fields(self.dm, m, s)
        except Exception as e:
            return {"unreadable": "%s: %s" % (type(e).__name__, e)}, exp
        return (None, None) if obs == exp else (obs, exp)

    def cmp_list(self, r, specs):
        """None when r is the list of messages described by specs, else (observed, expected)"""
        if not isinstance(r, list):
            return repr(r)[:80], "list of %d message(s)" % len(specs)
        if len(r) != len(specs):
            return "%d message(s)" % len(r), "%d message(s)" % len(specs)
        for i, (m, s) in enumerate(zip(r, specs)):
            o, e = self.cmp_msg(m, s)
            if o is not None:
                return {"position": i, "fields": brief(o)}, {"position": i, "fields": brief(e)}
        return None

    # -- one reader call each
    def chk_all(self, rd, specs, nc, skip, count, inp, tag):
        self.cases += 1
        kw = {}
        if skip is not None:
            kw["skip"] = skip
        if count is not None:
            kw["count"] = count
        inp = dict(inp, call="parse_all(%s)" % ", ".join("%s=%d" % kv for kv in sorted(kw.items())))
        try:
            r = rd.parse_all(**kw)
        except Exception as e:
            self.fail(tag + ": parse_all raises", inp, "%s: %s" % (type(e).__name__, e), "no exception")
            return
        s0 = skip or 0
        if s0 > nc:
            # nothing is stored there: the documented range error (False) or an empty selection, never messages
            if r is False or r == []:
                return
            self.fail(tag + ": parse_all beyond the stored messages", inp, repr(r)[:80], "False or []")
            return
        exp = specs[s0:nc] if count is None else specs[s0:min(nc, s0 + count)]
        d = self.cmp_list(r, exp)
        if d:
            self.fail(tag + ": parse_all selection", inp, d[0], d[1])

    def chk_idx(self, rd, specs, nc, idx, inp, tag):
        self.cases += 1
        inp = dict(inp, call="parse_msg(%d)" % idx)
        try:
            r = rd.parse_msg(idx)
        except Exception as e:
            self.fail(tag + ": parse_msg raises", inp, "%s: %s" % (type(e).__name__, e), "no exception")
            return
        if idx >= nc:
            if r is None or r is False:
                return
            self.fail(tag + ": parse_msg returns a message that is not (completely) stored", inp, repr(r)[:80], None)
            return
        if r is None or r is False:
            self.fail(tag + ": parse_msg misses a stored message", inp, repr(r), "message %d" % idx)
            return
        o, e = self.cmp_msg(r, specs[idx])
        if o is not None:
            self.fail(tag + ": parse_msg fields", inp, brief(o), brief(e))

    # -- one capture
    def capture(self, specs, mode, rnd, cuts_extra=0, every_cut=False):
        n = len(specs)
        inp0 = {"messages": specs, "written_by": mode}
        msgs = [build(self.dm, s) for s in specs]
        bio = AppendIO()
        w = self.dd.DATADumpFile(bio)
        self.keep.append(w)
        bounds = [0]
        for s in specs:
            bounds.append(bounds[-1] + rec_len(s))
        try:
            if mode == "append_all":
                w.append_all(msgs)
            elif mode == "append_msg":
                for m in msgs:
                    w.append_msg(m)
            else:
                # interleaved with reads on the same object: the reads must see what is stored so far and must not disturb later appends
                for k, m in enumerate(msgs):
                    w.append_msg(m)
                    if k % 2 == 0:
                        self.chk_all(w, specs, k + 1, None, None, dict(inp0, after_appends=k + 1), "read between appends")
                    else:
                        self.chk_idx(w, specs, k + 1, rnd.randrange(k + 1), dict(inp0, after_appends=k + 1), "read between appends")
        except Exception as e:
            self.cases += 1
            self.fail("append raises for valid messages", inp0, "%s: %s" % (type(e).__name__, e), "no exception")
            return
        data = bio.getvalue()
        self.cases += 1
        # framing of the stored octets (anchors: tag octet + 16-bit big-endian length + message)
        if len(data) != bounds[-1]:
            self.fail("capture length", inp0, len(data), bounds[-1])
            return
        for k, s in enumerate(specs):
            b = bounds[k]
            want = (1 if s["kind"] == "tx" else 2, (rec_len(s) - 3) >> 8, (rec_len(s) - 3) & 0xff)
            if tuple(data[b:b + 3]) != want:
                self.fail("record header octets", dict(inp0, record=k), list(data[b:b + 3]), list(want))
                return
        # the writer object itself, positioned at the end after the appends: full read, twice (rewind)
        self.chk_all(w, specs, n, None, None, dict(inp0, reader="the writing object"), "intact")
        self.chk_all(w, specs, n, None, None, dict(inp0, reader="the writing object, second read"), "intact")
        rd = self.reader(data)
        inp = dict(inp0, reader="one reader object, calls in sequence")
        for i in range(n + 3):
            self.chk_idx(rd, specs, n, i, inp, "intact")
        self.chk_all(rd, specs, n, None, None, inp, "intact")
        for skip in [None] + list(range(n + 3)):
            for count in [None] + list(range(1, n + 3)):
                self.chk_all(rd, specs, n, skip, count, inp, "intact")
            if self.full():
                return
        # truncation
        if every_cut:
            cuts = set(range(len(data) + 1))
        else:
            cuts = set()
            for b in bounds:
                cuts.update(range(b - 3, b + 13))
            for k in range(n):
                cuts.add((bounds[k] + bounds[k + 1]) // 2)
            for _ in range(cuts_extra):
                cuts.add(rnd.randrange(len(data) + 1))
        for cut in sorted(c for c in cuts if 0 <= c <= len(data)):
            nc = max(k for k in range(n + 1) if bounds[k] <= cut)
            inp = dict(inp0, cut_at=cut, record_boundaries=bounds, complete_records=nc)
            rd = self.reader(data[:cut])
            self.chk_all(rd, specs, nc, None, None, inp, "truncated")
            for i in sorted({max(0, nc - 1), nc, nc + 1, rnd.randrange(n + 2)}):
                self.chk_idx(rd, specs, nc, i, inp, "truncated")
            pairs = {(0, None), (None, 1), (nc, None), (max(0, nc - 1), 1), (max(0, nc - 1), 2), (nc + 1, None), (0, nc + 1)}
            for _ in range(5):
                pairs.add((rnd.choice([None] + list(range(n + 2))), rnd.choice([None] + list(range(1, n + 2)))))
            for skip, count in sorted(pairs, key=repr):
                self.chk_all(rd, specs, nc, skip, count, inp, "truncated")
            if self.full():
                return
        del self.keep[:]


def fixed_captures():
    def tx(ver, fn, tn, pwr, bl, bs):
        return {"kind": "tx", "ver": ver, "fn": fn, "tn": tn, "pwr": pwr, "bl": bl, "bseed": bs}

    def rx0(fn, tn, rssi, toa, bl, bs):
        return {"kind": "rx0", "ver": 0, "fn": fn, "tn": tn, "rssi": rssi, "toa256": toa, "bl": bl, "bseed": bs}

    def rx1(fn, tn, rssi, toa, ci, mod, tsc, ts, bs):
        return {"kind": "rx1", "ver": 1, "fn": fn, "tn": tn, "rssi": rssi, "toa256": toa, "ci": ci, "mod": mod, "bl": MODS[mod], "tsc": tsc, "tsc_set": ts, "bseed": bs}

    def nope(fn, tn, rssi, toa, ci):
        return {"kind": "nope", "ver": 1, "fn": fn, "tn": tn, "rssi": rssi, "toa256": toa, "ci": ci, "bl": 0, "bseed": 0}
    a = tx(0, 0, 0, 0, GMSK, 1)
    b = tx(1, H - 1, 7, 255, EDGE, 2)
    c = rx0(1, 1, -120, -32768, GMSK, 3)
    d = rx0(H - 1, 6, -47, 32767, EDGE, 4)
    e = nope(12, 2, -60, 5, 3)
    f = nope(H - 1, 7, -120, -32768, -1280)
    g = rx1(77, 3, -47, 32767, 1280, "ModGMSK", 7, 3, 5)
    all_mods = [rx1(1000 + i, i % 8, -50 - i, i - 3, 10 * i, mod, i % 8, (i % 4) if mod == "ModGMSK" else (i % 2), 10 + i) for i, mod in enumerate(sorted(MODS))]
    return [
        ([], "append_all", True),
        ([e], "append_msg", True),
        ([a], "append_msg", True),
        ([e, f, e], "append_all", True),
        ([a, e, tx(1, 12, 3, 20, GMSK, 6)], "append_msg", True),          # the shape of the seeded demonstrations
        ([c, a, e, g], "interleaved", True),
        ([a, b, c, d, e, g], "append_all", False),
        (all_mods, "append_msg", False),
        ([b, e, a, f, d, c, g, e, a], "interleaved", False),
    ]


def run(budget_s=20.0, seed=0):
    t0 = time.time()
    prev = logging.root.manager.disable
    logging.disable(logging.CRITICAL)
    cx = Ctx()
    try:
        rnd = random.Random(1000003 * seed + 15)
        for specs, mode, every in fixed_captures():
            cx.capture(specs, mode, rnd, every_cut=every)
            if cx.full():
                break
        while not cx.failures and time.time() - t0 < budget_s:      # the random part only looks for a first failure
            n = rnd.choice((0, 1, 1, 2, 3, 3, 4, 5, 6, 8))
            specs = [spec_random(rnd) for _ in range(n)]
            cx.capture(specs, rnd.choice(("append_all", "append_msg", "interleaved")), rnd, cuts_extra=8,
                       every_cut=(sum(rec_len(s) for s in specs) <= 60))
    finally:
        del cx.keep[:]
        logging.disable(prev)
    return {"cases": cx.cases, "failures": cx.failures[:5]}

"""C02 - bounded native oracle: virtual Um routing (bursts reach exactly the tuned, running peers).

Real FakeTRX objects (BTS, MS, additional and child transceivers) + the real BurstForwarder; sockets are recorders.  Every transceiver
is configured only through TRXC commands on its CTRL socket (SETFORMAT, RXTUNE, TXTUNE, SETTA, SETPOWER, RFMUTE, SETFH, POWERON, POWEROFF).
A burst is transmitted the way the application does it: the sender's L1 writes a TRXD datagram to the sender's DATA socket
(recv_data_msg), then every transceiver gets clck_tick(forwarder, FN); every fourth tick hands the message to
BurstForwarder.forward_msg() directly.  Observed: the datagrams each transceiver's DATA socket sends afterwards.

Oracle (from the statement):  deliver_set = { t != sender | t powered on and rxfreq(t, FN) == txfreq(sender, FN) },
rxfreq/txfreq = tuned value, or the rx/tx component of MA[MAI(HSN, MAIO, N, FN)] (45.002 6.2.3) when hopping is configured.
Every member gets exactly one datagram with the sender's FN/TN in the member's own header version: a burst if neither side is
RF-muted, else (the C18 reading) one NOPE indication on a version 1 link and nothing on a version 0 link.  Everybody else, the sender
included, gets nothing.  The power state is modelled from the command history (parent POWERON/POWEROFF reaches managed children;
POWEROFF forgets hopping)."""
import time, random
from oracles import _um
from oracles._um import HYPER, ref_mai, ctrl, enc_l1, dec_ind, short
from engine.pyvc.harness import toolkit

BOUND = ("Fixed part (about 1.3 s, 7248 ticks): the seeded multi-receiver scenario (muted first receiver, off peer, detuned peer) in all 4 version "
         "combinations; TN 0..7 with three receivers; self-delivery with rx == tx == one frequency for 2..6 transceivers; a hopping sender "
         "against fixed receivers and fixed sender against hopping receivers (rx/tx components distinct and crossed) over a full superframe (every frame for 3 configurations, every 11th for the others) "
         "+ the hyperframe boundaries for HSN in {0, 1, 17, 63} and N in {1, 2, 3, 5, 8, 64}; parent/child power propagation (managed and unmanaged) "
         "with 2 children; powered-off peers with and without hopping. Budgeted part: seeded random networks of 2..6 transceivers "
         "(BTS, MS, additional parents, children with and without management), each with random power state, fixed tuning from a pool of 4 "
         "frequencies or hopping (HSN 0..63, MAIO, N 1..8, occasionally 64, cell-structured or arbitrary (rx, tx) pairs), header version 0/1, RF mute "
         "(p = 0.15), TA 0..63, attenuation so that RSSI stays in range; per network 6 clock ticks with 1..3 simultaneous senders "
         "(distinct TN) at FN from the whole hyperframe (boundaries favoured), 148- or 444-bit bursts; all receivers' sockets are compared with "
         "the model after each tick (about 4000 networks = 24000 ticks per 10 s). Not covered: real UDP, real threads, more than 6 transceivers.")

POOL = (890000, 890200, 935000, 935200)      # kHz
FN_EDGES = (0, 1, 25, 26, 50, 51, 1325, 1326, 1327, 84863, 84864, 84865, HYPER // 2, HYPER - 1327, HYPER - 2, HYPER - 1)


# ----------------------------------------------------------------------------------------------------------- the reference model
def freq_of(spec, which, fn):
    """rx (which = 0) or tx (1) frequency in kHz of a transceiver spec in frame fn; None = untuned"""
    fh = spec.get("fh")
    if fh is None:
        return spec["rx"] if which == 0 else spec["tx"]
    hsn, maio, ma = fh
    return ma[ref_mai(hsn, maio, len(ma), fn)][which]


def expected_for(sc, tick):
    """{receiver index: {tn: 'burst' | 'nope'}} for one tick"""
    exp = {i: {} for i in range(len(sc["trx"]))}
    for b in tick["bursts"]:
        s = sc["trx"][b["src"]]
        txf = freq_of(s, 1, tick["fn"])
        for i, t in enumerate(sc["trx"]):
            if i == b["src"] or not t["on"] or txf is None:
                continue
            if freq_of(t, 0, tick["fn"]) != txf:
                continue
            if s["mute"] or t["mute"]:
                if t["ver"] >= 1:
                    exp[i][b["tn"]] = "nope"
            else:
                exp[i][b["tn"]] = "burst"
    return exp


# ---------------------------------------------------------------------------------------------------------------- the real thing
def build(sc):
    """real transceivers configured through TRXC; returns (net, problems)"""
    net = _um.Net()
    objs, problems = [], []
    for s in sc["trx"]:
        kw = {}
        if s["idx"]:
            kw["child_idx"] = s["idx"]
        if not s.get("mgt", True):
            kw["child_mgt"] = False
        objs.append(net.add(s["name"], s["port"], **kw))
    for s, o in zip(sc["trx"], objs):
        if s.get("parent") is not None:
            objs[s["parent"]].child_trx_list.add_trx(o)
    net.seal()

    def cmd(i, line, want=0):
        st, fields, _ = ctrl(objs[i], line)
        if want is not None and st != want:
            problems.append({"trx": sc["trx"][i]["name"], "cmd": line, "status": st, "wanted": want})

    def setfh(i):
        # a hopping assignment may replace an earlier one (same sequence with another MAIO, another HSN, another allocation): the last one counts
        for hsn, maio, ma in (sc["trx"][i].get("fh_history") or []) + [sc["trx"][i]["fh"]]:
            cmd(i, "SETFH %d %d %s" % (hsn, maio, " ".join("%d %d" % p for p in ma)))

    model_on = [False] * len(objs)
    for i, s in enumerate(sc["trx"]):
        cmd(i, "SETFORMAT %d" % s["ver"], want=s["ver"])
        if s["rx"] is not None:
            cmd(i, "RXTUNE %d" % s["rx"])
        if s["tx"] is not None:
            cmd(i, "TXTUNE %d" % s["tx"])
        if s.get("ta"):
            cmd(i, "SETTA %d" % s["ta"])
        if s.get("att"):
            cmd(i, "SETPOWER %d" % s["att"])
        cmd(i, "RFMUTE %d" % (1 if s["mute"] else 0))
        if s.get("fh") is not None:
            setfh(i)
    # power: parents first (reaches managed children), then each child on its own
    for i, s in enumerate(sc["trx"]):
        if s["idx"] == 0 and s["on"]:
            cmd(i, "POWERON")
            model_on[i] = True
            if s.get("mgt", True):
                for j, c in enumerate(sc["trx"]):
                    if c.get("parent") == i:
                        model_on[j] = True
    for i, s in enumerate(sc["trx"]):
        if s["idx"] != 0 and s["on"] != model_on[i]:
            cmd(i, "POWERON" if s["on"] else "POWEROFF")
            model_on[i] = s["on"]
    for i, s in enumerate(sc["trx"]):       # POWEROFF forgot the hopping parameters of switched-off children: configure again
        if s.get("fh") is not None and not s["on"]:
            setfh(i)
    for i, o in enumerate(objs):
        if bool(o.running) != sc["trx"][i]["on"]:
            problems.append({"trx": sc["trx"][i]["name"], "running": bool(o.running), "wanted": sc["trx"][i]["on"]})
    return net, objs, problems


# normal-burst training sequences 0..7 of 3GPP TS 45.002 table 5.2.3a (TSC set 1), at bits 61..86 of a normal burst: a v1 recipient derives
# the TSC field from them, so routing must work for each of them (a burst is delivered whatever training sequence it carries)
NB_TSC = ("00100101110000100010010111", "00101101110111100010110111", "01000011101110100100001110", "01000111101101000100011110",
          "00011010111001000001101011", "01001110101100000100111010", "10100111110110001010011111", "11101111000100101110111100")


def bits_of(b):
    r = random.Random(b["bseed"])
    bits = bytearray(r.getrandbits(1) for _ in range(b["bl"]))
    if b["bl"] == 148 and b["bseed"] % 3 != 0:          # two thirds of the GMSK bursts carry a normal-burst training sequence
        ts = NB_TSC[b["bseed"] % 8]
        bits[61:61 + len(ts)] = bytes(int(c) for c in ts)
    return bytes(bits)


def run_scenario(sc, fails, tag):
    """returns number of ticks executed"""
    dm = toolkit("data_msg")
    try:
        net, objs, problems = build(sc)
    except Exception as e:
        fails.append({"what": tag + ": building / configuring the transceivers raised", "input": sc, "observed": repr(e), "expected": "no exception"})
        return 0
    if problems:
        fails.append({"what": tag + ": TRXC configuration did not take effect", "input": sc, "observed": problems[:4], "expected": "status 0 and the commanded power state"})
        return 0
    n = 0
    for tick in sc["ticks"]:
        n += 1
        net.clear()
        fn = tick["fn"]
        try:
            if tick.get("direct"):
                for b in tick["bursts"]:
                    m = dm.TxMsg(fn=fn, tn=b["tn"], burst=bytearray(bits_of(b)), ver=sc["trx"][b["src"]]["ver"])
                    m.pwr = b["pwr"]
                    net.fwd.forward_msg(objs[b["src"]], m)
            else:
                for b in tick["bursts"]:
                    net.l1_send(objs[b["src"]], enc_l1(sc["trx"][b["src"]]["ver"], b["tn"], fn, b["pwr"], bits_of(b)))
                net.tick(fn)
        except Exception as e:
            fails.append({"what": tag + ": exception while transmitting", "input": {"scenario": sc, "tick": tick}, "observed": repr(e), "expected": "no exception"})
            return n
        exp = expected_for(sc, tick)
        for i, o in enumerate(objs):
            got = {}
            bad = None
            for data, addr in net.got(o):
                d = dec_ind(data)
                if d.get("bad") or d.get("fn") != fn:
                    bad = "malformed or wrong frame number: %r" % short(d)
                    break
                if d["ver"] != sc["trx"][i]["ver"]:
                    bad = "datagram in header version %d, receiver negotiated %d" % (d["ver"], sc["trx"][i]["ver"])
                    break
                kind = "nope" if (d["nope"] or d.get("soft") is None) else "burst"
                if d["tn"] in got:
                    bad = "more than one copy of the burst on TN %d" % d["tn"]
                    break
                got[d["tn"]] = kind
                if kind == "burst":
                    src_b = [b for b in tick["bursts"] if b["tn"] == d["tn"]]
                    if src_b and len(d["soft"]) != src_b[0]["bl"]:
                        bad = "burst of %d bits delivered as %d soft bits" % (src_b[0]["bl"], len(d["soft"]))
                        break
            if bad is None and got != exp[i]:
                bad = {"delivered (TN: kind)": got}
            if bad is not None:
                fails.append({"what": tag + ": wrong delivery to " + sc["trx"][i]["name"],
                              "input": {"scenario": {"trx": sc["trx"]}, "tick": tick, "receiver": i},
                              "observed": bad, "expected": {"delivered (TN: kind)": exp[i], "all receivers": {sc["trx"][k]["name"]: v for k, v in exp.items() if v}}})
                return n
    return n


# ----------------------------------------------------------------------------------------------------------------- scenarios
def T(name, port, rx, tx, on=True, ver=0, mute=False, idx=0, parent=None, mgt=True, fh=None, ta=0, att=0):
    return {"name": name, "port": port, "idx": idx, "parent": parent, "mgt": mgt, "rx": rx, "tx": tx, "on": on, "ver": ver, "mute": mute,
            "fh": fh, "ta": ta, "att": att}


def B(src, tn=0, pwr=10, bl=148, bseed=1):
    return {"src": src, "tn": tn, "pwr": pwr, "bl": bl, "bseed": bseed}


UL, DL = 890200, 935200


def fixed_scenarios():
    out = []
    # the independent demonstration: first receiver muted, two more receivers, one off, one detuned
    for sv in (0, 1):
        for rv in (0, 1):
            trx = [T("A", 5700, UL, DL, ver=rv, mute=True), T("MS", 6700, DL, UL, ver=sv), T("B", 5800, UL, DL, ver=rv), T("C", 5900, UL, DL, ver=rv),
                   T("OFF", 6000, UL, DL, on=False, ver=rv), T("OTHER", 6100, UL + 200, DL, ver=rv)]
            out.append(("demo v%d->v%d" % (sv, rv), {"trx": trx, "ticks": [{"fn": 1234, "bursts": [B(1, tn=2)]}, {"fn": 1235, "direct": True, "bursts": [B(1, tn=2)]},
                                                                         {"fn": 7, "bursts": [B(0, tn=1), B(2, tn=3)]}]}))
    # every TN with three receivers (mixed versions), via the queue and directly
    trx = [T("BTS", 5700, UL, DL, ver=1), T("MS", 6700, DL, UL, ver=0), T("MS2", 6800, DL, UL, ver=1), T("MS3", 6900, DL, UL, ver=0)]
    out.append(("all TN", {"trx": trx, "ticks": [{"fn": 100 + tn, "direct": bool(d), "bursts": [B(0, tn=tn, bl=148 if tn % 2 else 444)]} for tn in range(8) for d in (0, 1)]}))
    # one frequency for everybody: no loop-back to the sender
    for n in range(2, 7):
        trx = [T("T%d" % i, 5700 + 100 * i, DL, DL, ver=i % 2) for i in range(n)]
        out.append(("single frequency, %d trx" % n, {"trx": trx, "ticks": [{"fn": 42 + s, "direct": s % 2 == 1, "bursts": [B(s, tn=s)]} for s in range(n)]}))
    # hopping against fixed tuning: full superframes + boundaries
    fns = list(range(0, 1326 + 60, 1))
    for hsn in (0, 1, 17, 63):
        for n in (1, 2, 3, 5, 8, 64):
            ma_ms = [(935000 + 200 * (i % 4), 890000 + 200 * (i % 4)) for i in range(n)]      # MS view (rx = DL, tx = UL)
            ma_x = [(890000 + 200 * ((i + 1) % 4), 890000 + 200 * (i % 4)) for i in range(n)]  # crossed: rx component is somebody else's tx
            maio = (hsn + n) % n
            trx = [T("BTS0", 5700, 890000, 935000, ver=1), T("MSH", 6700, None, None, fh=(hsn, maio, ma_ms)),
                   T("BTS1", 5700, 890200, 935200, idx=1, parent=0), T("X", 6800, None, None, ver=1, fh=(hsn, (maio + 1) % n, ma_x)),
                   T("BTS2", 5700, 890400, 935400, idx=2, parent=0, ver=1), T("OFFH", 6900, None, None, on=False, fh=(hsn, maio, ma_ms))]
            step = 1 if (hsn, n) in ((17, 3), (0, 8), (63, 5)) else 11
            ticks = []
            for k, fn in enumerate(fns[::step] + list(FN_EDGES)):
                ticks.append({"fn": fn, "direct": k % 4 == 3, "bursts": [B(1, tn=k % 8, bseed=k), B(0, tn=(k + 1) % 8, bseed=k + 1)] + ([B(3, tn=(k + 2) % 8)] if k % 3 == 0 else [])})
            out.append(("hopping hsn=%d n=%d" % (hsn, n), {"trx": trx, "ticks": ticks}))
    # a hopping assignment replaced while hopping: same sequence with another MAIO, another HSN, a shorter allocation - the last one counts
    for hsn in (0, 9):
        ma_ms = [(935000 + 200 * i, 890000 + 200 * i) for i in range(4)]
        for hist in ([(hsn, 0, ma_ms)], [(hsn, 3, ma_ms), (hsn, 2, ma_ms)], [((hsn + 5) % 64, 1, ma_ms)], [(hsn, 0, ma_ms[:2])]):
            trx = [T("BTS%d" % i, 5700, 890000 + 200 * i, 935000 + 200 * i, idx=i, parent=None if i == 0 else 0, ver=i % 2) for i in range(4)]
            ms = T("MSH", 6700, None, None, fh=(hsn, 1, ma_ms))
            ms["fh_history"] = hist
            trx.append(ms)
            ticks = [{"fn": fn, "direct": fn % 3 == 0, "bursts": [B(4, tn=fn % 8, bseed=fn)] + [B(fn % 4, tn=(fn + 1) % 8, bseed=fn + 7)]} for fn in list(range(0, 60)) + list(FN_EDGES)]
            out.append(("SETFH replaced (hsn=%d, earlier %s)" % (hsn, [(h[0], h[1], len(h[2])) for h in hist]), {"trx": trx, "ticks": ticks}))
    # parent / child power propagation
    for mgt in (True, False):
        for con in (True, False):
            trx = [T("BTS", 5700, UL, DL, mgt=mgt), T("MS", 6700, DL, UL, ver=1, mgt=False), T("BTS/1", 5700, UL, DL, idx=1, parent=0, on=con, ver=1),
                   T("BTS/2", 5700, UL, DL, idx=2, parent=0, on=not con), T("MS/1", 6700, DL, UL, idx=1, parent=1, on=con, ver=1)]
            out.append(("children mgt=%s" % mgt, {"trx": trx, "ticks": [{"fn": HYPER - 1, "bursts": [B(1, tn=7), B(0, tn=0)]}, {"fn": 0, "direct": True, "bursts": [B(1, tn=7)]},
                                                                       {"fn": 5, "bursts": [B(2 if con else 3, tn=4)]}]}))
    return out


def random_scenario(r):
    n = r.randint(2, 6)
    style = r.random()
    trx = [T("BTS", 5700, None, None), T("MS", 6700, None, None, mgt=False)]
    parents = [0, 1]
    nkids = {0: 0, 1: 0}
    while len(trx) < n:
        if r.random() < 0.55:
            p = r.choice(parents)
            nkids[p] += 1
            trx.append(T("%s/%d" % (trx[p]["name"], nkids[p]), trx[p]["port"], None, None, idx=nkids[p], parent=p))
        else:
            port = 5800 + 100 * len(trx)
            trx.append(T("X%d" % len(trx), port, None, None, mgt=r.random() < 0.7))
            parents.append(len(trx) - 1)
            nkids[len(trx) - 1] = 0
    ncell = r.choice((1, 2, 2, 3, 4, 8)) if r.random() < 0.97 else 64
    cell = [(935000 + 200 * (i % 4), 890000 + 200 * (i % 4)) for i in range(ncell)]      # (DL, UL) per channel
    hsn0, maio0 = r.randint(0, 63), r.randrange(ncell)
    for i, t in enumerate(trx):
        t["ver"] = r.randint(0, 1)
        t["mute"] = r.random() < 0.15
        t["on"] = r.random() < 0.8
        t["ta"] = r.choice((0, 0, 1, 63, r.randint(0, 63)))
        t["att"] = r.choice((0, 0, 0, 10, 20))
        ms_side = (t["name"].startswith("MS")) or (t["name"].startswith("X") and r.random() < 0.5)
        if style < 0.5:                     # cell-structured
            ch = r.randrange(ncell)
            t["rx"], t["tx"] = (cell[ch][0], cell[ch][1]) if ms_side else (cell[ch][1], cell[ch][0])
            if r.random() < 0.45:
                ma = [(c[0], c[1]) if ms_side else (c[1], c[0]) for c in cell]
                t["fh"] = (hsn0 if r.random() < 0.7 else r.randint(0, 63), maio0 if r.random() < 0.6 else r.randrange(ncell), ma)
        else:                               # arbitrary
            t["rx"], t["tx"] = r.choice(POOL), r.choice(POOL)
            if r.random() < 0.4:
                nn = r.choice((1, 2, 3, 4, 5, 8))
                t["fh"] = (r.randint(0, 63), r.randrange(nn), [(r.choice(POOL), r.choice(POOL)) for _ in range(nn)])
        if t["fh"] is not None and r.random() < 0.4:
            hsn_, maio_, ma_ = t["fh"]
            hist = []
            for _ in range(r.choice((1, 1, 2))):
                kind = r.random()
                if kind < 0.5 and len(ma_) > 1:
                    hist.append((hsn_, (maio_ + r.randrange(1, len(ma_))) % len(ma_), ma_))      # only the MAIO differs from the final assignment
                elif kind < 0.75:
                    hist.append(((hsn_ + r.randrange(1, 64)) % 64, maio_, ma_))
                else:
                    hist.append((hsn_, 0, ma_[:1]))
            t["fh_history"] = hist
        if t["fh"] is not None and r.random() < 0.3:
            t["rx"] = t["tx"] = None        # ready through SETFH only
        if t["fh"] is None and t["idx"] and not t["on"] and r.random() < 0.2:
            t["rx"] = None                  # an untuned idle child
    on = [i for i, t in enumerate(trx) if t["on"] and (t["fh"] is not None or t["tx"] is not None)]
    ticks = []
    if on:
        for k in range(6):
            fn = r.choice(FN_EDGES) if r.random() < 0.25 else r.randrange(HYPER)
            srcs = r.sample(on, min(len(on), r.choice((1, 1, 1, 2, 3))))
            tns = r.sample(range(8), len(srcs)) if r.random() < 0.8 else [7, 0, 3][:len(srcs)]
            ticks.append({"fn": fn, "direct": k % 4 == 3,
                          "bursts": [B(s, tn=tn, pwr=r.randint(0, 60 - trx[s]["att"]), bl=444 if r.random() < 0.15 else 148, bseed=r.randrange(1 << 30)) for s, tn in zip(srcs, tns)]})
    return {"trx": trx, "ticks": ticks}


def run(budget_s=20.0, seed=0):
    t0 = time.time()
    P = _um.Patches()
    fails, cases, k = [], 0, 0
    try:
        for tag, sc in fixed_scenarios():
            cases += run_scenario(sc, fails, tag)
            if len(fails) >= 5:
                break
        r = random.Random(seed)
        k = 0
        while time.time() - t0 < budget_s and len(fails) < 5:
            k += 1
            sc = random_scenario(r)
            cases += run_scenario(sc, fails, "random network #%d (seed %d)" % (k, seed))
    finally:
        P.restore()
    return {"cases": cases, "failures": _um.fit(fails), "networks": k}

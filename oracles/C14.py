"""C14 (Python half) - bounded native oracle: no datagram or capture content can crash the tools.

Public entry points driven with structured garbage, all sockets stubbed (recorders), capture files in memory:
  TxMsg/RxMsg.parse_msg                       any octet string: returns or raises ValueError (a subclass counts), nothing else
  DATAInterface.recv_raw_data/recv_tx_msg/recv_rx_msg   never raise; a returned message has the negotiated header version
  Transceiver.recv_data_msg                   never raises; a datagram that is too short for a header, of another version than negotiated, or
                                              received while idle is dropped: nothing is returned and no clock tick sends anything for it
  Transceiver.clck_tick (every transceiver, the frame of whatever was accepted)   never raises
  CTRLInterface.handle_rx                     never raises; at most one reply; nothing sent for datagrams without CMD prefix; nothing changed by
                                              those and by undecodable ones; a known verb with the right argument count and a non-numeric argument is
                                              answered with a non-zero status (or ignored) and changes nothing
  after the bad input                         valid commands get the replies and effects of the C05 model, a valid burst reaches the peer
  DATADumpFile.parse_msg / parse_all          never raise on any file content
  FakePM.measure                              never raises

Tracked session: the C05 rig (BTS, MS, NOPM with the concrete command model) - only inputs with a predictable outcome are injected there.
Untracked session: a second rig, set up with valid commands and then fed everything else (truncations, bit flips, huge / negative numbers,
odd white space, embedded NULs, valid UTF-8 digits of other scripts ...); there only 'returns normally', 'at most one reply', 'CMD
NOMTXPOWER is still answered' and 'bursts still do not raise' are judged.
"""
import io, os, re, time, random, logging
from engine.pyvc.harness import toolkit

HYPER = 2048 * 26 * 51

# Two classes of accepted-but-poisonous commands were found with this oracle and repaired in the repository (HSN outside 0..63 acknowledged
# with 0, then every burst raised IndexError out of clck_tick; a huge FAKE_TRXC_DELAY made this and every later response raise OverflowError).
# They are judged as 'either refused, or accepted and everything afterwards still works'.  The switches allow evaluating the oracle on a tree
# that still has them.
# ORACLE_C14_SKIP_OPEN=1 in the environment switches both off.
JUDGE_SETFH_RANGE = os.environ.get("ORACLE_C14_SKIP_OPEN") != "1"
JUDGE_TRXC_DELAY_RANGE = os.environ.get("ORACLE_C14_SKIP_OPEN") != "1"

BOUND = ("Python half only. Fixed part (about 25 000 inputs, 0.5 s): every truncation 0..len of valid Tx/Rx v0/v1 datagrams through parse_msg, "
         "recv_tx_msg/recv_rx_msg and - for the four (sender, receiver) version combinations, both directions - through recv_data_msg + "
         "clck_tick; every value of octet 0 and of the MTS octet; datagrams of 0..700 octets of 0x00/0xff/random fill; about 60 base commands x "
         "(every truncation, missing NUL, extra NULs, every argument replaced by each of 22 non-numeric / huge / negative / signed / padded "
         "tokens, 0..600 extra arguments, non-ASCII and non-UTF-8 octets at every position of a short command, lower case, odd white space); "
         "SETFH with HSN/MAIO outside 0..63 followed by traffic; FAKE_TRXC_DELAY with huge values; capture files: valid records with every "
         "truncation of the file, every tag value, every length field value around the real one, random tails. Budgeted part: seeded random "
         "sessions (tracked and untracked rig, 10..60 steps mixing valid commands, garbage on CTRL and DATA sockets, valid bursts), random "
         "parser / interface / capture inputs; about 20 000 inputs per second. trxcon's side (trx_if.c) is C code and is not reachable from here.")

BAD_TOKENS = ["abc", "1x", "x1", "0x10", "1e3", "5.5", "-", "+", "--1", "", "NaN", "inf", "9" * 30, "-" + "9" * 30, "1" + "0" * 400, "-1" + "0" * 400,
              "+5", "007", "-0", "5_0", "٣", "１２"]
CLEAR_NONNUMERIC = ("abc", "1x", "x1", "0x10", "1e3", "5.5", "-", "+", "--1", "NaN", "inf")


def _fake_sleep_factory(record):
    def fake_sleep(s):
        if not isinstance(s, (int, float)):
            raise TypeError("an integer or float is required")
        if s < 0:
            raise ValueError("sleep length must be non-negative")
        if s > 9.2e9:
            raise OverflowError("timestamp out of range for platform time_t")
        record.append(s)
    return fake_sleep


def excluded(d):
    """inputs of the two switched-off classes"""
    if not JUDGE_SETFH_RANGE and b"SETFH" in d:
        m = re.search(rb"SETFH\s+([^\s\0]+)(?:\s+([^\s\0]+))?", d)
        for g in (m.groups() if m else ()):
            try:
                if g is not None and not (0 <= int(g) <= 63):
                    return True
            except ValueError:
                pass
    if not JUDGE_TRXC_DELAY_RANGE and b"FAKE_TRXC_DELAY" in d and re.search(rb"[0-9]{10,}", d):
        return True
    return False


def run(budget_s=20.0, seed=0):
    t_end = time.time() + budget_s
    prev_disable = logging.root.manager.disable
    logging.disable(logging.CRITICAL)
    failures = []
    cases = [0]
    sleeps = []
    restore = []
    real_sleep = time.sleep

    def fail(what, inp, observed, expected):
        if len(failures) < 5:
            failures.append({"what": what, "input": inp, "observed": observed, "expected": expected})

    try:
        from contracts.py.native import patch_sockets
        from oracles import C05 as M
        ul = toolkit("udp_link")
        restore.append((ul, "socket", ul.socket))
        patch_sockets()
        ci = toolkit("ctrl_if")
        fake_sleep = _fake_sleep_factory(sleeps)
        restore.append((time, "sleep", real_sleep))
        time.sleep = fake_sleep
        if getattr(ci, "sleep", None) is real_sleep:
            restore.append((ci, "sleep", real_sleep))
            ci.sleep = fake_sleep
        dm, dd = toolkit("data_msg"), toolkit("data_dump")

        def exc(e):
            return "raises %s: %s" % (type(e).__name__, str(e)[:200])

        def hx(d):
            d = bytes(d)
            return {"len": len(d), "hex": d.hex() if len(d) <= 1100 else d[:1100].hex() + "..."}

        # ------------------------------------------------------------ 1. the parser
        def parse_case(cls, d, typ):
            cases[0] += 1
            m = dm.TxMsg() if cls == "tx" else dm.RxMsg()
            try:
                m.parse_msg(typ(d))
            except ValueError:
                return
            except Exception as e:
                fail("%s.parse_msg signals another exception than ValueError" % ("TxMsg" if cls == "tx" else "RxMsg"),
                     {"datagram": hx(d), "passed_as": typ.__name__}, exc(e), "returns or raises ValueError")

        # ------------------------------------------------------------ 2. the DATA interface
        def iface_case(di, cls, d, ver):
            cases[0] += 1
            try:
                di.set_hdr_ver(ver)
                di.sock.inbox.append((bytes(d), ("127.0.0.1", 4242)))
                r = di.recv_tx_msg() if cls == "tx" else di.recv_rx_msg()
            except Exception as e:
                fail("DATAInterface.recv_%s_msg raises" % cls, {"datagram": hx(d), "negotiated_version": ver}, exc(e), "returns None or a message")
                del di.sock.inbox[:]
                return
            if r is not None and r is not False and getattr(r, "ver", ver) != ver:
                fail("DATAInterface.recv_%s_msg lets another version through" % cls, {"datagram": hx(d), "negotiated_version": ver}, getattr(r, "ver", None), ver)

        def raw_case(di, d):
            cases[0] += 1
            try:
                di.sock.inbox.append((bytes(d), ("127.0.0.1", 4242)))
                r = di.recv_raw_data()
                if bytes(r) != bytes(d)[:len(r)] or (len(d) <= 512 and len(r) != len(d)):
                    fail("DATAInterface.recv_raw_data", {"datagram": hx(d)}, hx(r), "the datagram (at least its first 512 octets)")
            except Exception as e:
                fail("DATAInterface.recv_raw_data raises", {"datagram": hx(d)}, exc(e), "returns the octets")
                del di.sock.inbox[:]

        # ------------------------------------------------------------ 3./4. sessions
        SRC = [("127.0.0.1", 5801), ("10.9.8.7", 31000)]

        last = [None]

        def clip(d):
            r = repr(bytes(d))
            return r if len(r) <= 240 else r[:150] + " ... " + r[-60:]

        def hist(rig):
            return {"transceivers": "BTS, MS: FakeTRX sharing one FakePM and one BurstForwarder; NOPM: FakeTRX without power measurement",
                    "history": rig.history[-40:], "last_injected_datagram": last[0]}

        def ctrl_garbage(rig, i, d, label, tracked):
            """label: 'noncmd' | 'undecodable' | ('nonnumeric', verb) | 'unclear'.  Returns False after a failure."""
            if excluded(d):
                return True
            cases[0] += 1
            rig.history.append([rig.names[i], {"ctrl": clip(d), "ctrl_len": len(d)}, list(SRC[0])])
            last[0] = {"socket": "CTRL of " + rig.names[i], "hex": bytes(d).hex()}
            got = rig.feed(i, bytes(d), SRC[0])
            if isinstance(got, str):
                fail("CTRLInterface.handle_rx raises", hist(rig), got, "returns normally")
                return False
            if len(got) > 1:
                fail("more than one datagram sent for one control datagram", hist(rig), [repr(g[0])[:80] for g in got], "at most one reply")
                return False
            if label == "noncmd" and got:
                fail("reply to a datagram that is no command", hist(rig), repr(got[0][0])[:200], "nothing sent")
                return False
            if isinstance(label, tuple) and got:
                data = got[0][0]
                toks = data.rstrip(b"\0").split(b" ") if isinstance(data, bytes) else []
                ok = len(toks) >= 3 and toks[0] == b"RSP" and toks[1] == label[1].encode()
                try:
                    ok = ok and int(toks[2]) != 0
                except Exception:
                    ok = False
                if not ok:
                    fail("non-numeric argument not answered with an error status", hist(rig), repr(data)[:200], "'RSP %s <non-zero status> ...' or nothing" % label[1])
                    return False
            if tracked:
                for j in range(len(rig.trx)):
                    bad = rig.observe_mismatch(j)
                    if bad:
                        fail("state of %s changed by a rejected control datagram: %s" % (rig.names[j], bad[0]), hist(rig), bad[1], bad[2])
                        return False
            return True

        def alive(rig, i):
            """a valid command after bad input on an untracked transceiver"""
            cases[0] += 1
            rig.history.append([rig.names[i], "CMD NOMTXPOWER", list(SRC[1])])
            got = rig.feed(i, b"CMD NOMTXPOWER\0", SRC[1])
            exp = [(("RSP NOMTXPOWER 0 %d\0" % rig.model[i].nominal).encode(), SRC[1])]
            if got != exp:
                fail("valid command after bad input not served", hist(rig), got if isinstance(got, str) else [repr(g[0])[:120] for g in got], repr(exp[0][0]))
                return False
            return True

        def data_garbage(rig, i, d, tracked, rnd):
            cases[0] += 1
            t = rig.trx[i]
            fn = (int.from_bytes(d[1:5], "big") % HYPER) if len(d) >= 5 else rnd.randrange(HYPER)
            rig.history.append([rig.names[i], {"data": clip(d), "data_len": len(d), "then": "recv_data_msg(); clck_tick(fwd, %d) on BTS and MS" % fn}, []])
            last[0] = {"socket": "DATA of " + rig.names[i], "hex": bytes(d).hex()}
            for x in rig.trx:
                del x.data_if.sock.sent[:]
                del x.ctrl_if.sock.sent[:]
            try:
                t.data_if.sock.inbox.append((bytes(d), ("127.0.0.1", 4242)))
                r = t.recv_data_msg()
            except Exception as e:
                del t.data_if.sock.inbox[:]
                fail("Transceiver.recv_data_msg raises", hist(rig), exc(e), "returns normally")
                return False
            try:
                for x in rig.list.trx_list:
                    x.clck_tick(rig.fwd, fn)
                if t not in rig.list.trx_list:
                    t.clck_tick(rig.fwd, fn)
            except Exception as e:
                fail("Transceiver.clck_tick raises after an accepted datagram", hist(rig), exc(e), "returns normally")
                return False
            if tracked:
                m = rig.model[i]
                malformed = len(d) < 6 or (d[0] >> 4) != m.ver or not m.running
                if malformed:
                    out = [(rig.names[k], len(x.data_if.sock.sent) + len(x.ctrl_if.sock.sent)) for k, x in enumerate(rig.trx) if x.data_if.sock.sent or x.ctrl_if.sock.sent]
                    if (r is not None and r is not False) or out:
                        fail("malformed / unexpected data datagram had an effect", hist(rig), {"returned": "a message" if r else repr(r), "datagrams_sent": out}, "dropped: nothing returned, nothing sent")
                        return False
                for j in range(len(rig.trx)):
                    bad = rig.observe_mismatch(j)
                    if bad:
                        fail("state of %s changed by a data datagram: %s" % (rig.names[j], bad[0]), hist(rig), bad[1], bad[2])
                        return False
            return True

        def valid_cmd(rig, i, verb, args):
            cases[0] += 1
            bad = rig.command(i, verb, M.fit_1023(verb, [str(a) for a in args]), SRC[(len(rig.history)) % 2])
            if bad:
                fail("valid command in a session with bad input: " + bad[0], hist(rig), bad[1], bad[2])
                return False
            return True

        def valid_burst(rig, a, b, fn, rnd):
            cases[0] += 1
            bad = rig.burst(a, b, fn, rnd)
            if bad:
                fail("valid burst in a session with bad input: " + bad[0], hist(rig), bad[1], bad[2])
                return False
            return True

        def tx_dgram(ver, tn, fn, pwr, bits):
            return bytes([(ver << 4) | tn]) + int(fn).to_bytes(4, "big") + bytes([pwr]) + bytes(bits)

        def rx_dgram(ver, tn, fn, nbits, rnd, mts=0):
            d = bytes([(ver << 4) | tn]) + int(fn).to_bytes(4, "big") + bytes([60, 0, 5])
            if ver == 1:
                d += bytes([mts, 0, 90])
            return d + bytes(rnd.randrange(255) for _ in range(nbits))

        def text(verb, args, nul=True):
            return ("CMD " + " ".join([verb] + [str(a) for a in args]) + ("\0" if nul else "")).encode()

        LINK = [(0, "RXTUNE", [890200]), (0, "TXTUNE", [935200]), (1, "RXTUNE", [935200]), (1, "TXTUNE", [890200]), (0, "POWERON", []), (1, "POWERON", [])]

        def setup(rig, cmds):
            for c in cmds:
                if not valid_cmd(rig, *c):
                    return False
            return True

        def new_rig():
            return M.Rig(toolkit, sleeps)

        # ------------------------------------------------------------ 5. capture files
        def capture_case(blob, how):
            cases[0] += 1
            try:
                f = dd.DATADumpFile(io.BytesIO(bytes(blob)))
                if how[0] == "all":
                    r = f.parse_all() if how[1] is None and how[2] is None else f.parse_all(skip=how[1], count=how[2])
                    ok = r is False or isinstance(r, list)
                else:
                    r = f.parse_msg(how[1])
                    ok = r is None or r is False or isinstance(r, dm.Msg)
                if not ok:
                    fail("DATADumpFile.parse_%s result" % ("all" if how[0] == "all" else "msg"), {"file": hx(blob), "call": list(how)}, repr(r)[:100], "list / False" if how[0] == "all" else "message / None / False")
            except Exception as e:
                fail("DATADumpFile.parse_%s raises" % ("all" if how[0] == "all" else "msg"), {"file": hx(blob), "call": list(how)}, exc(e), "returns normally")

        def record(tag, body, length=None):
            return bytes([tag]) + (len(body) if length is None else length).to_bytes(2, "big") + body

        # ============================================================ fixed part
        r0 = random.Random(1414)
        bits148 = [r0.getrandbits(1) for _ in range(148)]
        base = {("tx", 0): tx_dgram(0, 3, 1000, 7, bits148) + b"\0\0", ("tx", 1): tx_dgram(1, 3, 1000, 7, bits148),
                ("rx", 0): rx_dgram(0, 3, 1000, 148, r0) + b"\0\0", ("rx", 1): rx_dgram(1, 3, 1000, 148, r0, mts=0x0a)}
        for (cls, ver), b in base.items():
            for n in range(len(b) + 1):
                parse_case(cls, b[:n], bytearray)
                if cls == "tx":
                    parse_case(cls, b[:n], bytes)
            for v in range(256):
                for n in (5, 6, 8, 11, len(b)):
                    parse_case(cls, bytes([v]) + b[1:n], bytearray)
            if (cls, ver) == ("rx", 1):
                for v in range(256):
                    for bl in (0, 1, 148, 150, 444):
                        parse_case(cls, b[:8] + bytes([v]) + b[9:11] + bytes(bl), bytearray)
        for n in list(range(0, 20)) + [147, 148, 149, 153, 154, 155, 156, 157, 158, 159, 160, 161, 296, 443, 444, 450, 452, 455, 457, 512, 513, 700]:
            for fill in (0x00, 0xff, 0x01, 0x10, 0x17, 0x20, 0x80):
                for cls in ("tx", "rx"):
                    parse_case(cls, bytes([fill]) * n, bytearray)

        rig = new_rig()
        di = rig.trx[0].data_if
        for (cls, ver), b in base.items():
            for neg in (0, 1):
                for n in range(len(b) + 1):
                    iface_case(di, cls, b[:n], neg)
                for v in range(0, 256, 3):
                    iface_case(di, cls, bytes([v]) + b[1:], neg)
        for n in (0, 1, 5, 6, 154, 511, 512, 513, 600, 1500):
            raw_case(di, bytes(r0.randrange(256) for _ in range(n)))
            iface_case(di, "tx", bytes([0]) + bytes(r0.randrange(2) for _ in range(max(0, n - 1))), 0)
            iface_case(di, "rx", bytes([0x10]) + bytes(r0.randrange(256) for _ in range(max(0, n - 1))), 1)
        try:
            di.set_hdr_ver(0)
        except Exception:
            pass

        # data socket: every truncation, four version combinations, both directions, valid traffic afterwards
        for va in (0, 1):
            for vb in (0, 1):
                for a in (0, 1):
                    if failures:
                        break
                    rig = new_rig()
                    if not setup(rig, LINK + [(0, "SETFORMAT", [va if a == 0 else vb]), (1, "SETFORMAT", [vb if a == 0 else va])]):
                        break
                    full = tx_dgram(va, 2, 500, 9, bits148) + (b"\0\0" if va == 0 else b"")
                    for n in list(range(len(full) + 1)) + [len(full)]:
                        d = full[:5 - 4] + (500 + n).to_bytes(4, "big") + full[5:]
                        if not data_garbage(rig, a, d[:n], True, r0):
                            break
                        if n % 16 == 6 or n == len(full):
                            if not valid_burst(rig, a, 1 - a, 700 + n, r0) or not valid_cmd(rig, a, "SETPOWER", [n % 30]) or not valid_cmd(rig, a, "SETPOWER", [0]):
                                break
                    for v in range(256):
                        if failures or not data_garbage(rig, a, bytes([v]) + full[1:], True, r0):
                            break
                        if v % 32 == 0 and not data_garbage(rig, a, bytes([v]) + full[1:6], True, r0):
                            break
                    for d in (tx_dgram(va, 7, HYPER, 0, bits148), tx_dgram(va, 0, 0xffffffff, 255, bits148), tx_dgram(va, 0, HYPER - 1, 255, [1] * 444),
                              tx_dgram(va, 0, 5, 0, [0xff] * 148), tx_dgram(va, 0, 5, 0, [1] * 10), tx_dgram(va, 0, 5, 0, [1] * 500), rx_dgram(va, 0, 9, 148, r0), b"", b"\0", bytes(600)):
                        if failures or not data_garbage(rig, a, d, True, r0):
                            break
                    if not failures:
                        valid_burst(rig, a, 1 - a, 12345, r0)
                        valid_burst(rig, 1 - a, a, 12346, r0)

        # control socket, tracked rig: predictable classes
        BASES = [("POWERON", []), ("POWEROFF", []), ("RXTUNE", [935200]), ("TXTUNE", [890200]), ("MEASURE", [935200]), ("SETFH", [5, 1, 935200, 890200, 935400, 890400]),
                 ("SETFORMAT", [1]), ("SETPOWER", [10]), ("NOMTXPOWER", []), ("RFMUTE", [1]), ("SETTA", [2]), ("FAKE_TOA", [10, 2]), ("FAKE_TOA", [-3]), ("FAKE_RSSI", [-80, 3]),
                 ("FAKE_RSSI", [2]), ("FAKE_CI", [100, 5]), ("FAKE_CI", [-9]), ("FAKE_DROP", [3]), ("FAKE_DROP", [3, 51]), ("FAKE_TRXC_DELAY", [20]), ("SETSLOT", [1, 7]), ("XYZZY", [])]
        NONCMD = [b"", b"\0", b"C", b"CM", b"cmd POWERON\0", b"RSP POWERON 0\0", b" CMD POWERON\0", b"\0CMD POWERON\0", b"IND CLOCK 1\0", b"POWERON\0", b"\n", b"RSP MEASURE 0 935200 -60\0",
                  b"RSP " + b"A" * 2000, b"\x7f" * 50]
        UNDEC = [b"\xff\xfe\x80CMD POWERON\0", b"CMD POWERON\xff\0", b"CMD RXTUNE \xc3\0", b"\x80", b"CMD \xe2\x28\xa1 1\0", b"CMD SETFH 1 2 935200 8902\xf0\x28\x8c\x28\0", bytes(range(128, 256)),
                 b"CMD RXTUNE 9352\xc0\xaf\0", b"\xed\xa0\x80CMD", b"CMD TXTUNE 935200\0\xff"]
        for state in ([], LINK + [(1, "SETFORMAT", [1]), (1, "SETTA", [3])], [(1, "SETFH", [7, 2, 935200, 890200, 935400, 890400]), (1, "POWERON", [])]):
            if failures:
                break
            rig = new_rig()
            setup(rig, state)
            for d in NONCMD:
                if not ctrl_garbage(rig, 1, d, "noncmd", True):
                    break
            for d in UNDEC:
                if not ctrl_garbage(rig, 1, d, "undecodable", True):
                    break
            for verb, args in BASES:
                for k in range(len(args)):
                    for tok in CLEAR_NONNUMERIC:
                        a2 = [str(x) for x in args]
                        a2[k] = tok
                        d = ("CMD " + " ".join([verb] + a2) + "\0").encode()
                        if verb in M.KNOWN and not ctrl_garbage(rig, 1, d, ("nonnumeric", verb), True):
                            break
            if not failures:
                setup(rig, [(1, "NOMTXPOWER", []), (1, "SETTA", [5]), (1, "FAKE_TOA", [7, 0]), (1, "POWEROFF", []), (1, "RXTUNE", [935200]), (1, "TXTUNE", [890200]), (1, "POWERON", [])])

        # negative thresholds / drop parameters, then traffic on a version-1 link
        for cmd in (("FAKE_TOA", [0, -5]), ("FAKE_CI", [0, -5]), ("FAKE_RSSI", [-70, -5]), ("FAKE_DROP", [-1]), ("FAKE_DROP", [2, 0]), ("FAKE_DROP", [2, -3]),
                    ("FAKE_TOA", [0, -1]), ("FAKE_CI", [50, -1280])):
            if failures:
                break
            for rxver in (0, 1):
                # untracked: whatever the answer is, traffic must go on without exceptions
                rig = new_rig()
                if setup(rig, LINK + [(1, "SETFORMAT", [rxver])]) and ctrl_garbage(rig, 1, text(cmd[0], cmd[1]), "unclear", False):
                    for fn in (51, 52, 102):
                        if not data_garbage(rig, 0, tx_dgram(0, 1, fn, 3, bits148), False, r0):
                            break
                    else:
                        alive(rig, 1)
                # tracked: the documented refusal, then a valid burst
                rig = new_rig()
                if not failures and setup(rig, LINK + [(1, "SETFORMAT", [rxver]), (1, cmd[0], cmd[1])]):
                    valid_burst(rig, 0, 1, 51, r0) and data_garbage(rig, 0, tx_dgram(0, 1, 102, 3, bits148), True, r0) and valid_burst(rig, 1, 0, 52, r0)

        # control socket, untracked rig: everything else
        def usession(gen):
            rig = new_rig()
            if not setup(rig, LINK + [(1, "SETFORMAT", [1])]):
                return
            k = 0
            for d in gen:
                k += 1
                i = k % 2
                if not ctrl_garbage(rig, i, d, "unclear", False):
                    return
                if k % 5 == 0:
                    if not alive(rig, i):
                        return
                    if not data_garbage(rig, i, tx_dgram(k % 2, k % 8, 3000 + k, 5, bits148), False, r0):
                        return
                    if not data_garbage(rig, 1 - i, tx_dgram((k + 1) % 2, k % 8, 3000 + k, 5, bits148), False, r0):
                        return
            alive(rig, 0) and alive(rig, 1)

        def gen_trunc():
            for verb, args in BASES:
                d = text(verb, args)
                for n in range(len(d) + 1):
                    yield d[:n]
        usession(gen_trunc())

        def gen_tokens():
            for verb, args in BASES:
                for k in range(len(args)):
                    for tok in BAD_TOKENS:
                        a2 = [str(x) for x in args]
                        a2[k] = tok
                        yield ("CMD " + " ".join([verb] + a2) + "\0").encode()
                for extra in (1, 2, 3, 10, 100, 600):
                    yield text(verb, list(args) + [7] * extra)
                yield text(verb, args, nul=False)
                yield text(verb, args) + b"\0\0\0"
                yield text(verb, args) + b"trailing"
                yield text(verb, args)[:-1] + b" \0"
                yield text(verb, args).replace(b" ", b"  ")
                yield text(verb, args).replace(b" ", b"\t")
                yield text(verb, args)[:-1] + b"\n\0"
                yield text(verb, args)[:-1] + b"\r\n"
                yield text(verb, args).lower()
                yield b"CMD" + text(verb, args)[4:]
                yield b"CMDX" + text(verb, args)[4:]
                yield text(verb, args).replace(b" ", b"\0", 1)
                yield text(verb, args) * 3
                yield text(verb, args)[:-1] + b" " * 1100 + b"\0"
        if not failures:
            usession(gen_tokens())

        def gen_octets():
            for d in (b"CMD SETTA 3\0", b"CMD FAKE_TOA 10 2\0"):
                for pos in range(len(d)):
                    for v in (0x00, 0x20, 0x2d, 0x30, 0x39, 0x41, 0x7f, 0x80, 0xc3, 0xe2, 0xff):
                        yield d[:pos] + bytes([v]) + d[pos + 1:]
                    yield d[:pos] + "é".encode() + d[pos:]
                    yield d[:pos] + "٣".encode() + d[pos:]
            for d in (b"CMD", b"CMD ", b"CMD\0", b"CMD  ", b"CMD \0", b"CMD  \0 ", b"CMD " + b"A" * 1020, b"CMD " + b"A" * 5000, b"CMD " + b"1 " * 2000, b"CMD SETFH" + b" 1" * 511 + b"\0",
                      b"CMD SETFH 1 1" + b" 935200" * 140 + b"\0", b"CMD SETFH 1 1 935200\0", b"CMD SETFH 1 1 935200 890200 935400\0", b"CMD SETFH 5 99 935200 890200\0",
                      b"CMD SETFH 5 -7 935200 890200\0", b"CMD SETTA 99999\0", b"CMD SETTA -1\0", b"CMD FAKE_TOA 1000000000000 0\0", b"CMD SETPOWER -1000000000000\0",
                      b"CMD FAKE_RSSI 5 100000000000000000000000000000\0", b"CMD FAKE_CI 99999999999999999999 3\0", b"CMD FAKE_DROP 5 100000000000000000000\0",
                      b"CMD RXTUNE -5\0", b"CMD TXTUNE 0\0", b"CMD MEASURE -1\0", b"CMD MEASURE 99999999999999999999\0", b"CMD SETFORMAT 99999999999999999999\0",
                      b"CMD SETFORMAT -99999999999999999999\0", b"CMD RFMUTE 99999999999999999999\0", b"CMD FAKE_TRXC_DELAY -5\0", b"CMD FAKE_TRXC_DELAY 250\0"):
                yield d
        if not failures:
            usession(gen_octets())

        # the two classes behind the switches: accepted, then every burst / response must still be served
        if JUDGE_SETFH_RANGE and not failures:
            for who in (0, 1):
                for hsn, maio in ((64, 0), (1000, 0), (-1, 0), (-500, 3), (5, 64), (5, 1000), (5, -70), (10 ** 12, 10 ** 12)):
                    if failures:
                        break
                    rig = new_rig()
                    fr = [890200, 935200, 890400, 935400] if who == 0 else [935200, 890200, 935400, 890400]
                    if not setup(rig, LINK[:4]):
                        break
                    ok = ctrl_garbage(rig, who, text("SETFH", [hsn, maio] + fr), "unclear", False)
                    for c in ("CMD POWERON\0", ):
                        ok = ok and ctrl_garbage(rig, 0, c.encode(), "unclear", False) and ctrl_garbage(rig, 1, c.encode(), "unclear", False)
                    for fn in (0, 51, 1326 * 64 - 1, HYPER - 1):
                        ok = ok and data_garbage(rig, 0, tx_dgram(0, 1, fn, 3, bits148), False, r0) and data_garbage(rig, 1, tx_dgram(0, 1, fn, 3, bits148), False, r0)
                    ok and alive(rig, who) and ctrl_garbage(rig, 1 - who, b"CMD MEASURE 935200\0", "unclear", False)
        if JUDGE_TRXC_DELAY_RANGE and not failures:
            for val in ("1" + "0" * 400, "10000000000000", "99999999999999999999", "-1" + "0" * 400, str(2 ** 63), str(2 ** 31)):
                rig = new_rig()
                ctrl_garbage(rig, 0, ("CMD FAKE_TRXC_DELAY %s\0" % val).encode(), "unclear", False) and alive(rig, 0) and alive(rig, 1) \
                    and ctrl_garbage(rig, 0, b"CMD FAKE_TRXC_DELAY 0\0", "unclear", False) and alive(rig, 0)
                if failures:
                    break

        # capture files
        t1 = tx_dgram(0, 1, 10, 2, bits148)
        rx1 = rx_dgram(1, 2, 11, 148, r0, mts=0x09)
        good = record(1, t1) + record(2, rx1) + record(1, tx_dgram(1, 5, 12, 0, [1] * 444)) + record(2, rx_dgram(0, 0, 13, 444, r0))
        HOWS = [("all", None, None), ("all", 1, None), ("all", 0, 2), ("all", 3, 1), ("all", 9, None), ("msg", 0), ("msg", 1), ("msg", 3), ("msg", 4), ("msg", 50)]
        for n in range(len(good) + 1):
            for how in (HOWS if n % 7 == 0 or n < 12 or n > len(good) - 6 else HOWS[:1] + HOWS[5:7]):
                capture_case(good[:n], how)
        for tag in range(256):
            capture_case(record(tag, t1) + record(2, rx1), HOWS[0])
            capture_case(record(1, t1) + record(tag, rx1), HOWS[1])
            capture_case(record(1, t1) + record(tag, rx1), HOWS[6])
        for L in list(range(0, 12)) + [len(t1) - 1, len(t1), len(t1) + 1, len(t1) + 2, 512, 65535]:
            for how in HOWS:
                capture_case(record(1, t1, length=L) + record(2, rx1), how)
                capture_case(record(2, rx1, length=L) + record(1, t1) + bytes(L % 5), how)
        for v in range(256):
            capture_case(record(1, bytes([v]) + t1[1:]) + record(2, bytes([v]) + rx1[1:]) + record(2, rx1[:8] + bytes([v]) + rx1[9:]), HOWS[0])
        for blob in (b"", b"\1", b"\1\0", b"\1\0\0", b"\2\0\0", b"\2\0\5abcde", b"\1\xff\xff", b"\3\0\0", bytes(1000), b"\xff" * 1000, b"\1\0\6" * 300, b"\2\0\x08" + bytes(8) + b"\2\0\x0b" + bytes([0x10]) + bytes(10)):
            for how in HOWS:
                capture_case(blob, how)

        # FakePM on whatever state a rig is in
        try:
            for fq in (0, -1, 935200000, 10 ** 30):
                cases[0] += 1
                v = rig.pm.measure(fq)
                if not isinstance(v, int):
                    fail("FakePM.measure result", {"freq": fq}, repr(v), "an integer level")
        except Exception as e:
            fail("FakePM.measure raises", {"freq": fq}, exc(e), "returns a level")

        # ============================================================ budgeted random part
        rnd = random.Random(seed)

        def rand_ctrl_garbage():
            """(datagram, label) - label says what may be judged"""
            verb, args = M.rand_cmd(rnd)
            args = M.fit_1023(verb, list(args))
            d = text(verb, args)
            r = rnd.randrange(14)
            if r == 0:
                return rnd.choice(NONCMD), "noncmd"
            if r == 1:
                pos = rnd.randrange(len(d))
                return d[:pos] + rnd.choice((b"\xff", b"\x80", b"\xc3", b"\xe2\x28", b"\xf0\x28\x8c", b"\xc0\xaf")) + d[pos + rnd.randrange(2):], "undecodable"
            if r == 2 and args and verb in M.KNOWN and not M.wrong_arity(verb, len(args)):
                a2 = list(args)
                k = rnd.randrange(len(a2))
                if verb == "FAKE_RSSI" and len(a2) == 2 and int(a2[1]) < 0:
                    k = 1               # a negative threshold only switches the fake RSSI off; the base is not looked at then
                a2[k] = rnd.choice(CLEAR_NONNUMERIC)
                return ("CMD " + " ".join([verb] + a2) + "\0").encode(), ("nonnumeric", verb)
            if r == 3 and args:
                a2 = list(args)
                a2[rnd.randrange(len(a2))] = rnd.choice(BAD_TOKENS)
                return ("CMD " + " ".join([verb] + a2) + "\0").encode(), "unclear"
            if r == 4:
                return d[:rnd.randrange(len(d) + 1)], "unclear"
            if r == 5:
                b = bytearray(d)
                for _ in range(rnd.randrange(1, 4)):
                    b[rnd.randrange(len(b))] ^= 1 << rnd.randrange(8)
                return bytes(b), "unclear"
            if r == 6:
                b = bytearray(d)
                for _ in range(rnd.randrange(1, 4)):
                    b[rnd.randrange(len(b))] = rnd.randrange(256)
                return bytes(b), "unclear"
            if r == 7:
                return text(verb, list(args) + [rnd.randrange(-9, 999999) for _ in range(rnd.choice((1, 2, 5, 50, 300)))]), "unclear"
            if r == 8:
                return text(verb, [rnd.choice((10 ** rnd.randrange(1, 40), -10 ** rnd.randrange(1, 40), rnd.randrange(-2 ** 40, 2 ** 40))) for _ in args] or [10 ** 20]), "unclear"
            if r == 9:
                return bytes(rnd.randrange(256) for _ in range(rnd.choice((0, 1, 3, 4, 5, 20, 200, 1023, 1024, 1025, 3000)))), "unclear"
            if r == 10:
                return b"CMD " + bytes(rnd.choice(b"ABCSETFHPOWRN_ 0123456789-+.\0\t") for _ in range(rnd.randrange(0, 60))), "unclear"
            if r == 11:
                return rnd.choice((d[:-1], d + b"\0", d.replace(b" ", b"  ", 1), d[:-1] + b" \0", d.lower(), d[:-1] + b"\n", b" " + d)), "unclear"
            if r == 12:
                return rnd.choice((b"RSP ", b"IND ", b"CMd ", b"XMD ")) + d[4:], "noncmd"
            return d * rnd.randrange(2, 4), "unclear"

        def rand_data_garbage(ver):
            r = rnd.randrange(10)
            n = rnd.choice((148, 444))
            full = tx_dgram(ver, rnd.randrange(8), rnd.choice((rnd.randrange(HYPER), HYPER - 1, 0)), rnd.randrange(256), [rnd.getrandbits(1) for _ in range(n)]) + (b"\0\0" if rnd.random() < 0.3 else b"")
            if r == 0:
                return full[:rnd.randrange(len(full) + 1)]
            if r == 1:
                return full[:rnd.randrange(0, 12)]
            if r == 2:
                b = bytearray(full)
                for _ in range(rnd.randrange(1, 5)):
                    b[rnd.randrange(min(len(b), 8))] = rnd.randrange(256)
                return bytes(b)
            if r == 3:
                return bytes([rnd.randrange(256)]) + full[1:]
            if r == 4:
                return bytes(rnd.randrange(256) for _ in range(rnd.choice((0, 1, 5, 6, 7, 8, 11, 100, 154, 156, 450, 512, 600))))
            if r == 5:
                return full[:6] + bytes(rnd.randrange(256) for _ in range(rnd.choice((1, 2, 147, 148, 149, 150, 296, 443, 444, 445, 446, 500))))
            if r == 6:
                return rx_dgram(rnd.randrange(2), rnd.randrange(8), rnd.randrange(HYPER), rnd.choice((0, 148, 444)), rnd, mts=rnd.randrange(256))
            if r == 7:
                return full[:1] + rnd.choice((HYPER, 2 ** 32 - 1, 2 ** 31, HYPER + 5)).to_bytes(4, "big") + full[5:]
            if r == 8:
                return bytes([(ver ^ 1) << 4]) + full[1:]
            return full

        while not failures and time.time() < t_end:
            # --- a tracked session
            rig = new_rig()
            ok = setup(rig, LINK[:rnd.choice((0, 4, 6, 6, 6))] + ([(rnd.randrange(2), "SETFORMAT", [1])] if rnd.random() < 0.5 else []))
            for _ in range(rnd.randrange(10, 60)):
                if not ok or failures:
                    break
                r = rnd.random()
                i = rnd.randrange(2) if r > 0.05 else 2
                if r < 0.3:
                    verb, args = M.rand_cmd(rnd)
                    ok = valid_cmd(rig, i, verb, args)
                elif r < 0.55:
                    d, label = rand_ctrl_garbage()
                    if label in ("noncmd", "undecodable") or isinstance(label, tuple):
                        ok = ctrl_garbage(rig, i, d, label, True)
                elif r < 0.85:
                    if all(m.drop_amount == 0 for m in rig.model) and i < 2:
                        ok = data_garbage(rig, i, rand_data_garbage(rig.model[i].ver), True, rnd)
                else:
                    a = rnd.randrange(2)
                    ok = valid_burst(rig, a, 1 - a, rnd.choice((0, HYPER - 1, rnd.randrange(HYPER))), rnd)
            # --- an untracked session
            if failures:
                break
            rig = new_rig()
            ok = setup(rig, LINK + ([(rnd.randrange(2), "SETFORMAT", [1])] if rnd.random() < 0.6 else []))
            for k in range(rnd.randrange(10, 60)):
                if not ok or failures:
                    break
                i = rnd.randrange(2)
                r = rnd.random()
                if r < 0.6:
                    d, _label = rand_ctrl_garbage()
                    ok = ctrl_garbage(rig, i, d, "unclear", False)
                elif r < 0.9:
                    ok = data_garbage(rig, i, rand_data_garbage(rnd.randrange(2)), False, rnd)
                else:
                    ok = alive(rig, i)
            if ok and not failures:
                alive(rig, 0) and alive(rig, 1) and data_garbage(rig, 0, tx_dgram(0, 0, 7, 0, bits148), False, rnd) and data_garbage(rig, 0, tx_dgram(1, 0, 8, 0, bits148), False, rnd)
            # --- parser, interface, capture
            for _ in range(40):
                cls = rnd.choice(("tx", "rx"))
                d = rand_data_garbage(rnd.randrange(2)) if rnd.random() < 0.7 else rx_dgram(rnd.randrange(3), rnd.randrange(8), rnd.randrange(2 ** 32), rnd.choice((0, 1, 148, 150, 296, 444, 446, 592, 740, 742, rnd.randrange(800))), rnd, mts=rnd.randrange(256))
                if rnd.random() < 0.3:
                    d = d[:rnd.randrange(len(d) + 1)]
                parse_case(cls, d, bytearray if cls == "rx" or rnd.random() < 0.5 else bytes)
                iface_case(di, cls, d, rnd.randrange(2))
            try:
                di.set_hdr_ver(0)
            except Exception:
                pass
            for _ in range(6):
                recs = []
                for _k in range(rnd.randrange(0, 5)):
                    body = rand_data_garbage(rnd.randrange(2)) if rnd.random() < 0.5 else rx_dgram(rnd.randrange(2), 1, rnd.randrange(HYPER), rnd.choice((0, 148, 444)), rnd)
                    recs.append(record(rnd.choice((1, 2, 1, 2, 0, 3, 255)), body, length=None if rnd.random() < 0.7 else rnd.choice((0, 1, max(0, len(body) - 1), len(body) + 1, 65535, rnd.randrange(700)))))
                blob = b"".join(recs) + bytes(rnd.randrange(256) for _ in range(rnd.choice((0, 0, 1, 2, 3, 10))))
                if rnd.random() < 0.3:
                    blob = blob[:rnd.randrange(len(blob) + 1)]
                capture_case(blob, rnd.choice(HOWS))
                capture_case(blob, ("all", rnd.choice((None, 0, 1, 2, 7)), rnd.choice((None, 0, 1, 3))))
        return {"cases": cases[0], "failures": _fit(failures)}
    finally:
        for o, a, v in reversed(restore):
            setattr(o, a, v)
        logging.disable(prev_disable)


def _fit(failures, limit=14000):
    """keep the report printable by oracles.run (20 000 characters): drop trailing failures, then shorten the first one's history"""
    import json
    fs = list(failures[:5])
    while len(fs) > 1 and len(json.dumps(fs, indent=1, default=str)) > limit:
        fs.pop()
    if fs and len(json.dumps(fs, indent=1, default=str)) > limit:
        inp = fs[0].get("input")
        if isinstance(inp, dict) and isinstance(inp.get("history"), list):
            while len(inp["history"]) > 5 and len(json.dumps(fs, indent=1, default=str)) > limit:
                del inp["history"][:max(1, len(inp["history"]) // 4)]
                inp["history_truncated"] = True
        if len(json.dumps(fs, indent=1, default=str)) > limit:
            fs[0]["input"] = json.dumps(fs[0]["input"], default=str)[:limit // 2] + " ...(truncated)"
            fs[0]["observed"] = str(fs[0]["observed"])[:2000]
            fs[0]["expected"] = str(fs[0]["expected"])[:2000]
    return fs

"""C17 - TRXD PDU definitions (v0, v1, v2) have the documented structure (bounded native oracle).

Observation points: PDUv{0,1,2}{Rx,Tx}.to_bytes() / .from_bytes() (values through the envelope's item access) and the octets returned by
TxMsg/RxMsg.gen_msg().
Reference (written here from the TRXD protocol layout, plain ints/bytes):
  octet 0 = VER(4) RES(1) TN(3); v2 octet 1 = BATCH(1) RES|SHADOW(1) TRXN(6); MTS = NOPE(1) MOD(4) TSC(3);
  v0 Rx: hdr FN(4,BE) RSSI(negated) ToA256(int16 BE) soft-bits(148|444) [pad];   v0/v1 Tx: hdr FN PWR hard-bits;
  v1 Rx: hdr FN RSSI ToA256 MTS C/I(int16 BE) soft-bits;   v2 Rx: hdr(2) MTS RSSI ToA256 C/I FN soft-bits sub-PDUs;
  v2 Tx: hdr(2) MTS PWR SCPIR(int8) RFU(3) FN hard-bits sub-PDUs;   sub-PDU = the same without FN, VER bits reserved, SHADOW bit used;
  burst length by MOD: 00xx 148, 010x 444, 011x 148, 100x 592, 101x 740, 11xx 296; none for NOPE.
Judged: encoding == layout, decoding of the layout returns the values and consumes everything, NOPE carries no burst, reserved bits/octets
sent as zero and ignored on receipt, wrong version nibble rejected, wrong burst length for the modulation rejected (v1 Rx), 0..8 batched
sub-PDUs intact, every v0/v1 datagram of the message codec accepted with the message's field values (legacy padding: Rx v0 exact; on Tx
the definition documents no padding field, so only acceptance, header fields and the leading burst bits are judged)."""
import time, random, logging, re, signal, threading
from array import array
from engine.pyvc.harness import toolkit

BOUND = ("fixed part: for each of the 6 PDU classes and both sub-PDU classes every modulation code 0..15 x NOPE 0/1 with boundary values of every "
         "field (TN 0/7, FN 0/2^32-1, RSSI 0/-255, ToA256 and C/I at the int16 ends, PWR 0/255, SCPIR -128/127, TRXN 0/63), encode == layout, decode, reserved bits "
         "set one group at a time, all 15 wrong version nibbles, burst one octet short/long; v2 Rx and Tx with 0..8 sub-PDUs; message-codec datagrams: "
         "all 112 (modulation, TSC set, TSC) combinations, NOPE, Tx/Rx v0 at 148/444 with legacy padding on/off (499 cases, each with its encode/decode/reserved-bit/version-nibble sub-checks); sampled part: "
         "until the budget is used, random field values, modulation codes, 0..8 sub-PDUs with random reserved-bit noise, and random valid messages through "
         "gen_msg() into the matching definition (about 4500 cases per second).")

GMSK = 148
HYPERFRAME = 2048 * 26 * 51
MODS = (("ModGMSK", 0b0000, 148, 4), ("Mod8PSK", 0b0100, 444, 2), ("ModGMSK_AB", 0b0110, 148, 2), ("Mod16QAM", 0b1000, 592, 2),
        ("Mod32QAM", 0b1010, 740, 2), ("ModAQPSK", 0b1100, 296, 2))


class Runaway(BaseException):
    """raised by the CPU-time watchdog (BaseException: an `except Exception` in the code under test must not swallow it)"""


class watchdog:
    """bounds the CPU time (not the wall clock) of one case, so that a decoder that stops advancing cannot eat the machine"""

    def __init__(self, cpu_s=1.5):
        self.cpu_s = cpu_s

    def _fire(self, *a):
        raise Runaway()

    def __enter__(self):
        self.on = hasattr(signal, "setitimer") and threading.current_thread() is threading.main_thread()
        if self.on:
            self.old = signal.signal(signal.SIGVTALRM, self._fire)
            signal.setitimer(signal.ITIMER_VIRTUAL, self.cpu_s)

    def __exit__(self, *a):
        if self.on:
            signal.setitimer(signal.ITIMER_VIRTUAL, 0)
            signal.signal(signal.SIGVTALRM, self.old)
        return False


def scrub(e):
    return re.sub(r" at 0x[0-9a-f]+", "", "%s: %s" % (type(e).__name__, e))[:240]


def burst_len(mod):
    if mod >> 2 == 0b00:
        return 1 * GMSK
    if mod >> 1 == 0b010:
        return 3 * GMSK
    if mod >> 1 == 0b011:
        return 1 * GMSK
    if mod >> 1 == 0b100:
        return 4 * GMSK
    if mod >> 1 == 0b101:
        return 5 * GMSK
    return 2 * GMSK


def be(x, n, signed=False):
    if signed and x < 0:
        x += 1 << (8 * n)
    return bytes((x >> (8 * (n - 1 - i))) & 0xff for i in range(n))


def mts(v):
    return bytes([(v["nope"] << 7) | (v["mod"] << 3) | v["tsc"]])


def burst_of(v, key):
    return b"" if v.get("nope") else bytes(v[key])


def ref_encode(name, v):
    """documented octets of PDU `name` for the values v"""
    if name == "PDUv0Rx":
        return bytes([0x00 | v["tn"]]) + be(v["fn"], 4) + bytes([-v["rssi"]]) + be(v["toa256"], 2, True) + bytes(v["soft-bits"]) + bytes(v.get("pad", b""))
    if name in ("PDUv0Tx", "PDUv1Tx"):
        return bytes([(int(name[4]) << 4) | v["tn"]]) + be(v["fn"], 4) + bytes([v["pwr"]]) + bytes(v["hard-bits"])
    if name == "PDUv1Rx":
        return (bytes([0x10 | v["tn"]]) + be(v["fn"], 4) + bytes([-v["rssi"]]) + be(v["toa256"], 2, True) + mts(v) + be(v["cir"], 2, True)
                + burst_of(v, "soft-bits"))
    if name in ("PDUv2Rx", "PDUv2Rx.BPDU"):
        sub = name.endswith("BPDU")
        out = bytes([(0 if sub else 0x20) | v["tn"], (v["batch"] << 7) | ((v["shadow"] << 6) if sub else 0) | v["trxn"]])
        out += mts(v) + bytes([-v["rssi"]]) + be(v["toa256"], 2, True) + be(v["cir"], 2, True)
        if not sub:
            out += be(v["fn"], 4)
        out += burst_of(v, "soft-bits")
        return out + b"".join(ref_encode("PDUv2Rx.BPDU", s) for s in v.get("bpdu", ()))
    if name in ("PDUv2Tx", "PDUv2Tx.BPDU"):
        sub = name.endswith("BPDU")
        out = bytes([(0 if sub else 0x20) | v["tn"], (v["batch"] << 7) | ((v["shadow"] << 6) if sub else 0) | v["trxn"]])
        out += mts(v) + bytes([v["pwr"]]) + be(v["scpir"], 1, True) + b"\x00\x00\x00"
        if not sub:
            out += be(v["fn"], 4)
        out += burst_of(v, "hard-bits")
        return out + b"".join(ref_encode("PDUv2Tx.BPDU", s) for s in v.get("bpdu", ()))
    raise KeyError(name)


def reserved_positions(name, v):
    """list of (octet offset, bit mask) groups of reserved bits in ref_encode(name, v)"""
    if name in ("PDUv0Rx", "PDUv0Tx", "PDUv1Rx", "PDUv1Tx"):
        return [[(0, 0x08)]]
    tx = "Tx" in name
    if name.endswith("BPDU"):       # stand-alone sub-PDU: VER bits reserved, bit 6 of octet 1 is SHADOW
        return [[(0, 0xf0)], [(0, 0x08)], [(0, 0x10)]] + ([[(5, 0xff), (6, 0xff), (7, 0xff)], [(6, 0x2b)]] if tx else [])
    out = [[(0, 0x08)], [(1, 0x40)]]
    if tx:
        out += [[(5, 0xff), (6, 0xff), (7, 0xff)], [(5, 0x01)], [(7, 0x80)]]
    key = "hard-bits" if tx else "soft-bits"
    pos = 12 + len(burst_of(v, key))
    for s in v.get("bpdu", ()):
        out += [[(pos, 0xf0)], [(pos, 0x08)], [(pos, 0x10)]]
        if tx:
            out += [[(pos + 5, 0xff), (pos + 6, 0xff), (pos + 7, 0xff)], [(pos + 6, 0x2b)]]
        pos += 8 + len(burst_of(s, key))
    return out


def jsonable(v):
    if isinstance(v, dict):
        return {k: jsonable(x) for k, x in v.items()}
    if isinstance(v, (list, tuple)):
        return [jsonable(x) for x in v]
    if isinstance(v, (bytes, bytearray)):
        rule = getattr(v, "rule", None)
        return {"len": len(v), "octet[i]": rule} if rule else {"hex": bytes(v).hex()}
    return v


class Run:
    def __init__(self, tp, dm):
        self.tp, self.dm, self.cases, self.failures, self.seen, self.stop = tp, dm, 0, [], set(), False

    def fail(self, what, name, inp, observed, exp):
        if len(self.failures) < 5 and (what, name) not in self.seen:
            self.seen.add((what, name))
            self.failures.append({"what": "%s: %s" % (name, what), "input": jsonable(inp), "observed": jsonable(observed), "expected": jsonable(exp)})

    def new(self, name):
        cls = self.tp
        for part in name.split("."):
            cls = getattr(cls, part)
        return cls(check_len=False) if "." in name else cls()

    # -- comparisons ---------------------------------------------------------------------------------------------------------
    def mismatch(self, name, got_vals, v):
        """first difference between decoded values and the expected ones (None = equal on every expected field)"""
        for k, want in v.items():
            if k == "pad":
                continue
            if k == "bpdu":
                try:
                    got = got_vals["bpdu"]
                except Exception:
                    got = None
                if got is None or len(got) != len(want):
                    return "bpdu: %s sub-PDUs instead of %d" % ("no" if got is None else len(got), len(want))
                for i, (g, w) in enumerate(zip(got, want)):
                    m = self.mismatch(name, g, w)
                    if m:
                        return "bpdu[%d].%s" % (i, m)
                continue
            if k in ("soft-bits", "hard-bits"):
                if v.get("nope"):
                    continue
                try:
                    got = got_vals[k]
                except Exception:
                    return "%s missing" % k
                if bytes(got) != bytes(want):
                    return "%s: %d octets%s instead of %d" % (k, len(got), "" if len(got) != len(want) else " with different content", len(want))
                continue
            try:
                got = got_vals[k]
            except Exception:
                return "%s missing" % k
            if got != want:
                return "%s = %r instead of %r" % (k, got, want)
        return None

    def decode(self, name, data):
        pdu = self.new(name)
        n = pdu.from_bytes(bytes(data))
        return pdu, n

    def check_decode(self, what, name, v, data, inp):
        try:
            pdu, n = self.decode(name, data)
        except Exception as e:
            self.fail(what + ": rejected", name, inp, scrub(e), "accepted")
            return
        m = self.mismatch(name, pdu, v)
        if m:
            self.fail(what + ": wrong value", name, inp, m, "the encoded values")
        elif n != len(data):
            self.fail(what + ": consumed length", name, inp, n, len(data))

    # -- one PDU value set -------------------------------------------------------------------------------------------------
    def pdu_case(self, name, v, rng=None, deep=True):
        if self.stop:
            return
        try:
            with watchdog():
                self._pdu_case(name, v, rng, deep)
        except Runaway:
            self.stop = True
            self.fail("encode/decode does not terminate (1.5 s of CPU time in one case)", name, {"pdu": name, "values": v}, "still running", "a result or an error")

    def _pdu_case(self, name, v, rng=None, deep=True):
        self.cases += 1
        inp = {"pdu": name, "values": v}
        ref = ref_encode(name, v)
        # encode == documented layout
        try:
            pdu = self.new(name)
            for k, x in v.items():
                pdu[k] = x
            enc = bytes(pdu.to_bytes())
        except Exception as e:
            self.fail("to_bytes refuses in-range values", name, inp, scrub(e), {"octets": ref[:24]})
            return
        if enc != ref:
            i = next((i for i in range(min(len(enc), len(ref))) if enc[i] != ref[i]), min(len(enc), len(ref)))
            self.fail("encoding differs from the documented layout", name, inp, {"len": len(enc), "first difference at octet": i, "octets": enc[max(0, i - 4):i + 8]},
                      {"len": len(ref), "octets": ref[max(0, i - 4):i + 8]})
            return
        # decode what the layout says
        self.check_decode("from_bytes(layout)", name, v, ref, inp)
        if not deep:
            return
        # reserved bits are ignored on receipt
        groups = reserved_positions(name, v)
        if rng is not None:
            groups = [rng.choice(groups)] + ([[p for g in groups for p in g]] if rng.random() < 0.3 else [])
        for g in groups:
            d = bytearray(ref)
            for off, mask in g:
                d[off] |= mask
            self.check_decode("reserved bits set on receipt %s" % [(o, hex(m_)) for o, m_ in g][:3], name, v, d, inp)
        # a wrong version nibble is rejected (top-level PDUs only: the sub-PDU's version bits are reserved)
        if "." not in name:
            vers = range(16) if rng is None else (rng.randrange(16),)
            for ver in vers:
                if ver == int(name[4]):
                    continue
                d = bytearray(ref)
                d[0] = (ver << 4) | (d[0] & 0x0f)
                try:
                    self.decode(name, d)
                    self.fail("wrong version nibble accepted", name, dict(inp, nibble=ver), "accepted", "rejected")
                except Exception:
                    pass
        # v1 Rx: the burst length is the modulation's
        if name == "PDUv1Rx":
            for d in (ref[:-1], ref + b"\x00", ref + ref[-148:]):
                if len(d) < 11:
                    continue
                try:
                    self.decode(name, d)
                    self.fail("burst length not the modulation's, accepted", name, dict(inp, datagram_len=len(d)), "accepted", "rejected (%d octets expected)" % len(ref))
                except Exception:
                    pass

    # -- message codec -> definition ------------------------------------------------------------------------------------------
    def msg_case(self, c):
        if self.stop:
            return
        try:
            with watchdog():
                self._msg_case(c)
        except Runaway:
            self.stop = True
            self.fail("decoding a message-codec datagram does not terminate (1.5 s of CPU time)", "PDUv%d%s" % (c["ver"], c["cls"].capitalize()), dict(c, burst=None), "still running", "accepted")

    def _msg_case(self, c):
        self.cases += 1
        dm = self.dm
        if c["cls"] == "tx":
            m = dm.TxMsg(fn=c["fn"], tn=c["tn"], ver=c["ver"])
            m.pwr = c["pwr"]
            m.burst = bytearray(c["burst"])
            name = "PDUv%dTx" % c["ver"]
            want = {"tn": c["tn"], "fn": c["fn"], "pwr": c["pwr"]}
        else:
            m = dm.RxMsg(fn=c["fn"], tn=c["tn"], ver=c["ver"])
            m.rssi, m.toa256 = c["rssi"], c["toa256"]
            name = "PDUv%dRx" % c["ver"]
            want = {"tn": c["tn"], "fn": c["fn"], "rssi": c["rssi"], "toa256": c["toa256"]}
            if c["ver"] == 1:
                m.ci = c["ci"]
                m.nope_ind = c["nope"]
                want["cir"] = c["ci"]
                want["nope"] = int(c["nope"])
                if c["nope"]:
                    m.mod_type = m.tsc_set = m.tsc = None
                else:
                    m.mod_type = getattr(dm.Modulation, c["mod"])
                    m.tsc_set, m.tsc = c["tsc_set"], c["tsc"]
                    coding = [x[1] for x in MODS if x[0] == c["mod"]][0]
                    want["mod"], want["tsc"] = coding | c["tsc_set"], c["tsc"]
            if c["burst"] is not None:
                m.burst = array('b', c["burst"])
                want["soft-bits"] = bytes(127 - s for s in c["burst"])
        inp = dict(c)
        if c["burst"] is not None:
            inp["burst"] = bytes((b & 0xff) for b in c["burst"])
        try:
            dgram = bytes(m.gen_msg(c["legacy"]))
        except Exception as e:
            if c.get("outside_the_layout") and isinstance(e, ValueError):
                return          # a TSC set the layout does not define: the message codec refuses it (it must, or emit something the definition accepts)
            self.fail("gen_msg refuses a valid message", name, inp, "%s: %s" % (type(e).__name__, e), "a datagram")
            return
        if c.get("outside_the_layout"):
            # whatever the message codec DOES emit has to be accepted by the corresponding definition (the statement's last clause)
            try:
                self.decode(name, dgram)
            except Exception as e:
                self.fail("message-codec datagram rejected", name, dict(inp, datagram_len=len(dgram)), scrub(e), "accepted, or refused by gen_msg() in the first place")
            return
        try:
            pdu, n = self.decode(name, dgram)
        except Exception as e:
            self.fail("message-codec datagram rejected", name, dict(inp, datagram_len=len(dgram)), scrub(e), "accepted")
            return
        mm = self.mismatch(name, pdu, want)
        if mm is None and c["cls"] == "tx":
            try:
                hb = bytes(pdu["hard-bits"])
            except Exception:
                hb = None
            exp = bytes(c["burst"])
            if hb is None or (hb != exp if not (c["legacy"] and c["ver"] == 0) else hb[:len(exp)] != exp):
                mm = "hard-bits: %s instead of the message's %d bits" % ("missing" if hb is None else "%d octets" % len(hb), len(exp))
        if mm:
            self.fail("message-codec datagram decoded to different values", name, dict(inp, datagram_len=len(dgram)), mm, "the message's field values")


# -- value generators --------------------------------------------------------------------------------------------------------------
class RuleBytes(bytes):
    """octets generated by a rule (kept for the failure report)"""
    rule = None


def bits(n, a=7, b=3):
    out = RuleBytes(((a * i + b + i // 5) & 1) for i in range(n))
    out.rule = "(%d*i + %d + i//5) & 1" % (a, b)
    return out


def softs(n, a=37, b=11):
    out = RuleBytes(((a * i + b) % 255) for i in range(n))
    out.rule = "(%d*i + %d) %% 255" % (a, b)
    return out


def pdu_vals(name, mod, nope, lo=True, k=0, nsub=0, rng=None):
    """values for PDU `name`; lo/hi boundary values (rng: random ones)"""
    def pick(lo_v, hi_v):
        if rng is not None:
            return rng.choice((lo_v, hi_v, rng.randint(lo_v, hi_v), rng.randint(lo_v, hi_v)))
        return lo_v if lo else hi_v
    tx = "Tx" in name
    v = {"tn": pick(0, 7)}
    sub = name.endswith("BPDU")
    if not sub:
        v["fn"] = pick(0, 2 ** 32 - 1)
    if tx:
        v["pwr"] = pick(0, 255)
    else:
        v["rssi"] = -pick(0, 255)
        v["toa256"] = pick(-32768, 32767)
    if name in ("PDUv0Rx",):
        bl = 148 if (mod & 1) == 0 else 444
        v["soft-bits"] = softs(bl, 37 + k, k)
        v["pad"] = b"" if not nope else b"\x00\x00"
        return v
    if name in ("PDUv0Tx", "PDUv1Tx"):
        v["hard-bits"] = bits(148 if (mod & 1) == 0 else 444, 7 + k, k)
        return v
    v.update(nope=int(nope), mod=mod, tsc=pick(0, 7))
    if tx:
        v["scpir"] = pick(-128, 127)
    else:
        v["cir"] = pick(-32768, 32767)
    if name.startswith("PDUv2"):
        v.update(batch=pick(0, 1), trxn=pick(0, 63))
        if sub:
            v["shadow"] = pick(0, 1)
    if not nope:
        v["hard-bits" if tx else "soft-bits"] = bits(burst_len(mod), 7 + k, k) if tx else softs(burst_len(mod), 37 + k, k)
    if name in ("PDUv2Rx", "PDUv2Tx"):
        v["bpdu"] = []
        for i in range(nsub):
            smod = (mod + 3 * i + 1) % 16 if rng is None else rng.randrange(16)
            snope = (i % 3 == 1) if rng is None else rng.random() < 0.25
            v["bpdu"].append(pdu_vals(name + ".BPDU", smod, snope, lo=(i & 1) == 0 if rng is None else lo, k=k + i + 1, rng=rng))
    return v


FN_EDGE = (0, 1, 255, 256, 65535, 65536, 2715647, 1234567)
TOA_EDGE = (-32768, -32767, -256, -1, 0, 1, 255, 256, 32767)
CI_EDGE = (-1280, -257, -1, 0, 1, 256, 1280)


def soft_ints(n, k):
    return [(((37 + k) * i + k) % 255) - 127 for i in range(n)]


def fixed(r):
    k = 0
    for name in ("PDUv0Rx", "PDUv0Tx", "PDUv1Tx"):
        for mod in (0, 1):
            for flag in (False, True):
                for lo in (True, False):
                    k += 1
                    if name != "PDUv0Rx" and flag:
                        continue
                    r.pdu_case(name, pdu_vals(name, mod, flag, lo, k))
    for name in ("PDUv1Rx", "PDUv2Rx", "PDUv2Tx", "PDUv2Rx.BPDU", "PDUv2Tx.BPDU"):
        for mod in range(16):
            for nope in (False, True):
                k += 1
                r.pdu_case(name, pdu_vals(name, mod, nope, lo=bool(k & 1), k=k))
        r.pdu_case(name, pdu_vals(name, 0, False, lo=True, k=1))
        r.pdu_case(name, pdu_vals(name, 15, False, lo=False, k=2))
    # NOPE with a burst left in the values: nothing of it is sent
    for name in ("PDUv1Rx", "PDUv2Rx", "PDUv2Tx"):
        v = pdu_vals(name, 4, False, True, 3)
        v["nope"] = 1
        r.pdu_case(name, v)
    # batching
    for name in ("PDUv2Rx", "PDUv2Tx"):
        for nsub in range(9):
            for mod, nope in ((0, False), (9, False), (5, True)):
                k += 1
                r.pdu_case(name, pdu_vals(name, mod, nope, lo=bool(k & 1), k=k, nsub=nsub), deep=nsub in (0, 1, 3, 8))
    # message codec datagrams
    for mod, coding, bl, nsets in MODS:
        for tsc_set in range(nsets):
            for tsc in range(8):
                k += 1
                r.msg_case(dict(cls="rx", ver=1, fn=FN_EDGE[k % len(FN_EDGE)], tn=k % 8, rssi=(-120, -47, -63)[k % 3], toa256=TOA_EDGE[k % len(TOA_EDGE)],
                                ci=CI_EDGE[k % len(CI_EDGE)], nope=False, mod=mod, tsc_set=tsc_set, tsc=tsc, burst=soft_ints(bl, k), legacy=bool(k & 1)))
    # TSC sets the layout does not define for a modulation: refused by the message codec, or emitted in a form the definition accepts
    for mod, coding, bl, nsets in MODS:
        for tsc_set in range(nsets, 4):
            for tsc in (0, 7):
                k += 1
                r.msg_case(dict(cls="rx", ver=1, fn=FN_EDGE[k % len(FN_EDGE)], tn=k % 8, rssi=-63, toa256=0, ci=0, nope=False, mod=mod, tsc_set=tsc_set, tsc=tsc,
                                burst=soft_ints(bl, k), legacy=False, outside_the_layout=True))
    for legacy in (False, True):
        for fn in FN_EDGE:
            k += 1
            r.msg_case(dict(cls="rx", ver=1, fn=fn, tn=k % 8, rssi=-47 - k % 70, toa256=TOA_EDGE[k % len(TOA_EDGE)], ci=CI_EDGE[k % len(CI_EDGE)], nope=True,
                            mod=None, tsc_set=None, tsc=None, burst=None, legacy=legacy))
        for bl in (148, 444):
            for ver in (0, 1):
                for fn in FN_EDGE:
                    k += 1
                    r.msg_case(dict(cls="tx", ver=ver, fn=fn, tn=k % 8, pwr=(0, 255, 17, 128)[k % 4], burst=list(bits(bl, 7 + k, k)), legacy=legacy))
            for pat in ("ramp", "min", "max", "zero"):
                for fn in FN_EDGE[:4]:
                    k += 1
                    burst = {"ramp": soft_ints(bl, k), "min": [-127] * bl, "max": [127] * bl, "zero": [0] * bl}[pat]
                    r.msg_case(dict(cls="rx", ver=0, fn=fn, tn=k % 8, rssi=(-120, -47, -63)[k % 3], toa256=TOA_EDGE[k % len(TOA_EDGE)], burst=burst, legacy=legacy))


def sample(r, rng):
    x = rng.random()
    if x < 0.45:
        name = rng.choice(("PDUv0Rx", "PDUv0Tx", "PDUv1Tx", "PDUv1Rx", "PDUv1Rx", "PDUv2Rx", "PDUv2Tx", "PDUv2Rx", "PDUv2Tx", "PDUv2Rx.BPDU", "PDUv2Tx.BPDU"))
        nsub = rng.choice((0, 0, 1, 2, 3, rng.randint(0, 8))) if name in ("PDUv2Rx", "PDUv2Tx") else 0
        return r.pdu_case(name, pdu_vals(name, rng.randrange(16), rng.random() < 0.2, k=rng.randrange(200), nsub=nsub, rng=rng), rng=rng)
    legacy = rng.random() < 0.5
    fn = rng.choice((rng.choice(FN_EDGE), rng.randint(0, HYPERFRAME - 1)))
    tn = rng.randint(0, 7)
    if x < 0.6:
        bl = rng.choice((148, 444))
        y = rng.getrandbits(bl)
        return r.msg_case(dict(cls="tx", ver=rng.randint(0, 1), fn=fn, tn=tn, pwr=rng.choice((0, 255, rng.randint(0, 255))), burst=[(y >> i) & 1 for i in range(bl)], legacy=legacy))
    rssi = rng.choice((-120, -47, rng.randint(-120, -47)))
    toa = rng.choice((rng.choice(TOA_EDGE), rng.randint(-32768, 32767)))
    if x < 0.75:
        bl = rng.choice((148, 444))
        return r.msg_case(dict(cls="rx", ver=0, fn=fn, tn=tn, rssi=rssi, toa256=toa, burst=[rng.randint(-127, 127) for _ in range(bl)], legacy=legacy))
    mod, coding, bl, nsets = rng.choice(MODS)
    nope = rng.random() < 0.15
    return r.msg_case(dict(cls="rx", ver=1, fn=fn, tn=tn, rssi=rssi, toa256=toa, ci=rng.choice((rng.choice(CI_EDGE), rng.randint(-1280, 1280))), nope=nope,
                           mod=None if nope else mod, tsc_set=None if nope else rng.randrange(nsets), tsc=None if nope else rng.randint(0, 7),
                           burst=None if nope else [rng.randint(-127, 127) for _ in range(bl)], legacy=legacy))


def run(budget_s=20.0, seed=0):
    t0 = time.time()
    prev = logging.root.manager.disable
    logging.disable(logging.CRITICAL)
    try:
        r = Run(toolkit("trxd_proto"), toolkit("data_msg"))
        fixed(r)
        rng = random.Random(seed)
        while time.time() - t0 < budget_s and not r.failures:
            for _ in range(25):
                sample(r, rng)
        return {"cases": r.cases, "failures": r.failures[:5]}
    finally:
        logging.disable(prev)

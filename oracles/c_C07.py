"""C07 (C half) - bounded native oracle: frequency hopping of the phone firmware (layer1/rfch.c) against 3GPP TS 45.002 6.2.3.

Observed: the ARFCN written by rfch_get_params(time, &arfcn, &tsc, &tn) with a hopping dedicated channel configured in l1s.dedicated
(type != NONE, h = 1, h1.hsn, h1.maio, h1.n, h1.ma[]); nothing else (the statement does not talk about tsc / tn).  The mobile allocation
holds 64 distinct values (base + i * odd step, 16 bit), so a wrong index - also one beyond N - gives a wrong ARFCN.
Reference: spec/mai_45002.mai_concrete (the statement's algorithm) with spec/gsm_time for T1/T2/T3.  For the complete enumerations the
algorithm is written once more in C inside the harness, from the text of the standard as quoted in the statement (RNTABLE generated from
the spec file, not read from rfch.c); that in-harness reference is itself compared with spec.mai_45002 through the line protocol on every run.
Harness: rfch.c #included whole (host build, firmware headers after the host's own), `struct l1s_state l1s` is the harness's own object.
"""
import random

from engine.cvc import frontend, replay as R
from spec import mai_45002 as M
from spec import gsm_time as G
from . import _c

RFCH = "src/target/firmware/layer1/rfch.c"
HYPER = G.HYPERFRAME
NTUPLES = 64 * 26 * 51          # (HSN xor T1R, T2, T3)

BOUND = ("C half (rfch_get_params of firmware layer1/rfch.c with a hopping dedicated channel in l1s.dedicated; only the returned ARFCN is observed; "
         "MA = 64 distinct 16-bit values), ASan+UBSan build. Fixed part: about 7 300 boundary points compared in Python with spec.mai_45002 "
         "(N in {1,2,3,4,5,7,8,9,15,16,17,31,32,33,63,64}, HSN in {0,1,2,31,32,62,63}, MAIO in {0,1,N-1,63}, FN 0, 1, last frame of the hyperframe, "
         "around multiples of 1326, the T1R wrap at 64*1326 and 3000 fixed-seed random points), the same number of points of the in-harness C "
         "reference compared with spec.mai_45002, then inside the harness: for N = 64 every (HSN xor T1R, T2, T3) = 84 864 tuples with each of the "
         "MAIO values 0, 1, 63 and a hashed one; one COMPLETE enumeration of all 64 x 26 x 51 x 64 = 5 431 296 values of (HSN xor T1R, T2, T3, N) "
         "the result depends on for HSN != 0 (HSN 1..63, T1 = T1R + 64k and MAIO chosen per tuple by a hash); complete walks of all 2 715 648 "
         "frame numbers for HSN 0 (cyclic) with N = 64 and N = 63. Budgeted part: further complete (HSN xor T1R, T2, T3, N) enumerations, "
         "slice i with MAIO fixed to the i-th of 0, 63, 1, 62, ... (after 64 slices every (HSN xor T1R, T2, T3, N, MAIO) has been run) and "
         "new hashed HSN / T1 / MA, interleaved with complete frame-number walks for seeded (HSN, MAIO, N) and batches of 2 000 seeded random "
         "(HSN, MAIO, N, FN, MA) compared in Python.")

_MAIN_HEAD = _c.PROTOCOL_C + r"""
struct l1s_state l1s;
static const int REF_RNTABLE[114] = { @RNTABLE@ };
"""

_MAIN = r"""
/* ---- reference, written from 3GPP TS 45.002 6.2.3 as quoted in the statement */
static int ref_mai(int hsn, int maio, int n, unsigned long fn)
{
	int t1 = fn / 1326, t2 = fn % 26, t3 = fn % 51;
	int t1r, m, nbin, p, mp, tp, s, v;
	if (hsn == 0)
		return (int)((fn + (unsigned long)maio) % (unsigned long)n);
	t1r = t1 % 64;
	m = t2 + REF_RNTABLE[(hsn ^ t1r) + t3];
	for (nbin = 0, v = n; v; v /= 2) nbin++;		/* number of bits required to represent N */
	p = 1 << nbin;
	mp = m % p;
	tp = t3 % p;
	s = (mp < n) ? mp : (mp + tp) % n;
	return (s + maio) % n;
}
static uint16_t ma_val(unsigned base, unsigned step, int i) { return (uint16_t)((base + step * (unsigned)i) & 0xffff); }
static void set_ma(unsigned base, unsigned step) { int i; for (i = 0; i < 64; i++) l1s.dedicated.h1.ma[i] = ma_val(base, step, i); }
static void set_time(struct gsm_time *t, unsigned long fn)
{
	memset(t, 0, sizeof(*t));
	t->fn = fn; t->t1 = fn / 1326; t->t2 = fn % 26; t->t3 = fn % 51; t->tc = (fn / 51) % 8;
}
static unsigned get(unsigned long fn, int hsn, int maio, int n)
{
	struct gsm_time t;
	uint16_t arfcn = 0xffff; uint8_t tsc = 0xff, tn = 0xff;
	set_time(&t, fn);
	l1s.dedicated.h1.hsn = hsn; l1s.dedicated.h1.maio = maio; l1s.dedicated.h1.n = n;
	rfch_get_params(&t, &arfcn, &tsc, &tn);
	return arfcn;
}
static unsigned long mix(unsigned long a, unsigned long b)
{
	unsigned long h = a * 2654435761UL + b * 40503UL + 0x9e3779b9UL;
	h ^= h >> 15; h *= 2246822519UL; h ^= h >> 13; h &= 0xffffffffUL;
	return h;
}
int main(void)
{
	char line[512], op;
	static const int dtypes[] = { GSM_DCHAN_SDCCH_4, GSM_DCHAN_SDCCH_8, GSM_DCHAN_TCH_H, GSM_DCHAN_TCH_F, GSM_DCHAN_SDCCH_4_CBCH, GSM_DCHAN_PDCH };
	long a, b, c, d, e, f, g;
	while (fgets(line, sizeof(line), stdin)) {
		a = b = c = d = e = f = g = 0; op = '?';
		sscanf(line, " %c %ld %ld %ld %ld %ld %ld %ld", &op, &a, &b, &c, &d, &e, &f, &g);
		memset(&l1s, 0, sizeof(l1s));
		l1s.serving_cell.arfcn = 0x3abc; l1s.dedicated.tsc = 5; l1s.dedicated.tn = 3;
		l1s.dedicated.h = 1;
		if (op == 'p') {
			/* p fn hsn maio n base step dsel : one call */
			l1s.dedicated.type = dtypes[g % 6];
			set_ma(e, f);
			printf("= arfcn=%u\n", get(a, b, c, d));
		} else if (op == 'q') {
			/* q fn hsn maio n : the in-harness reference alone */
			printf("= mai=%d\n", ref_mai(b, c, d, a));
		} else if (op == 'e') {
			/* e salt maio nlo nhi : every (x = HSN xor T1R, T2, T3) for every N in [nlo, nhi]; maio < 0: hashed per tuple */
			unsigned long cnt = 0, h; int x, t2, t3, n, bad = 0;
			unsigned base = mix(a, 77) & 0xffff, step = (mix(a, 78) & 0x3fe) | 1;
			l1s.dedicated.type = dtypes[mix(a, 79) % 6];
			set_ma(base, step);
			for (n = c; n <= d && !bad; n++)
			for (x = 0; x < 64 && !bad; x++)
			for (t2 = 0; t2 < 26 && !bad; t2++)
			for (t3 = 0; t3 < 51; t3++) {
				int hsn, t1r, t1, maio; unsigned long fn; unsigned got, want;
				h = mix(a + 1000003UL * n, (x * 26 + t2) * 51 + t3);
				hsn = 1 + h % 63;				/* 1..63 */
				t1r = hsn ^ x;
				t1 = t1r + 64 * ((h >> 8) % 32);
				maio = b < 0 ? (int)((h >> 16) % 64) : (int)b;
				fn = 1326UL * t1 + 51UL * ((t3 - t2 + 26 * 2) % 26) + t3;	/* TS 45.002 4.3.3 */
				got = get(fn, hsn, maio, n);
				want = ma_val(base, step, ref_mai(hsn, maio, n, fn));
				cnt++;
				if (got != want) {
					printf("= bad=1 fn=%lu hsn=%d maio=%d n=%d base=%u step=%u got=%u cnt=%lu\n", fn, hsn, maio, n, base, step, got, cnt);
					bad = 1; break;
				}
			}
			if (!bad) printf("= bad=0 cnt=%lu\n", cnt);
		} else if (op == 'f') {
			/* f hsn maio n lo hi salt : every frame number in [lo, hi) */
			unsigned long fn, cnt = 0; int bad = 0;
			unsigned base = mix(f, 77) & 0xffff, step = (mix(f, 78) & 0x3fe) | 1;
			l1s.dedicated.type = dtypes[mix(f, 79) % 6];
			set_ma(base, step);
			for (fn = d; fn < (unsigned long)e; fn++) {
				unsigned got = get(fn, a, b, c), want = ma_val(base, step, ref_mai(a, b, c, fn));
				cnt++;
				if (got != want) {
					printf("= bad=1 fn=%lu hsn=%ld maio=%ld n=%ld base=%u step=%u got=%u cnt=%lu\n", fn, a, b, c, base, step, got, cnt);
					bad = 1; break;
				}
			}
			if (!bad) printf("= bad=0 cnt=%lu\n", cnt);
		} else
			printf("= ?\n");
		fflush(stdout);
	}
	return 0;
}
"""


def source():
    head = _MAIN_HEAD.replace("@RNTABLE@", ", ".join(str(v) for v in M.RNTABLE))
    return '#include "%s"\n%s%s' % (frontend.repo(RFCH), head, _MAIN)


def flags():
    # firmware headers after the host's own (the firmware tree shadows stdio.h / string.h / stdint.h) - as props/cparts/C07.py builds it
    return R.host_flags() + ["-idirafter", frontend.repo("src/target/firmware/include"), "-idirafter", frontend.l1ctl_include()]


def ma_val(base, step, i):
    return (base + step * i) & 0xffff


def expected_arfcn(fn, hsn, maio, n, base, step):
    return ma_val(base, step, M.mai_concrete(hsn, maio, n, fn))


def fn_of(t1, t2, t3):
    return 1326 * t1 + 51 * ((t3 - t2) % 26) + t3


def boundary_points():
    ns = [1, 2, 3, 4, 5, 7, 8, 9, 15, 16, 17, 31, 32, 33, 63, 64]
    hsns = [0, 1, 2, 31, 32, 62, 63]
    fns = [0, 1, 25, 26, 50, 51, 52, 1325, 1326, 1327, 63 * 1326 + 1325, 64 * 1326, 64 * 1326 + 1, 127 * 1326 + 1300, 128 * 1326,
           HYPER - 1327, HYPER - 1326, HYPER - 52, HYPER - 2, HYPER - 1]
    pts = []
    for n in ns:
        for hsn in hsns:
            for maio in sorted({0, 1, n - 1, 63}):
                for k, fn in enumerate(fns):
                    if (k + n + hsn + maio) % 3 == 0 or n in (1, 63, 64) or fn in (0, HYPER - 1):
                        pts.append((fn, hsn, maio, n))
    rnd = random.Random(4502)
    for _ in range(3000):
        n = rnd.choice(ns) if rnd.random() < 0.5 else rnd.randrange(1, 65)
        pts.append((rnd.randrange(HYPER), rnd.randrange(64), rnd.randrange(64), n))
    return pts


def maio_order():
    out = []
    for k in range(32):
        out += [k, 63 - k]
    return out


def run(budget_s=20.0, seed=0):
    S = _c.Session(budget_s)
    stats = {"complete_enumerations": 0, "fn_walks": 0}
    with _c.Native(source(), flags()) as n:

        def crash(what, inp, abort):
            S.cases += 1
            S.fail(what + " (sanitizer / crash)", inp, abort.get("sanitizer") or "exit status %s: %s" % (abort.get("rc"), (abort.get("stderr") or "")[-200:]),
                   "returns normally")

        def ask(points, dsel=0):
            """points: [(fn, hsn, maio, n, base, step)] through the line protocol, expectation from spec.mai_45002"""
            lines = ["p %d %d %d %d %d %d %d" % (p + ((dsel + i) % 6,)) for i, p in enumerate(points)]
            outs, abort = n.batch(lines)
            for (fn, hsn, maio, nn, base, step), out in zip(points, outs):
                S.cases += 1
                got = _c.kv(out).get("arfcn")
                mai = M.mai_concrete(hsn, maio, nn, fn)
                exp = ma_val(base, step, mai)
                if got != exp:
                    t1, t2, t3, _ = G.gsm_time(fn)
                    ma = [ma_val(base, step, i) for i in range(64)]
                    S.fail("rfch_get_params: ARFCN is not MA[MAI]",
                           {"fn": fn, "hsn": hsn, "maio": maio, "n": nn, "t1r": t1 % 64, "t2": t2, "t3": t3, "ma": "ma[i] = (%d + %d*i) & 0xffff" % (base, step)},
                           {"arfcn": got, "index_in_ma": ma.index(got) if got in ma else None}, {"arfcn": exp, "mai": mai})
            if abort:
                p = points[abort["case"]]
                crash("rfch_get_params", dict(zip(("fn", "hsn", "maio", "n", "base", "step"), p)), abort)

        def check_reference(points):
            """the in-harness C transcription against spec.mai_45002 (validates the reference of the complete enumerations)"""
            outs, abort = n.batch(["q %d %d %d %d" % p[:4] for p in points])
            for p, out in zip(points, outs):
                S.cases += 1
                got, exp = _c.kv(out).get("mai"), M.mai_concrete(p[1], p[2], p[3], p[0])
                if got != exp:
                    S.fail("in-harness reference disagrees with spec.mai_45002 (oracle defect, not a finding about rfch.c)",
                           dict(zip(("fn", "hsn", "maio", "n"), p[:4])), {"mai": got}, {"mai": exp})
            if abort:
                crash("in-harness reference", dict(zip(("fn", "hsn", "maio", "n"), points[abort["case"]][:4])), abort)

        def sweep(line, what, inp, count):
            outs, abort = n.batch([line], timeout=600)
            if abort or not outs:
                crash(what, inp, abort or {})
                return
            r = _c.kv(outs[0])
            if r.get("bad"):
                before = len(S.failures)
                ask([(r["fn"], r["hsn"], r["maio"], r["n"], r["base"], r["step"])])
                if len(S.failures) == before:
                    S.fail(what, dict(inp, **{k: r.get(k) for k in ("fn", "hsn", "maio", "n", "base", "step")}),
                           "harness-side reference disagrees (arfcn %s)" % r.get("got"), "agreement")
            else:
                S.cases += r.get("cnt", count)

        def enum(salt, maio, nlo, nhi):
            sweep("e %d %d %d %d" % (salt, maio, nlo, nhi), "complete (HSN xor T1R, T2, T3, N) enumeration",
                  {"salt": salt, "maio": "hashed" if maio < 0 else maio, "n": [nlo, nhi]}, NTUPLES * (nhi - nlo + 1))

        def fnwalk(hsn, maio, nn, salt, lo=0, hi=HYPER):
            sweep("f %d %d %d %d %d %d" % (hsn, maio, nn, lo, hi, salt), "complete frame number walk",
                  {"hsn": hsn, "maio": maio, "n": nn, "fn": [lo, hi], "salt": salt}, hi - lo)
            stats["fn_walks"] += 1

        # ---- fixed: boundary points through the line protocol; the in-harness reference against the spec on the same points
        pts = boundary_points()
        rnd0 = random.Random(777)
        full = [p + (rnd0.randrange(65536), rnd0.randrange(512) * 2 + 1) for p in pts]
        ask(full)
        check_reference(pts)
        # ---- fixed: N = 64 with all T-values, each of the MAIO corners and a hashed MAIO
        for maio in (0, 1, 63, -1):
            if not S.failures:
                enum(64000 + maio, maio, 64, 64)
        # ---- fixed: one complete enumeration of everything the result depends on for HSN != 0; the cyclic case over all frame numbers
        if not S.failures:
            enum(1, -1, 1, 64)
            stats["complete_enumerations"] += 1
        for nn, maio in ((64, 63), (63, 0)):
            if not S.failures:
                fnwalk(0, maio, nn, 5 + nn)
        # ---- budgeted
        rnd = random.Random(seed)
        order = maio_order()
        i = 0
        while S.more():
            enum(100 + (seed % 1000003) * 64 + i, order[i % 64], 1, 64)
            stats["complete_enumerations"] += 1
            if not S.more():
                break
            hsn = 0 if i % 4 == 0 else rnd.randrange(1, 64)
            fnwalk(hsn, rnd.randrange(64), rnd.choice([rnd.randrange(1, 65), 64, 63, 3, 5]), rnd.randrange(1 << 30))
            if not S.more():
                break
            batch = []
            for _ in range(2000):
                nn = rnd.randrange(1, 65) if rnd.random() < 0.7 else rnd.choice([1, 2, 3, 63, 64])
                fn = rnd.randrange(HYPER) if rnd.random() < 0.8 else rnd.choice([rnd.randrange(2000), HYPER - 1 - rnd.randrange(2000), 1326 * 64 * rnd.randrange(1, 32) - rnd.randrange(2)])
                batch.append((fn, rnd.randrange(64), rnd.randrange(64), nn, rnd.randrange(65536), rnd.randrange(512) * 2 + 1))
            ask(batch, dsel=i)
            if i % 8 == 0:
                check_reference([b[:4] for b in batch])
            i += 1
    return S.result(**stats)

"""C04 (Python half) - bounded native oracle: TRXD octet layout of data_msg.TxMsg / RxMsg (gen_msg, parse_msg) and of what
DATAInterface hands to / takes from the DATA socket, against an independent pure-Python reference encoder/decoder written from the
layout in the statement:

  octet 0      version << 4 | TN (TN in bits 2..0, bit 3 reserved)
  octets 1..4  FN, big endian
  L1 -> TRX    octet 5 attenuation, then one octet per hard bit (0/1)
  TRX -> L1    octet 5 = -RSSI, octets 6..7 ToA256 (big endian two's complement);
               version 1: octet 8 MTS, octets 9..10 C/I (big endian two's complement); then one octet 127 - s per soft bit s (0..254)
  MTS          bit 7 NOPE.ind; bits 6..3 modulation (GMSK 00SS, 8-PSK 010S, GMSK-AB 011S, 16QAM 100S, 32QAM 101S, AQPSK 110S, S = TSC set);
               bits 2..0 TSC
  legacy       two zero octets after a version-0 message

Judged: bytes returned by gen_msg() for valid messages; fields after parse_msg() whenever it returns normally; a valid encoding must be
accepted.  Not judged: which malformed datagrams are rejected or how (C13/C14), mod_type/tsc_set/tsc of NOPE indications and of reserved
modulation codings, the guessed modulation of version 0, octets that are not hard bits in a Tx payload, versions other than 0 and 1.
"""
import time, random, logging
from array import array
from engine.pyvc.harness import toolkit

HYPER = 2048 * 26 * 51
MODS = {"ModGMSK": (0b0000, 148, 4), "Mod8PSK": (0b0100, 444, 2), "ModGMSK_AB": (0b0110, 148, 2),
        "Mod16QAM": (0b1000, 592, 2), "Mod32QAM": (0b1010, 740, 2), "ModAQPSK": (0b1100, 296, 2)}
MOD_LENS = (148, 296, 444, 592, 740)

BOUND = ("Python half only. Fixed part (about 15 000 cases, 1 s): encoder - Tx and Rx messages of versions 0 and 1 over boundary values of every "
         "field (FN 0, 1, 255, 256, 65535, 65536, 0x123456, 0x290000, 0x296F00, 2715646, 2715647; every TN; attenuation 0..255; RSSI -120..-47; ToA256 -32768, -257, "
         "-256, -1, 0, 1, 255, 256, 32767; C/I -1280, -256, -1, 0, 1, 255, 256, 1280; every (modulation, TSC set, TSC); NOPE), burst patterns "
         "(all 0, all 1, alternating, every soft bit value -127..127), legacy on/off, and the same through DATAInterface.send_msg on a "
         "recorder socket; decoder - the reference encodings of all of those (bytes and bytearray), every value of header octet 0, of the "
         "RSSI/attenuation octet, of the MTS octet and of a soft-bit octet, every payload length 0..760 for Tx and Rx v0/v1, and "
         "recv_tx_msg/recv_rx_msg from a recorder socket. Budgeted part: seeded random valid messages (uniform fields, random bursts) encoded "
         "and decoded, and random mutations of valid datagrams (truncation, extension, octet overwrite, random header, random lengths "
         "around 148/296/444/592/740 +- 2) checked 'accepted => fields per layout'; about 11 000 cases per second.")


# ------------------------------------------------------------------ reference encoder / decoder

def be(v, n, signed=False):
    return int(v).to_bytes(n, "big", signed=signed)


def ref_enc_tx(ver, tn, fn, pwr, bits, legacy):
    out = bytes([(ver << 4) | tn]) + be(fn, 4) + bytes([pwr]) + bytes(bits)
    if legacy and ver == 0:
        out += b"\0\0"
    return out


def ref_mts(nope, mod, tsc_set, tsc):
    if nope:
        return 0x80
    return ((MODS[mod][0] | tsc_set) << 3) | tsc


def ref_enc_rx(ver, tn, fn, rssi, toa, sbits, legacy, nope=False, mod=None, tsc_set=0, tsc=0, ci=0):
    out = bytes([(ver << 4) | tn]) + be(fn, 4) + bytes([-rssi]) + be(toa, 2, True)
    if ver == 1:
        out += bytes([ref_mts(nope, mod, tsc_set, tsc)]) + be(ci, 2, True)
    if sbits is not None:
        out += bytes(127 - s for s in sbits)
    if legacy and ver == 0:
        out += b"\0\0"
    return out


def ref_dec(cls, d):
    """interpretation of datagram d per the layout; None when the layout gives no reading (too short / other version).
    burst: ('exact', seq) | ('prefix', seq) | ('none',) | ('skip',)"""
    if len(d) < 5:
        return None
    ver = d[0] >> 4
    if ver not in (0, 1):
        return None
    r = {"ver": ver, "tn": d[0] & 7, "fn": int.from_bytes(d[1:5], "big")}
    if cls == "tx":
        if len(d) < 6:
            return None
        r["pwr"] = d[5]
        pay = d[6:]
        P = len(pay)
        hard = all(b in (0, 1) for b in pay)
        if P == 0:
            r["burst"] = ("none",)
        elif not hard:
            r["burst"] = ("skip",)
        elif P in (148, 150):
            r["burst"] = ("exact", list(pay[:148]))
        elif P in (444, 446):
            r["burst"] = ("exact", list(pay[:444]))
        else:
            r["burst"] = ("prefix", list(pay))
        return r
    hl = 8 if ver == 0 else 11
    if len(d) < hl:
        return None
    r["rssi"] = -d[5]
    r["toa256"] = int.from_bytes(d[6:8], "big", signed=True)
    if ver == 1:
        mts = d[8]
        r["ci"] = int.from_bytes(d[9:11], "big", signed=True)
        r["nope"] = bool(mts & 0x80)
        if not r["nope"]:
            code = (mts >> 3) & 0xf
            r["tsc"] = mts & 7
            if code < 4:
                r["mod"], r["tsc_set"] = "ModGMSK", code
            else:
                nm = [k for k, v in MODS.items() if v[0] == (code & 0xe)]
                if nm:
                    r["mod"], r["tsc_set"] = nm[0], code & 1
                else:
                    del r["tsc"]            # reserved coding: no reading
    pay = d[hl:]
    P = len(pay)
    soft = [(-127 if u == 255 else 127 - u) for u in pay]
    if P == 0:
        r["burst"] = ("none",)
    elif ver == 0:
        if P in MOD_LENS:
            r["burst"] = ("exact", soft)
        elif P - 2 in MOD_LENS:
            r["burst"] = ("exact", soft[:-2])
        else:
            r["burst"] = ("prefix", soft)
    else:
        bl = MODS[r["mod"]][1] if "mod" in r else None
        r["burst"] = ("exact", soft) if (bl == P) else ("prefix", soft)
    return r


# ------------------------------------------------------------------ observation

def observe(cls, m):
    o = {"ver": m.ver, "tn": m.tn, "fn": m.fn}
    b = getattr(m, "burst", None)
    o["burst"] = None if b is None else [int(x) for x in b]
    if cls == "tx":
        o["pwr"] = m.pwr
        return o
    o["rssi"], o["toa256"] = m.rssi, m.toa256
    if m.ver == 1:
        o["ci"] = m.ci
        o["nope"] = bool(m.nope_ind)
        o["mod"] = getattr(m.mod_type, "name", None)
        o["tsc_set"], o["tsc"] = m.tsc_set, m.tsc
    return o


def compare(exp, obs):
    """list of (field, observed, expected) differences"""
    bad = []
    for k, v in exp.items():
        if k == "burst":
            kind = v[0]
            ob = obs["burst"]
            if kind == "none":
                if ob is not None and len(ob) != 0:
                    bad.append(("burst", "%d elements" % len(ob), "no burst"))
            elif kind == "exact":
                if ob != v[1]:
                    bad.append(("burst", _short(ob), _short(v[1])))
            elif kind == "prefix":
                if ob is not None and ob != v[1][:len(ob)]:
                    bad.append(("burst", _short(ob), "prefix of " + _short(v[1])))
        elif obs.get(k) != v:
            bad.append((k, obs.get(k), v))
    return bad


def _short(seq):
    if seq is None:
        return "None"
    return "len %d: %s%s" % (len(seq), list(seq[:12]), "..." if len(seq) > 12 else "")


# ------------------------------------------------------------------ the oracle

def run(budget_s=20.0, seed=0):
    t_end = time.time() + budget_s
    prev_disable = logging.root.manager.disable
    logging.disable(logging.CRITICAL)
    failures = []
    cnt = [0]
    restore = []

    def fail(what, inp, observed, expected):
        if len(failures) < 5:
            failures.append({"what": what, "input": inp, "observed": observed, "expected": expected})

    try:
        dm = toolkit("data_msg")
        MOD = {nm: getattr(dm.Modulation, nm) for nm in MODS}

        def mk_tx(ver, tn, fn, pwr, bits):
            m = dm.TxMsg(fn=fn, tn=tn, ver=ver)
            m.pwr = pwr
            m.burst = bytearray(bits)
            return m

        def mk_rx(ver, tn, fn, rssi, toa, sbits, nope=False, mod=None, tsc_set=0, tsc=0, ci=0):
            m = dm.RxMsg(fn=fn, tn=tn, ver=ver)
            m.rssi, m.toa256 = rssi, toa
            m.burst = None if sbits is None else array("b", sbits)
            if ver == 1:
                m.nope_ind = nope
                m.ci = ci
                if not nope:
                    m.mod_type, m.tsc_set, m.tsc = MOD[mod], tsc_set, tsc
                else:
                    m.mod_type, m.tsc_set, m.tsc = None, None, None
            return m

        def enc_case(cls, f, legacy, via=None):
            """f: dict of fields; build the live message, encode, compare with the reference encoding; returns the reference"""
            cnt[0] += 1
            if cls == "tx":
                exp = ref_enc_tx(f["ver"], f["tn"], f["fn"], f["pwr"], f["bits"], legacy)
                build = lambda: mk_tx(f["ver"], f["tn"], f["fn"], f["pwr"], f["bits"])
            else:
                exp = ref_enc_rx(f["ver"], f["tn"], f["fn"], f["rssi"], f["toa"], f["sbits"], legacy, f.get("nope", False), f.get("mod"),
                                 f.get("tsc_set", 0), f.get("tsc", 0), f.get("ci", 0))
                build = lambda: mk_rx(f["ver"], f["tn"], f["fn"], f["rssi"], f["toa"], f["sbits"], f.get("nope", False), f.get("mod"),
                                      f.get("tsc_set", 0), f.get("tsc", 0), f.get("ci", 0))
            try:
                m = build()
                if via is None:
                    got = bytes(m.gen_msg(True) if legacy else m.gen_msg())
                else:
                    sock = via.sock
                    del sock.sent[:]
                    via.send_msg(m, legacy=legacy) if legacy else via.send_msg(m)
                    got = [bytes(x[0]) for x in sock.sent]
                    got = got[0] if len(got) == 1 else "%d datagrams" % len(got)
            except ValueError as e:
                if f.get("mod") == "ModGMSK_AB" and f.get("tsc_set"):
                    return exp      # TSC set 1 of the access-burst coding is the reserved code point: a refusal is not judged
                got = "raises ValueError: %s" % e
            except Exception as e:
                got = "raises %s: %s" % (type(e).__name__, e)
            if got != exp:
                fail("gen_msg octets" if via is None else "DATAInterface.send_msg octets", {"class": cls, "legacy": legacy, "fields": _jf(f)},
                     got if isinstance(got, str) else _hexdiff(got, exp), exp.hex() if len(exp) < 40 else exp[:24].hex() + "... len %d" % len(exp))
            return exp

        def dec_case(cls, d, must_accept=False, as_bytes=False, via=None, want=None):
            """parse datagram d; when accepted, compare the fields with the layout reading"""
            cnt[0] += 1
            exp = ref_dec(cls, d)
            try:
                if via is None:
                    m = dm.TxMsg() if cls == "tx" else dm.RxMsg()
                    m.parse_msg(bytes(d) if as_bytes else bytearray(d))
                else:
                    via.sock.inbox.append((bytes(d), ("127.0.0.1", 4242)))
                    m = via.recv_tx_msg() if cls == "tx" else via.recv_rx_msg()
                    if m is None or m is False:
                        raise ValueError("dropped by the interface")
            except Exception as e:
                if must_accept:
                    fail("valid encoding rejected", {"class": cls, "datagram": _jd(d), "as": "bytes" if as_bytes else "bytearray"},
                         "raises %s: %s" % (type(e).__name__, e), "accepted")
                return
            if exp is None:
                if len(d) < (6 if cls == "tx" else 8) and (len(d) < 1 or (d[0] >> 4) in (0, 1)):
                    fail("datagram shorter than its header accepted", {"class": cls, "datagram": _jd(d)}, "accepted", "rejected")
                return
            try:
                obs = observe(cls, m)
            except Exception as e:
                fail("fields after parse_msg", {"class": cls, "datagram": _jd(d)}, "reading the fields raises %s: %s" % (type(e).__name__, e), "fields")
                return
            bad = compare(exp, obs)
            if want is not None and not bad:
                bad = compare(want, obs)
            if bad:
                fail("fields after parse_msg" if via is None else "fields after DATAInterface.recv_%s_msg" % cls,
                     {"class": cls, "datagram": _jd(d), "as": "bytes" if as_bytes else "bytearray"},
                     {k: o for k, o, _e in bad}, {k: e for k, _o, e in bad})

        def full(f_cls, f):
            """layout reading of the original message fields (what decoding a valid encoding must give back)"""
            if f_cls == "tx":
                return {"ver": f["ver"], "tn": f["tn"], "fn": f["fn"], "pwr": f["pwr"], "burst": ("exact", list(f["bits"]))}
            w = {"ver": f["ver"], "tn": f["tn"], "fn": f["fn"], "rssi": f["rssi"], "toa256": f["toa"],
                 "burst": ("none",) if f["sbits"] is None else ("exact", list(f["sbits"]))}
            if f["ver"] == 1:
                w["ci"], w["nope"] = f.get("ci", 0), bool(f.get("nope", False))
                if not w["nope"]:
                    w["mod"], w["tsc_set"], w["tsc"] = f["mod"], f.get("tsc_set", 0), f.get("tsc", 0)
            return w

        def both(cls, f, k=0):
            """encode (legacy off/on) and decode the reference encodings"""
            for legacy in (False, True):
                e = enc_case(cls, f, legacy)
                ab = f.get("mod") == "ModGMSK_AB" and f.get("tsc_set")
                dec_case(cls, e, must_accept=not ab, as_bytes=bool((k + legacy) & 1), want=full(cls, f))

        # ---------------- fixed part
        FNS = (0, 1, 255, 256, 65535, 65536, 0x00123456, 0x00290000, 0x00296F00, HYPER - 2, HYPER - 1)
        TOAS = (-32768, -257, -256, -1, 0, 1, 255, 256, 32767)
        CIS = (-1280, -256, -255, -1, 0, 1, 255, 256, 1280)
        pat01 = lambda n, k: [((i * 7 + k) >> (k % 3)) & 1 for i in range(n)]
        ramp = lambda n, k=0: [((i + k) % 255) - 127 for i in range(n)]
        k = 0
        for ver in (0, 1):
            for fn in FNS:
                for n in (148, 444):
                    k += 1
                    both("tx", {"ver": ver, "tn": k % 8, "fn": fn, "pwr": (k * 37) % 256, "bits": pat01(n, k)}, k)
            for pwr in range(256):
                both("tx", {"ver": ver, "tn": pwr % 8, "fn": 1000 + pwr, "pwr": pwr, "bits": [pwr & 1] * 148}, pwr)
            for tn in range(8):
                both("tx", {"ver": ver, "tn": tn, "fn": 42, "pwr": 0, "bits": [0] * 148}, tn)
                both("tx", {"ver": ver, "tn": tn, "fn": 42, "pwr": 255, "bits": [1] * 444}, tn)
        # Rx v0
        for fn in FNS:
            for n in (148, 444):
                k += 1
                both("rx", {"ver": 0, "tn": k % 8, "fn": fn, "rssi": -47 - (k % 74), "toa": TOAS[k % len(TOAS)], "sbits": ramp(n, k)}, k)
        for rssi in range(-120, -46):
            both("rx", {"ver": 0, "tn": (-rssi) % 8, "fn": 5, "rssi": rssi, "toa": rssi, "sbits": [127] * 148}, rssi)
            both("rx", {"ver": 1, "tn": (-rssi) % 8, "fn": 5, "rssi": rssi, "toa": -rssi, "sbits": [-127] * 148, "mod": "ModGMSK", "tsc_set": 0, "tsc": 0, "ci": rssi}, rssi)
        for toa in TOAS:
            for tn in range(8):
                both("rx", {"ver": 0, "tn": tn, "fn": 77, "rssi": -60, "toa": toa, "sbits": [0] * 444}, tn)
                both("rx", {"ver": 1, "tn": tn, "fn": 77, "rssi": -60, "toa": toa, "sbits": ramp(148, tn), "mod": "ModGMSK", "tsc_set": tn % 4, "tsc": tn, "ci": CIS[tn]}, tn)
        # Rx v1: every modulation / TSC set / TSC, C/I and NOPE
        for mod, (code, bl, nsets) in MODS.items():
            for ts in range(nsets):
                for tsc in range(8):
                    k += 1
                    both("rx", {"ver": 1, "tn": tsc, "fn": FNS[k % len(FNS)], "rssi": -50 - tsc, "toa": TOAS[k % len(TOAS)], "sbits": ramp(bl, k),
                                "mod": mod, "tsc_set": ts, "tsc": tsc, "ci": CIS[k % len(CIS)]}, k)
        for ci in CIS + (-1000, 1000, 90, -30):
            both("rx", {"ver": 1, "tn": 3, "fn": 99, "rssi": -110, "toa": 0, "sbits": None, "nope": True, "ci": ci})
            both("rx", {"ver": 1, "tn": 3, "fn": 99, "rssi": -110, "toa": 0, "sbits": [1] * 444, "mod": "Mod8PSK", "tsc_set": 1, "tsc": 7, "ci": ci})
        for fn in FNS:
            both("rx", {"ver": 1, "tn": 7, "fn": fn, "rssi": -120, "toa": -32768, "sbits": None, "nope": True, "ci": -1280})

        # through the DATA interface of a real transceiver (recorder socket)
        from contracts.py.native import native_trx
        ul = toolkit("udp_link")
        restore.append((ul, "socket", ul.socket))
        trx = native_trx("C04")
        di = trx.data_if
        for ver in (0, 1):
            try:
                di.set_hdr_ver(ver)
            except Exception:
                pass
            for legacy in (False, True):
                f = {"ver": ver, "tn": 5, "fn": 0x00102030, "rssi": -77, "toa": -300, "sbits": ramp(148, 9), "mod": "ModGMSK", "tsc_set": 2, "tsc": 6, "ci": 513}
                e = enc_case("rx", f, legacy, via=di)
                dec_case("rx", e, must_accept=True, via=di, want=full("rx", f))
                f = {"ver": ver, "tn": 6, "fn": 0x00203040, "pwr": 129, "bits": pat01(444, 5)}
                e = enc_case("tx", f, legacy, via=di)
                dec_case("tx", e, must_accept=True, via=di, want=full("tx", f))
        del di.sock.sent[:]

        # decoder: every value of single octets, every payload length
        base_tx = ref_enc_tx(0, 0, 0x00010203, 17, pat01(148, 1), False)
        base_rx0 = ref_enc_rx(0, 0, 0x00010203, -60, 1000, ramp(148), False)
        base_rx1 = ref_enc_rx(1, 0, 0x00010203, -60, 1000, ramp(148), False, False, "ModGMSK", 1, 2, -500)
        for v in range(256):
            for cls, base in (("tx", base_tx), ("rx", base_rx0), ("rx", base_rx1)):
                dec_case(cls, bytes([v]) + base[1:], as_bytes=bool(v & 1))                       # version nibble / reserved bit / TN
                dec_case(cls, base[:5] + bytes([v]) + base[6:], as_bytes=bool(v & 2))          # attenuation / RSSI
                for pos in (1, 2, 3, 4, 6, 7):
                    if pos < 6 or cls == "rx":
                        dec_case(cls, base[:pos] + bytes([v]) + base[pos + 1:])                # FN / ToA octets
            for bl in (148, 296, 444, 592, 740):
                d = base_rx1[:8] + bytes([v]) + base_rx1[9:11] + bytes((i * 3 + v) % 255 for i in range(bl))
                dec_case("rx", d, as_bytes=bool(v & 1))                                        # MTS
            dec_case("rx", base_rx1[:8] + bytes([v]), as_bytes=True)
            dec_case("rx", base_rx1[:9] + bytes([v, 255 - v]) + base_rx1[11:])                 # C/I
            dec_case("rx", base_rx0[:8] + bytes([v]) * 148)                                    # soft-bit octet
            dec_case("rx", base_rx1[:11] + bytes([(v + i) % 256 for i in range(148)]))
        for P in range(0, 761):
            dec_case("tx", base_tx[:6] + bytes(pat01(P, P)), as_bytes=bool(P & 1))
            dec_case("tx", bytes([0x10]) + base_tx[1:6] + bytes(pat01(P, P + 1)))
            dec_case("rx", base_rx0[:8] + bytes((i + P) % 255 for i in range(P)), as_bytes=bool(P & 1))
            dec_case("rx", base_rx1[:11] + bytes((i * 5 + P) % 256 for i in range(P)))
        for n in range(0, 12):
            for cls, base in (("tx", base_tx), ("rx", base_rx0), ("rx", base_rx1)):
                dec_case(cls, base[:n])

        # ---------------- budgeted random part
        rnd = random.Random(seed)

        def rand_fields(cls):
            ver = rnd.randrange(2)
            fn = rnd.choice((rnd.randrange(HYPER), rnd.randrange(HYPER), rnd.choice(FNS)))
            if cls == "tx":
                n = rnd.choice((148, 444))
                bits = [rnd.getrandbits(1) for _ in range(n)] if rnd.random() < 0.8 else [rnd.getrandbits(1)] * n
                return {"ver": ver, "tn": rnd.randrange(8), "fn": fn, "pwr": rnd.randrange(256), "bits": bits}
            f = {"ver": ver, "tn": rnd.randrange(8), "fn": fn, "rssi": rnd.randint(-120, -47), "toa": rnd.choice((rnd.randint(-32768, 32767), rnd.choice(TOAS)))}
            if ver == 0:
                n = rnd.choice((148, 444))
            else:
                f["ci"] = rnd.choice((rnd.randint(-1280, 1280), rnd.choice(CIS)))
                if rnd.random() < 0.1:
                    f["nope"], f["sbits"] = True, None
                    return f
                mod = rnd.choice(list(MODS))
                f["mod"], f["tsc_set"], f["tsc"] = mod, rnd.randrange(MODS[mod][2]), rnd.randrange(8)
                if mod == "ModGMSK_AB":
                    f["tsc_set"] = 0
                n = MODS[mod][1]
            r = rnd.random()
            f["sbits"] = [rnd.randint(-127, 127) for _ in range(n)] if r < 0.7 else ([rnd.choice((-127, 127)) for _ in range(n)] if r < 0.9 else ramp(n, rnd.randrange(255)))
            return f

        def mutate(cls, e):
            r = rnd.randrange(8)
            b = bytearray(e)
            if r == 0:
                return bytes(b[:rnd.randrange(len(b) + 1)])
            if r == 1:
                extra = rnd.choice((1, 2, 3, 148, rnd.randrange(1, 300)))
                return bytes(b) + bytes(rnd.randrange(2 if cls == "tx" else 256) for _ in range(extra))
            if r == 2:
                for _ in range(rnd.randrange(1, 4)):
                    b[rnd.randrange(min(len(b), 11))] = rnd.randrange(256)
                return bytes(b)
            if r == 3:
                for _ in range(rnd.randrange(1, 6)):
                    b[rnd.randrange(len(b))] = rnd.randrange(256)
                return bytes(b)
            if r == 4:
                hl = 6 if cls == "tx" else (8 if (b[0] >> 4) == 0 else 11)
                P = rnd.choice(MOD_LENS) + rnd.randrange(-3, 4)
                return bytes(b[:hl]) + bytes(rnd.randrange(2 if cls == "tx" else 256) for _ in range(P))
            if r == 5:
                b[0] = (rnd.randrange(2) << 4) | rnd.randrange(16)
                return bytes(b)
            if r == 6:
                hl = 6 if cls == "tx" else 11
                return bytes(rnd.randrange(256) for _ in range(hl)) + bytes(b[hl:])
            b[0] ^= 0x10        # other version with this payload
            return bytes(b)

        while not failures and time.time() < t_end:
            for _ in range(100):
                cls = "tx" if rnd.random() < 0.4 else "rx"
                f = rand_fields(cls)
                legacy = rnd.random() < 0.5
                e = enc_case(cls, f, legacy)
                dec_case(cls, e, must_accept=True, as_bytes=rnd.random() < 0.5, want=full(cls, f))
                for _m in range(2):
                    dec_case(cls, mutate(cls, e), as_bytes=rnd.random() < 0.5)
                if failures:
                    break
        return {"cases": cnt[0], "failures": _fit(failures)}
    finally:
        for o, a, v in restore:
            setattr(o, a, v)
        logging.disable(prev_disable)


def _jf(f):
    out = {}
    for k, v in f.items():
        out[k] = v if not isinstance(v, list) else {"len": len(v), "all": v}
    for k in ("bits", "sbits"):
        if isinstance(out.get(k), dict):
            full = out[k].pop("all")
            out[k]["octets_hex" if k == "bits" else "twos_complement_hex"] = bytes(x & 0xff for x in full).hex()
    return out


def _jd(d):
    d = bytes(d)
    return {"len": len(d), "hex": d.hex()}


def _hexdiff(got, exp):
    if len(got) != len(exp):
        return "len %d (expected %d): %s" % (len(got), len(exp), got[:24].hex())
    i = next(i for i in range(len(got)) if got[i] != exp[i])
    return "octet %d is 0x%02x (expected 0x%02x); first 16: %s" % (i, got[i], exp[i], got[:16].hex())


def _fit(failures, limit=14000):
    """keep the report printable by oracles.run (20 000 characters): drop trailing failures, then shorten the first one's history"""
    import json
    fs = list(failures[:5])
    while len(fs) > 1 and len(json.dumps(fs, indent=1, default=str)) > limit:
        fs.pop()
    if fs and len(json.dumps(fs, indent=1, default=str)) > limit:
        inp = fs[0].get("input")
        if isinstance(inp, dict) and isinstance(inp.get("history"), list):
            while len(inp["history"]) > 5 and len(json.dumps(fs, indent=1, default=str)) > limit:
                del inp["history"][:max(1, len(inp["history"]) // 4)]
                inp["history_truncated"] = True
        if len(json.dumps(fs, indent=1, default=str)) > limit:
            fs[0]["input"] = json.dumps(fs[0]["input"], default=str)[:limit // 2] + " ...(truncated)"
            fs[0]["observed"] = str(fs[0]["observed"])[:2000]
            fs[0]["expected"] = str(fs[0]["expected"])[:2000]
    return fs

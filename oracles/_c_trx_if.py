"""Shared native harness of the C-side oracles of trxcon's transceiver interface (src/host/trxcon/src/trx_if.c): c_C04, c_C05, c_C14.

trx_if.c needs a libosmocore newer than the bundled one, so - exactly as the CVC front end does - the entry functions are cut VERBATIM
out of the real file behind shim/trxcon_trx_if_prelude.h (real bundled/trxcon headers + declarations of the missing library API); helpers
the entry functions call are cut as the build asks for them (oracles/_c.py: native_extract), so splitting off a helper does not break
the harness.  Only public entry points / socket callbacks are driven:
    trx_if_handle_phyif_cmd(trx, cmd)          emits TRXC commands (send() on the CTRL socket, observed at the other end of a socketpair)
    trx_ctrl_read_cb(ofd, what)                 CTRL socket readable: one response datagram
    trx_data_rx_cb(ofd, what)                   DATA socket readable: one TRXD burst datagram -> trxcon_phyif_handle_burst_ind()
    trx_if_handle_phyif_burst_req(trx, br)      burst towards the transceiver -> send() on the DATA socket
Line protocol (stdin -> one `=` line each): new | cmd <type> <args..> | feed <hex> | pending | rx <adv> <hex> | tx <tn> <fn> <pwr> <hex bits>
"""
from engine.cvc import frontend
from . import _c

TRX_IF_C = "src/host/trxcon/src/trx_if.c"
PRELUDE = "trxcon_trx_if_prelude.h"
H = "src/host/trxcon/include/osmocom/bb/trxcon/"
DECLS = ((H + "trx_if.h", "define TRX[CD]_BUF_SIZE"), (H + "trx_if.h", "enum trx_fsm_states"), (H + "trx_if.h", "struct trx_instance"),
         (H + "trx_if.h", "struct trx_ctrl_msg"), (TRX_IF_C, "define TRXDv0_HDR_LEN"), (TRX_IF_C, "proto trx_ctrl_timer_cb"))
INCLUDES = ("src/host/trxcon/include",)
CTRL_ROOTS = ("trx_if_handle_phyif_cmd", "trx_ctrl_read_cb")
DATA_ROOTS = ("trx_data_rx_cb", "trx_if_handle_phyif_burst_req")
HYPER = 2048 * 26 * 51

_MAIN = _c.PROTOCOL_C + r"""
#include <sys/socket.h>
#include <fcntl.h>
static int n_term, n_chg, chg[8], n_freed, n_rsp, rsp_type, rsp_arfcn, rsp_dbm;
static int n_ind, n_rts; static struct trxcon_phyif_burst_ind last_ind; static sbit_t last_bits[2048]; static struct trxcon_phyif_rts_ind last_rts;
void osmo_panic(const char *fmt, ...) { printf("osmo_panic\n"); fflush(stdout); abort(); }   /* OSMO_ASSERT of the code under test failed */
int verif_fsm_state_chg(struct osmo_fsm_inst *fi, uint32_t st) { if (n_chg < 8) chg[n_chg] = st; n_chg++; fi->state = st; return 0; }
void verif_fsm_term(struct osmo_fsm_inst *fi, enum osmo_fsm_term_cause cause, void *data) { n_term++; }
int talloc_free(void *p) { n_freed++; free(p); return 0; }
int _talloc_free(void *p, const char *loc) { n_freed++; free(p); return 0; }
void *_talloc_zero(const void *ctx, size_t size, const char *name) { return calloc(1, size); }
void osmo_timer_del(struct osmo_timer_list *t) { }
void osmo_timer_schedule(struct osmo_timer_list *t, int s, int us) { }
uint16_t gsm_freq102arfcn(uint16_t f, int ul) { return f; }   /* newer libosmocore API: the harness reports the 100 kHz value it is given */
int trxcon_phyif_handle_rsp(void *priv, const struct trxcon_phyif_rsp *rsp)
{ n_rsp++; rsp_type = rsp->type; rsp_arfcn = rsp->param.measure.band_arfcn; rsp_dbm = rsp->param.measure.dbm; return 0; }
int trxcon_phyif_handle_burst_ind(void *priv, const struct trxcon_phyif_burst_ind *bi)
{
	n_ind++; last_ind = *bi;
	if (bi->burst_len <= sizeof(last_bits)) memcpy(last_bits, bi->burst, bi->burst_len);
	return 0;
}
int trxcon_phyif_handle_rts_ind(void *priv, const struct trxcon_phyif_rts_ind *rts) { n_rts++; last_rts = *rts; return 0; }

static struct trx_instance *trx;
static int cs[2], ds[2];
static void fresh(void)
{
	/* the old instance is leaked on purpose: pending commands may still point into it */
	trx = calloc(1, sizeof(*trx));
	trx->fi = calloc(1, sizeof(struct osmo_fsm_inst));
	trx->prev_state = 7;
	INIT_LLIST_HEAD(&trx->trx_ctrl_list);
	if (cs[0]) { close(cs[0]); close(cs[1]); close(ds[0]); close(ds[1]); }
	if (socketpair(AF_UNIX, SOCK_DGRAM, 0, cs) || socketpair(AF_UNIX, SOCK_DGRAM, 0, ds)) exit(3);
	trx->trx_ofd_ctrl.fd = cs[0]; trx->trx_ofd_ctrl.data = trx;
	trx->trx_ofd_data.fd = ds[0]; trx->trx_ofd_data.data = trx;
	n_term = n_chg = n_freed = n_rsp = n_ind = n_rts = 0;
}
static int qlen(void) { struct llist_head *e; int n = 0; llist_for_each(e, &trx->trx_ctrl_list) n++; return n; }
static void drain(int fd, const char *tag)
{
	/* datagrams the code has sent: count and the first one */
	static uint8_t out[4096]; int r, n = 0, first = -1; static uint8_t keep[4096];
	while ((r = recv(fd, out, sizeof(out), MSG_DONTWAIT)) >= 0) { if (!n) { first = r; memcpy(keep, out, r); } n++; }
	printf(" %s_n=%d %s_len=%d %s=", tag, n, tag, first, tag); orc_puthex(keep, first);
}
int main(void)
{
	static char line[20000], w[64], h[16384];
	static uint8_t d[8192];
	fresh();
	while (fgets(line, sizeof(line), stdin)) {
		long a[80]; int i, n = 0, used = 0, k;
		w[0] = h[0] = 0;
		sscanf(line, "%63s%n", w, &used);
		if (!strcmp(w, "new")) { fresh(); printf("= ok\n"); }
		else if (!strcmp(w, "pending")) { printf("= qlen=%d\n", qlen()); }
#ifdef ORC_CTRL
		else if (!strcmp(w, "cmd")) {
			/* cmd <type> <args...> : type = enum trxcon_phyif_cmd_type; H1: hsn maio n arfcn... */
			struct trxcon_phyif_cmd c; static uint16_t ma[80]; char *p = line + used; int rc;
			while (n < 80 && sscanf(p, "%ld%n", &a[n], &k) == 1) { p += k; n++; }
			memset(&c, 0, sizeof(c));
			c.type = a[0];
			switch (c.type) {
			case TRXCON_PHYIF_CMDT_MEASURE: c.param.measure.band_arfcn = a[1]; break;
			case TRXCON_PHYIF_CMDT_SETFREQ_H0: c.param.setfreq_h0.band_arfcn = a[1]; break;
			case TRXCON_PHYIF_CMDT_SETFREQ_H1:
				c.param.setfreq_h1.hsn = a[1]; c.param.setfreq_h1.maio = a[2]; c.param.setfreq_h1.ma_len = a[3]; c.param.setfreq_h1.ma = ma;
				for (i = 0; i < a[3] && i < 76; i++) ma[i] = a[4 + i];
				break;
			case TRXCON_PHYIF_CMDT_SETSLOT: c.param.setslot.tn = a[1]; c.param.setslot.pchan = a[2]; break;
			case TRXCON_PHYIF_CMDT_SETTA: c.param.setta.ta = a[1]; break;
			default: break;
			}
			rc = trx_if_handle_phyif_cmd(trx, &c);
			printf("= ret=%d qlen=%d", rc, qlen()); drain(cs[1], "sent"); printf("\n");
		} else if (!strcmp(w, "feed")) {
			int rc;
			sscanf(line + used, "%16383s", h);
			n = orc_hex(h, d, sizeof(d));
			n_term = n_chg = n_freed = n_rsp = 0;
			if (send(cs[1], d, n, 0) != n) { printf("= harness_send_failed\n"); fflush(stdout); continue; }
			rc = trx_ctrl_read_cb(&trx->trx_ofd_ctrl, 1);
			printf("= ret=%d qlen=%d powered_up=%d term=%d nchg=%d chg0=%d freed=%d nrsp=%d rsp_type=%d rsp_arfcn=%d rsp_dbm=%d", rc, qlen(), (int)trx->powered_up,
			       n_term, n_chg, n_chg ? chg[0] : -1, n_freed, n_rsp, rsp_type, rsp_arfcn, rsp_dbm);
			drain(cs[1], "sent"); printf("\n");
		}
#endif
#ifdef ORC_DATA
		else if (!strcmp(w, "rx")) {
			long adv = 0; int rc;
			sscanf(line + used, "%ld %16383s", &adv, h);
			n = orc_hex(h, d, sizeof(d));
			trx->fn_advance = adv;
			n_ind = n_rts = 0;
			if (send(ds[1], d, n, 0) != n) { printf("= harness_send_failed\n"); fflush(stdout); continue; }
			rc = trx_data_rx_cb(&trx->trx_ofd_data, 1);
			printf("= ret=%d nind=%d nrts=%d", rc, n_ind, n_rts);
			if (n_ind) {
				printf(" fn=%u tn=%u toa256=%d rssi=%d bl=%u bits=", (unsigned)last_ind.fn, (unsigned)last_ind.tn, (int)last_ind.toa256, (int)last_ind.rssi, (unsigned)last_ind.burst_len);
				orc_puthex((const uint8_t *)last_bits, last_ind.burst_len <= sizeof(last_bits) ? last_ind.burst_len : 0);
			}
			printf("\n");
		} else if (!strcmp(w, "tx")) {
			struct trxcon_phyif_burst_req br; long tn, fn, pwr; int rc; static ubit_t bits[4096];
			sscanf(line + used, "%ld %ld %ld %16383s", &tn, &fn, &pwr, h);
			n = orc_hex(h, bits, sizeof(bits));
			memset(&br, 0, sizeof(br));
			br.tn = tn; br.fn = fn; br.pwr = pwr; br.burst = bits; br.burst_len = n;
			rc = trx_if_handle_phyif_burst_req(trx, &br);
			printf("= ret=%d", rc); drain(ds[1], "sent"); printf("\n");
		}
#endif
		else printf("= ?\n");
		fflush(stdout);
	}
	return 0;
}
"""


def extra_text():
    """gsm_arfcn2freq10 of the bundled libosmocore (used by the RXTUNE/TXTUNE/MEASURE emitters), cut verbatim with its band macros"""
    fn, line = _c.cut("src/shared/libosmocore/src/gsm/gsm_utils.c", "gsm_arfcn2freq10")
    try:
        defs = frontend.cut_defines("src/shared/libosmocore/include/osmocom/gsm/gsm_utils.h", r"ARFCN_(PCS|UPLINK)")
    except Exception as e:
        raise _c.OracleCrash("cannot cut the ARFCN macros: %s" % (e,))
    return defs + "\n" + fn + "\n"


def native(ctrl=True, data=True, san=None):
    """-> context manager yielding a _c.Native for the requested entry points"""
    roots = (CTRL_ROOTS if ctrl else ()) + (DATA_ROOTS if data else ())
    flags = frontend.extract_flags(INCLUDES) + (["-DORC_CTRL"] if ctrl else []) + (["-DORC_DATA"] if data else [])
    return _c.native_extract(TRX_IF_C, roots, PRELUDE, _MAIN, flags, decls=DECLS, includes=INCLUDES, extra_text=extra_text() if ctrl else "", san=san)


# enum trxcon_phyif_cmd_type (phyif.h) - the public command interface of trx_if.c
RESET, POWERON, POWEROFF, MEASURE, SETFREQ_H0, SETFREQ_H1, SETSLOT, SETTA = range(8)

"""C11 (C half) - bounded native oracle: the firmware's multiframe scheduler (mframe_sched.c: mframe_schedule) and trxcon's multiframe
layouts (sched_mframe.c: l1sched_mframe_layout; sched_trx.c: l1sched_configure_ts and the frame lookups) agree on the multiframe mapping
of every logical channel.

Statement-level reference: spec/mframe_correspondence.py (ROWS: which firmware task / scheduler set / SACCH flag is which trxcon channel
combination, timeslot, logical channel and direction; block vs frame mode; burst-id modulus; the channel combinations both stacks
implement) - written from the statement and 3GPP TS 45.002 clause 7, not from the tables under test.  What is judged:
  agree      for every ROW, (config, tn) and frame F: the firmware starts that kind of block / frame in F  <=>  the row
             l1sched_mframe_layout(config, tn)->frames[F % period] names the channel (with burst id 0 in block mode); a compared task makes
             no call without a counterpart (other direction, other flags, foreign task id, unknown scheduler set)
  bid_cycle  the frames of one period owned by a block channel carry burst ids 0,1,2,3 (0,1 for TCH/H) in cyclic order
  mask       every channel of every row other than IDLE is in the layout's lchan_mask; behaviourally: after the real l1sched_configure_ts
             the real frame lookups find a channel state for it (its handler is invoked)
  lookup     l1sched_mframe_layout(config, tn) is non-NULL for the implemented combinations; what it returns has that chan_config, slotmask
             bit tn, and period > 0 / frames != NULL (or is never installed: whatever l1sched_configure_ts reports configured is valid)
  table      no frame lookup leaves the table: frames[F % period] is read for every F under ASan/UBSan, through the public lookup and through
             the real l1sched_handle_rx_burst / l1sched_pull_burst / l1sched_handle_rx_probe (which must read exactly that row)
Observed: the tdma_schedule_set() calls made by mframe_schedule() (stubbed in the harness: frame offset, scheduler set, p3 = task | flags << 8);
a block whose set is queued `frame_offset` frames ahead has its first burst one frame later (DSP latency, a hardware fact - not read from
the code's SCHEDULE_LATENCY); the public struct l1sched_tdma_multiframe / l1sched_tdma_frame fields; ts->mf_layout and ts->lchans after
l1sched_configure_ts; the handler invoked (and the burst id it sees) by the frame lookups.
Harnesses: (1) mframe_sched.c #included whole with the firmware headers, struct l1s_state l1s and the scheduler sets defined by the harness;
(2) sched_mframe.c #included whole behind shim/trxcon_mframe_shim.h, then shim/trxcon_sched_lookup_prelude.h, the #defines of sched_trx.c and
l1sched_pull_burst, l1sched_configure_ts, l1sched_find_lchan_by_type, subst_frame_loss, l1sched_handle_rx_burst, l1sched_handle_rx_probe cut
verbatim; l1sched_add_ts / l1sched_reset_ts / talloc are stubbed with their effect on mf_layout and the channel list; l1sched_lchan_desc[] is
the harness's own (every channel but IDLE has recording handlers).
"""
import os, random

from engine.cvc import frontend, replay as R, dptr
from engine.pyvc.values import Unsupported
from spec import mframe_correspondence as MC
from . import _c

MFRAME_SCHED = "src/target/firmware/layer1/mframe_sched.c"
SCHED_MFRAME = "src/host/trxcon/src/sched_mframe.c"
SCHED_TRX = "src/host/trxcon/src/sched_trx.c"
LOOKUP_PRELUDE = "trxcon_sched_lookup_prelude.h"
CUT = ("l1sched_pull_burst", "l1sched_configure_ts", "l1sched_find_lchan_by_type", "subst_frame_loss", "l1sched_handle_rx_burst",
       "l1sched_handle_rx_probe")

CYCLE = 51 * 26 * 8                 # 10608: both periods (102, 104) divide it
HYPER = 2048 * 26 * 51              # 2715648 = 256 cycles
NCFG = 16                           # channel combination values 0..15 (enum gsm_phys_chan_config has 12 enumerators incl. the shimmed ones)
LEAD = 16                           # a walk starts this many frames before its window

BOUND = ("C half, two ASan+UBSan harnesses built from the current sources (firmware mframe_sched.c whole; trxcon sched_mframe.c whole + "
         "l1sched_configure_ts and the frame-lookup functions cut verbatim from sched_trx.c). Fixed part (about 3 s incl. both compilations) = the "
         "complete quantifier: mframe_schedule() run for each of the 22 compared tasks alone on every frame of one 51x26x8 cycle (10 608 frames, "
         "starting 16 frames before it, i.e. across the hyperframe wrap), every tdma_schedule_set() call recorded; l1sched_mframe_layout(config, tn) "
         "for config 0..15 x tn 0..7 (128 lookups) and ->frames[F % period] read for every F of the cycle; the 70 (task, scheduler set, SACCH flag, "
         "direction) <-> (combinations, timeslots, channel) rows of spec/mframe_correspondence.py compared on all 272 (task, config, tn) instances "
         "and every F (47 distinct task x table comparisons of 10 608 frames, both directions); burst-id cycles and channel masks of every "
         "returned layout over its period; the real l1sched_configure_ts for config 0..15 x tn 0..7 on a new timeslot, after another combination "
         "and after a refused one (384 sequences), each followed by the real l1sched_handle_rx_burst / l1sched_pull_burst / l1sched_handle_rx_probe "
         "on every F of a cycle (implemented combinations, new and reconfigured timeslot, the latter across the hyperframe wrap) or on 416 frames "
         "(the rest): 4.4 million lookups. Budgeted part: the other 255 cycles of the hyperframe with all 22 tasks enabled at once (cycle 255 "
         "first, then seeded order; all 255 need about 35 s), alternating with 8 seeded random configure sequences (1..4 combinations of 0..15, "
         "random tn) each followed by lookups on 2000 frames from a random frame with stride 1..5 (lost-frame substitution path), then seeded "
         "random task subsets on random windows of 3000 frames.")

# ---------------------------------------------------------------------- event bits of the firmware side
B_DL, B_UL, B_DL_SACCH, B_UL_SACCH, B_TCH, B_TCH_A, B_NOCHAN, B_UNEXPECTED = 1, 2, 4, 8, 16, 32, 64, 128
BIT_OF = {("nb_sched_set", 0): B_DL, ("nb_sched_set_ul", 0): B_UL, ("nb_sched_set", 1): B_DL_SACCH, ("nb_sched_set_ul", 1): B_UL_SACCH,
          ("tch_sched_set", 0): B_TCH, ("tch_a_sched_set", 1): B_TCH_A}
BIT_NAME = {B_DL: "downlink block (nb_sched_set)", B_UL: "uplink block (nb_sched_set_ul)", B_DL_SACCH: "downlink SACCH block (nb_sched_set, MF_F_SACCH)",
            B_UL_SACCH: "uplink SACCH block (nb_sched_set_ul, MF_F_SACCH)", B_TCH: "TCH frame (tch_sched_set)", B_TCH_A: "SACCH/T frame (tch_a_sched_set, MF_F_SACCH)",
            B_NOCHAN: "no logical channel (tch_d / neigh_pm)", B_UNEXPECTED: "call without a counterpart (flags / set / task id)"}
DIR_BITS = {MC.DL: B_DL | B_DL_SACCH | B_TCH | B_TCH_A | B_UNEXPECTED, MC.UL: B_UL | B_UL_SACCH | B_TCH | B_TCH_A}

_FW_MAIN = _c.PROTOCOL_C + r"""
#define ORC_HYPER 2715648UL
#define ORC_LEAD @LEAD@
struct l1s_state l1s;
const struct tdma_sched_item nb_sched_set[1], nb_sched_set_ul[1], tch_sched_set[1], tch_a_sched_set[1], tch_d_sched_set[1],
	neigh_pm_sched_set[1];
static unsigned long w_base, w_count, w_foreign;
static uint32_t w_mask;
static uint8_t *w_ev[32];
/* the TDMA scheduler: records what is started in which frame.  A set queued `frame_offset` frames ahead puts its first burst on the air
 * one frame after that (the DSP executes a command in the frame after the one it is given in) */
int tdma_schedule_set(uint8_t frame_offset, const struct tdma_sched_item *item_set, uint16_t p3)
{
	unsigned task = p3 & 0xff, flags = p3 >> 8, sacch = flags & 1;
	unsigned long F = (l1s.current_time.fn + frame_offset + 1) % ORC_HYPER;
	unsigned long idx = (F + ORC_HYPER - w_base) % ORC_HYPER;
	uint8_t e;
	if (item_set == nb_sched_set) e = sacch ? 4 : 1;
	else if (item_set == nb_sched_set_ul) e = sacch ? 8 : 2;
	else if (item_set == tch_sched_set) e = sacch ? 128 : 16;
	else if (item_set == tch_a_sched_set) e = sacch ? 32 : 128;
	else if (item_set == tch_d_sched_set || item_set == neigh_pm_sched_set) e = 64;
	else e = 128;
	if (e != 64 && (flags & ~1u)) e |= 128;
	if (task >= 32 || !(w_mask & (1u << task))) { w_foreign++; return 4; }
	if (idx < w_count) w_ev[task][idx] |= e;
	return 4;
}
static void set_time(unsigned long fn)
{
	memset(&l1s.current_time, 0, sizeof(l1s.current_time));
	l1s.current_time.fn = fn; l1s.current_time.t1 = fn / 1326; l1s.current_time.t2 = fn % 26; l1s.current_time.t3 = fn % 51;
	l1s.current_time.tc = (fn / 51) % 8;
}
int main(void)
{
	static char line[256];
	while (fgets(line, sizeof(line), stdin)) {
		char op = 0;
		unsigned long a = 0, b = 0, c = 0, i;
		int t;
		sscanf(line, " %c %lu %lu %lu", &op, &a, &b, &c);
		if (op == 'n') {
			printf("=");
@NAMES@
			printf("\n");
		} else if (op == 'w') {
			/* w mask base count : mframe_schedule() with the tasks of `mask` enabled, frame by frame from base - LEAD to base + count - 1 */
			w_mask = (uint32_t)a; w_base = b % ORC_HYPER; w_count = c; w_foreign = 0;
			for (t = 0; t < 32; t++) w_ev[t] = (w_mask & (1u << t)) ? calloc(w_count ? w_count : 1, 1) : NULL;
			memset(&l1s, 0, sizeof(l1s));
			mframe_reset();
			mframe_set(w_mask);
			for (i = 0; i < w_count + ORC_LEAD; i++) {
				set_time((w_base + ORC_HYPER - ORC_LEAD + i) % ORC_HYPER);
				mframe_schedule();
			}
			printf("= foreign=%lu", w_foreign);
			for (t = 0; t < 32; t++) if (w_ev[t]) { printf(" t%d=", t); orc_puthex(w_ev[t], (int)w_count); free(w_ev[t]); w_ev[t] = NULL; }
			printf("\n");
		} else
			printf("= ?\n");
		fflush(stdout);
	}
	return 0;
}
"""

_TRX_MAIN = _c.PROTOCOL_C + r"""
#define ORC_HYPER 2715648UL
/* the channel descriptions: every channel but IDLE has handlers; they record the invocation made with the caller's own burst */
static const struct l1sched_burst_ind *cur_bi;
static const struct l1sched_burst_req *cur_br;
static int rx_calls, rx_chan, rx_bid, tx_calls, tx_chan, tx_bid;
static int orc_rx(struct l1sched_lchan_state *lchan, const struct l1sched_burst_ind *bi)
{
	if (bi == cur_bi) { rx_calls++; rx_chan = lchan->type; rx_bid = bi->bid; }
	return 0;
}
static int orc_tx(struct l1sched_lchan_state *lchan, struct l1sched_burst_req *br)
{
	if (br == cur_br) { tx_calls++; tx_chan = lchan->type; tx_bid = br->bid; }
	return 0;
}
const struct l1sched_lchan_desc l1sched_lchan_desc[_L1SCHED_CHAN_MAX] = {
	[0 ... _L1SCHED_CHAN_MAX - 1] = { .name = "x", .desc = "x", .rx_fn = orc_rx, .tx_fn = orc_tx },
	[L1SCHED_IDLE] = { .name = "IDLE", .desc = "IDLE" },
};
static void l1sched_a5_burst_enc(struct l1sched_lchan_state *lchan, struct l1sched_burst_req *br) { }
static void l1sched_a5_burst_dec(struct l1sched_lchan_state *lchan, struct l1sched_burst_ind *bi) { }
/* callees of l1sched_configure_ts, with their sched_trx.c effect on mf_layout and the channel list */
static int l1sched_cfg_pchan_comb_ind(struct l1sched_state *sched, uint8_t tn, enum gsm_phys_chan_config pchan) { return 0; }
/* libosmocore's panic handler (OSMO_ASSERT): a failed assertion of the code under test aborts the harness (reported as a crash) */
void osmo_panic(const char *fmt, ...) { printf("osmo_panic\n"); fflush(stdout); abort(); }
static void orc_free_lchans(struct l1sched_ts *ts)
{
	struct l1sched_lchan_state *lchan, *nxt;
	if (ts->lchans.next == NULL) return;
	llist_for_each_entry_safe(lchan, nxt, &ts->lchans, list) { llist_del(&lchan->list); free(lchan); }
}
int l1sched_reset_ts(struct l1sched_state *sched, int tn)
{
	if (sched->ts[tn] == NULL) return -EINVAL;
	sched->ts[tn]->mf_layout = NULL;
	orc_free_lchans(sched->ts[tn]);
	INIT_LLIST_HEAD(&sched->ts[tn]->lchans);
	return 0;
}
struct l1sched_ts *l1sched_add_ts(struct l1sched_state *sched, int tn)
{
	struct l1sched_ts *ts;
	if (sched->ts[tn] != NULL) return NULL;
	ts = calloc(1, sizeof(*ts));
	ts->index = tn; ts->sched = sched;
	INIT_LLIST_HEAD(&ts->lchans);
	sched->ts[tn] = ts;
	return ts;
}
int l1sched_activate_lchan(struct l1sched_ts *ts, enum l1sched_lchan_type chan) { return 0; }
void *_talloc_zero(const void *ctx, size_t size, const char *name) { return calloc(1, size); }

static void put_layout(const struct l1sched_tdma_multiframe *l)
{
	if (!l) { printf(" null=1"); return; }
	printf(" null=0 config=%d period=%u slotmask=%u lmask=%llx frames_null=%d", (int)l->chan_config, (unsigned)l->period, (unsigned)l->slotmask,
	       (unsigned long long)l->lchan_mask, l->frames == NULL);
}
static unsigned clamp(long v) { return (v < 0 || v > 255) ? 255u : (unsigned)v; }

int main(void)
{
	static char line[512];
	static struct l1sched_state sched;
	static struct l1sched_burst_ind bi;
	static struct l1sched_burst_req br;
	while (fgets(line, sizeof(line), stdin)) {
		char op = 0;
		int pos = 0;
		sscanf(line, " %c%n", &op, &pos);
		if (op == 'N') {
			printf("=");
@NAMES@
			printf("\n");
		} else if (op == 'R') {
			/* R config tn base count : the public lookup and the row frames[F % period] of every F in [base, base + count) */
			unsigned long cfg = 0, tn = 0, base = 0, count = 0, i;
			const struct l1sched_tdma_multiframe *l;
			sscanf(line + pos, "%lu %lu %lu %lu", &cfg, &tn, &base, &count);
			l = l1sched_mframe_layout((enum gsm_phys_chan_config)cfg, (uint8_t)tn);
			printf("=");
			put_layout(l);
			if (l && l->period && l->frames) {
				printf(" rows=");
				for (i = 0; i < count; i++) {
					unsigned long F = (base + i) % ORC_HYPER;
					const struct l1sched_tdma_frame *f = &l->frames[F % l->period];
					printf("%02x%02x%02x%02x", clamp(f->dl_chan), (unsigned)f->dl_bid, clamp(f->ul_chan), (unsigned)f->ul_bid);
				}
			} else
				printf(" rows=-");
			printf("\n");
		} else if (op == 'C') {
			/* C tn stride base count cfg... : REAL l1sched_configure_ts(tn, cfg) for each cfg in turn on one scheduler (the first on a new
			 * timeslot), then the REAL frame lookups on F = base + i * stride, i < count, compared with the row frames[F % period] of the
			 * public lookup for the last cfg */
			unsigned long tn = 0, stride = 1, base = 0, count = 0, i, walked = 0;
			long cfg = -1, v;
			int n = 0, k, rc = -1, bad = 0, valid;
			unsigned long at = 0;
			const char *what = "-";
			int oc = 0, ob = 0, ec = 0, eb = 0;
			unsigned long long states = 0;
			struct l1sched_ts *ts;
			const struct l1sched_tdma_multiframe *ref, *last_ok = NULL, *held;
			const char *p;
			sscanf(line + pos, "%lu %lu %lu %lu%n", &tn, &stride, &base, &count, &k);
			p = line + pos + k;
			memset(&sched, 0, sizeof(sched));
			printf("= rcs=");
			while (sscanf(p, "%ld%n", &v, &k) == 1) {
				p += k;
				cfg = v;
				rc = l1sched_configure_ts(&sched, (int)tn, (enum gsm_phys_chan_config)cfg);
				if (rc == 0) last_ok = l1sched_mframe_layout((enum gsm_phys_chan_config)cfg, (uint8_t)tn);
				printf("%s%d", n++ ? "," : "", rc);
			}
			ts = sched.ts[tn];
			printf(" has_ts=%d", ts != NULL);
			put_layout(ts ? ts->mf_layout : NULL);
			/* a refused request may leave the timeslot without a layout or with the one installed before (both are fine: the statement only
			 * speaks about layouts that ARE installed); the lookups are compared with the layout the timeslot holds */
			held = ts ? ts->mf_layout : NULL;
			ref = rc == 0 ? l1sched_mframe_layout((enum gsm_phys_chan_config)cfg, (uint8_t)tn) : held;
			printf(" same=%d", rc == 0 ? (ts && ts->mf_layout == ref) : (held == NULL || held == last_ok));
			if (ts && ref && (rc == 0 || held == last_ok)) {
				struct l1sched_lchan_state *lchan;
				llist_for_each_entry(lchan, &ts->lchans, list) {
					lchan->active = 1;
					if ((unsigned)lchan->type < 64) states |= 1ULL << lchan->type;
				}
			}
			printf(" states=%llx", states);
			fflush(stdout);
			valid = ref && ref->period && ref->frames && (rc == 0 || held == last_ok);
			for (i = 0; i < count && !bad; i++) {
				unsigned long F = (base + i * stride) % ORC_HYPER;
				const struct l1sched_tdma_frame *f = valid ? &ref->frames[F % ref->period] : NULL;
				struct l1sched_probe probe = { .fn = (uint32_t)F, .tn = (uint8_t)tn };
				int prc;
				/* downlink */
				memset(&bi, 0, sizeof(bi)); bi.fn = (uint32_t)F; bi.tn = (uint8_t)tn; bi.rssi = -60; bi.burst_len = GSM_NBITS_NB_GMSK_BURST;
				cur_bi = &bi; rx_calls = 0;
				l1sched_handle_rx_burst(&sched, &bi);
				cur_bi = NULL;
				ec = f ? (int)f->dl_chan : (int)L1SCHED_IDLE; eb = f ? f->dl_bid : 0;
				if (rx_calls > 1 || (rx_calls == 1) != (ec != L1SCHED_IDLE) || (rx_calls == 1 && (rx_chan != ec || rx_bid != eb))) {
					bad = 1; at = F; what = "dl"; oc = rx_calls ? rx_chan : -1; ob = rx_calls ? rx_bid : bi.bid; break;
				}
				/* uplink */
				memset(&br, 0, sizeof(br)); br.fn = (uint32_t)F; br.tn = (uint8_t)tn;
				cur_br = &br; tx_calls = 0;
				l1sched_pull_burst(&sched, &br);
				cur_br = NULL;
				ec = f ? (int)f->ul_chan : (int)L1SCHED_IDLE; eb = f ? f->ul_bid : 0;
				if (tx_calls > 1 || (tx_calls == 1) != (ec != L1SCHED_IDLE) || (tx_calls == 1 && (tx_chan != ec || tx_bid != eb))) {
					bad = 1; at = F; what = "ul"; oc = tx_calls ? tx_chan : -1; ob = tx_calls ? tx_bid : br.bid; break;
				}
				/* ready-to-receive probe */
				prc = l1sched_handle_rx_probe(&sched, &probe);
				ec = f ? (int)f->dl_chan : (int)L1SCHED_IDLE; eb = 0;
				if ((prc == 0) != (ec != L1SCHED_IDLE)) { bad = 1; at = F; what = "probe"; oc = prc; ob = 0; break; }
				walked++;
			}
			printf(" bad=%d at=%lu what=%s oc=%d ob=%d ec=%d eb=%d walked=%lu\n", bad, at, what, oc, ob, ec, eb, walked);
			for (k = 0; k < 8; k++) if (sched.ts[k]) { orc_free_lchans(sched.ts[k]); free(sched.ts[k]); sched.ts[k] = NULL; }
		} else
			printf("= ?\n");
		fflush(stdout);
	}
	return 0;
}
"""


# ---------------------------------------------------------------------- harness sources

def _names_c(names):
    return "\n".join('\t\t\tprintf(" %s=%%d", (int)%s);' % (n, n) for n in names)


def fw_source():
    names = list(MC.TASKS)
    return ('#include <stdint.h>\n#include <stdio.h>\n#include <string.h>\n#include "%s"\n%s'
            % (frontend.repo(MFRAME_SCHED), _FW_MAIN.replace("@NAMES@", _names_c(names)).replace("@LEAD@", str(LEAD))))


def fw_flags():
    # mframe_schedule() evaluates `1 << 31` (int) on every run - not what this property is about, see the report of the oracle's author
    return R.host_flags() + ["-idirafter", frontend.repo("src/target/firmware/include"), "-idirafter", frontend.l1ctl_include(),
                             "-fno-sanitize=shift-base"]


def _cut(src, path, name):
    try:
        s, e, line = frontend.cut_function(src, name)
    except Unsupported as ex:
        raise _c.OracleCrash("cannot cut %s out of %s: %s" % (name, SCHED_TRX, ex))
    # cut_function stops skipping a preceding multi-line #define after its first line: skip its continuation lines
    while True:
        ls = src.rfind("\n", 0, s) + 1
        prev = src[src.rfind("\n", 0, max(ls - 1, 0)) + 1:max(ls - 1, 0)]
        if ls > 0 and src[ls:s].strip() == "" and prev.rstrip().endswith("\\"):
            nl = src.find("\n", s)
            s, line = nl + 1, line + 1
            while s < e and src[s] in " \t\r\n":
                if src[s] == "\n":
                    line += 1
                s += 1
        else:
            break
    return '#line %d "%s"\n%s\n' % (line, path, src[s:e])


def trx_channel_names():
    chans = list(dict.fromkeys([r.chan for r in MC.ROWS] + list(MC.SINGLE_BURST_CHANNELS) + list(MC.TWO_BURST_CHANNELS) + [MC.IDLE]))
    return chans


def trx_source():
    path = frontend.repo(SCHED_TRX)
    tables = frontend.repo(SCHED_MFRAME)
    if not os.path.exists(path) or not os.path.exists(tables):
        raise _c.OracleCrash("source file missing: %s / %s" % (path, tables))
    src = open(path, encoding="utf-8", errors="replace").read()
    prelude = open(os.path.join(frontend.SHIM, LOOKUP_PRELUDE)).read()
    parts = ['#include "%s"\n#line 1 "shim/%s"\n%s' % (tables, LOOKUP_PRELUDE, prelude)]
    try:
        parts.append(frontend.cut_defines(SCHED_TRX, r"\w+"))          # the #defines of sched_trx.c, verbatim (LAYOUT_HAS_LCHAN, ...)
    except Unsupported:
        pass
    for nm in CUT:
        parts.append(_cut(src, path, nm))
    names = trx_channel_names() + list(MC.IMPLEMENTED_CONFIGS) + ["_L1SCHED_CHAN_MAX"]
    parts.append('#line 1 "oracle main"\n' + _TRX_MAIN.replace("@NAMES@", _names_c(names)))
    return "\n".join(parts)


# ---------------------------------------------------------------------- reference computations (Python side)

def _int(b):
    return int.from_bytes(b, "big")


def _eq_table(v, hit):
    return bytes(hit if i == v else 0 for i in range(256))


class Rows:
    """the rows frames[F % period] of one lookup for F in a window, as four byte columns"""

    def __init__(self, info, hexrows):
        b = bytes.fromhex(hexrows)
        self.info = info
        self.n = len(b) // 4
        self.col = {(MC.DL, "chan"): b[0::4], (MC.DL, "bid"): b[1::4], (MC.UL, "chan"): b[2::4], (MC.UL, "bid"): b[3::4]}
        self._bid0 = {}

    def row(self, i):
        return {"dl_chan": self.col[(MC.DL, "chan")][i], "dl_bid": self.col[(MC.DL, "bid")][i],
                "ul_chan": self.col[(MC.UL, "chan")][i], "ul_bid": self.col[(MC.UL, "bid")][i]}

    def marks(self, direction, chan, mode, bit):
        """int over the window: `bit` in byte F iff the row of F gives `direction` to chan (block mode: as its first burst)"""
        m = _int(self.col[(direction, "chan")].translate(_eq_table(chan, bit)))
        if mode == MC.BLOCK:
            if direction not in self._bid0:
                self._bid0[direction] = _int(self.col[(direction, "bid")].translate(_eq_table(0, 255)))
            m &= self._bid0[direction]
        return m


def decode(ev):
    return [BIT_NAME[b] for b in sorted(BIT_NAME) if ev & b]


# ---------------------------------------------------------------------- the run

def run(budget_s=20.0, seed=0):
    S = _c.Session(budget_s)
    stats = {"fw_cycles_walked": 0, "agree_comparisons": 0, "configure_sequences": 0, "site_lookups": 0, "task_subset_windows": 0}
    with _c.Native(fw_source(), fw_flags()) as FWN, _c.Native(trx_source(), dptr.trxcon_flags()) as TRN:

        def crash(what, inp, abort):
            S.cases += 1
            S.fail(what + " (sanitizer / crash)", inp, abort.get("sanitizer") or "exit status %s: %s" % (abort.get("rc"), (abort.get("stderr") or "")[-300:]),
                   "returns normally, no undefined behaviour")

        # ------------------------------------------------------------ names
        outs, abort = FWN.batch(["n"])
        if abort or not outs:
            raise _c.OracleCrash("firmware harness does not answer: %r" % (abort,))
        TASK = _c.kv(outs[0])
        outs, abort = TRN.batch(["N"])
        if abort or not outs:
            raise _c.OracleCrash("trxcon harness does not answer: %r" % (abort,))
        NM = _c.kv(outs[0])
        chan_max = NM["_L1SCHED_CHAN_MAX"]
        idle = NM[MC.IDLE]
        chan_name = {NM[c]: c for c in trx_channel_names()}
        cfg_name = {NM[c]: c for c in MC.IMPLEMENTED_CONFIGS}
        implemented = set(cfg_name)
        all_mask = 0
        for t in MC.TASKS:
            all_mask |= 1 << TASK[t]
        rows_of = {}
        for r in MC.ROWS:
            rows_of.setdefault(r.task, []).append(r)

        # ------------------------------------------------------------ firmware walks
        def fw_walk(mask, base, count):
            """-> {task id: bytes of `count` event bytes} or None (failure recorded)"""
            inp = {"enabled tasks (bit mask)": mask, "first frame": base, "frames": count}
            outs, abort = FWN.batch(["w %d %d %d" % (mask, base, count)], timeout=300)
            if abort or not outs:
                crash("mframe_schedule", inp, abort or {})
                return None
            d = _c.kv(outs[0].split(" t", 1)[0])
            ev = {}
            for tok in outs[0].split():
                k, _, v = tok.partition("=")
                if k[:1] == "t" and k[1:].isdigit():
                    ev[int(k[1:])] = bytes.fromhex(v) if v != "-" else b""
            if d.get("foreign"):
                S.cases += 1
                S.fail("tdma_schedule_set called for a task that is not enabled", inp, {"calls with a foreign task id in p3": d["foreign"]}, 0)
                return None
            return ev

        # ------------------------------------------------------------ trxcon lookups
        row_cache = {}

        def trx_rows(pairs, base, count):
            """{(cfg, tn): (info, Rows or None)}"""
            outs, abort = TRN.batch(["R %d %d %d %d" % (c, t, base, count) for c, t in pairs], timeout=300)
            res = {}
            for (c, t), out in zip(pairs, outs):
                info = _c.kv(out)
                hexrows = out.rsplit("rows=", 1)[1].strip() if "rows=" in out else "-"
                info.pop("rows", None)
                if "lmask" in info:
                    info["lmask"] = int(str(info["lmask"]), 16)
                key = hexrows
                if hexrows == "-":
                    res[(c, t)] = (info, None)
                else:
                    if key not in row_cache:
                        row_cache[key] = Rows(info, hexrows)
                    res[(c, t)] = (info, row_cache[key])
            if abort:
                c, t = pairs[abort["case"]]
                crash("l1sched_mframe_layout(config, tn)->frames[fn % period]", {"config": c, "tn": t, "first frame": base, "frames": count}, abort)
            return res

        def check_lookup(c, t, info):
            """the statement's `every (channel combination, timeslot) lookup returns a layout valid for that timeslot`"""
            S.cases += 1
            inp = {"config": cfg_name.get(c, c), "config_value": c, "tn": t}
            if info.get("null"):
                if c in implemented:
                    S.fail("lookup: no layout for an implemented combination", inp, "l1sched_mframe_layout returns NULL", "a layout")
                return False
            if info["config"] != c or not (info["slotmask"] >> t) & 1:
                S.fail("lookup: layout not valid for this (combination, timeslot)", inp, {k: info[k] for k in ("config", "slotmask", "period")},
                       "chan_config == %d and slotmask bit %d" % (c, t))
                return False
            if c in implemented and (info["period"] <= 0 or info["frames_null"]):
                S.fail("lookup: layout of an implemented combination without frames", inp, {k: info[k] for k in ("period", "frames_null")},
                       "period > 0 and frames != NULL")
                return False
            return True

        def check_layout(c, t, info, rows):
            """burst-id cycles and channel mask over one period"""
            per = info["period"]
            inp = {"config": cfg_name.get(c, c), "config_value": c, "tn": t, "period": per}
            if rows.n < per:
                return
            for d in (MC.DL, MC.UL):
                chans, bids = rows.col[(d, "chan")][:per], rows.col[(d, "bid")][:per]
                S.cases += 1
                for k in range(per):
                    ch = chans[k]
                    if ch != idle and (ch >= chan_max or ch >= 64 or not (info["lmask"] >> ch) & 1):
                        S.fail("mask: channel of a frame is not in the layout's lchan_mask", dict(inp, direction=d, frame=k),
                               {"channel": chan_name.get(ch, ch), "lchan_mask": hex(info["lmask"])}, "channel contained in lchan_mask")
                        break
                for ch in sorted(set(chans)):
                    m = MC.bid_modulus(chan_name.get(ch, "channel %d" % ch))
                    if m is None:
                        continue
                    S.cases += 1
                    owned = [k for k in range(per) if chans[k] == ch]
                    for a, k in enumerate(owned):
                        nk = owned[(a + 1) % len(owned)]
                        if not (0 <= bids[k] < m) or bids[nk] != (bids[k] + 1) % m:
                            S.fail("bid_cycle: burst ids of a block channel are not cyclic", dict(inp, direction=d, channel=chan_name.get(ch, ch), frame=k),
                                   {"burst id": bids[k], "next frame of the channel": nk, "its burst id": bids[nk]},
                                   "burst ids 0..%d advancing by one modulo %d" % (m - 1, m))
                            break

        def expected(task, rows, cfg, tn):
            """{direction: int over the window} from the rows of the statement's correspondence that apply to (cfg, tn)"""
            exp = {MC.DL: 0, MC.UL: 0}
            for r in rows_of[task]:
                if cfg_name.get(cfg) in r.configs and tn in r.tns:
                    exp[r.direction] |= rows.marks(r.direction, NM[r.chan], r.mode, BIT_OF[(r.fw_set, r.sacch)])
            return exp

        def targets(task):
            cfgs, tns = [], []
            for r in rows_of[task]:
                for c in r.configs:
                    if NM[c] not in cfgs:
                        cfgs.append(NM[c])
                for t in r.tns:
                    if t not in tns:
                        tns.append(t)
            return [(c, t) for c in cfgs for t in sorted(tns)]

        def compare(task, ev, base, lookups):
            """firmware events of one task over a window against every (config, tn) the task corresponds to"""
            n = len(ev)
            evi = _int(ev)
            seen = {}
            for (c, t) in targets(task):
                info, rows = lookups.get((c, t), ({}, None))
                if rows is None or rows.n != n:
                    continue                # reported by check_lookup
                key = (id(rows), tuple(k for k, r in enumerate(rows_of[task]) if cfg_name.get(c) in r.configs and t in r.tns))
                if key in seen:
                    continue            # the same table rows and the same correspondence rows: already compared
                seen[key] = True
                S.cases += n
                stats["agree_comparisons"] += 1
                exp = expected(task, rows, c, t)
                for d in (MC.DL, MC.UL):
                    got = evi & _int(bytes([DIR_BITS[d]]) * n)
                    if got == exp[d]:
                        continue
                    gb, eb = got.to_bytes(n, "big"), exp[d].to_bytes(n, "big")
                    i = next(k for k in range(n) if gb[k] != eb[k])
                    F = (base + i) % HYPER
                    S.fail("agree: firmware and trxcon disagree on a frame of %s" % task,
                           {"task": task, "config": cfg_name.get(c, c), "tn": t, "direction": d, "frame": F, "frame mod period": F % info["period"]},
                           {"firmware starts in this frame": decode(gb[i]) or "nothing", "trxcon row": {k: chan_name.get(v, v) if k.endswith("chan") else v for k, v in rows.row(i).items()},
                            "trxcon gives the frame to": decode(eb[i]) or "nothing of this task"},
                           "both or neither")
                    return False
            return True

        # ------------------------------------------------------------ configure + frame lookups
        def site_cases(cases):
            """cases: [(tn, stride, base, count, [cfg...])]"""
            outs, abort = TRN.batch(["C %d %d %d %d %s" % (tn, st, base, cnt, " ".join(map(str, cfgs))) for tn, st, base, cnt, cfgs in cases], timeout=600)
            for (tn, st, base, cnt, cfgs), out in zip(cases, outs):
                d = _c.kv(out)
                stats["configure_sequences"] += 1
                stats["site_lookups"] += 3 * (d.get("walked") or 0)
                S.cases += 1 + 3 * (d.get("walked") or 0)
                cfg = cfgs[-1]
                inp = {"tn": tn, "l1sched_configure_ts with, in turn": [cfg_name.get(c, c) for c in cfgs], "lookups from frame": base, "stride": st, "frames": cnt}
                rcs = str(d.get("rcs")).split(",")
                rc = int(rcs[-1])
                if rc == 0:
                    bad = d.get("has_ts") != 1 or d.get("null") != 0 or d.get("config") != cfg or not (d.get("slotmask", 0) >> tn) & 1 \
                        or d.get("period", 0) <= 0 or d.get("frames_null") != 0
                    if bad:
                        S.fail("configure: a timeslot reported configured holds no valid layout", inp,
                               {k: d.get(k) for k in ("has_ts", "null", "config", "period", "slotmask", "frames_null")},
                               "the layout of combination %s for timeslot %d with period > 0 and frames" % (cfg_name.get(cfg, cfg), tn))
                        continue
                elif d.get("same") != 1:
                    S.fail("configure: after a refused request the timeslot holds a layout that was never installed", inp,
                           {k: d.get(k) for k in ("has_ts", "null", "config", "period", "slotmask", "frames_null")}, "no layout, or the one installed by the last successful request")
                    continue
                if d.get("bad"):
                    what = d.get("what")
                    F = d.get("at")
                    obs = {"frame": F, "lookup": {"dl": "l1sched_handle_rx_burst", "ul": "l1sched_pull_burst", "probe": "l1sched_handle_rx_probe"}.get(what, what)}
                    if what == "probe":
                        obs["return value"] = d.get("oc")
                        exp = "0 exactly for the frames whose downlink channel (%s here) is not IDLE" % chan_name.get(d.get("ec"), d.get("ec"))
                    else:
                        obs["handler invoked for"] = "none" if d.get("oc") == -1 else chan_name.get(d.get("oc"), d.get("oc"))
                        obs["burst id"] = d.get("ob")
                        if rc == 0:
                            exp = {"row frames[F % period] of l1sched_mframe_layout(config, tn)": {"channel": chan_name.get(d.get("ec"), d.get("ec")), "burst id": d.get("eb")}}
                        else:
                            exp = "the row of the layout the timeslot still holds, or no handler call when it holds none (l1sched_configure_ts returned %d)" % rc
                    S.fail("table: frame lookup does not deliver the row of the layout (or the channel has no state)", inp, obs, exp)
            if abort:
                tn, st, base, cnt, cfgs = cases[abort["case"]]
                crash("l1sched_configure_ts + frame lookups",
                      {"tn": tn, "l1sched_configure_ts with, in turn": [cfg_name.get(c, c) for c in cfgs], "lookups from frame": base, "stride": st, "frames": cnt}, abort)

        # ============================================================ fixed part: the complete quantifier
        pairs = [(c, t) for c in range(NCFG) for t in range(8)]
        lookups = trx_rows(pairs, 0, CYCLE)
        laid = set()
        for (c, t) in pairs:
            if (c, t) not in lookups:
                continue
            info, rows = lookups[(c, t)]
            if check_lookup(c, t, info) and rows is not None:
                if id(rows) not in laid:
                    laid.add(id(rows))
                    check_layout(c, t, info, rows)
        fw0, exp0 = {}, {}
        for task in MC.TASKS:
            if len(S.failures) >= 5:
                break
            ev = fw_walk(1 << TASK[task], 0, CYCLE)
            if ev is None:
                continue
            fw0[task] = ev.get(TASK[task], b"")
            compare(task, fw0[task], 0, lookups)
            for (c, t) in targets(task):
                if lookups.get((c, t), ({}, None))[1] is not None and task not in exp0:
                    e = expected(task, lookups[(c, t)][1], c, t)
                    exp0[task] = {d: e[d].to_bytes(CYCLE, "big") for d in e}
        stats["fw_cycles_walked"] = 1
        if len(S.failures) < 5:
            other, refused = NM[MC.SD8], 0          # 0 = GSM_PCHAN_NONE: the combination without frames
            cases = []
            for c in range(NCFG):
                for t in range(8):
                    cases.append((t, 1, 0, CYCLE if c in implemented else 416, [c]))
                    cases.append((t, 1, HYPER - CYCLE // 2, CYCLE, [other if c != other else NM[MC.TCHH], c]) if c in implemented else
                                 (t, 1, HYPER - 208, 416, [other, c]))
                    cases.append((t, 1, 0, 416, [refused, c]))
            site_cases(cases)

        # ============================================================ budgeted part
        rnd = random.Random(seed)
        cycles = [255] + rnd.sample(range(1, 255), 254)
        clean = not S.failures

        def random_sites():
            cases = []
            for _ in range(8):
                k = rnd.randint(1, 4)
                cfgs = [rnd.choice(sorted(implemented)) if rnd.random() < 0.7 else rnd.randrange(NCFG) for _ in range(k)]
                cases.append((rnd.randrange(8), rnd.randint(1, 5), rnd.randrange(HYPER), 2000, cfgs))
            site_cases(cases)

        def cycle_walk(k):
            ev = fw_walk(all_mask, k * CYCLE, CYCLE)
            if ev is None:
                return
            stats["fw_cycles_walked"] += 1
            for task in MC.TASKS:
                # F % period of a frame of cycle k equals that of the same position in cycle 0 (102 and 104 divide 10608)
                if not compare(task, ev.get(TASK[task], b""), k * CYCLE, lookups):
                    return

        def subset_window():
            tasks = [t for t in MC.TASKS if rnd.random() < 0.4] or [rnd.choice(MC.TASKS)]
            mask = 0
            for t in tasks:
                mask |= 1 << TASK[t]
            base, n = rnd.randrange(HYPER), 3000
            ev = fw_walk(mask, base, n)
            if ev is None:
                return
            stats["task_subset_windows"] += 1
            off = base % CYCLE
            for t in tasks:
                if t not in exp0:
                    continue
                S.cases += n
                ev_t = ev.get(TASK[t], b"")
                for d in (MC.DL, MC.UL):
                    # the layout rows of the same position of the cycle (F % period depends on F mod 10608 only)
                    want = (exp0[t][d] * 2)[off:off + n]
                    got = bytes(x & DIR_BITS[d] for x in ev_t)
                    if got != want:
                        i = next(k for k in range(n) if got[k] != want[k])
                        S.fail("agree: firmware and trxcon disagree on a frame of %s (several tasks enabled)" % t,
                               {"enabled tasks": tasks, "task": t, "direction": d, "frame": (base + i) % HYPER, "position in the cycle": (off + i) % CYCLE},
                               {"firmware starts in this frame": decode(got[i]) or "nothing", "trxcon gives the frame to": decode(want[i]) or "nothing of this task"},
                               "both or neither")
                        return

        while S.more() and clean:
            if cycles:
                cycle_walk(cycles.pop(0))
                if S.more():
                    random_sites()
            else:
                subset_window()
                if S.more():
                    random_sites()
    return S.result(**stats)

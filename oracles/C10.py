"""C10 - bounded native oracle: forwarded bursts carry faithful bits and correct simulated radio metadata.

Two or three real FakeTRX objects + the real BurstForwarder, sockets are recorders, everything configured through TRXC commands
(SETFORMAT, RXTUNE/TXTUNE, POWERON, SETTA, SETPOWER on the sender; FAKE_TOA / FAKE_RSSI / FAKE_CI in absolute and relative form on the
recipient).  A burst enters as a TRXD datagram on the sender's DATA socket and is emitted by the clock tick of its frame (every
fourth burst: BurstForwarder.forward_msg() directly).  The `random` module object used by fake_trx is replaced by a scripted one
(randint returns the lower bound, the upper bound or a seeded value in between) and restored afterwards.

Observed: the datagram the recipient's DATA socket sends, decoded with an independent decoder.  Expected, from the statement:
same FN / TN; header version negotiated by the recipient, version 0 ending in two zero padding octets; soft bit i = +127 (octet 0) for
hard bit 0 and -127 (octet 254) for a set hard bit (reading of the proofs: any non-zero octet counts as set); RSSI = nominal power
(as reported by NOMTXPOWER) - SETPOWER attenuation - attenuation octet - 110, or a value in [base - thr, base + thr] after FAKE_RSSI;
ToA256 in [base - thr, base + thr] - 256 * TA (exactly base - 256 * TA without threshold); version 1: C/I in its window, modulation GMSK for
148 and 8-PSK for 444 bits, TSC / TSC set (set 0: the only tables of the toolkit) of the training sequence found at the position of its
burst type (normal 61..86, access 8..48, sync 42..105).  Bursts without any training sequence are not judged on TSC; if two
sequences are present, either is accepted.  Values outside the protocol ranges (RSSI -120..-47, ToA256 int16, C/I +-1280) are C13's business:
then a missing datagram is accepted, a present one must still be right."""
import time, random as _random
from oracles import _um
from oracles._um import HYPER, ctrl, enc_l1, dec_ind, short
from engine.pyvc.harness import toolkit

BOUND = ("Fixed part (< 1 s, 532 bursts): the seeded demonstration (normal burst TSC 5, TA 2, attenuation 7, all 4 version combinations); all 20 "
         "GMSK training sequences (8 normal, 8 access, 4 sync), each built here from the 45.002 burst layouts and by the toolkit's own RandBurstGen, "
         "to a version 1 and a version 0 recipient; all-0 / all-1 / alternating / dummy / 444-bit patterns; attenuation octet 0..60 and SETPOWER 0..60 "
         "(RSSI -60 .. -120, with nominal power raised to reach -47); TA 0..63 at ToA bases 0, +-100, int16 edges; FAKE_TOA / FAKE_RSSI / FAKE_CI windows "
         "with randint scripted to both bounds; relative FAKE_* forms; non-binary burst octets. Budgeted part: seeded random pairs (one in four with a "
         "third transceiver of the other header version), 5 bursts each with command changes in between: versions 0/1 on either side, TA 0..63 "
         "(rarely up to 130), SETPOWER 0..40, attenuation octet 0..255 (mostly keeping RSSI in range), FAKE_TOA base +-2000 thr 0..300, FAKE_RSSI base "
         "-115..-50 thr 0..10 (on in 40 %), FAKE_CI base +-1200 thr 0..100, burst = random payload around a random training sequence (55 %), toolkit "
         "generator (15 %), pure random 148 (10 %), non-binary octets (5 %) or 444 random bits (15 %), FN over the whole hyperframe, TN 0..7; about 2500 bursts per second. Not covered: "
         "8-PSK training sequences (the toolkit has none), real sockets.")

# 3GPP TS 45.002 training sequence bits, typed from the tables 5.2.3a (TSC set 1), 5.2.5-3 and 5.2.7-3/4
NB_TS = ("00100101110000100010010111", "00101101110111100010110111", "01000011101110100100001110", "01000111101101000100011110",
         "00011010111001000001101011", "01001110101100000100111010", "10100111110110001010011111", "11101111000100101110111100")
AB_TS = ("01001011011111111001100110101010001111000", "01010100111110001000011000101111001001101", "11101111001001110101011000001101101110111",
         "10001000111010111011010000010000101100010", "11001001110001001110000000001101010110010", "01010000111111110101110101101100110010100",
         "01011110011101011110110100010011000010111", "01000010110000011101001010111011100010000")
SB_TS = ("1011100101100010000001000000111100101101010001010111011000011011", "1110111001101011001010000011111011110100011111101100101100010101",
         "1110110000110111010100010101101001111000000100000010001101001110", "1011101000111101110101101111010010001011010000001000111010011000")
LAYOUT = {"NB": (61, NB_TS), "AB": (8, AB_TS), "SB": (42, SB_TS)}
DUMMY = ("000" "1111101101110110000010100100111000001001000100000001111100011100010111000101110001010111010010100011001100111001111010011111000100101111101010" "000")
assert len(DUMMY) == 148


def bits(s):
    return bytes(int(c) for c in s)


def mk_burst(kind, tsc, r):
    """a GMSK burst of the given type around training sequence number tsc, payload from r (45.002 5.2.3 / 5.2.5 / 5.2.7)"""
    rnd = lambda n: bytes(r.getrandbits(1) for _ in range(n))
    if kind == "NB":
        b = bytes(3) + rnd(57) + rnd(1) + bits(NB_TS[tsc]) + rnd(1) + rnd(57) + bytes(3)
    elif kind == "SB":
        b = bytes(3) + rnd(39) + bits(SB_TS[tsc]) + rnd(39) + bytes(3)
    else:
        b = bytes(8) + bits(AB_TS[tsc]) + rnd(36) + bytes(3) + bytes(60)
    assert len(b) == 148
    return b


def present_ts(burst):
    """[(kind, tsc)] of all training sequences present at the position of their burst type"""
    out = []
    for kind, (off, tab) in LAYOUT.items():
        for tsc, s in enumerate(tab):
            if bytes(burst[off:off + len(s)]) == bits(s):
                out.append((kind, tsc))
    return out


class ScriptedRandom:
    """stands for the `random` module inside fake_trx: randint is scripted, everything else is the real module"""

    def __init__(self, seed):
        self.mode = "min"
        self.calls = []
        self._r = _random.Random(seed)

    def randint(self, a, b):
        self.calls.append((a, b))
        if a > b:
            raise ValueError("empty range for randrange() (%d, %d, %d)" % (a, b + 1, b - a + 1))
        return {"min": a, "max": b, "mid": (a + b) // 2}.get(self.mode, None) if self.mode != "rand" else self._r.randint(a, b)

    def __getattr__(self, name):
        return getattr(_random, name)


# ------------------------------------------------------------------------------------------------------------------- one case
class Pair:
    """sender + recipient (+ optional bystander recipient) with the model of their accumulated settings"""

    def __init__(self, sv, dv, third=False):
        self.net = _um.Net()
        self.src = self.net.add("BTS", 5700)
        self.dst = self.net.add("MS", 6700)
        self.objs = [self.src, self.dst]
        self.vers = [sv, dv]
        if third:
            self.objs.append(self.net.add("MS2", 6800))
            self.vers.append(1 - dv)
        self.net.seal()
        self.log = []
        self.problems = []
        for o, v in zip(self.objs, self.vers):
            self.cmd(o, "SETFORMAT %d" % v, want=v)
            self.cmd(o, "RXTUNE %d" % (890000 if o is self.src else 935000))
            self.cmd(o, "TXTUNE %d" % (935000 if o is self.src else 890000))
            self.cmd(o, "POWERON")
        # model (documented defaults: ToA 0, C/I 90, RSSI computed from the sender)
        self.m = [{"toa": [0, 0], "rssi": [-60, 0], "fake_rssi": False, "ci": [90, 0]} for _ in self.objs]
        self.ta, self.att = 0, 0
        st, f, _ = ctrl(self.src, "NOMTXPOWER")
        try:
            self.nominal = int(f[3])
        except Exception:
            self.nominal = None
            self.problems.append({"cmd": "NOMTXPOWER", "response": f})

    def cmd(self, o, line, want=0):
        st, f, _ = ctrl(o, line)
        self.log.append("%s: %s" % (getattr(o, "name", "?"), line))
        if want is not None and st != want:
            self.problems.append({"trx": getattr(o, "name", "?"), "cmd": line, "status": st, "wanted": want})
        return st

    # sender side
    def set_ta(self, ta):
        self.cmd(self.src, "SETTA %d" % ta)
        self.ta = ta

    def set_att(self, att):
        self.cmd(self.src, "SETPOWER %d" % att)
        self.att = att

    def set_nominal(self, p):
        """no TRXC command sets the nominal power: use the public attribute when it exists, and believe only NOMTXPOWER"""
        if hasattr(self.src, "tx_power_base"):
            self.src.tx_power_base = p
            self.log.append("BTS: tx_power_base = %d" % p)
        st, f, _ = ctrl(self.src, "NOMTXPOWER")
        try:
            self.nominal = int(f[3])
        except Exception:
            self.nominal = None

    # recipient side (k = index of the recipient in self.objs)
    def fake(self, k, what, a, b=None):
        m = self.m[k]
        key = {"FAKE_TOA": "toa", "FAKE_RSSI": "rssi", "FAKE_CI": "ci"}[what]
        if b is None:
            self.cmd(self.objs[k], "%s %d" % (what, a))
            m[key][0] += a
        elif b < 0:
            if what == "FAKE_RSSI":      # documented: a negative threshold switches the RSSI override off
                self.cmd(self.objs[k], "%s %d %d" % (what, a, b))
                m["fake_rssi"] = False
            else:
                self.cmd(self.objs[k], "%s %d %d" % (what, a, b), want=-1)
        else:
            self.cmd(self.objs[k], "%s %d %d" % (what, a, b))
            m[key] = [a, b]
            if what == "FAKE_RSSI":
                m["fake_rssi"] = True

    def send(self, fn, tn, pwr, burst, direct=False):
        self.net.clear()
        if direct:
            dm = toolkit("data_msg")
            msg = dm.TxMsg(fn=fn, tn=tn, burst=bytearray(burst), ver=self.vers[0])
            msg.pwr = pwr
            self.net.fwd.forward_msg(self.src, msg)
        else:
            self.net.l1_send(self.src, enc_l1(self.vers[0], tn, fn, pwr, burst))
            self.net.tick(fn)

    def check(self, k, fn, tn, pwr, burst):
        """compare what recipient k got with the statement; returns None or (observed, expected)"""
        m, ver = self.m[k], self.vers[k]
        bl = len(burst)
        rssi_w = (m["rssi"][0] - m["rssi"][1], m["rssi"][0] + m["rssi"][1]) if m["fake_rssi"] else (self.nominal - self.att - pwr - 110,) * 2
        toa_w = (m["toa"][0] - m["toa"][1] - 256 * self.ta, m["toa"][0] + m["toa"][1] - 256 * self.ta)
        ci_w = (m["ci"][0] - m["ci"][1], m["ci"][0] + m["ci"][1])
        certain = -120 <= rssi_w[0] and rssi_w[1] <= -47 and -32768 <= toa_w[0] and toa_w[1] <= 32767 and (ver == 0 or (-1280 <= ci_w[0] and ci_w[1] <= 1280))
        possible = rssi_w[1] >= -120 and rssi_w[0] <= -47 and toa_w[1] >= -32768 and toa_w[0] <= 32767 and (ver == 0 or (ci_w[1] >= -1280 and ci_w[0] <= 1280))
        exp = {"ver": ver, "fn": fn, "tn": tn, "rssi in": rssi_w, "toa256 in": toa_w, "len": (8 + bl + 2) if ver == 0 else (11 + bl)}
        ts = present_ts(burst) if bl == 148 and all(o in (0, 1) for o in burst) else None
        if ver == 1:
            exp["ci in"] = ci_w
            exp["mod"] = "GMSK" if bl == 148 else "8PSK"
            if bl == 444:
                exp["tsc, tsc_set one of"] = [(0, 0)]
            elif ts:
                exp["tsc, tsc_set one of"] = sorted(set((t, 0) for _, t in ts))
        got = self.net.got(self.objs[k])
        if len(got) == 0 and not certain:
            return None
        if len(got) != 1:
            return ("%d datagrams" % len(got), exp) if (certain or len(got) > 1) else None
        if not possible:
            return ("a datagram although no value of the window is inside the protocol range: " + repr(short(dec_ind(got[0][0]))), "nothing (C13)")
        d = dec_ind(got[0][0])
        if d.get("bad"):
            return (short(d), exp)
        bad = []
        if (d["ver"], d["fn"], d["tn"]) != (ver, fn, tn):
            bad.append("version / FN / TN")
        if d["len"] != exp["len"]:
            bad.append("length")
        if ver == 0 and d.get("pad") != b"\0\0":
            bad.append("legacy padding")
        if d["nope"] or d.get("soft") is None:
            bad.append("no burst bits")
        elif d["soft"] != [(-127 if o else 127) for o in burst]:
            wrong = [i for i, (s, o) in enumerate(zip(d["soft"], burst)) if s != (-127 if o else 127)]
            bad.append("soft bits differ at %r%s" % (wrong[:6], " (length %d)" % len(d["soft"]) if len(d["soft"]) != bl else ""))
        if not rssi_w[0] <= d["rssi"] <= rssi_w[1]:
            bad.append("rssi")
        if not toa_w[0] <= d["toa"] <= toa_w[1]:
            bad.append("toa256")
        if ver == 1 and not d["nope"]:
            if not ci_w[0] <= d["ci"] <= ci_w[1]:
                bad.append("ci")
            if d.get("mod") != exp["mod"]:
                bad.append("modulation")
            if "tsc, tsc_set one of" in exp and (d.get("tsc"), d.get("tsc_set")) not in exp["tsc, tsc_set one of"]:
                bad.append("tsc / tsc_set")
        if bad:
            o = short(d)
            o["wrong"] = bad
            return (o, exp)
        return None


def jb(burst):
    """json-able burst"""
    return "".join(str(o) for o in burst) if all(o < 10 for o in burst) else list(burst)


class Runner:
    def __init__(self, rnd):
        self.fails, self.cases, self.rnd = [], 0, rnd

    def burst(self, p, what, fn, tn, pwr, burst, direct=False, mode="min"):
        """transmit one burst over pair p and judge every recipient; False when a failure was recorded"""
        self.rnd.mode = mode
        self.cases += 1
        inp = {"versions": p.vers, "commands": list(p.log), "randint": mode, "fn": fn, "tn": tn, "attenuation octet": pwr, "burst": jb(burst),
               "via": "forward_msg" if direct else "DATA socket + clck_tick"}
        if p.problems:
            self.fails.append({"what": what + ": TRXC configuration", "input": inp, "observed": p.problems[:3], "expected": "the documented status"})
            return False
        if p.nominal is None:
            return False
        try:
            p.send(fn, tn, pwr, burst, direct)
        except Exception as e:
            self.fails.append({"what": what + ": exception while forwarding", "input": inp, "observed": repr(e), "expected": "one datagram"})
            return False
        for k in range(1, len(p.objs)):
            res = p.check(k, fn, tn, pwr, burst)
            if res is not None:
                inp["recipient"] = k
                self.fails.append({"what": what + ": datagram for the recipient", "input": inp, "observed": res[0], "expected": res[1]})
                return False
        if p.net.got(p.src):
            self.fails.append({"what": what + ": the sender got a datagram", "input": inp, "observed": len(p.net.got(p.src)), "expected": 0})
            return False
        return True

    @property
    def full(self):
        return len(self.fails) >= 5


def toolkit_burst(kind, tsc):
    """the toolkit's own generator, for training sequence number tsc of the given burst type (None if the names are not there)"""
    try:
        gs = toolkit("gsm_shared")
        rbg = toolkit("rand_burst_gen")
        ts = getattr(gs.TrainingSeqGMSK, "%s_TS%d" % (kind, tsc))
        g = rbg.RandBurstGen()
        return bytes({"NB": g.gen_nb, "SB": g.gen_sb, "AB": g.gen_ab}[kind](ts))
    except Exception:
        return None


def fixed(R):
    r = _random.Random(12345)
    # the independent demonstration
    for sv in (0, 1):
        for dv in (0, 1):
            p = Pair(sv, dv)
            p.set_ta(2)
            R.burst(p, "demo", 1234, 3, 7, mk_burst("NB", 5, r), direct=True)
            R.burst(p, "demo", 1234, 3, 7, mk_burst("NB", 5, r))
            if R.full:
                return
    # every training sequence, own layout and the toolkit's generator, v1 and v0 recipient
    rbg = None
    try:
        rbg = toolkit("rand_burst_gen")
        R_state = rbg.random.getstate()
        rbg.random.seed(777)
    except Exception:
        rbg = None
    try:
        for dv in (1, 0):
            p = Pair(1 - dv if dv else 0, dv, third=(dv == 0))
            n = 0
            for kind, cnt in (("NB", 8), ("AB", 8), ("SB", 4)):
                for tsc in range(cnt):
                    n += 1
                    R.burst(p, "%s TSC %d" % (kind, tsc), 51 * n, n % 8, n, mk_burst(kind, tsc, r), direct=(n % 4 == 0))
                    tb = toolkit_burst(kind, tsc)
                    if tb is not None:
                        R.burst(p, "%s TSC %d (toolkit generator)" % (kind, tsc), 51 * n + 1, n % 8, n, tb)
                    if R.full:
                        return
    finally:
        if rbg is not None:
            rbg.random.setstate(R_state)
    # bit patterns
    for sv, dv in ((0, 1), (1, 0), (1, 1), (0, 0)):
        p = Pair(sv, dv)
        pats = [bytes(148), bytes([1]) * 148, bytes([i & 1 for i in range(148)]), bytes([(i + 1) & 1 for i in range(148)]), bits(DUMMY),
                bytes(444), bytes([1]) * 444, bytes(r.getrandbits(1) for _ in range(444)), bytes(r.getrandbits(1) for _ in range(148))]
        for i, b in enumerate(pats):
            R.burst(p, "pattern %d" % i, HYPER - 1 - i, i % 8, 0, b, direct=(i % 3 == 2))
        # non-binary octets: every non-zero octet is a set bit
        for i, b in enumerate([bytes([0, 1, 2, 3, 127, 128, 254, 255] * 18 + [0, 2, 0, 255]), bytes((r.randrange(256) if r.random() < 0.3 else 0) for _ in range(148)),
                               bytes(range(256)) + bytes(range(188))]):
            R.burst(p, "non-binary octets %d" % i, 10 + i, 1, 3, b, direct=(i == 1))
        if R.full:
            return
    # attenuation: octet and SETPOWER sweeps, RSSI -60 .. -120; raised nominal power reaches -47
    for dv in (0, 1):
        p = Pair(1, dv)
        for pwr in range(0, 61):
            R.burst(p, "attenuation octet", 1000 + pwr, 0, pwr, mk_burst("NB", pwr % 8, r))
        for att in list(range(0, 61, 3)) + [60]:
            p.set_att(att)
            R.burst(p, "SETPOWER", 2000 + att, 5, 60 - att, mk_burst("SB", att % 4, r))
            R.burst(p, "SETPOWER", 2000 + att, 5, 0, mk_burst("SB", att % 4, r), direct=True)
        p.set_att(0)
        p.set_nominal(63)
        for pwr in (0, 1, 13, 73):
            R.burst(p, "nominal power 63", 3000 + pwr, 2, pwr, mk_burst("AB", 3, r))
        if R.full:
            return
    # timing advance and ToA bases
    for dv in (0, 1):
        p = Pair(dv, dv)
        for ta in range(0, 64):
            p.set_ta(ta)
            R.burst(p, "TA sweep", 4000 + ta, ta % 8, 1, mk_burst("NB", ta % 8, r), direct=(ta % 5 == 0))
        for base, ta in ((100, 0), (-100, 0), (100, 63), (-100, 63), (32767, 0), (-32768, 0), (-32768 + 256 * 63, 63), (32767, 1), (0, 127), (0, 128)):
            p.set_ta(ta)
            p.fake(1, "FAKE_TOA", base, 0)
            R.burst(p, "ToA base", 5000 + ta, 1, 1, mk_burst("NB", 1, r))
        if R.full:
            return
    # randomisation windows with randint scripted to both bounds; relative forms accumulate
    for dv in (0, 1):
        for mode in ("min", "max", "mid"):
            p = Pair(1 - dv, dv)
            p.set_ta(3)
            p.fake(1, "FAKE_TOA", 50, 20)
            p.fake(1, "FAKE_RSSI", -80, 5)
            p.fake(1, "FAKE_CI", 100, 30)
            R.burst(p, "windows", 6000, 4, 9, mk_burst("NB", 2, r), mode=mode)
            p.fake(1, "FAKE_TOA", -75)
            p.fake(1, "FAKE_RSSI", -7)
            p.fake(1, "FAKE_CI", 250)
            R.burst(p, "windows after relative commands", 6001, 4, 9, mk_burst("AB", 6, r), mode=mode, direct=True)
            p.fake(1, "FAKE_RSSI", -80, -1)      # back to the computed RSSI
            R.burst(p, "FAKE_RSSI switched off", 6002, 4, 9, mk_burst("SB", 3, r), mode=mode)
            p.fake(1, "FAKE_RSSI", -114, 6)      # window -120 .. -108
            p.fake(1, "FAKE_CI", 1250, 30)       # window 1220 .. 1280
            p.fake(1, "FAKE_TOA", 32700, 67)     # window up to 32767 (TA 3 pulls it down by 768)
            R.burst(p, "windows at the range edges", 6003, 0, 200, mk_burst("NB", 7, r), mode=mode)
            p.fake(1, "FAKE_TOA", 10, -1)        # rejected, nothing changes
            p.fake(1, "FAKE_CI", 10, -5)         # rejected, nothing changes
            R.burst(p, "after rejected thresholds", 6004, 0, 20, mk_burst("NB", 0, r), mode=mode)
            if R.full:
                return


def random_pair(R, r, tag):
    sv, dv = r.randint(0, 1), r.randint(0, 1)
    p = Pair(sv, dv, third=(r.random() < 0.25))
    for j in range(5):
        # change some settings (they accumulate over the five bursts)
        if j == 0 or r.random() < 0.5:
            p.set_ta(r.randint(0, 63) if r.random() < 0.95 else r.randint(64, 130))
        if r.random() < 0.4:
            p.set_att(r.randint(0, 40))
        for k in range(1, len(p.objs)):
            if r.random() < 0.5:
                if r.random() < 0.7:
                    p.fake(k, "FAKE_TOA", r.randint(-2000, 2000), r.choice((0, 0, 1, 17, r.randint(0, 300))))
                else:
                    p.fake(k, "FAKE_TOA", r.randint(-300, 300))
            if r.random() < 0.4:
                x = r.random()
                if x < 0.6:
                    p.fake(k, "FAKE_RSSI", r.randint(-115, -50), r.choice((0, 0, 1, 3, r.randint(0, 10))))
                elif x < 0.8:
                    p.fake(k, "FAKE_RSSI", r.randint(-5, 5))
                else:
                    p.fake(k, "FAKE_RSSI", r.randint(-115, -50), -r.randint(1, 9))
            if r.random() < 0.5:
                if r.random() < 0.7:
                    p.fake(k, "FAKE_CI", r.randint(-1200, 1200), r.choice((0, 0, 1, 25, r.randint(0, 100))))
                else:
                    p.fake(k, "FAKE_CI", r.randint(-50, 50))
        x = r.random()
        if x < 0.55:
            kind = r.choice(("NB", "NB", "AB", "SB"))
            b = mk_burst(kind, r.randrange(len(LAYOUT[kind][1])), r)
        elif x < 0.70:
            kind = r.choice(("NB", "AB", "SB"))
            b = toolkit_burst(kind, r.randrange(len(LAYOUT[kind][1]))) or bytes(148)
        elif x < 0.80:
            b = bytes(r.getrandbits(1) for _ in range(148))
        elif x < 0.85:     # non-binary octets: any non-zero octet is a set bit
            b = bytes((r.choice((1, 2, 3, 127, 128, 254, 255, r.randrange(256))) if r.random() < 0.5 else 0) for _ in range(148))
        else:
            b = bytes(r.getrandbits(1) for _ in range(444))
        pwr = r.randint(0, max(0, 60 - p.att)) if r.random() < 0.9 else r.randint(0, 255)
        fn = r.choice((0, 1, HYPER - 1, HYPER // 2)) if r.random() < 0.1 else r.randrange(HYPER)
        if not R.burst(p, tag, fn, r.randrange(8), pwr, b, direct=(j == 3), mode=r.choice(("min", "max", "mid", "rand"))):
            return


def run(budget_s=20.0, seed=0):
    t0 = time.time()
    P = _um.Patches()
    rnd = ScriptedRandom(seed)
    R = Runner(rnd)
    rbg_state = None
    k = 0
    try:
        ft = toolkit("fake_trx")
        P.setattr(ft, "random", rnd)
        try:
            rbg = toolkit("rand_burst_gen")
            rbg_state = (rbg.random, rbg.random.getstate())
        except Exception:
            rbg_state = None
        fixed(R)
        r = _random.Random(seed)
        if rbg_state is not None:
            rbg_state[0].seed(seed)
        while time.time() - t0 < budget_s and not R.full:
            k += 1
            random_pair(R, r, "random pair #%d (seed %d)" % (k, seed))
    finally:
        if rbg_state is not None:
            rbg_state[0].setstate(rbg_state[1])
        P.restore()
    return {"cases": R.cases, "failures": _um.fit(R.fails), "pairs": k}
